package main

import (
	"fmt"
	"go/token"
	"go/types"
	"strings"

	"golang.org/x/tools/go/ssa"
)

// runRoots: the entry points executed per run of a compiled object.
func runRoots(w *World) []*ssa.Function {
	roots := []*ssa.Function{
		w.Fn("compose", "runner.run"),
		w.Fn("compose", "runner.invoke"),
		w.Fn("compose", "runner.transform"),
		w.Fn("compose", "ToolsNode.Invoke"),
		w.Fn("compose", "ToolsNode.Stream"),
	}
	for _, m := range []string{"Invoke", "Stream", "Collect", "Transform"} {
		roots = append(roots, w.Fn("compose", "runnablePacker."+m))
	}
	return roots
}

var runReachCache map[*World]map[*ssa.Function]bool

func runReach(w *World) map[*ssa.Function]bool {
	if runReachCache == nil {
		runReachCache = map[*World]map[*ssa.Function]bool{}
	}
	if m, ok := runReachCache[w]; ok {
		return m
	}
	m := w.reachableFrom(runRoots(w)...)
	// map generic instantiations to origins as well
	for fn := range m {
		if o := origin(fn); o != fn {
			m[o] = true
		}
	}
	runReachCache[w] = m
	return m
}

func init() {
	register(&propDef{
		id: "C13",
		explanation: "Static clauses of 'node failures surface as identifiable, unwrappable errors; panics are contained': " +
			"(unwrap) every error struct of the run-time packages that carries a cause has Unwrap returning it; " +
			"(percent-w) every fmt.Errorf on a function reachable (VTA call graph) from the run entry points wraps its error operand with %w; " +
			"(go-recover) every go statement in compose/schema spawns a function whose first action is a deferred recover that records the panic as an error; " +
			"(recover-handler-no-close) no recover handler of a framework goroutine can reach a stream close it does not exclusively own (a second close panics inside the handler, uncontained); (eof-identity) end of stream is recognised by identity with io.EOF, never errors.Is — an error item wrapping io.EOF is a failure; " +
			"(node-path) a failing task's error always leaves resolveInterruptCompletedTasks wrapped with the node key, and is never dropped; " +
			"(forwarder-panic) a panic in a stream forwarder is delivered as an error item with a blocking send; (fresh-error) internalError objects, which are mutated in place on the way up, are never package-level; " +
			"(cause-set) every internalError literal sets its cause; (sentinel) the step-limit exit returns ErrExceedMaxSteps as the cause.",
		decided: []string{"unwrap", "percent-w", "go-recover", "recover-handler-no-close", "eof-identity", "forwarder-panic", "fresh-error", "node-path", "cause-set", "sentinel", "no-dropped-error", "wrap-keeps-outer"},
		notDecided: []string{"message text and exact nesting depth of node paths", "panics on the run-loop goroutine itself (edge handlers, inline first tool call) — see REFLECT-ZERO rules under C14/C15/C16",
			"that user-supplied callbacks do not swallow errors"},
		run: runC13,
	})
}

func runC13(w *World, r *Report) {
	reach := runReach(w)

	r.Rule("C13.unwrap", "error structs with a cause field implement Unwrap returning it (compose, schema, flow/**, internal/safe, internal/**)", 1)
	ruleErrUnwrap(w, r, "C13.unwrap", "compose", "schema", "internal/safe", "internal", "internal/callbacks", "internal/serialization", "flow/agent", "flow/agent/react", "flow/agent/multiagent/host", "components/tool/utils", "components/tool")

	r.Rule("C13.panic-opaque", "safe.panicErr exposes no Unwrap / Is / As: the run classifies task errors with errors.As / errors.Is (nested interrupt, InterruptAndRerun, interruptError), so a recovered panic whose VALUE happens to be or wrap such an error must not match — a panic is a failure of the node, with the node path, never an interrupt", 1)
	{
		pe := w.Named("internal/safe", "panicErr")
		bad := ""
		for _, t := range []types.Type{pe, types.NewPointer(pe)} {
			ms := types.NewMethodSet(t)
			for i := 0; i < ms.Len(); i++ {
				switch n := ms.At(i).Obj().Name(); n {
				case "Unwrap", "Is", "As":
					bad = n
				}
			}
		}
		r.Check(bad == "", "C13.panic-opaque", "internal/safe.panicErr method set", pe.Obj().Pos(), "Error only: errors.Is / errors.As stop at the panic wrapper", "panicErr has method "+bad+": errors.As(err, *subGraphInterruptError) / errors.Is(err, InterruptAndRerun) in resolveInterruptCompletedTasks and isInterruptError in wrapGraphNodeError now see through a recovered panic — `panic(fmt.Errorf(\"…: %w\", err))` with an inner graph's interrupt error makes the run report an interrupt (checkpoint written, node re-run on resume) instead of the node's failure, and the node path is not attached")
	}

	r.Rule("C13.no-dead-default", "no function literal in the module is built and then used by nothing: a default prepared for a nil configuration entry and then forgotten leaves the nil in place, and the first call through it is a nil-function panic out of the component (shared with C10)", 0)
	{
		n := 0
		for _, fn := range w.RepoFuncs("schema", "internal", "flow", "callbacks", "components", "utils", "compose") {
			for _, mc := range deadClosures(fn) {
				n++
				r.Fail("C13.no-dead-default", fmt.Sprintf("%s: literal %s is never used", w.fname(fn), mc.Fn.Name()), mc.Fn.Pos(), "the literal is built and dropped — what follows goes on using the value it was meant to replace: router.NewRetriever builds a default router when Config.Router is nil and then stores Config.Router; every Retrieve on such a retriever calls a nil function — a panic out of Retrieve when called directly (nothing recovers it), a started-and-never-ended callback unit and a node panic inside a graph")
			}
		}
		if n == 0 {
			r.OK("C13.no-dead-default", "function literals of the module", token.NoPos, "every literal has a use")
		}
	}

	r.Rule("C13.key-wrappers-pass-errors-through", "the input-key / output-key wrappers put around a node's runnable return the inner runnable's error itself: the node-path extension of a nested graph's run error works on an *internalError that arrives directly, a decorated one starts a new path ([sub] instead of [sub, fail])", 4)
	{
		n := 0
		for _, name := range []string{"inputKeyedComposableRunnable", "outputKeyedComposableRunnable"} {
			outer := w.Fn("compose", name)
			for _, lit := range withAnons(outer) {
				if lit == outer {
					continue
				}
				instrs(lit, func(in ssa.Instruction) {
					c, ok := in.(*ssa.Call)
					if !ok || c.Call.IsInvoke() || staticCallee(c) != nil {
						return
					}
					// the inner runnable: a captured function value
					v := c.Call.Value
					if ld, ok := v.(*ssa.UnOp); ok {
						v = ld.X
					}
					if _, isFV := v.(*ssa.FreeVar); !isFV {
						return
					}
					tup, ok := c.Type().(*types.Tuple)
					if !ok || tup.Len() != 2 {
						return
					}
					ierr := extractOf(c, 1)
					if ierr == nil {
						return
					}
					n++
					bad := 0
					instrs(lit, func(x ssa.Instruction) {
						ret, ok := x.(*ssa.Return)
						if !ok || len(ret.Results) != 2 {
							return
						}
						if !hasGuard(ret.Block(), func(g guard) bool { return guardNonNil(g, func(v ssa.Value) bool { return v == ssa.Value(ierr) }) }) {
							return
						}
						if returnedValue(ret, 1) != ssa.Value(ierr) {
							bad++
						}
					})
					r.Check(bad == 0, "C13.key-wrappers-pass-errors-through", fmt.Sprintf("%s: the inner runnable's error is returned as it is", w.fname(lit)), c.Pos(), "return nil, err", "the wrapper decorates the inner error (fmt.Errorf(\"… %w\", err)): for a nested graph added with WithOutputKey (or a graph member of a chain Parallel) the inner run error no longer arrives as an *internalError, so the parent starts a new node path — the run error says [sub] instead of [sub, fail] and prints two unrelated one-element paths")
				})
			}
		}
		if n < 4 {
			r.Deferred = append(r.Deferred, fmt.Sprintf("C13.key-wrappers-pass-errors-through: only %d inner calls found in the key wrappers", n))
		}
	}

	shareRule(w, r, "C13.tool-panic-lands-on-its-own-task", "the recover handler of a tool-call goroutine writes the panic into the task it was started for (a parameter of the goroutine), never through the loop variable of the spawning loop: under go 1.18 semantics that variable is shared and has moved on — an index out of range inside the deferred function of an unrecovered goroutine kills the process", 6, "C17", "C17.parallel-protocol")
	shareRule(w, r, "C13.tool-goroutines-capture-no-loop-variable", "no literal started as a goroutine in the tools node captures a loop variable", 1, "C17", "C17.loopvar")
	shareRule(w, r, "C13.source-panic-lands-in-the-cell", "a panic of the source of a copied stream is recorded in the shared cell (inside the Once): every copy reads the same error item, not a zero chunk and a clean end on all copies but the one that ran the source", 1, "C08", "C08.copy-cell")
	shareRule(w, r, "C13.failed-task-does-not-strand-its-siblings", "after a finished task is taken from the one-slot channel the next queued result is moved up whatever the task's outcome: waitAll keeps waiting behind a failed task, and results left in the backlog make a node error or panic hang the run instead of ending it with that error", 1, "C03", "C03.refill-after-receive")
	shareRule(w, r, "C13.template-panic-is-an-error-of-the-run", "a component that fires its own callbacks and recovers a panic to report it re-panics (or returns the error): the chat template must not turn its own panic into a successful (nil, nil) return", 1, "C10", "C10.self-reporting-ends-on-panic")
	r.Rule("C13.receiving-does-not-close", "no receive method of a reader in package schema closes the reader (or its sources) on its own: closing is the consumer's, and the receive side of a stream is closed by an unguarded close(chan) — a merged reader that closes itself when an error item arrives makes the consumer's own, correct Close panic 'close of closed channel' (a failing parallel producer becomes a panic of the consumer, errors.Is on the original error false)", 4)
	{
		n := 0
		for _, fn := range w.RepoFuncs("schema") {
			if fn.Parent() != nil || fn.Signature.Recv() == nil {
				continue
			}
			if nm := fn.Name(); nm != "recv" && nm != "Recv" && nm != "nakedRecv" && nm != "recvAny" {
				continue
			}
			n++
			bad := ""
			instrs(fn, func(in ssa.Instruction) {
				if _, isDefer := in.(*ssa.Defer); isDefer {
					return
				}
				c, ok := in.(ssa.CallInstruction)
				if !ok {
					return
				}
				if sc := staticCallee(c); sc != nil && w.inRepo(sc) {
					switch sc.Name() {
					case "close", "Close", "closeRecv":
						bad = w.fname(origin(sc))
					}
				}
			})
			r.Check(bad == "", "C13.receiving-does-not-close", w.fname(origin(fn))+" closes nothing", fn.Pos(), "no call of a close method", "the receive method calls "+bad+": the reader is closed behind the consumer's back, and the consumer's own Close closes every source a second time — 'close of closed channel' in the consumer (or in the caller's goroutine when the fan-in is at END); with two failing sources the second error item is dropped")
		}
		if n < 4 {
			r.Deferred = append(r.Deferred, fmt.Sprintf("C13.receiving-does-not-close: only %d receive methods found in package schema", n))
		}
	}

	r.Rule("C13.percent-w", "fmt.Errorf with an error operand on the run path uses %w", 30)
	// armed: the framework's own propagation path between a node's return and the run's return, i.e.
	// package compose functions reachable from the run entry points. Other packages are listed as info
	// (their errors are not "node failures being propagated": template rendering, serialisation ...).
	armed := func(fn *ssa.Function) bool {
		return (reach[fn] || reach[topFunc(fn)]) && w.relPkg(fnPkg(fn).Path()) == "compose"
	}
	ruleErrorfW(w, r, "C13.percent-w", w.RepoFuncs("compose", "schema", "internal", "flow", "components/tool/utils"), armed)

	r.Rule("C13.go-recover", "every goroutine spawned by the framework recovers panics into an error slot before doing anything else", 4)
	sink := func(c ssa.CallInstruction) bool {
		sc := staticCallee(c)
		return sc != nil && (sc.Name() == "send" || sc.Name() == "Send")
	}
	ruleGoRecover(w, r, "C13.go-recover", goSites(w, "compose", "schema"), sink)
	for _, s := range goSites(w, "flow", "components", "callbacks", "internal", "utils") {
		d, _, _ := recoverDefer(s.spawned)
		det := "has recover defer"
		if d == nil {
			det = "no recover defer"
		}
		r.Info("C13.go-recover", "go in "+w.fname(s.fn), s.in.Pos(), "outside the property's anchors: "+det)
	}

	// recovery code must not itself panic: the one framework operation that panics when repeated is closing a
	// stream's receive side ((*stream).closeRecv closes a channel, unguarded). A recover handler may therefore
	// close only a stream that nobody else closes.
	r.Rule("C13.recover-handler-no-close", "recover handlers close no stream they do not exclusively own (a second close panics inside the handler, uncontained)", 4)
	{
		var closers []*ssa.Function
		for _, fn := range w.RepoFuncs("schema") {
			if fn.Name() == "closeRecv" && fn.Parent() == nil {
				closers = append(closers, origin(fn))
			}
		}
		if len(closers) == 0 {
			undecidedf("C13.recover-handler-no-close: (*stream).closeRecv not found")
		}
		// a tiny positive control: StreamReader.Close reaches closeRecv in this reachability relation
		ctl := w.reach(true, w.Fn("schema", "StreamReader.Close"))
		okCtl := false
		for _, c := range closers {
			if ctl[c] {
				okCtl = true
			}
		}
		if !okCtl {
			undecidedf("C13.recover-handler-no-close: control failed: StreamReader.Close does not reach closeRecv in the call graph")
		}
		seenLit := map[*ssa.Function]bool{}
		handlers := 0
		check := func(spawned *ssa.Function) {
			_, lit, _ := recoverDefer(spawned)
			if lit == nil || seenLit[lit] {
				return
			}
			seenLit[lit] = true
			handlers++
			construct := "recover handler of " + w.fname(spawned)
			rs := w.reach(true, lit)
			var hit *ssa.Function
			for _, c := range closers {
				if rs[c] {
					hit = c
				}
			}
			// the call graph is built without instantiating generics: an interface call on a stream reader
			// interface is taken to reach the close as well
			via := ""
			if hit != nil {
				via = w.chainTo(hit, lit)
			}
			for f := range rs {
				instrs(f, func(in ssa.Instruction) {
					c, ok := in.(ssa.CallInstruction)
					if !ok || !c.Common().IsInvoke() {
						return
					}
					m := c.Common().Method
					if (m.Name() == "Close" || m.Name() == "close") && m.Pkg() != nil && strings.HasPrefix(m.Pkg().Path(), modPath) {
						if via == "" {
							via = w.fname(f) + " invokes " + m.Name() + " on " + c.Common().Value.Type().String()
						}
					}
				})
			}
			if via == "" {
				r.OK("C13.recover-handler-no-close", construct, lit.Pos(), "cannot reach (*stream).closeRecv nor a Close/close interface call of the framework")
				return
			}
			if reason, ok := recoverCloseOwners[w.fname(spawned)]; ok {
				r.Except("C13.recover-handler-no-close", construct, lit.Pos(), reason)
				return
			}
			r.Fail("C13.recover-handler-no-close", construct, lit.Pos(), "the handler can reach (*stream).closeRecv ("+via+"): the stream may already have been closed by its consumer, and closing it again panics inside the recover handler — the node's panic escapes the run (or kills the process from a worker goroutine)")
		}
		for _, s := range goSites(w, "compose", "schema") {
			if s.spawned != nil {
				check(s.spawned)
			}
		}
		_ = handlers // the rule's floor (4 handlers) is enforced when the verdict is computed, after violations were reported
	}

	// end of stream is io.EOF itself: an error item whose chain merely contains io.EOF is a failure and must
	// not end the stream silently
	r.Rule("C13.eof-identity", "framework code recognises end-of-stream by identity (err == io.EOF), never by errors.Is", 8)
	eofIdentityCheck(w, r, "C13.eof-identity", "compose", "schema", "flow", "internal", "components", "callbacks", "utils")

	// errors of the framework's own run-path functions are never discarded
	r.Rule("C13.no-dropped-error", "on the run path of package compose and in schema / internal / flow/agent / callbacks, the error result of a call to a module function is tested, returned or stored — never discarded", 60)
	{
		errT := types.Universe.Lookup("error").Type()
		n := 0
		for _, fn := range w.RepoFuncs("compose", "schema", "internal", "flow/agent", "callbacks") {
			if w.relPkg(fnPkg(fn).Path()) == "compose" && !(reach[fn] || reach[topFunc(fn)]) {
				continue
			}
			if strings.HasPrefix(topFunc(fn).Name(), "init") {
				continue // package initialisers (registration of the built-in types): not part of any run
			}
			seen := map[string]int{}
			instrs(fn, func(in ssa.Instruction) {
				c, ok := in.(*ssa.Call)
				if !ok {
					return
				}
				sc := staticCallee(c)
				if sc == nil || !w.inRepo(sc) {
					return
				}
				sig := sc.Signature
				if sig.Results().Len() == 0 || !types.Identical(sig.Results().At(sig.Results().Len()-1).Type(), errT) {
					return
				}
				n++
				var ev ssa.Value
				if sig.Results().Len() == 1 {
					ev = c
				} else if e := extractOf(c, sig.Results().Len()-1); e != nil {
					ev = e
				}
				used := false
				if ev != nil {
					for _, v := range aliasesThroughCells(ev) {
						if refs := v.Referrers(); refs != nil {
							for _, ref := range *refs {
								switch ref.(type) {
								case *ssa.BinOp, *ssa.Return, *ssa.Phi, *ssa.Store, *ssa.MakeInterface, ssa.CallInstruction, *ssa.ChangeInterface:
									used = true
								}
							}
						}
					}
				}
				base := w.fname(fn) + " calls " + sc.Name()
				seen[base]++
				construct := base
				if seen[base] > 1 {
					construct = fmt.Sprintf("%s #%d", base, seen[base])
				}
				if used {
					r.OK("C13.no-dropped-error", construct, c.Pos(), "error result used")
				} else if reason, ok := droppedErrExceptions[base]; ok {
					r.Except("C13.no-dropped-error", construct, c.Pos(), reason)
				} else {
					r.Fail("C13.no-dropped-error", construct, c.Pos(), "the error returned by "+sc.Name()+" is discarded: a failure (a failed sibling task found while classifying late finishers, a broken channel update …) is swallowed and the run reports success / a plain interrupt")
				}
			})
		}
		_ = n
		// path clause: the error is not only "used" but stands between its call and every success return
		nf := 0
		for _, fn := range w.RepoFuncs("compose", "schema", "internal", "flow", "callbacks", "components", "utils") {
			nf++
			for _, d := range errDroppedReturns(fn) {
				r.Fail("C13.no-dropped-error", fmt.Sprintf("%s: success return after %s", w.fname(fn), calleeFullName(d.call)), d.ret.Pos(), d.why+" — the callee's failure is reported as success")
			}
		}
		r.OK("C13.no-dropped-error", fmt.Sprintf("success returns of %d module functions", nf), token.NoPos, "every `return …, nil` reachable from an error-yielding call is on that error's nil side (or on a sentinel-tested side)")
	}

	// the wrappers that add the node key / stream-wrapper name keep what they were given: they may extend the error
	// they received when that error itself is an *internalError, but they never replace it by an *internalError found
	// deeper in its chain (that drops every wrapper the node put around it — its own sentinel, typed error, joined errors)
	r.Rule("C13.wrap-keeps-outer", "wrapGraphNodeError / wrapStreamWrapperError return the given error itself, an extended copy of it (when it is an *internalError itself) or a new error wrapping it — never an inner *internalError located with errors.As", 2)
	for _, n := range []string{"wrapGraphNodeError", "wrapStreamWrapperError"} {
		f := w.Fn("compose", n)
		usesAs := len(callsNamed(f, "errors.As")) > 0
		// every non-interrupt return: MakeInterface of a fresh internalError whose origError is the parameter, or of the
		// value obtained by asserting the parameter itself
		errP := f.Params[len(f.Params)-1]
		good := true
		det := ""
		instrs(f, func(in ssa.Instruction) {
			ret, ok := in.(*ssa.Return)
			if !ok {
				return
			}
			v := ret.Results[0]
			if v == ssa.Value(errP) {
				return
			}
			mi, ok := v.(*ssa.MakeInterface)
			if !ok {
				good, det = false, "returns "+valText(v)
				return
			}
			switch x := mi.X.(type) {
			case *ssa.Alloc:
				// new internalError: origError must be the parameter
				okOrig := false
				for _, fw := range fieldWrites(f) {
					if fw.base == ssa.Value(x) && fw.field.Name() == "origError" {
						if fw.val == ssa.Value(errP) {
							okOrig = true
						}
						// a copy of the given error itself (err.(*internalError)) with an extended path: same cause
						if f2, base := loadedField(fw.val); f2 != nil && f2.Name() == "origError" {
							if p := paramRoot(base, 0); p == errP {
								if ex, ok := base.(*ssa.Extract); ok {
									if ta, ok := ex.Tuple.(*ssa.TypeAssert); ok && ta.X == ssa.Value(errP) {
										okOrig = true
									}
								}
							}
						}
					}
				}
				if !okOrig {
					good, det = false, "a new internalError does not wrap the given error"
				}
			default:
				// an existing *internalError: it must be the parameter itself (type assertion), not one found by errors.As
				isSelf := false
				var walk func(v ssa.Value, d int)
				walk = func(v ssa.Value, d int) {
					if d > 5 {
						return
					}
					switch y := v.(type) {
					case *ssa.TypeAssert:
						if y.X == ssa.Value(errP) {
							isSelf = true
						}
					case *ssa.Extract:
						walk(y.Tuple, d+1)
					case *ssa.Phi:
						for _, e := range y.Edges {
							walk(e, d+1)
						}
					}
				}
				walk(mi.X, 0)
				if !isSelf {
					good, det = false, "returns an *internalError that is not the given error itself ("+valText(mi.X)+")"
				}
			}
		})
		r.Check(good && !usesAs, "C13.wrap-keeps-outer", n+" keeps the error it was given", f.Pos(), "returns err, a copy of err.(*internalError) with the extended path, or &internalError{origError: err}",
			fmt.Sprintf("the wrapper can return an inner *internalError instead of the error the node returned (errors.As used=%v; %s): a node body that runs another compiled runnable and wraps its error with its own sentinel / typed error loses it — errors.Is / errors.As on the run's error no longer find the node's error", usesAs, det))
	}

	// node-path
	r.Rule("C13.node-path", "a non-interrupt task error is returned wrapped by wrapGraphNodeError(task.nodeKey, task.err); no error arm falls through to the next task", 3)
	res := w.Fn("compose", "runner.resolveInterruptCompletedTasks")
	wrap := w.Fn("compose", "wrapGraphNodeError")
	taskErr := w.Field("compose", "task", "err")
	taskKey := w.Field("compose", "task", "nodeKey")
	nret := 0
	instrs(res, func(in ssa.Instruction) {
		ret, ok := in.(*ssa.Return)
		if !ok || len(ret.Results) != 1 {
			return
		}
		v := ret.Results[0]
		if isNilConst(v) {
			return
		}
		nret++
		c, ok := v.(*ssa.Call)
		good := ok && isCallTo(c, wrap) && len(c.Call.Args) == 2 && isLoadOfField(c.Call.Args[0], taskKey) && isLoadOfField(c.Call.Args[1], taskErr)
		r.Check(good, "C13.node-path", "resolveInterruptCompletedTasks non-nil return", ret.Pos(),
			"returns wrapGraphNodeError(task.nodeKey, task.err)", "a non-nil error leaves resolveInterruptCompletedTasks without the node key / original error")
	})
	if nret == 0 {
		r.Fail("C13.node-path", "resolveInterruptCompletedTasks non-nil return", res.Pos(), "no error return at all: task errors are dropped")
	}
	// error arm never falls through silently: from the true arm of `task.err != nil`, every path to the
	// loop increment passes a MapUpdate (sub-graph interrupt recorded) or a Store (rerun recorded)
	found := 0
	instrs(res, func(in ssa.Instruction) {
		iff, ok := in.(*ssa.If)
		if !ok {
			return
		}
		b, ok := iff.Cond.(*ssa.BinOp)
		if !ok || !(isLoadOfField(b.X, taskErr) && isNilConst(b.Y)) {
			return
		}
		found++
		succ := iff.Block().Succs[0] // err != nil
		if b.Op.String() == "==" {
			succ = iff.Block().Succs[1]
		}
		q := pathQuery{fn: res, goal: func(i ssa.Instruction) bool {
			// leaving the error arm: the interrupt-after scan (range over r.interruptAfterNodes) or loop increment
			if bo, ok := i.(*ssa.BinOp); ok && bo.Op.String() == "+" {
				if _, isPhi := bo.X.(*ssa.Phi); isPhi {
					return true
				}
			}
			return false
		}, avoid: func(i ssa.Instruction) bool {
			switch i.(type) {
			case *ssa.Return, *ssa.MapUpdate, *ssa.Store:
				return true
			}
			return false
		}}
		// start from the first instruction of succ
		q.from = nil
		ok2, wit := pathFromBlock(q, succ)
		r.Check(!ok2, "C13.node-path", "resolveInterruptCompletedTasks error arm", iff.Pos(),
			"every path from task.err != nil records the interrupt or returns the wrapped error", "a failing task can fall through unrecorded: "+wit)
	})
	if found == 0 {
		undecidedf("C13.node-path: `task.err != nil` test not found in resolveInterruptCompletedTasks")
	}
	// wrapGraphNodeError: non-interrupt returns carry the node key
	npath := w.Field("compose", "internalError", "nodePath")
	orig := w.Field("compose", "internalError", "origError")
	storesNodePath := 0
	for _, fw := range fieldWrites(wrap) {
		if sameField(fw.field, npath) || fw.field.Name() == "path" {
			storesNodePath++
		}
	}
	r.Check(storesNodePath >= 2, "C13.node-path", "wrapGraphNodeError sets nodePath", wrap.Pos(),
		"both arms (fresh internalError, existing internalError) write the node path", "an arm of wrapGraphNodeError no longer records the node key")

	// … at every level: apart from the interrupt pass-through, every return of wrapGraphNodeError is an error object
	// built in this call — never the argument (or the *internalError found in it) handed back as it came
	{
		k := 0
		instrs(wrap, func(in ssa.Instruction) {
			ret, ok := in.(*ssa.Return)
			if !ok || len(ret.Results) != 1 {
				return
			}
			k++
			v := through(ret.Results[0])
			_, fresh := v.(*ssa.Alloc)
			passThrough := v == ssa.Value(wrap.Params[1]) && hasGuard(ret.Block(), func(g guard) bool {
				c, isC := g.cond.(*ssa.Call)
				return isC && g.pol && staticCallee(c) != nil && staticCallee(c).Name() == "isInterruptError"
			})
			r.Check(fresh || passThrough, "C13.node-path", fmt.Sprintf("wrapGraphNodeError: return #%d extends the path", k), ret.Pos(), "a new internalError (or the interrupt error passed through)", "the error is handed back without this node's key ("+valText(v)+"): node keys are unique only within one graph, so a level whose key equals the key of the level below drops out of the reported path — nested chains name their nodes node_<index>: [node_1 node_1 node_1] is reported as [node_1], [agent step step] as [agent step]")
		})
	}

	// cause-set: every internalError literal sets origError
	r.Rule("C13.cause-set", "every &internalError{} literal stores the cause into origError", 4)
	ie := w.Named("compose", "internalError")
	for _, fn := range w.RepoFuncs("compose") {
		instrs(fn, func(in ssa.Instruction) {
			al, ok := in.(*ssa.Alloc)
			if !ok || namedOf(al.Type()) != ie {
				return
			}
			set := false
			for _, ref := range *al.Referrers() {
				if fa, ok := ref.(*ssa.FieldAddr); ok && sameField(fieldVarOfAddr(fa), orig) {
					for _, rr := range *fa.Referrers() {
						if st, ok := rr.(*ssa.Store); ok && !isNilConst(st.Val) {
							set = true
						}
					}
				}
			}
			r.Check(set, "C13.cause-set", "internalError literal in "+w.fname(fn), al.Pos(), "origError set", "internalError built without its cause")
		})
	}

	// forwarder panics become error items, reliably
	r.Rule("C13.forwarder-panic", "a panic in a stream-forwarding goroutine is delivered as an error item with a blocking send; output/source closed on every exit", 6)
	forwarderChecks(w, r, "C13.forwarder-panic")

	// run errors are extended (node key / stream wrapper prepended) on their way up. Until fix df50b03 that was done in
	// place, so an error object seen by two runs accumulated both paths; the rule used to forbid package-level
	// internalError values (one way of sharing). The invariant itself is decided now: the extenders never write through
	// the error they are given, so sharing an error object (a memoised node error, a package-level one) is harmless.
	r.Rule("C13.fresh-error", "wrapGraphNodeError / wrapStreamWrapperError build a new error object and never write through the one they are given: the node path an error reports is the path of THIS failure (shared with C09.errors-copied-on-extend)", 2)
	ruleNoMutateParams(w, r, "C13.fresh-error", w.Fn("compose", "wrapGraphNodeError"), nil)
	ruleNoMutateParams(w, r, "C13.fresh-error", w.Fn("compose", "wrapStreamWrapperError"), nil)

	// a panic must not leave a framework mutex locked (it would be "contained" as an error while the run hangs)
	r.Rule("C13.panic-safe-locks", "a framework mutex held across a call of a function value or interface method is released by a deferred Unlock; explicit Unlocks only follow framework-owned bookkeeping", 2)
	if n := rulePanicSafeLocks(w, r, "C13.panic-safe-locks", "compose", "schema", "internal", "callbacks", "flow", "components", "utils"); n == 0 {
		r.Info("C13.panic-safe-locks", "no explicit Unlock in the module", run0(w).Pos(), "all unlocks are deferred")
	}

	// the error of a failed node is what the run reports: the collector never replaces it (a post-handler run on the
	// output of a failed node would overwrite it with its own complaint about the zero value, or panic on it outside any recover)
	r.Rule("C13.task-error-kept", "taskManager.waitOne / waitAll store task.err only while it is still nil, and run the post-processor only then", 2)
	{
		taskErrF := w.Field("compose", "task", "err")
		fPost := w.Field("compose", "chanCall", "postProcessor")
		n := 0
		for _, fname := range []string{"taskManager.waitOne", "taskManager.waitAll"} {
			f := w.Fn("compose", fname)
			errNil := func(g guard) bool {
				return guardIsNil(g, func(v ssa.Value) bool { return isLoadOfField(v, taskErrF) })
			}
			for _, fw := range fieldWrites(f) {
				if !sameField(fw.field, taskErrF) || fw.kind != "store" {
					continue
				}
				n++
				r.Check(hasGuard(fw.in.Block(), errNil), "C13.task-error-kept", fmt.Sprintf("%s: store to task.err", w.fname(f)), fw.in.Pos(), "only under task.err == nil", "the collector can overwrite the error of a failed node: errors.Is / errors.As on the run's error no longer find what the node returned")
			}
			instrs(f, func(in ssa.Instruction) {
				c, ok := in.(ssa.CallInstruction)
				if !ok {
					return
				}
				for _, a := range c.Common().Args {
					if isLoadOfField(a, fPost) {
						n++
						r.Check(hasGuard(in.Block(), errNil), "C13.task-error-kept", fmt.Sprintf("%s: post-processor call", w.fname(f)), in.Pos(), "only under task.err == nil", "the state post-handler also runs for a failed (or panicked) node, on its zero output and on the run-loop goroutine outside any recover: a handler that asserts / validates its input panics out of Invoke, or its error replaces the node's")
					}
				}
			})
		}
		if n < 2 {
			r.Fail("C13.task-error-kept", "collector: task.err stores / post-processor calls", w.Fn("compose", "taskManager.waitOne").Pos(), fmt.Sprintf("%d sites found (floor 2)", n))
		}
	}

	// module-wide: a sentinel other than io.EOF is never matched with == / != (errors travel wrapped: node path,
	// stream-wrapper path, %w); io.EOF is the one sentinel that is matched by identity (EOF-IDENTITY). The io.EOF sites are
	// the positive matches that show the recogniser sees such comparisons at all.
	r.Rule("C13.sentinel-by-is", "no == / != comparison of an error with a package-level sentinel other than io.EOF anywhere in the module (use errors.Is)", 8)
	{
		nEOF := 0
		for _, fn := range w.RepoFuncs("compose", "schema", "internal", "flow", "callbacks", "components", "utils") {
			instrs(fn, func(in ssa.Instruction) {
				b, ok := in.(*ssa.BinOp)
				if !ok || (b.Op != token.EQL && b.Op != token.NEQ) || !isErrorType(b.X.Type()) {
					return
				}
				for _, v := range []ssa.Value{b.X, b.Y} {
					u, ok := v.(*ssa.UnOp)
					if !ok {
						continue
					}
					g, ok := u.X.(*ssa.Global)
					if !ok {
						continue
					}
					if g.Pkg.Pkg.Path() == "io" && g.Name() == "EOF" {
						nEOF++
						r.OK("C13.sentinel-by-is", fmt.Sprintf("io.EOF identity test #%d in %s", nEOF, w.fname(origin(fn))), b.Pos(), "end of stream is matched by identity (C13.eof-identity)")
						continue
					}
					r.Fail("C13.sentinel-by-is", fmt.Sprintf("%s compares an error with %s.%s by identity", w.fname(origin(fn)), g.Pkg.Pkg.Name(), g.Name()), b.Pos(), "errors reach this point wrapped (node path, stream-wrapper path, fmt.Errorf %w): an identity comparison with the sentinel stops matching as soon as one wrapper is in between — the documented way to recognise it is errors.Is")
				}
			})
		}
	}

	// context cancellation is matchable: the error returned on the ctx.Done() arm of the run loop wraps ctx.Err() itself
	// (context.Canceled / DeadlineExceeded) — not context.Cause(ctx), which is the CALLER's error when the context was
	// cancelled with a cause
	r.Rule("C13.cancel-matchable", "runner.run: every error returned on a `<-ctx.Done()` arm derives from ctx.Err()", 1)
	{
		runF := w.Fn("compose", "runner.run")
		n := 0
		instrs(runF, func(in ssa.Instruction) {
			sel, ok := in.(*ssa.Select)
			if !ok {
				return
			}
			doneState := -1
			for i, st := range sel.States {
				if c, ok := st.Chan.(*ssa.Call); ok && c.Call.IsInvoke() && c.Call.Method.Name() == "Done" {
					doneState = i
				}
			}
			if doneState < 0 {
				return
			}
			// the check is made at every step of every run, nested ones included: the select lies on every path round the
			// run loop (it dominates the loop's back edges)
			for _, li := range naturalLoops(runF) {
				if !li.body[sel.Block()] {
					continue
				}
				every := true
				for _, b := range runF.Blocks {
					if !li.body[b] {
						continue
					}
					for _, sc := range b.Succs {
						if sc == li.header && !(sel.Block() == b || sel.Block().Dominates(b)) {
							every = false
						}
					}
				}
				r.Check(every, "C13.cancel-matchable", "runner.run: the cancellation check is made at every step", sel.Pos(), "the select on ctx.Done() dominates the back edges of the run loop", "some way round the run loop skips the check (e.g. for a nested graph): a multi-step or looping nested graph keeps running after cancellation — it runs to its step limit and the run fails with ErrExceedMaxSteps, node path [sub], instead of an error matchable as context.Canceled, or, if the nested graph reaches END on its own, the cancelled run even succeeds")
			}
			// the arm: blocks guarded by index == doneState
			instrs(runF, func(x ssa.Instruction) {
				ret, ok := x.(*ssa.Return)
				if !ok || len(ret.Results) != 2 {
					return
				}
				inArm := hasGuard(ret.Block(), func(g guard) bool {
					op, a, b, ok := asCmp(g.cond)
					if !ok || op != token.EQL || !g.pol {
						return false
					}
					e, ok := a.(*ssa.Extract)
					return ok && e.Tuple == ssa.Value(sel) && e.Index == 0 && isConstN(b, int64(doneState))
				})
				if !inArm {
					return
				}
				n++
				fromErr := false
				instrs(runF, func(y ssa.Instruction) {
					if c, ok := y.(*ssa.Call); ok && c.Call.IsInvoke() && c.Call.Method.Name() == "Err" && isContextType(c.Call.Value.Type()) {
						if derivesFrom(returnedValue(ret, 1), c) {
							fromErr = true
						}
					}
				})
				r.Check(fromErr, "C13.cancel-matchable", fmt.Sprintf("runner.run: cancellation return #%d wraps ctx.Err()", n), ret.Pos(), "the returned error derives from ctx.Err()", "the error returned when the context is done does not derive from ctx.Err(): for a context cancelled with a cause (WithCancelCause, WithTimeoutCause …) errors.Is(err, context.Canceled) / errors.Is(err, context.DeadlineExceeded) are false on the run's error, through nested graphs too")
			})
		})
		if n == 0 {
			r.Fail("C13.cancel-matchable", "runner.run: cancellation arm", runF.Pos(), "no return on a `<-ctx.Done()` arm found")
		}
	}

	r.Rule("C13.done-after-recover", "every goroutine of the module that signals a WaitGroup and recovers its own panic into an error slot signals last (tools node workers, concurrent retrievers)", 2)
	if n := ruleDoneAfterRecover(w, r, "C13.done-after-recover", "compose", "flow", "schema", "internal", "callbacks", "components", "utils"); n < 2 {
		r.Fail("C13.done-after-recover", "WaitGroup goroutines with a recover handler", run0(w).Pos(), fmt.Sprintf("%d found (floor 2)", n))
	}

	// sentinel
	r.Rule("C13.sentinel", "the step-limit exit of runner.run returns a run error whose cause is the ErrExceedMaxSteps sentinel itself (built at the exit, or once in a package-level variable)", 1)
	run := w.Fn("compose", "runner.run")
	gre := w.Fn("compose", "newGraphRunError")
	sent := w.GlobalVar("compose", "ErrExceedMaxSteps")
	isSentinelErr := func(v ssa.Value) bool {
		c, ok := v.(*ssa.Call)
		if !ok || !isCallTo(c, gre) {
			return false
		}
		if u, ok := c.Call.Args[0].(*ssa.UnOp); ok {
			if g, ok := u.X.(*ssa.Global); ok && g.Object() == sent {
				return true
			}
		}
		return false
	}
	// package-level variables initialised with newGraphRunError(ErrExceedMaxSteps)
	sentinelGlobals := map[*ssa.Global]bool{}
	if initFn := w.SSAPkg("compose").Func("init"); initFn != nil {
		instrs(initFn, func(in ssa.Instruction) {
			if st, ok := in.(*ssa.Store); ok {
				if g, ok := st.Addr.(*ssa.Global); ok && isSentinelErr(st.Val) {
					sentinelGlobals[g] = true
				}
			}
		})
	}
	n := 0
	instrs(run, func(in ssa.Instruction) {
		ret, ok := in.(*ssa.Return)
		if !ok || len(ret.Results) != 2 {
			return
		}
		v := returnedValue(ret, 1)
		if isSentinelErr(v) {
			n++
			r.OK("C13.sentinel", "runner.run step-limit return", ret.Pos(), "cause is the ErrExceedMaxSteps sentinel itself")
		} else if u, ok := v.(*ssa.UnOp); ok {
			if g, ok := u.X.(*ssa.Global); ok && sentinelGlobals[g] {
				n++
				r.OK("C13.sentinel", "runner.run step-limit return", ret.Pos(), "returns package-level "+g.Name()+" = newGraphRunError(ErrExceedMaxSteps)")
			}
		}
	})
	if n == 0 {
		r.Fail("C13.sentinel", "runner.run step-limit return", run.Pos(), "no return in runner.run carries ErrExceedMaxSteps as cause")
	}
	_ = strings.TrimSpace
}

// pathFromBlock runs q starting at the first instruction of block b.
func pathFromBlock(q pathQuery, b *ssa.BasicBlock) (bool, string) {
	// emulate by a synthetic start: check instructions of b then continue normally
	type st struct{}
	for _, in := range b.Instrs {
		if q.goal != nil && q.goal(in) {
			return true, "reaches " + in.String()
		}
		if q.avoid != nil && q.avoid(in) {
			return false, ""
		}
	}
	last := b.Instrs[len(b.Instrs)-1]
	// continue after the last instruction of b (its successors)
	q.from = last
	return q.exists()
}

// recover handlers that legitimately close a stream: they are that stream's only closer
var recoverCloseOwners = map[string]string{
	"(*schema.streamReaderWithConvert[T]).toStream$1": "the forwarding goroutine owns its source: toStream hands srw over to the goroutine and nothing else closes it (C08.forwarder-protocol requires exactly this close on every exit)",
	"(*schema.childStreamReader[T]).toStream$1":       "the forwarding goroutine owns its child reader; the close is counted (atomic) by the parent (C08.copy-cell)",
}

// eofIdentityCheck: every end-of-stream test in the given packages compares with io.EOF by identity.
func eofIdentityCheck(w *World, r *Report, rule string, pkgs ...string) {
	isEOF := func(v ssa.Value) bool {
		if mi, ok := v.(*ssa.MakeInterface); ok {
			v = mi.X
		}
		u, ok := v.(*ssa.UnOp)
		if !ok {
			return false
		}
		g, ok := u.X.(*ssa.Global)
		return ok && g.Pkg != nil && g.Pkg.Pkg.Path() == "io" && g.Name() == "EOF"
	}
	for _, fn := range w.RepoFuncs(pkgs...) {
		n := 0
		instrs(fn, func(in ssa.Instruction) {
			switch x := in.(type) {
			case *ssa.BinOp:
				if (x.Op == token.EQL || x.Op == token.NEQ) && (isEOF(x.X) || isEOF(x.Y)) {
					n++
					r.OK(rule, fmt.Sprintf("end-of-stream test #%d in %s", n, w.fname(fn)), x.Pos(), "identity comparison with io.EOF")
				}
			case *ssa.Call:
				name := calleeFullName(x)
				if (name == "errors.Is" || name == "errors.As") && len(x.Call.Args) == 2 && isEOF(x.Call.Args[1]) {
					n++
					r.Fail(rule, fmt.Sprintf("end-of-stream test #%d in %s", n, w.fname(fn)), x.Pos(), "errors.Is(err, io.EOF) treats every error that wraps io.EOF as the end of the stream: a node failure delivered as such an error item is swallowed and the run succeeds with truncated output")
				}
			}
		})
	}

}

var droppedErrExceptions = map[string]string{}

func run0(w *World) *ssa.Function { return w.Fn("compose", "runner.run") }
