package main

import (
	"fmt"
	"go/token"
	"go/types"
	"strings"

	"golang.org/x/tools/go/ssa"
)

func init() {
	register(&propDef{
		id: "C06",
		explanation: "Static clauses of 'interrupt points are honoured and reported exactly', decided on runner.run's control/data flow: " +
			"(before-gate) every task list computed by calculateNextTasks passes getHitKey(…, interruptBeforeNodes) before it can reach submit, and a non-empty hit list cannot reach submit; task lists handed to handleInterrupt have their hit keys in the reported before-list; restoreTasks results (explicit resume) are exempt; " +
			"(after-gate) every completed-task list passes resolveInterruptCompletedTasks before calculateNextTasks, and once an interrupt-after key was recorded no path reaches submit; " +
			"(checkpoint-iff-interrupt) checkPointer.set is called only from the two interrupt handlers, on the top-level arm with an id it precedes the interruptError return, interrupt errors are built only there; " +
			"(handler-args) the mode flags and the checkpoint id reach every callee of run in their own positions; (unwrapped) interrupt errors pass wrapGraphNodeError/wrapStreamWrapperError unchanged and run returns the handlers' result directly; ExtractInterruptInfo uses errors.As; " +
			"(sentinel-match) the InterruptAndRerun sentinel is matched with errors.Is, never ==.",
		decided:    []string{"before-gate", "after-gate", "checkpoint-iff-interrupt", "handler-args", "unwrapped", "sentinel-match"},
		notDecided: []string{"eager-mode timing of 'stops before any successor starts' beyond the two gates", "content of InterruptInfo for nested graphs", "behaviour of the checkpoint store"},
		run:        runC06,
	})
}

// flowsTo: does value src flow into dst through phis, appends, slices and conversions?
func flowsTo(src, dst ssa.Value) bool {
	seen := map[ssa.Value]bool{}
	var visit func(v ssa.Value, d int) bool
	visit = func(v ssa.Value, d int) bool {
		if v == src {
			return true
		}
		if d > 12 || seen[v] {
			return false
		}
		seen[v] = true
		switch x := v.(type) {
		case *ssa.Phi:
			for _, e := range x.Edges {
				if visit(e, d+1) {
					return true
				}
			}
		case *ssa.Call:
			if isBuiltin(x, "append") {
				for _, a := range x.Call.Args {
					if visit(a, d+1) {
						return true
					}
				}
			}
		case *ssa.Slice:
			return visit(x.X, d+1)
		case *ssa.ChangeType:
			return visit(x.X, d+1)
		case *ssa.UnOp:
			if x.Op == token.MUL {
				if a, ok := x.X.(*ssa.Alloc); ok {
					for _, ref := range *a.Referrers() {
						if st, ok := ref.(*ssa.Store); ok && st.Addr == a && visit(st.Val, d+1) {
							return true
						}
					}
				}
			}
		}
		return false
	}
	return visit(dst, 0)
}

func extractOf(c ssa.CallInstruction, idx int) *ssa.Extract {
	v, ok := c.(ssa.Value)
	if !ok {
		return nil
	}
	for _, ref := range *v.Referrers() {
		if e, ok := ref.(*ssa.Extract); ok && e.Index == idx {
			return e
		}
	}
	return nil
}

// lenTestEdges: for Ifs in fn testing len(X) (X satisfying pred) against 0, return the set of
// (block -> succ) edges taken when the list is EMPTY, and the Ifs found.
func lenTestEmptyEdges(fn *ssa.Function, pred func(ssa.Value) bool) (map[[2]*ssa.BasicBlock]bool, []*ssa.If) {
	edges := map[[2]*ssa.BasicBlock]bool{}
	var ifs []*ssa.If
	instrs(fn, func(in ssa.Instruction) {
		iff, ok := in.(*ssa.If)
		if !ok {
			return
		}
		op, x, y, ok := asCmp(iff.Cond)
		if !ok || !isConstN(y, 0) || !isLenOf(x, pred) {
			return
		}
		b := iff.Block()
		switch op {
		case token.GTR, token.NEQ:
			edges[[2]*ssa.BasicBlock{b, b.Succs[1]}] = true
		case token.EQL, token.LEQ:
			edges[[2]*ssa.BasicBlock{b, b.Succs[0]}] = true
		default:
			return
		}
		ifs = append(ifs, iff)
	})
	return edges, ifs
}

// paramFallback: when a parameter was renamed, identify it by its type and its position among the
// parameters of that type (rules must not depend on identifier spelling).
var paramFallback = map[string]struct {
	typ string // suffix of the parameter's type string
	nth int    // 0-based occurrence among parameters with that type
}{
	"skipData": {"bool", 0}, "noControl": {"bool", 0}, "noData": {"bool", 1},
	"arg": {"reflect.Type", 1}, "input": {"reflect.Type", 0},
	"completedTasks": {"[]*github.com/cloudwego/eino/compose.task", 0}, "completeTasks": {"[]*github.com/cloudwego/eino/compose.task", 0}, "nextTasks": {"[]*github.com/cloudwego/eino/compose.task", 0},
	"nodes":  {"map[string]*github.com/cloudwego/eino/compose.chanCall", 0},
	"err":    {"error", 0},
	"optMap": {"map[string][]any", 0}, "checkPointID": {"*string", 0},
	"interruptBeforeNodes": {"[]string", 0},
	"subGraphInterrupts":   {"map[string]*github.com/cloudwego/eino/compose.subGraphInterruptError", 0},
	"tasks":                {"[]github.com/cloudwego/eino/compose.toolCallTask", 0},
	"interruptAfterNodes":  {"*[]string", 1},
	"key":                  {"string", 0}, "startNode": {"string", 0}, "endNode": {"string", 1},
}

func paramIndex(fn *ssa.Function, name string) int {
	for i, p := range fn.Params {
		if p.Name() == name {
			return i
		}
	}
	if fb, ok := paramFallback[name]; ok {
		n := 0
		for i, p := range fn.Params {
			if i == 0 && fn.Signature.Recv() != nil {
				continue
			}
			ts := types.TypeString(p.Type(), nil)
			if ts == fb.typ || strings.HasSuffix(ts, fb.typ) && (len(ts) == len(fb.typ)) {
				if n == fb.nth {
					return i
				}
				n++
			}
		}
	}
	undecidedf("anchor: parameter %q of %s not found", name, fn.String())
	return -1
}

func runC06(w *World, r *Report) {
	run := w.Fn("compose", "runner.run")
	calc := w.Fn("compose", "runner.calculateNextTasks")
	submit := w.Fn("compose", "taskManager.submit")
	hit := w.Fn("compose", "getHitKey")
	hInt := w.Fn("compose", "runner.handleInterrupt")
	hIntSub := w.Fn("compose", "runner.handleInterruptWithSubGraphAndRerunNodes")
	resolve := w.Fn("compose", "runner.resolveInterruptCompletedTasks")
	restore := w.Fn("compose", "runner.restoreTasks")
	ibn := w.Field("compose", "runner", "interruptBeforeNodes")

	submits := callsTo(run, submit)
	if len(submits) == 0 {
		undecidedf("C06: no submit call in runner.run")
	}
	isSubmit := func(in ssa.Instruction) bool { return isCallTo(in, submit) }

	// ---- before-gate
	r.Rule("C06.before-gate", "every calculateNextTasks result is checked against interruptBeforeNodes before it can be submitted; hit => no submit; hit keys are reported", 6)
	calcs := callsTo(run, calc)
	if len(calcs) < 2 {
		undecidedf("C06: expected >=2 calculateNextTasks calls in runner.run, found %d", len(calcs))
	}
	for i, c := range calcs {
		e0 := extractOf(c, 0)
		construct := fmt.Sprintf("runner.run calculateNextTasks#%d result", i+1)
		if e0 == nil {
			r.Fail("C06.before-gate", construct, c.Pos(), "task list result is discarded")
			continue
		}
		// the gate call
		var gates []ssa.CallInstruction
		for _, h := range callsTo(run, hit) {
			a := h.Common().Args
			if a[0] == ssa.Value(e0) && isLoadOfField(a[1], ibn) {
				gates = append(gates, h)
			}
		}
		isGate := func(in ssa.Instruction) bool {
			for _, g := range gates {
				if ssa.Instruction(g) == in {
					return true
				}
			}
			return false
		}
		isHandle := func(in ssa.Instruction) bool { return isCallTo(in, hInt) }
		// (a) no path from c to a submit or handleInterrupt that consumes e0 avoiding the gate
		consumes := func(in ssa.Instruction) bool {
			if isSubmit(in) {
				return flowsTo(e0, in.(ssa.CallInstruction).Common().Args[1])
			}
			if isHandle(in) {
				return flowsTo(e0, in.(ssa.CallInstruction).Common().Args[paramIndex(hInt, "nextTasks")])
			}
			return false
		}
		ok, wit := pathQuery{fn: run, from: c, goal: consumes, avoid: isGate}.exists()
		r.Check(!ok, "C06.before-gate", construct+" gated", c.Pos(), "getHitKey(tasks, r.interruptBeforeNodes) lies on every path to submit/handleInterrupt",
			"freshly computed tasks reach submit/handleInterrupt without the interrupt-before check: "+wit)
		if len(gates) == 0 {
			continue
		}
		// (b) from the gate, submit is reachable only through an "empty hit list" edge
		for _, g := range gates {
			gv := g.(ssa.Value)
			emptyEdges, _ := lenTestEmptyEdges(run, func(x ssa.Value) bool { return flowsTo(gv, x) })
			ok, wit := pathQuery{fn: run, from: g, goal: func(in ssa.Instruction) bool {
				return isSubmit(in) && flowsTo(e0, in.(ssa.CallInstruction).Common().Args[1])
			}, avoidEdge: func(a, b *ssa.BasicBlock) bool {
				return emptyEdges[[2]*ssa.BasicBlock{a, b}]
			}}.exists()
			r.Check(!ok, "C06.before-gate", construct+" hit => no submit", g.Pos(), "tasks are submitted only on the len(hit)==0 edge", "tasks can be submitted although an interrupt-before node was hit: "+wit)
			// (c) reported: every handleInterrupt consuming e0 receives the hit keys
			instrs(run, func(in ssa.Instruction) {
				if !isHandle(in) {
					return
				}
				a := in.(ssa.CallInstruction).Common().Args
				if !flowsTo(e0, a[paramIndex(hInt, "nextTasks")]) {
					return
				}
				rep := flowsTo(gv, a[paramIndex(hInt, "interruptBeforeNodes")])
				r.Check(rep, "C06.before-gate", construct+" hit keys reported", in.Pos(), "hit keys flow into handleInterrupt's before-list", "tasks saved in the checkpoint without their interrupt-before keys being reported (they will run on resume unreported)")
			})
		}
	}
	// restoreTasks results are the only other source of submitted tasks
	for _, s := range submits {
		arg := s.Common().Args[1]
		srcOK := true
		var visit func(v ssa.Value, d int)
		seen := map[ssa.Value]bool{}
		visit = func(v ssa.Value, d int) {
			if seen[v] || d > 10 {
				return
			}
			seen[v] = true
			switch x := v.(type) {
			case *ssa.Phi:
				for _, e := range x.Edges {
					visit(e, d+1)
				}
			case *ssa.Extract:
				c, ok := x.Tuple.(*ssa.Call)
				if !ok || !(isCallTo(c, calc) || isCallTo(c, restore)) {
					srcOK = false
				}
			case *ssa.Const:
			default:
				srcOK = false
			}
		}
		visit(arg, 0)
		r.Check(srcOK, "C06.before-gate", "runner.run submit sources", s.Pos(), "submitted lists come only from calculateNextTasks (gated) or restoreTasks (explicit resume)", "submit receives tasks from an unrecognised source")
	}

	// ---- after-gate
	r.Rule("C06.after-gate", "completed tasks pass resolveInterruptCompletedTasks before calculateNextTasks; a recorded interrupt-after key blocks submit", 3)
	resolves := callsTo(run, resolve)
	for i, c := range calcs {
		x := c.Common().Args[paramIndex(calc, "completedTasks")]
		construct := fmt.Sprintf("runner.run calculateNextTasks#%d input", i+1)
		if _, isSlice := x.(*ssa.Slice); isSlice {
			r.OK("C06.after-gate", construct, c.Pos(), "bootstrap list (START pseudo-task), nothing completed yet")
			continue
		}
		good := false
		for _, rc := range resolves {
			a := rc.Common().Args
			if a[len(a)-1] == x && instrDominates(rc, c) {
				good = true
			}
		}
		r.Check(good, "C06.after-gate", construct, c.Pos(), "dominated by resolveInterruptCompletedTasks on the same list", "completed tasks are expanded to successors without the interrupt-after / error / rerun scan")
	}
	// every batch the run collects is classified: each result of tm.wait() / tm.waitAll() goes through
	// resolveInterruptCompletedTasks before anything else looks at its tasks (a late finisher of an eager run may itself
	// be a rerun request, a nested interrupt or an interrupt-after node)
	{
		n := 0
		for _, wn := range []string{"taskManager.wait", "taskManager.waitAll"} {
			wf := w.Fn("compose", wn)
			for _, wc := range callsTo(run, wf) {
				e := extractOf(wc, 0)
				if e == nil {
					continue
				}
				n++
				var gate ssa.Instruction
				for _, rc := range resolves {
					a := rc.Common().Args
					if a[len(a)-1] == ssa.Value(e) {
						gate = rc
					}
				}
				good, det := gate != nil, "the batch is never passed to resolveInterruptCompletedTasks"
				if good {
					for _, ref := range *e.Referrers() {
						if ref == gate {
							continue
						}
						if c, ok := ref.(*ssa.Call); ok && isBuiltin(c, "len") {
							continue
						}
						if _, isDbg := ref.(*ssa.DebugRef); isDbg {
							continue
						}
						if !instrDominates(gate, ref) {
							good, det = false, "a use of the batch ("+ref.String()+") is not preceded by the classification"
						}
					}
				}
				r.Check(good, "C06.after-gate", fmt.Sprintf("runner.run: batch of %s #%d is classified before use", wf.Name(), n), wc.Pos(), "resolveInterruptCompletedTasks on the batch dominates its other uses", det+": in a Workflow a node that finishes after the first interrupting node and is itself a rerun request / nested interrupt / interrupt-after node is missing from RerunNodes / SubGraphs / AfterNodes — its zero output is pushed to its successors and it is never rerun or resumed")
			}
		}
		if n < 3 {
			r.Fail("C06.after-gate", "runner.run: collected batches", run.Pos(), fmt.Sprintf("%d wait/waitAll results found (floor 3)", n))
		}
	}
	// the after cell
	var afterCell ssa.Value
	if len(resolves) > 0 {
		afterCell = resolves[0].Common().Args[paramIndex(resolve, "interruptAfterNodes")]
	}
	if afterCell == nil {
		undecidedf("C06.after-gate: no resolveInterruptCompletedTasks call in run")
	}
	isAfterList := func(x ssa.Value) bool {
		u, ok := x.(*ssa.UnOp)
		return ok && u.Op == token.MUL && u.X == afterCell
	}
	emptyEdges, ifs := lenTestEmptyEdges(run, isAfterList)
	if len(ifs) == 0 {
		r.Fail("C06.after-gate", "runner.run interrupt-after test", run.Pos(), "no test of len(interruptAfterNodes) in the loop: interrupt-after is never honoured")
	} else {
		// from the first resolve call on the waited list, submit only via the "empty" edge
		ok, wit := pathQuery{fn: run, from: resolves[0], goal: isSubmit, avoidEdge: func(a, b *ssa.BasicBlock) bool { return emptyEdges[[2]*ssa.BasicBlock{a, b}] }}.exists()
		r.Check(!ok, "C06.after-gate", "runner.run interrupt-after blocks submit", ifs[0].Pos(), "the loop continues only on len(interruptAfterNodes)==0", "successors of an interrupt-after node can be submitted: "+wit)
	}
	// resolveInterruptCompletedTasks records the key when the task's node is in r.interruptAfterNodes
	{
		ian := w.Field("compose", "runner", "interruptAfterNodes")
		rec := false
		instrs(resolve, func(in ssa.Instruction) {
			if rg, ok := in.(*ssa.Range); ok {
				_ = rg
			}
			if c, ok := in.(*ssa.Call); ok && isBuiltin(c, "len") && isLoadOfField(c.Call.Args[0], ian) {
				rec = true
			}
			if ia, ok := in.(*ssa.IndexAddr); ok && isLoadOfField(ia.X, ian) {
				rec = true
			}
		})
		r.Check(rec, "C06.after-gate", "resolveInterruptCompletedTasks scans r.interruptAfterNodes", resolve.Pos(), "configured after-nodes are compared with every completed task", "the interrupt-after configuration is never consulted")
	}

	// one classification per completed task: a task recorded as nested interrupt / rerun request is not also
	// recorded as an interrupt-after node in the same iteration (its node did not complete)
	{
		type cw struct {
			in ssa.Instruction
			p  *ssa.Parameter
		}
		var cws []cw
		instrs(resolve, func(in ssa.Instruction) {
			switch x := in.(type) {
			case *ssa.MapUpdate:
				if p, ok := x.Map.(*ssa.Parameter); ok {
					cws = append(cws, cw{in, p})
				}
			case *ssa.Store:
				if p, ok := x.Addr.(*ssa.Parameter); ok {
					cws = append(cws, cw{in, p})
				}
			}
		})
		var outer *loopInfo
		for _, li := range naturalLoops(resolve) {
			li := li
			if outer == nil || len(li.body) > len(outer.body) {
				outer = &li
			}
		}
		if len(cws) < 3 || outer == nil {
			undecidedf("C06.after-gate: resolveInterruptCompletedTasks: %d classification writes found, outer loop %v", len(cws), outer != nil)
		}
		n := 0
		for _, a := range cws {
			for _, b := range cws {
				if a.p == b.p {
					continue
				}
				n++
				b := b
				ok, wit := pathQuery{fn: resolve, from: a.in, goal: func(in ssa.Instruction) bool { return in == b.in },
					avoidEdge: func(_, to *ssa.BasicBlock) bool { return to == outer.header }}.exists()
				r.Check(!ok, "C06.after-gate", fmt.Sprintf("resolveInterruptCompletedTasks: a task recorded in %s is not also recorded in %s", a.p.Name(), b.p.Name()), b.in.Pos(), "no path within one iteration joins the two records", "a task whose node did not complete (nested interrupt / rerun request) is also classified by the other arm: the interrupt is reported under two headings — e.g. AfterNodes lists a node that has not produced its output — and the resume both re-runs the node and treats it as done: "+wit)
			}
		}
		_ = n
	}

	// ---- checkpoint-iff-interrupt
	r.Rule("C06.checkpoint-iff-interrupt", "checkPointer.set only in the interrupt handlers; with an id it precedes the interruptError return; interrupt errors are built only in the handlers", 5)
	set := w.Fn("compose", "checkPointer.set")
	for _, c := range w.staticCallers(set) {
		f := topFunc(c.Parent())
		okc := f == hInt || f == hIntSub
		r.Check(okc, "C06.checkpoint-iff-interrupt", "caller of checkPointer.set: "+w.fname(f), c.Pos(), "interrupt handler", "a checkpoint is written outside an interrupt")
	}
	ie := w.Named("compose", "interruptError")
	sie := w.Named("compose", "subGraphInterruptError")
	for _, fn := range w.RepoFuncs("compose") {
		instrs(fn, func(in ssa.Instruction) {
			al, ok := in.(*ssa.Alloc)
			if !ok || !al.Heap {
				return
			}
			n := namedOf(al.Type())
			if n != ie && n != sie {
				return
			}
			f := topFunc(fn)
			r.Check(f == hInt || f == hIntSub, "C06.checkpoint-iff-interrupt", "constructor of "+n.Obj().Name()+": "+w.fname(f), al.Pos(), "interrupt handler", "interrupt error constructed outside the interrupt handlers (no checkpoint is written for it)")
		})
	}
	for _, h := range []*ssa.Function{hInt, hIntSub} {
		cpid := h.Params[paramIndex(h, "checkPointID")]
		sets := callsTo(h, set)
		isIERet := func(in ssa.Instruction) bool {
			ret, ok := in.(*ssa.Return)
			if !ok {
				return false
			}
			mi, ok := ret.Results[0].(*ssa.MakeInterface)
			return ok && namedOf(mi.X.Type()) == ie
		}
		// the If on checkPointID != nil
		var nonNilSucc *ssa.BasicBlock
		instrs(h, func(in ssa.Instruction) {
			iff, ok := in.(*ssa.If)
			if !ok {
				return
			}
			op, x, y, ok := asCmp(iff.Cond)
			if ok && x == ssa.Value(cpid) && isNilConst(y) {
				if op == token.NEQ {
					nonNilSucc = iff.Block().Succs[0]
				} else if op == token.EQL {
					nonNilSucc = iff.Block().Succs[1]
				}
			}
		})
		construct := w.fname(h) + " writes checkpoint before returning interruptError"
		if nonNilSucc == nil || len(sets) == 0 {
			r.Fail("C06.checkpoint-iff-interrupt", construct, h.Pos(), "no checkPointID != nil arm calling checkPointer.set")
			continue
		}
		ok, wit := pathFromBlock(pathQuery{fn: h, goal: isIERet, avoid: func(in ssa.Instruction) bool { return isCallTo(in, set) }}, nonNilSucc)
		r.Check(!ok, "C06.checkpoint-iff-interrupt", construct, sets[0].Pos(), "with an id, set precedes the interruptError return", "interrupt returned with an id but without writing the checkpoint: "+wit)
		// set's error is not ignored
		ev := sets[0].(ssa.Value)
		used := false
		for _, ref := range *ev.Referrers() {
			switch ref.(type) {
			case *ssa.BinOp, *ssa.Store, *ssa.Phi:
				used = true
			}
		}
		r.Check(used, "C06.checkpoint-iff-interrupt", w.fname(h)+" checks set error", sets[0].Pos(), "error of checkPointer.set is tested", "error of checkPointer.set is dropped")
		// "exactly when": on the arm where set FAILED nothing derived from an interruptError is returned (not even
		// wrapped inside another error: ExtractInterruptInfo uses errors.As)
		leak := ""
		instrs(h, func(in ssa.Instruction) {
			ret, ok := in.(*ssa.Return)
			if !ok || in.Block() == h.Recover {
				return
			}
			onFail := hasGuard(ret.Block(), func(g guard) bool {
				return guardNonNil(g, func(v ssa.Value) bool { return v == ev })
			})
			if !onFail {
				return
			}
			// any interruptError allocation reaching the returned value
			instrs(h, func(ai ssa.Instruction) {
				al, ok := ai.(*ssa.Alloc)
				if !ok || namedOf(al.Type()) != ie {
					return
				}
				if derivesFrom(returnedValue(ret, 0), al) {
					leak = w.pos(ret.Pos())
				}
			})
		})
		r.Check(leak == "", "C06.checkpoint-iff-interrupt", w.fname(h)+": a failed checkpoint write returns no interrupt", sets[0].Pos(), "the set-failure arm returns an error that carries no interruptError", "when writing the checkpoint fails the returned error still carries an *interruptError (return at "+leak+"): ExtractInterruptInfo succeeds although nothing is stored under the id — the caller 'resumes' into a fresh run")
	}
	// late finishers: after the interrupt point was hit, a task that asked for a rerun is classified again — every
	// way from a resolveInterruptCompletedTasks call to the continuation (next tasks / simple interrupt) consults
	// the rerun list that call may have extended
	{
		ric := w.Fn("compose", "runner.resolveInterruptCompletedTasks")
		cnt := w.Fn("compose", "runner.calculateNextTasks")
		n := 0
		for _, c := range callsTo(run, ric) {
			n++
			// 3rd argument (index 2 after the receiver): &interruptRerunNodes
			var cell ssa.Value
			for _, a := range c.Common().Args {
				if al, ok := a.(*ssa.Alloc); ok {
					if sl, ok := deref(al.Type()).Underlying().(*types.Slice); ok {
						if b, ok := sl.Elem().Underlying().(*types.Basic); ok && b.Kind() == types.String && cell == nil {
							cell = al
						}
					}
				}
			}
			if cell == nil {
				r.Fail("C06.after-gate", fmt.Sprintf("runner.run: rerun list consulted after resolveInterruptCompletedTasks #%d", n), c.Pos(), "the rerun list argument of the call is not a local variable")
				continue
			}
			consults := func(in ssa.Instruction) bool {
				iff, ok := in.(*ssa.If)
				if !ok {
					return false
				}
				found := false
				var walk func(v ssa.Value, d int)
				walk = func(v ssa.Value, d int) {
					if d > 6 || found {
						return
					}
					switch x := v.(type) {
					case *ssa.BinOp:
						walk(x.X, d+1)
						walk(x.Y, d+1)
					case *ssa.Call:
						if isBuiltin(x, "len") {
							if u, ok := x.Call.Args[0].(*ssa.UnOp); ok && u.X == cell {
								found = true
							}
						}
					}
				}
				walk(iff.Cond, 0)
				return found
			}
			skip, wit := pathQuery{fn: run, from: c, goal: func(in ssa.Instruction) bool {
				return isCallTo(in, cnt) || isCallTo(in, hInt)
			}, avoid: consults}.exists()
			r.Check(!skip, "C06.after-gate", fmt.Sprintf("runner.run: rerun list consulted after resolveInterruptCompletedTasks #%d", n), c.Pos(), "no continuation without a test of len(interruptRerunNodes)",
				"after late finishers were classified the run can continue (next tasks / simple interrupt) without looking at the rerun list: a node that asked for a rerun while the run was already stopping is treated as completed with a nil output, is missing from RerunNodes and is never re-run ("+wit+")")
		}
		if n < 2 {
			undecidedf("C06.after-gate: %d calls of resolveInterruptCompletedTasks in run (floor 2)", n)
		}
	}

	// ---- handler-args: mode flags reach the interrupt handlers (and every callee of run) unswapped
	// the interrupt handlers convert what is parked in channels / pending inputs before they build the interrupt error:
	// a pair table that types an entry with the wrong side makes that conversion fail and a plain error is returned
	// instead of the interrupt (nothing to extract, no checkpoint) — shared with C05
	r.Rule("C06.convert-pairs-sided", "the checkpoint conversion tables built in graph.compile type every entry with the right side (receiver: input pair, END: the graph's output pair; sender: output pair, START: the graph's input pair) and every installed pair is written somewhere", 4)
	streamPairsSetChecks(w, r, "C06.convert-pairs-sided")

	// the other interrupt exit (a node asked for the interrupt / a nested graph interrupted) saves tasks that were already
	// computed but not started as pending inputs; restored tasks are not gated again, so the interrupt-before nodes among
	// them have to be reported by THIS interrupt
	r.Rule("C06.pending-before-reported", "handleInterruptWithSubGraphAndRerunNodes reports as BeforeNodes the interrupt-before nodes among the pending tasks it saves (getHitKey(pendingTasks, r.interruptBeforeNodes))", 1)
	{
		h := w.Fn("compose", "runner.handleInterruptWithSubGraphAndRerunNodes")
		fBefore := w.Field("compose", "InterruptInfo", "BeforeNodes")
		fInput := w.Field("compose", "task", "input")
		fInputs := w.Field("compose", "checkpoint", "Inputs")
		// the []*task parameters whose elements' inputs go into checkpoint.Inputs as they are
		pending := map[*ssa.Parameter]bool{}
		instrs(h, func(in ssa.Instruction) {
			mu, ok := in.(*ssa.MapUpdate)
			if !ok || !isLoadOfField(mu.Map, fInputs) {
				return
			}
			if f, base := loadedField(mu.Value); f != nil && sameField(f, fInput) {
				if p := paramRoot(base, 0); p != nil {
					pending[p] = true
				}
			}
		})
		good, det := false, "InterruptInfo.BeforeNodes is never set in this handler"
		if len(pending) == 0 {
			det = "no pending-task parameter found (tasks whose input is saved as it is)"
		}
		for _, fw := range fieldWrites(h) {
			if !sameField(fw.field, fBefore) {
				continue
			}
			det = "BeforeNodes is not getHitKey(<pending tasks>, r.interruptBeforeNodes)"
			if c, ok := fw.val.(*ssa.Call); ok && isCallTo(c, hit) {
				if p, ok := c.Call.Args[0].(*ssa.Parameter); ok && pending[p] && isLoadOfField(c.Call.Args[1], ibn) {
					good = true
				}
			}
		}
		r.Check(good, "C06.pending-before-reported", "handleInterruptWithSubGraphAndRerunNodes reports the gated nodes among its pending tasks", h.Pos(), "BeforeNodes = getHitKey(pendingTasks, r.interruptBeforeNodes)", det+": in a Workflow (eager), an interrupt-before node that was already computed as next task when a slower task asks for an interrupt (InterruptAndRerun, nested interrupt) is saved as a pending input but not reported; the resumed run restores it ungated and it executes without ever having been reported")
	}

	// the configured interrupt lists are read-only at run time: nothing filters them in place
	r.Rule("C06.config-lists-not-rewritten", "no run-time function appends onto a re-slice (x[:k]) of a parameter slice or of a slice held by a shared object — getHitKey and friends build their result in storage of their own (shared with C09)", 1)
	ruleResliceAppend(w, r, "C06.config-lists-not-rewritten", "compose")

	r.Rule("C06.fresh-node-no-checkpoint", "a node scheduled by createTasks (not restored) starts from a context without any checkpoint: clearCheckPoint leaves the context unchanged only when it carries none (shared with C05.nested-once)", 1)
	clearCheckPointExact(w, r, "C06.fresh-node-no-checkpoint")

	r.Rule("C06.handler-args", "isStream / isSubGraph / checkPointID are passed to every callee of run in their own parameter positions", 6)
	{
		isStreamP := run.Params[paramIndex(run, "isStream")]
		gnk := w.Fn("compose", "getNodeKey")
		gcpi := w.Fn("compose", "getCheckPointInfo")
		is := func(v ssa.Value, want string) bool {
			for _, a := range aliasesBack(v) {
				switch want {
				case "isStream":
					if a == ssa.Value(isStreamP) {
						return true
					}
				case "isSubGraph":
					if e, ok := a.(*ssa.Extract); ok && e.Index == 1 {
						if c, ok := e.Tuple.(*ssa.Call); ok && isCallTo(c, gnk) {
							return true
						}
					}
				case "checkPointID":
					if e, ok := a.(*ssa.Extract); ok && e.Index == 0 {
						if c, ok := e.Tuple.(*ssa.Call); ok && isCallTo(c, gcpi) {
							return true
						}
					}
				}
			}
			return false
		}
		instrs(run, func(in ssa.Instruction) {
			c, ok := in.(*ssa.Call)
			if !ok {
				return
			}
			sc := staticCallee(c)
			if sc == nil || !w.inRepo(sc) {
				return
			}
			for i, p := range sc.Params {
				switch p.Name() {
				case "isStream", "isSubGraph", "checkPointID":
					if i >= len(c.Call.Args) {
						continue
					}
					r.Check(is(c.Call.Args[i], p.Name()), "C06.handler-args", fmt.Sprintf("run -> %s(%s)", sc.Name(), p.Name()), c.Pos(), "receives run's own "+p.Name(), "parameter "+p.Name()+" of "+sc.Name()+" receives a different value (swapped mode flags: a top-level stream run is treated as a sub-graph, the interrupt is returned as a sub-graph error and no checkpoint is written)")
				}
			}
		})
	}

	// ---- unwrapped
	r.Rule("C06.unwrapped", "interrupt errors are never wrapped on their way out", 5)
	isInt := w.Fn("compose", "isInterruptError")
	for _, n := range []string{"wrapGraphNodeError", "wrapStreamWrapperError"} {
		f := w.Fn("compose", n)
		errP := f.Params[paramIndex(f, "err")]
		cs := callsTo(f, isInt)
		good := len(cs) == 1 && cs[0].Common().Args[0] == ssa.Value(errP)
		if good {
			// true arm returns err unchanged; no allocation / call before the test
			first := true
			instrs(f, func(in ssa.Instruction) {
				if c, ok := in.(*ssa.Call); ok && c != cs[0].(*ssa.Call) && instrDominates(c, cs[0]) {
					first = false
				}
			})
			retErr := false
			instrs(f, func(in ssa.Instruction) {
				ret, ok := in.(*ssa.Return)
				if ok && ret.Results[0] == ssa.Value(errP) && hasGuard(ret.Block(), func(g guard) bool { return g.cond == cs[0].(ssa.Value) && g.pol }) {
					retErr = true
				}
			})
			good = first && retErr
		}
		r.Check(good, "C06.unwrapped", n+" passes interrupts through", f.Pos(), "isInterruptError(err) is tested first and err is returned unchanged", "interrupt errors get wrapped: ExtractInterruptInfo / resume break")
	}
	for _, h := range []*ssa.Function{hInt, hIntSub} {
		for _, c := range callsTo(run, h) {
			direct := false
			for _, ref := range *c.(ssa.Value).Referrers() {
				if ret, ok := ref.(*ssa.Return); ok && ret.Results[1] == c.(ssa.Value) {
					direct = true
				}
				// named result: stored to the result cell, then only RunDefers/loads/Return follow
				if st, ok := ref.(*ssa.Store); ok && st.Val == c.(ssa.Value) {
					if _, isCell := st.Addr.(*ssa.Alloc); isCell {
						touched, _ := pathQuery{fn: run, from: st, goal: func(in ssa.Instruction) bool {
							if _, isCall := in.(*ssa.Call); isCall {
								return true
							}
							s2, isSt := in.(*ssa.Store)
							return isSt && s2.Addr == st.Addr
						}}.exists()
						direct = !touched
					}
				}
			}
			r.Check(direct, "C06.unwrapped", "runner.run returns "+h.Name()+" result directly", c.Pos(), "return nil, handler(...)", "the interrupt handler's error is post-processed before being returned")
		}
	}
	{
		f := w.Fn("compose", "ExtractInterruptInfo")
		r.Check(len(callsNamed(f, "errors.As")) == 1, "C06.unwrapped", "ExtractInterruptInfo uses errors.As", f.Pos(), "errors.As(*interruptError)", "interrupt info is no longer extracted with errors.As (wrapped interrupts are missed)")
	}

	// ---- sentinel-match
	r.Rule("C06.passthrough-pairs-sided", "a pass-through node's input / output stream-convert pairs come from one side of the neighbour it is typed from (shared with C04.role-uniform, package compose): an interrupt before such a node in Stream mode saves its pending stream through that pair", 5)
	ruleRoleUniform(w, r, "C06.passthrough-pairs-sided", "compose")

	shareRule(w, r, "C06.interrupts-all-collected", "waitAll returns only when nothing is outstanding, also when a collected task carries an error: a second interrupting node, or an interrupt-after node finishing later, is in the report and the checkpoint", 2, "C03", "C03.wait-all-drains")
	shareRule(w, r, "C06.channel-state-restored-whole", "what a checkpoint holds of a channel (values, arrivals, the skipped mark) is all taken over on load: a node the run had decided not to run is not reported as an interrupt-before node after a resume", 8, "C05", "C05.channel-state")
	shareRule(w, r, "C06.state-saved-by-its-owner-only", "an interrupt reports and saves a state only for the graph that owns one (the lookup stands under the runner having a state generator): a stateless nested graph does not save the parent's state as its own and continue on a detached copy", 1, "C11", "C11.survives")
	shareRule(w, r, "C06.tool-interrupt-reaches-the-engine", "an interrupt raised inside a tool reaches the engine through errors.Is / errors.As on the tools node's error: every error the tools node builds around a tool's error wraps it with %w, in Invoke as in Stream", 1, "C13", "C13.percent-w")
	shareRule(w, r, "C06.completed-siblings-fully-recorded", "what completed next to the interrupting task is recorded in full before the checkpoint is taken — values AND the control dependencies they satisfy: in all-predecessor mode a successor whose dependency was not recorded never becomes ready after the resume", 1, "C03", "C03.completion-fully-applied")

	r.Rule("C06.bundled-state-serializable", "the local state types of the bundled flows (the type a flow hands to WithGenLocalState: react, host multi-agent) are registered with the checkpoint serializer in their package and have exported fields only: an interrupt in or next to an exported agent graph writes that state into the checkpoint, and a caller cannot register an unexported type", 2)
	{
		// registered anywhere in the module's init functions
		registered := map[*types.Named]bool{}
		for _, fn := range w.RepoFuncs("flow", "compose", "internal/serialization", "schema") {
			if !strings.HasPrefix(topFunc(fn).Name(), "init") {
				continue
			}
			instrs(fn, func(in ssa.Instruction) {
				c, ok := in.(ssa.CallInstruction)
				if !ok {
					return
				}
				f, ok := c.Common().Value.(*ssa.Function)
				if !ok {
					return
				}
				if nm := origin(f).Name(); nm != "GenericRegister" && nm != "RegisterSerializableType" {
					return
				}
				for _, ta := range f.TypeArgs() {
					if n := namedOf(ta); n != nil {
						registered[n] = true
					}
				}
			})
		}
		n := 0
		for _, fn := range w.RepoFuncs("flow") {
			instrs(fn, func(in ssa.Instruction) {
				c, ok := in.(ssa.CallInstruction)
				if !ok {
					return
				}
				f, ok := c.Common().Value.(*ssa.Function)
				if !ok || origin(f).Name() != "WithGenLocalState" || len(f.TypeArgs()) != 1 {
					return
				}
				st := namedOf(f.TypeArgs()[0])
				if st == nil {
					return
				}
				n++
				var unexp []string
				if s, ok := st.Underlying().(*types.Struct); ok {
					for i := 0; i < s.NumFields(); i++ {
						if !s.Field(i).Exported() {
							unexp = append(unexp, s.Field(i).Name())
						}
					}
				}
				r.Check(registered[st] && len(unexp) == 0, "C06.bundled-state-serializable", fmt.Sprintf("%s: local state type %s", w.fname(fn), types.TypeString(st, func(p *types.Package) string { return p.Name() })), c.Pos(), "registered in an init function, exported fields only",
					fmt.Sprintf("registered=%v, unexported fields=%v: a checkpointed run that contains this flow's exported graph cannot be interrupted — any interrupt (a tool returning InterruptAndRerun, interrupt-before / after, an interrupt of a sibling node while the agent node holds state) fails with 'failed to set checkpoint: unknown type' instead of returning the interrupt, and the caller cannot register the unexported type; an unexported field would come back empty after the resume", registered[st], unexp))
			})
		}
		if n < 2 {
			r.Deferred = append(r.Deferred, fmt.Sprintf("C06.bundled-state-serializable: only %d WithGenLocalState calls found in flow/", n))
		}
	}

	r.Rule("C06.checkpointer-always-built", "every compiled runner gets a checkpointer: the store of runner.checkPointer in graph.compile is conditional on nothing but the options object being there — a graph level without store or interrupt lists of its own still has to RELAY an interrupt (a node of it returns InterruptAndRerun, a graph nested in it interrupts), which converts the checkpoint through that object", 1)
	{
		fCP := w.Field("compose", "runner", "checkPointer")
		n := 0
		for _, fw := range fieldWrites(gcompileC06(w)) {
			if !sameField(fw.field, fCP) {
				continue
			}
			n++
			// no successful way through compile with an options object avoids the store
			gc := gcompileC06(w)
			nilSide := map[[2]*ssa.BasicBlock]bool{}
			instrs(gc, func(in ssa.Instruction) {
				iff, ok := in.(*ssa.If)
				if !ok {
					return
				}
				op, x, y, ok := asCmp(iff.Cond)
				if !ok || !isNilConst(y) {
					return
				}
				if p, isP := x.(*ssa.Parameter); !isP || p.Name() != "opt" {
					return
				}
				blk := iff.Block()
				if op == token.NEQ {
					nilSide[[2]*ssa.BasicBlock{blk, blk.Succs[1]}] = true
				} else {
					nilSide[[2]*ssa.BasicBlock{blk, blk.Succs[0]}] = true
				}
			})
			st := fw.in
			skip, wit := pathQuery{fn: gc, goal: func(in ssa.Instruction) bool {
				ret, ok := in.(*ssa.Return)
				return ok && len(ret.Results) == 2 && isNilConst(returnedValue(ret, 1))
			}, avoid: func(in ssa.Instruction) bool { return in == st }, avoidEdge: func(a, b *ssa.BasicBlock) bool { return nilSide[[2]*ssa.BasicBlock{a, b}] }}.exists()
			r.Check(!skip, "C06.checkpointer-always-built", "graph.compile installs the runner's checkpointer on every successful path", fw.in.Pos(), "with an options object, no success return avoids the store", "compile can succeed without building the checkpointer ("+wit+"): a level compiled with just a name and a step limit (what react.Agent.ExportGraph produces) that has to relay an interrupt calls convertCheckPoint on a nil checkpointer — the top-level run returns a node panic instead of the interrupt error, no info is extractable and no checkpoint is written")
		}
		if n == 0 {
			undecidedf("C06.checkpointer-always-built: graph.compile does not store runner.checkPointer")
		}
	}

	r.Rule("C06.checkpoint-id-from-caller-only", "the checkpoint id a run loads from and saves under is the one the caller's options carry (the first result of getCheckPointInfo) and nothing else: no default derived from the graph — all id-less runs of a graph would share one slot, and an interrupted id-less run would be 'resumed' by the next unrelated one", 3)
	{
		run := w.Fn("compose", "runner.run")
		gci := w.Fn("compose", "getCheckPointInfo")
		var idv ssa.Value
		for _, c := range callsTo(run, gci) {
			if v, ok := c.(ssa.Value); ok {
				idv = extractOf(v.(*ssa.Call), 0)
			}
		}
		if idv == nil {
			undecidedf("C06.checkpoint-id-from-caller-only: run does not call getCheckPointInfo")
		}
		n := 0
		instrs(run, func(in ssa.Instruction) {
			c, ok := in.(ssa.CallInstruction)
			if !ok {
				return
			}
			sc := staticCallee(c)
			if sc == nil || !w.inRepo(sc) {
				return
			}
			for i, p := range sc.Params {
				if i >= len(c.Common().Args) {
					break
				}
				pt, isPtr := p.Type().(*types.Pointer)
				if !isPtr || !types.Identical(pt.Elem(), types.Typ[types.String]) || !strings.Contains(strings.ToLower(p.Name()), "checkpointid") {
					continue
				}
				n++
				r.Check(c.Common().Args[i] == idv, "C06.checkpoint-id-from-caller-only", fmt.Sprintf("runner.run hands %s the caller's checkpoint id (#%d)", sc.Name(), n), in.Pos(), "the value returned by getCheckPointInfo itself", "the id handed on is not the caller's as it came (a default was merged in): runs without WithCheckPointID are no longer independent — an interrupted one silently writes a checkpoint, and the next id-less run starts from it, executing the interrupt-before node at once with the first run's input")
			}
			// the load: *checkPointID dereferenced for getCheckPointFromStore
			if sc.Name() == "getCheckPointFromStore" && len(c.Common().Args) > 1 {
				n++
				ld, ok := c.Common().Args[1].(*ssa.UnOp)
				r.Check(ok && ld.X == idv, "C06.checkpoint-id-from-caller-only", "runner.run loads the checkpoint under the caller's id", in.Pos(), "*checkPointID of getCheckPointInfo", "the checkpoint is loaded under an id that is not the caller's as it came")
			}
		})
		if n < 3 {
			undecidedf("C06.checkpoint-id-from-caller-only: only %d uses of the checkpoint id found in run", n)
		}
		// … whatever it is: getCheckPointInfo adopts an option's id when the option carries one (opt.checkPointID != nil) and
		// under no further test of the id's content — "" is an id like any other, the caller supplied it
		{
			fID := w.Field("compose", "Option", "checkPointID")
			k := 0
			instrs(gci, func(in ssa.Instruction) {
				ph, ok := in.(*ssa.Phi)
				if !ok {
					return
				}
				for i, e := range ph.Edges {
					if !isLoadOfField(e, fID) {
						continue
					}
					k++
					pred := ph.Block().Preds[i]
					var gs []guard
					gs = append(gs, guardsOf(pred)...)
					gs = append(gs, guardsOfEdge(pred, ph.Block())...)
					var extra []string
					for _, g := range gs {
						if guardNonNil(g, func(v ssa.Value) bool { return isLoadOfField(v, fID) }) {
							continue
						}
						// the loop's own condition (index < len)
						if op, x, _, okc := asCmp(g.cond); okc && op == token.LSS {
							if _, isLoad := x.(*ssa.UnOp); !isLoad {
								continue
							}
						}
						extra = append(extra, guardText(g))
					}
					r.Check(len(extra) == 0, "C06.checkpoint-id-from-caller-only", fmt.Sprintf("getCheckPointInfo adopts the option's id (#%d)", k), ph.Pos(), "under opt.checkPointID != nil only", "the id is adopted only under "+strings.Join(extra, " && ")+": for WithCheckPointID(\"\") the interrupt is still honoured and returned, but no checkpoint is written under the id the caller supplied — the run restarts from START on every call and stops at the same interrupt point for ever")
				}
			})
			if k == 0 {
				undecidedf("C06.checkpoint-id-from-caller-only: getCheckPointInfo's adoption of the option's id not found")
			}
		}
	}

	r.Rule("C06.interrupt-lists-snapshotted", "the lists of interrupt-before / interrupt-after nodes the compiled runner reads on every run are its own: graph.compile stores a copy, never the slice the caller handed to WithInterruptBeforeNodes / WithInterruptAfterNodes — a caller that reuses or edits that slice after Compile would silently move or remove the interrupt points of a compiled graph", 2)
	{
		gc := w.Fn("compose", "graph.compile")
		rT := w.Named("compose", "runner")
		n := 0
		for _, fw := range fieldWrites(gc) {
			if fw.owner != rT || fw.kind != "store" {
				continue
			}
			if nm := fw.field.Name(); nm != "interruptBeforeNodes" && nm != "interruptAfterNodes" {
				continue
			}
			n++
			lf, _ := loadedField(fw.val)
			r.Check(lf == nil, "C06.interrupt-lists-snapshotted", "graph.compile: runner."+fw.field.Name()+" is a copy", fw.in.Pos(), "not the option's slice itself", "the runner keeps the caller's slice (the option stores it as it came, compile hands it on as it is): editing or reusing that slice after Compile removes the interrupt point — the interrupt-before node runs without any interrupt, the interrupt-after node's successor starts; sequential, no race needed")
		}
		if n < 2 {
			r.Deferred = append(r.Deferred, fmt.Sprintf("C06.interrupt-lists-snapshotted: only %d stores of the runner's interrupt lists in graph.compile", n))
		}
	}

	r.Rule("C06.sentinel-match", "InterruptAndRerun is matched with errors.Is (never ==) wherever the framework classifies a task error", 2)
	sentinelMatchChecks(w, r, "C06.sentinel-match")
	_ = strings.Join
}

// aliasesBack: v and, when v is a load of a local cell, the values stored into that cell.
func aliasesBack(v ssa.Value) []ssa.Value {
	out := []ssa.Value{v}
	if u, ok := v.(*ssa.UnOp); ok && u.Op == token.MUL {
		if cell, ok := u.X.(*ssa.Alloc); ok {
			for _, ref := range *cell.Referrers() {
				if st, ok := ref.(*ssa.Store); ok && st.Addr == ssa.Value(cell) {
					out = append(out, st.Val)
				}
			}
		}
	}
	if phi, ok := v.(*ssa.Phi); ok {
		out = append(out, phi.Edges...)
	}
	return out
}

// sentinelMatchChecks: a node's request to be interrupted and re-run is recognised through any wrapping.
func sentinelMatchChecks(w *World, r *Report, rule string) {
	resolve := w.Fn("compose", "runner.resolveInterruptCompletedTasks")
	isInt := w.Fn("compose", "isInterruptError")
	sent := w.GlobalVar("compose", "InterruptAndRerun")
	isSentLoad := func(v ssa.Value) bool {
		v = through(v)
		u, ok := v.(*ssa.UnOp)
		if !ok {
			return false
		}
		g, ok := u.X.(*ssa.Global)
		return ok && g.Object() == types.Object(sent)
	}
	nIs := 0
	for _, fn := range w.RepoFuncs("compose", "flow") {
		instrs(fn, func(in ssa.Instruction) {
			if b, ok := in.(*ssa.BinOp); ok && (b.Op == token.EQL || b.Op == token.NEQ) && (isSentLoad(b.X) || isSentLoad(b.Y)) {
				r.Fail(rule, w.fname(fn)+" compares InterruptAndRerun with "+b.Op.String(), b.Pos(), "identity comparison misses a wrapped sentinel (e.g. a tool error wrapped by ToolsNode with %w): the run fails instead of interrupting")
			}
			if calleeFullName(in) == "errors.Is" {
				a := in.(ssa.CallInstruction).Common().Args
				if isSentLoad(a[1]) {
					nIs++
					r.OK(rule, w.fname(fn)+" errors.Is(err, InterruptAndRerun)", in.Pos(), "unwrapping match")
				}
			}
		})
	}
	// both classifiers must use it
	for _, f := range []*ssa.Function{resolve, isInt} {
		has := false
		for _, c := range callsNamed(f, "errors.Is") {
			if isSentLoad(c.Common().Args[1]) {
				has = true
			}
		}
		if !has {
			r.Fail(rule, w.fname(f)+" classifies InterruptAndRerun", f.Pos(), "no errors.Is(err, InterruptAndRerun) in this classifier")
		}
	}
}

func gcompileC06(w *World) *ssa.Function { return w.Fn("compose", "graph.compile") }

// errorOnlyArm: the guard is the surviving side of an early error return (`if bad { return nil, err }`): the other arm of
// its If leaves the function with an error at once, so the guard is a validation, not a condition under which the
// guarded code is skipped on a successful compile.
func errorOnlyArm(g guard) bool {
	if g.at == nil {
		return false
	}
	b := g.at.Block()
	other := b.Succs[1]
	if !g.pol {
		other = b.Succs[0]
	}
	// the other arm: a block that ends in a Return with a non-nil error without branching further
	for hop := 0; hop < 3 && other != nil; hop++ {
		if len(other.Instrs) == 0 {
			return false
		}
		switch last := other.Instrs[len(other.Instrs)-1].(type) {
		case *ssa.Return:
			return len(last.Results) > 0 && !isNilConst(last.Results[len(last.Results)-1])
		case *ssa.Jump:
			other = other.Succs[0]
		default:
			return false
		}
	}
	return false
}
