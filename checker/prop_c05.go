package main

import (
	"fmt"
	"go/token"
	"go/types"
	"sort"
	"strings"

	"golang.org/x/tools/go/ssa"
)

func init() {
	register(&propDef{
		id: "C05",
		explanation: "Static clauses of 'interrupt + resume is equivalent to an uninterrupted run' (nothing that must survive is structurally dropped; a nested checkpoint cannot be applied twice): " +
			"(checkpoint-fields) every field of the checkpoint struct is written at a save site and read on the resume path; Channels/Inputs/State/SkipPreHandler at both save sites; " +
			"(channel-state) every mutable field of every channel implementation is exported, copied by load, and the persisted types are registered with the serializer; " +
			"(convert-restore-order) save sites convert before storing/returning; both restore arms run restoreCheckPoint -> loadChannels -> restoreTasks; " +
			"(wait-all-before-save) interrupt handlers reached after a submit are dominated by waitAll; every batch of completed tasks is resolved exactly once — handed to the sub-graph/rerun handler iff no calculateNextTasks call has consumed it before — and what calculateNextTasks computed is handed to the handler; " +
			"(skip-prehandler) task.skipPreHandler is written only by restoreTasks from the checkpoint and is the only reason submit skips a pre-handler; " +
			"(nested-once) the nested checkpoint is forwarded only by restoreTasks; freshly created tasks get a context with the checkpoint cleared; " +
			"(stream-pairs-set) every stream<->value converter pair installed in the checkpointer's tables is read from a field that is written somewhere (NEVER-WRITTEN rule: a never-assigned pair is two nil functions); " +
			"(pair-table-typing) the pair used for a value pending in a channel is typed like that value — on today's tree it is not (open known finding: the table is keyed by sender while channels hold what the edge handlers returned).",
		decided:    []string{"stream-pairs-set", "pair-table-typing (open finding)", "checkpoint-fields", "channel-state", "convert-restore-order", "wait-all-before-save", "skip-prehandler", "nested-once", "visits-all", "rerun-request-recognised", "codec-pointer-depth", "computed-tasks-saved", "empty-stream-roundtrip"},
		notDecided: []string{"the equivalence itself (same outputs / same node invocations) over all graphs and interrupt sequences", "fidelity of the byte store", "round-trip of values through the serializer (C12)"},
		run:        runC05,
	})
}

// fieldsWrittenOn: fields of struct `n` written through `base` in fn (incl. map updates on maps loaded from the field).
func fieldsWrittenOn(fn *ssa.Function, base ssa.Value, n *types.Named) map[string]bool {
	out := map[string]bool{}
	for _, fw := range fieldWrites(fn) {
		if fw.owner == n && fw.base == base {
			out[fw.field.Name()] = true
		}
	}
	return out
}

func runC05(w *World, r *Report) {
	// ---- visits-all: every channel, pending input and task is saved / restored
	r.Rule("C05.visits-all", "the loops that save, convert, restore and reload checkpoint contents are left only when exhausted or with an error", 6)
	ruleLoopsTotal(w, r, "C05.visits-all", []*ssa.Function{
		w.Fn("compose", "runner.handleInterrupt"), w.Fn("compose", "runner.restoreTasks"),
		w.Fn("compose", "checkPointer.convertCheckPoint"), w.Fn("compose", "checkPointer.restoreCheckPoint"), w.Fn("compose", "convert"), w.Fn("compose", "restore"),
		w.Fn("compose", "channelManager.loadChannels"), w.Fn("compose", "dagChannel.load"), w.Fn("compose", "pregelChannel.load"),
	}, map[string]string{}, "a channel, pending input or task is missing from the checkpoint or from the resumed run")

	cpT := w.Named("compose", "checkpoint")
	run := w.Fn("compose", "runner.run")
	hInt := w.Fn("compose", "runner.handleInterrupt")
	hSub := w.Fn("compose", "runner.handleInterruptWithSubGraphAndRerunNodes")
	restoreTasks := w.Fn("compose", "runner.restoreTasks")
	createTasks := w.Fn("compose", "runner.createTasks")
	fwd := w.Fn("compose", "forwardCheckPoint")
	clr := w.TryFn("compose", "clearCheckPoint")

	// ---- stream-pairs-set: the stream<->value converters the checkpointer uses are real functions
	r.Rule("C05.stream-pairs-set", "every streamConvertPair handed to the checkpointer comes from a field that is written somewhere (a never-written pair is two nil functions: converting a pending stream for the checkpoint panics)", 3)
	streamPairsSetChecks(w, r, "C05.stream-pairs-set")

	// ---- a node's interrupt request is recognised through any wrapping (a missed request is an ordinary failure: no checkpoint, nothing to resume)
	r.Rule("C05.rerun-request-recognised", "InterruptAndRerun is matched with errors.Is wherever task errors are classified", 2)
	sentinelMatchChecks(w, r, "C05.rerun-request-recognised")

	// ---- typed nil pointers in state / pending inputs keep their pointer depth through the byte store
	r.Rule("C05.codec-pointer-depth", "the checkpoint serialiser counts every pointer level it peels, the nil level included (shared with C12)", 1)
	pointerDepthCheck(w, r, "C05.codec-pointer-depth")

	// ---- tasks whose inputs were already taken out of the channels are saved
	r.Rule("C05.computed-tasks-saved", "handleInterrupt is handed every task list computed before it (shared with C03)", 2)
	computedTasksKept(w, r, "C05.computed-tasks-saved")

	// ---- an empty pending stream round-trips as an empty stream
	r.Rule("C05.empty-stream-roundtrip", "defaultStreamConvertPair: an empty stream is saved as nil and nil is restored as an EMPTY stream (no chunk the uninterrupted run never delivered)", 2)
	{
		dsp := w.Fn("compose", "defaultStreamConvertPair")
		var concat, restore *ssa.Function
		for _, a := range dsp.AnonFuncs {
			if a.Signature.Params().Len() == 1 {
				if _, isIface := a.Signature.Params().At(0).Type().Underlying().(*types.Interface); isIface && a.Signature.Params().At(0).Type().String() != "any" && a.Signature.Params().At(0).Type().String() != "interface{}" {
					concat = a
				} else {
					restore = a
				}
			}
		}
		if concat == nil || restore == nil {
			undecidedf("C05.empty-stream-roundtrip: the two literals of defaultStreamConvertPair not identified")
		}
		// save: emptyStreamConcatErr -> (nil, nil)
		okSave := false
		instrs(concat, func(in ssa.Instruction) {
			ret, ok := in.(*ssa.Return)
			if !ok || !isNilConst(ret.Results[0]) || !isNilConst(ret.Results[1]) {
				return
			}
			if hasGuard(ret.Block(), func(g guard) bool {
				c, ok := g.cond.(*ssa.Call)
				return ok && g.pol && calleeFullName(c) == "errors.Is"
			}) {
				okSave = true
			}
		})
		r.Check(okSave, "C05.empty-stream-roundtrip", "concatStream: empty stream saved as nil", concat.Pos(), "errors.Is(err, emptyStreamConcatErr) -> (nil, nil)", "an empty pending stream is not saved as the nil marker")
		// restore: on the a == nil arm the array handed to StreamReaderFromArray has length 0
		okRestore, seen := false, false
		instrs(restore, func(in ssa.Instruction) {
			c, ok := in.(*ssa.Call)
			if !ok {
				return
			}
			f, ok := c.Call.Value.(*ssa.Function)
			if !ok || origin(f).Name() != "StreamReaderFromArray" {
				return
			}
			if !hasGuard(c.Block(), func(g guard) bool {
				return guardIsNil(g, func(v ssa.Value) bool { _, isP := v.(*ssa.Parameter); return isP })
			}) {
				return
			}
			seen = true
			if sl, ok := c.Call.Args[0].(*ssa.Slice); ok {
				if al, ok := sl.X.(*ssa.Alloc); ok {
					if at, ok := deref(al.Type()).Underlying().(*types.Array); ok && at.Len() == 0 {
						okRestore = true
					}
				}
			}
			if cst, ok := c.Call.Args[0].(*ssa.Const); ok && cst.Value == nil {
				okRestore = true
			}
		})
		r.Check(seen && okRestore, "C05.empty-stream-roundtrip", "restoreStream: nil restored as an empty stream", restore.Pos(), "a == nil -> StreamReaderFromArray of a zero-length slice", "a checkpointed nil (empty stream at the interrupt point) is restored as a stream that holds a chunk: in the stream paradigms the resumed node receives a chunk the uninterrupted run never delivered")
	}

	// ---- pair-table-typing: the table that converts channel contents is typed like the channel contents
	r.Rule("C05.pair-table-typing", "the stream<->value pair used for a value pending in a channel is typed like that value: values are stored AFTER the edge handlers ran, so a pair taken from the sender's declared output type is wrong on edges whose handlers retype the stream (field mappings)", 1)
	pairTableTypingCheck(w, r, "C05.pair-table-typing")

	// ---- checkpoint-fields
	r.Rule("C05.checkpoint-fields", "every checkpoint field is written at a save site and read on the resume path", 5)
	st := cpT.Underlying().(*types.Struct)
	saveWrites := map[*ssa.Function]map[string]bool{}
	for _, fn := range w.RepoFuncs("compose") {
		instrs(fn, func(in ssa.Instruction) {
			al, ok := in.(*ssa.Alloc)
			if !ok || !al.Heap || namedOf(al.Type()) != cpT {
				return
			}
			ws := fieldsWrittenOn(fn, al, cpT)
			if len(ws) == 0 {
				return // empty literal (decode target)
			}
			if saveWrites[fn] == nil {
				saveWrites[fn] = map[string]bool{}
			}
			for k := range ws {
				saveWrites[fn][k] = true
			}
		})
	}
	if len(saveWrites) != 2 || saveWrites[hInt] == nil || saveWrites[hSub] == nil {
		var names []string
		for f := range saveWrites {
			names = append(names, w.fname(f))
		}
		sort.Strings(names)
		r.Fail("C05.checkpoint-fields", "checkpoint save sites", cpT.Obj().Pos(), "expected the two interrupt handlers to be the checkpoint constructors, found: "+strings.Join(names, ", "))
	}
	readFns := []*ssa.Function{run, restoreTasks, fwd, w.Fn("compose", "checkPointer.restoreCheckPoint"), w.Fn("compose", "channelManager.loadChannels")}
	reads := map[string]bool{}
	for _, fn := range readFns {
		instrs(fn, func(in ssa.Instruction) {
			if fa, ok := in.(*ssa.FieldAddr); ok && namedOf(fa.X.Type()) == cpT {
				// a read: the field address is loaded
				for _, ref := range *fa.Referrers() {
					if _, isLoad := ref.(*ssa.UnOp); isLoad {
						reads[fieldVarOfAddr(fa).Name()] = true
					}
				}
			}
		})
	}
	for i := 0; i < st.NumFields(); i++ {
		name := st.Field(i).Name()
		written := false
		for _, ws := range saveWrites {
			if ws[name] {
				written = true
			}
		}
		r.Check(written && reads[name], "C05.checkpoint-fields", "checkpoint."+name+" written and read", st.Field(i).Pos(),
			"saved at an interrupt and consumed on resume", fmt.Sprintf("checkpoint field %s: written=%v read-on-resume=%v — it does not survive interrupt/resume", name, written, reads[name]))
	}
	for _, name := range []string{"Channels", "Inputs", "State", "SkipPreHandler"} {
		for _, h := range []*ssa.Function{hInt, hSub} {
			ok := saveWrites[h] != nil && saveWrites[h][name]
			r.Check(ok, "C05.checkpoint-fields", fmt.Sprintf("%s saves %s", h.Name(), name), h.Pos(), "set at this save site", "this kind of interrupt does not save "+name)
		}
	}
	r.Check(saveWrites[hSub] != nil && saveWrites[hSub]["SubGraphs"], "C05.checkpoint-fields", hSub.Name()+" saves SubGraphs", hSub.Pos(), "nested checkpoints recorded", "nested graph checkpoints are not saved")
	// Inputs: one entry per pending task (map update keyed by task.nodeKey with task.input) at the plain interrupt
	{
		tKey := w.Field("compose", "task", "nodeKey")
		tIn := w.Field("compose", "task", "input")
		ok := false
		instrs(hInt, func(in ssa.Instruction) {
			if mu, ok2 := in.(*ssa.MapUpdate); ok2 && isLoadOfField(mu.Key, tKey) && isLoadOfField(mu.Value, tIn) {
				ok = true
			}
		})
		r.Check(ok, "C05.checkpoint-fields", "handleInterrupt saves every pending task input", hInt.Pos(), "Inputs[task.nodeKey] = task.input for each next task", "pending inputs are not saved per task")
	}

	r.Rule("C05.passthrough-pairs-sided", "the stream<->value pairs a pass-through node derives from its neighbour (what graph.compile hands the checkpointer for that node's pending input / output) come from one side of the neighbour (shared with C04.role-uniform, package compose)", 5)
	ruleRoleUniform(w, r, "C05.passthrough-pairs-sided", "compose")

	r.Rule("C05.nothing-dropped-at-save", "no function of package compose deletes an entry from a checkpoint's tables (Channels, Inputs, SubGraphs, SkipPreHandler): a channel that holds no value can still hold the record of a predecessor that finished or was skipped without delivering data; what the interrupt handlers put in is what is stored (shared with C12)", 0)
	{
		nd := 0
		for _, fn := range w.RepoFuncs("compose") {
			instrs(fn, func(in ssa.Instruction) {
				c, ok := in.(*ssa.Call)
				if !ok || !isBuiltin(c, "delete") {
					return
				}
				f, base := loadedField(c.Call.Args[0])
				if f == nil || base == nil || namedOf(deref(base.Type())) != cpT {
					return
				}
				nd++
				r.Fail("C05.nothing-dropped-at-save", fmt.Sprintf("%s deletes from checkpoint.%s", w.fname(fn), f.Name()), c.Pos(), "an entry of the checkpoint is removed before it is stored ('nothing waits in this channel'): a DAG channel without a value still records which control predecessors are done or skipped and whether the node itself was skipped — after the resume a join waits for ever ('no tasks to execute') or a skipped node runs")
			})
		}
		// … and nobody replaces a table wholesale: the fields of a checkpoint are assigned where it is built (the two
		// interrupt handlers, on a fresh object) and nowhere else
		for _, fn := range w.RepoFuncs("compose") {
			for _, fw := range fieldWrites(fn) {
				if fw.owner != cpT || fw.kind != "store" || freshBase(fw.base, 0) {
					continue
				}
				top := topFunc(fn)
				if top == hInt || top == hSub {
					continue
				}
				nd++
				r.Fail("C05.nothing-dropped-at-save", fmt.Sprintf("%s replaces checkpoint.%s", w.fname(fn), fw.field.Name()), fw.in.Pos(), "a table of the checkpoint is replaced on the way to the store (e.g. by a copy that keeps only the channels with a pending value): state that lives in a channel without a value — finished / skipped control predecessors, the skipped mark — is not written, and the channels read back are not the ones that existed at the interrupt")
			}
		}
		// … and where it is built, Channels is the run's channel table itself (the parameter, or channelManager.channels),
		// not something computed from it
		for _, fn := range []*ssa.Function{hInt, hSub} {
			for _, fw := range fieldWrites(fn) {
				if fw.owner != cpT || fw.kind != "store" || fw.field.Name() != "Channels" {
					continue
				}
				v := through(fw.val)
				_, isParam := v.(*ssa.Parameter)
				lf, _ := loadedField(v)
				if isParam || (lf != nil && lf.Name() == "channels") {
					r.OK("C05.nothing-dropped-at-save", w.fname(fn)+": checkpoint.Channels is the run's channel table", fw.in.Pos(), valText(v))
					continue
				}
				nd++
				r.Fail("C05.nothing-dropped-at-save", w.fname(fn)+": checkpoint.Channels is the run's channel table", fw.in.Pos(), "the checkpoint is built from "+valText(v)+" instead of the channel table: a selection ('only channels that hold a value') leaves out the DAG channels that hold nothing but the record of finished / skipped predecessors — a node that had recorded 'predecessor a is skipped' before the interrupt and still waits for another one waits for ever after the resume ('no tasks to execute')")
			}
		}
		if nd == 0 {
			r.OK("C05.nothing-dropped-at-save", "no delete on / replacement of a checkpoint table in package compose", cpT.Obj().Pos(), "entries are only added, tables only assigned where the checkpoint is built")
		}
	}

	r.Rule("C05.rerun-input-rebuilt-from-state", "a node that asked for the interrupt is re-run with the zero input and its state pre-handler rebuilds the real one: the bundled agent's tools node can be such a node (a tool may return InterruptAndRerun), so its pre-handler records the assistant message in the history only where it was handed one (input != nil) and otherwise takes it from the state — or the resumed run hands nil to the tools node (nil dereference) and leaves a nil entry in the history", 1)
	{
		na := w.Fn("flow/agent/react", "NewAgent")
		n := 0
		for _, lit := range na.AnonFuncs {
			sig := lit.Signature
			if sig.Params().Len() != 3 || sig.Results().Len() != 2 {
				continue
			}
			pt, isPtr := sig.Params().At(1).Type().(*types.Pointer)
			if !isPtr || namedOf(pt) == nil || namedOf(pt).Obj().Name() != "Message" {
				continue
			}
			in := lit.Params[1]
			instrs(lit, func(x ssa.Instruction) {
				c, ok := x.(*ssa.Call)
				if !ok || !isBuiltin(c, "append") || len(c.Call.Args) < 2 {
					return
				}
				// append(state.Messages, input): the appended list is a one-element slice holding the parameter
				holds := false
				if sl, isSl := c.Call.Args[1].(*ssa.Slice); isSl {
					if al, isAl := sl.X.(*ssa.Alloc); isAl {
						for _, ref := range *al.Referrers() {
							if ia, isIA := ref.(*ssa.IndexAddr); isIA {
								for _, r2 := range *ia.Referrers() {
									if st, isSt := r2.(*ssa.Store); isSt && st.Val == ssa.Value(in) {
										holds = true
									}
								}
							}
						}
					}
				}
				if !holds {
					return
				}
				n++
				okG := hasGuard(c.Block(), func(g guard) bool { return guardNonNil(g, func(v ssa.Value) bool { return v == ssa.Value(in) }) })
				r.Check(okG, "C05.rerun-input-rebuilt-from-state", fmt.Sprintf("react.NewAgent %s records its input in the history", lit.Name()), c.Pos(), "only under input != nil (the re-run arm reads the state)", "the pre-handler of the tools node treats the zero input of a re-run like a real assistant message: a tool that returns compose.InterruptAndRerun (human approval) interrupts the agent correctly, and the resumed run fails with a nil pointer dereference in genToolCallTasks (node path [agent, tools]) — an interrupt requested from inside a tool of the bundled agent can never be resumed")
			})
		}
		if n == 0 {
			r.Deferred = append(r.Deferred, fmt.Sprintf("C05.rerun-input-rebuilt-from-state: no pre-handler of react.NewAgent appends a *schema.Message input to the state"))
		}
	}

	shareRule(w, r, "C05.conversion-tables-read-only", "converting a checkpoint writes nothing into the compiled graph's tables (the stream pairs by sender are shared by every receiver and every later run): per-edge overrides go into a copy", 0, "C09", "C09.read-only-at-runtime")
	shareRule(w, r, "C05.map-keys-read-as-written", "the serialiser reads a map key back by the rule it wrote it with (a named string key is not written raw and read as JSON): a state with map[schema.RoleType]… survives the byte store", 1, "C12", "C12.key-codec-symmetric")
	shareRule(w, r, "C05.agent-state-fields-exported", "the fields of the bundled agents' state are exported: the byte store writes exported fields only and skips the rest silently, so an unexported field (the return-directly call id) comes back empty after a resume", 1, "C12", "C12.registered-exported")
	shareRule(w, r, "C05.interrupt-collects-every-task", "an interrupt waits for every task of the step, also behind a task that carries an error (a rerun request travels in task.err): a sibling that finishes later is otherwise neither parked in its successors' channels nor saved", 1, "C03", "C03.wait-all-drains")
	shareRule(w, r, "C05.nested-checkpoint-holds-its-own-state-only", "a graph without a state of its own saves none in its checkpoint: a stateless nested graph that saved the parent's state would resume on a detached copy and its later writes be lost to the parent", 1, "C11", "C11.survives")

	// ---- load-errors-kept
	r.Rule("C05.load-errors-kept", "on the save / load path (package compose, internal/serialization) a success return after an error-yielding call is reached only where that error was tested nil: a checkpoint that cannot be read back is an error of the resume, never 'no checkpoint, start over' (shared with C13.no-dropped-error)", 1)
	{
		nf := 0
		for _, fn := range w.RepoFuncs("compose", "internal/serialization") {
			nf++
			for _, d := range errDroppedReturns(fn) {
				r.Fail("C05.load-errors-kept", fmt.Sprintf("%s: success return after %s", w.fname(fn), calleeFullName(d.call)), d.ret.Pos(), d.why+" — a stored checkpoint that fails to load (store error, undecodable bytes) is treated as absent: the resume silently starts the run from the beginning and re-executes every completed node")
			}
		}
		r.OK("C05.load-errors-kept", fmt.Sprintf("success returns of %d functions", nf), token.NoPos, "none is reachable past an untested / non-nil callee error")
	}

	// ---- channel-state
	r.Rule("C05.channel-state", "channel bookkeeping fields are exported, copied by load, and persisted types are registered", 8)
	registered := map[string]bool{}
	for _, fn := range w.RepoFuncs("compose") {
		if !strings.HasPrefix(fn.Name(), "init") {
			continue
		}
		instrs(fn, func(in ssa.Instruction) {
			c, ok := in.(ssa.CallInstruction)
			if !ok {
				return
			}
			f, ok := c.Common().Value.(*ssa.Function)
			if !ok || origin(f).Name() != "GenericRegister" {
				return
			}
			for _, ta := range f.TypeArgs() {
				registered[types.TypeString(ta, func(p *types.Package) string { return "" })] = true
			}
		})
	}
	{
		// the built-in types the module registers are registered with everything they contain: a pending input, channel
		// value or state that is a message with multi-modal parts / log-probs can be written (shared with C12.registered-closure)
		_, leafOK := registeredLeafOK(w, "C05.channel-state")
		persisted := append([]*types.Named{w.Named("compose", "checkpoint")}, channelImpls(w)...)
		registeredSetClosed(w, r, "C05.channel-state", leafOK, persisted)
	}
	for _, must := range []string{"checkpoint", "channel", "dependencyState"} {
		r.Check(registered[must], "C05.channel-state", "type "+must+" registered for serialisation", w.Named("compose", must).Obj().Pos(), "GenericRegister in init", "persisted type is not registered: checkpoints through a byte store fail or lose it")
	}
	for _, n := range channelImpls(w) {
		r.Check(registered[n.Obj().Name()], "C05.channel-state", "type "+n.Obj().Name()+" registered for serialisation", n.Obj().Pos(), "GenericRegister in init", "channel implementation is not registered")
		state := channelStateFields(w, n)
		// get also mutates
		for _, fw := range fieldWrites(methodOf(w, n, "get")) {
			if fw.owner == n {
				state[fw.field.Name()] = fw.field
			}
		}
		for _, lit := range methodOf(w, n, "get").AnonFuncs {
			for _, fw := range fieldWrites(lit) {
				if fw.owner == n {
					state[fw.field.Name()] = fw.field
				}
			}
		}
		load := methodOf(w, n, "load")
		loaded := map[string]bool{}
		for _, fw := range fieldWrites(load) {
			if fw.owner == n && fw.kind == "store" {
				// value must be the same field of the other channel
				if f, _ := loadedField(fw.val); f != nil && sameField(f, fw.field) {
					loaded[fw.field.Name()] = true
				}
			}
		}
		var names []string
		for k := range state {
			names = append(names, k)
		}
		sort.Strings(names)
		for _, name := range names {
			f := state[name]
			r.Check(f.Exported(), "C05.channel-state", n.Obj().Name()+"."+name+" exported", f.Pos(), "visible to the serializer", "mutable channel state in an unexported field is silently dropped by the byte store")
			r.Check(loaded[name], "C05.channel-state", n.Obj().Name()+".load copies "+name, load.Pos(), "restored from the loaded channel", "load does not restore "+name+": bookkeeping (skips / readiness / values) is lost on resume")
		}
		// … on every path: no success return of load is reachable without the copies (a channel that holds no value can
		// still hold the record of a predecessor that delivered no data — a dependency-only edge, a branch, a skip)
		{
			var stores []ssa.Instruction
			for _, fw := range fieldWrites(load) {
				if fw.owner == n && fw.kind == "store" {
					stores = append(stores, fw.in)
				}
			}
			for _, st := range stores {
				st := st
				skip, wit := pathQuery{fn: load, goal: func(in ssa.Instruction) bool {
					ret, ok := in.(*ssa.Return)
					return ok && len(ret.Results) == 1 && isNilConst(ret.Results[0])
				}, avoid: func(in ssa.Instruction) bool { return in == st }}.exists()
				r.Check(!skip, "C05.channel-state", fmt.Sprintf("%s.load: the copy at %s is on every successful path", n.Obj().Name(), w.pos(st.Pos())), st.Pos(), "no nil-error return avoids it", "load can succeed without taking the saved bookkeeping over ("+wit+"): the resumed run forgets completions / skips recorded in a channel that held no value yet — a join waits for ever ('no tasks to execute') or a skipped node runs")
			}
		}
	}

	// what a checkpoint holds is channel STATE; what the compiled runner builds is the channel itself, configuration
	// included (the zero-value / empty-stream producers of a DAG channel are funcs — no codec keeps them). A resume
	// therefore loads the state INTO the built channels and never puts a decoded channel in their place.
	{
		lc := w.Fn("compose", "channelManager.loadChannels")
		fCh := w.Field("compose", "channelManager", "channels")
		replaced := token.NoPos
		for _, fw := range fieldWrites(lc) {
			if sameField(fw.field, fCh) {
				replaced = fw.in.Pos()
			}
		}
		loads := 0
		instrs(lc, func(in ssa.Instruction) {
			if invokeName(in) == "load" {
				loads++
			}
		})
		r.Check(replaced == token.NoPos && loads > 0, "C05.channel-state", "loadChannels loads the saved state into the built channels", lc.Pos(), "built channel .load(saved channel); channelManager.channels itself is not written", "loadChannels writes channelManager.channels (a decoded channel takes the place of the built one) or no longer calls load: the decoded DAG channel lacks the zero-value / empty-stream producers the builder installs, so the first node of the resumed run that becomes ready without a data value (control-only dependency, skipped data sources, data-less branch target) panics on a nil func")
	}

	// ---- convert-restore-order
	r.Rule("C05.convert-restore-order", "convert before set/return at save sites; restoreCheckPoint -> loadChannels -> restoreTasks on both restore arms", 4)
	conv := w.Fn("compose", "checkPointer.convertCheckPoint")
	set := w.Fn("compose", "checkPointer.set")
	for _, h := range []*ssa.Function{hInt, hSub} {
		cs := callsTo(h, conv)
		good := len(cs) == 1
		if good {
			for _, s := range callsTo(h, set) {
				if !instrDominates(cs[0], s) {
					good = false
				}
			}
			// every non-error return (interrupt errors) after conversion
			instrs(h, func(in ssa.Instruction) {
				ret, ok := in.(*ssa.Return)
				if !ok {
					return
				}
				if mi, ok := ret.Results[0].(*ssa.MakeInterface); ok {
					nn := namedOf(mi.X.Type())
					if nn != nil && strings.Contains(nn.Obj().Name(), "nterruptError") && !instrDominates(cs[0], ret) {
						good = false
					}
				}
			})
		}
		r.Check(good, "C05.convert-restore-order", h.Name()+": streams converted before the checkpoint leaves", h.Pos(), "convertCheckPoint dominates set and the interrupt returns", "checkpoint stored/returned with live streams inside")
	}
	rcp := w.Fn("compose", "checkPointer.restoreCheckPoint")
	lch := w.Fn("compose", "channelManager.loadChannels")
	rcs, lcs, rts := callsTo(run, rcp), callsTo(run, lch), callsTo(run, restoreTasks)
	good := len(rcs) == 2 && len(lcs) == 2 && len(rts) == 2
	if good {
		for i := 0; i < 2; i++ {
			// pair by dominance
			found := false
			for _, a := range rcs {
				for _, b := range lcs {
					if instrDominates(a, b) && instrDominates(b, rts[i]) {
						found = true
					}
				}
			}
			if !found {
				good = false
			}
		}
	}
	r.Check(good, "C05.convert-restore-order", "runner.run: restore sequence on both arms", run.Pos(), "restoreCheckPoint -> loadChannels -> restoreTasks (sub-graph arm and store arm)", "a restore arm is missing a step or runs them out of order")
	// restored tasks are what the loop submits first: restoreTasks result flows into the submit argument
	{
		submit := w.Fn("compose", "taskManager.submit")
		okf := false
		for _, s := range callsTo(run, submit) {
			for _, rt := range rts {
				if e := extractOf(rt, 0); e != nil && flowsTo(e, s.Common().Args[1]) {
					okf = true
				}
			}
		}
		r.Check(okf, "C05.convert-restore-order", "runner.run: restored tasks are submitted", run.Pos(), "restoreTasks result reaches submit", "pending tasks rebuilt from the checkpoint are never submitted")
	}

	// ---- wait-all-before-save
	r.Rule("C05.wait-all-before-save", "interrupt handlers after a submit are dominated by waitAll; the sub-graph/rerun handler gets first batch + drained batch", 3)
	submit := w.Fn("compose", "taskManager.submit")
	waitAll := w.Fn("compose", "taskManager.waitAll")
	subs := callsTo(run, submit)
	was := callsTo(run, waitAll)
	for _, h := range []*ssa.Function{hInt, hSub} {
		for i, c := range callsTo(run, h) {
			afterSubmit := false
			for _, s := range subs {
				if instrDominates(s, c) {
					afterSubmit = true
				}
			}
			construct := fmt.Sprintf("runner.run -> %s #%d", h.Name(), i+1)
			if !afterSubmit {
				r.OK("C05.wait-all-before-save", construct, c.Pos(), "before any submit (bootstrap): nothing is running")
				continue
			}
			dom := false
			var domWA ssa.CallInstruction
			for _, wa := range was {
				if instrDominates(wa, c) {
					dom = true
					domWA = wa
				}
			}
			r.Check(dom, "C05.wait-all-before-save", construct+" after waitAll", c.Pos(), "all running tasks are collected before the checkpoint is assembled", "a checkpoint is assembled while tasks are still running (their results are lost)")
			_ = domWA
		}
	}
	completedOnce(w, r, "C05.wait-all-before-save")

	// the non-interrupted completed tasks are folded into the channels (values AND dependencies) before the checkpoint is built
	{
		uvF := w.Fn("compose", "channelManager.updateValues")
		udF := w.Fn("compose", "channelManager.updateDependencies")
		var cpAlloc ssa.Instruction
		instrs(hSub, func(in ssa.Instruction) {
			if al, ok := in.(*ssa.Alloc); ok && al.Heap && namedOf(al.Type()) == cpT {
				cpAlloc = al
			}
		})
		good := cpAlloc != nil
		wit := ""
		if good {
			for _, f := range []*ssa.Function{uvF, udF} {
				skip, wt := pathQuery{fn: hSub, goal: func(in ssa.Instruction) bool { return in == cpAlloc }, avoid: func(in ssa.Instruction) bool { return isCallTo(in, f) }}.exists()
				if skip {
					good, wit = false, f.Name()+" skipped: "+wt
				}
			}
		}
		r.Check(good, "C05.wait-all-before-save", hSub.Name()+" folds completed siblings into the channels unconditionally", hSub.Pos(), "updateValues and updateDependencies lie on every path to the checkpoint", "completed sibling tasks are not always folded into the checkpoint (e.g. control-only successors lose their trigger): "+wit)
	}

	// ---- skip-prehandler
	r.Rule("C05.skip-prehandler", "task.skipPreHandler written only in restoreTasks from the checkpoint; submit skips the pre-handler only under it", 2)
	fSkip := taskSkipFlag(w)
	if fSkip == nil {
		r.Fail("C05.skip-prehandler", "the skip mark restored from the checkpoint belongs to the restored task", restoreTasks.Pos(), "restoreTasks sets no bool field of the task it builds from the checkpoint's skip table: the mark lives somewhere keyed by node (a table on the task manager, the runner …) and so applies to EVERY later execution of that node in the resumed run — a nested graph inside a loop has its state pre-handler skipped on each later iteration, not only on the resumed one")
		fSkip = types.NewField(token.NoPos, nil, "<no per-task skip flag>", types.Typ[types.Bool], false)
	}
	nw := 0
	for _, fn := range w.RepoFuncs("compose") {
		for _, fw := range fieldWrites(fn) {
			if !sameField(fw.field, fSkip) {
				continue
			}
			nw++
			fromParam := false
			if lk, ok := fw.val.(*ssa.Lookup); ok {
				if p, ok := lk.X.(*ssa.Parameter); ok && p.Parent() == restoreTasks {
					fromParam = true
				}
			}
			r.Check(topFunc(fn) == restoreTasks && fromParam, "C05.skip-prehandler", "skipPreHandler written in "+w.fname(fn), fw.in.Pos(), "from the checkpoint's SkipPreHandler table in restoreTasks", "skipPreHandler is set outside the resume path (a node's pre-handler would be skipped in a normal run)")
		}
	}
	if nw == 0 {
		r.Fail("C05.skip-prehandler", "skipPreHandler written", restoreTasks.Pos(), "the flag is never set: resumed sub-graphs run their pre-handler a second time")
	}
	{
		// in submit the pre-processor call is guarded by !skipPreHandler and preProcessor != nil only
		fPre := w.Field("compose", "chanCall", "preProcessor")
		okg := false
		instrs(submit, func(in ssa.Instruction) {
			c, ok := in.(*ssa.Call)
			if !ok || len(c.Call.Args) < 2 || !isLoadOfField(c.Call.Args[1], fPre) {
				return
			}
			g1 := hasGuard(c.Block(), func(g guard) bool { return isLoadOfField(g.cond, fSkip) && !g.pol })
			g2 := hasGuard(c.Block(), func(g guard) bool { return guardNonNil(g, func(v ssa.Value) bool { return isLoadOfField(v, fPre) }) })
			okg = g1 && g2
		})
		r.Check(okg, "C05.skip-prehandler", "submit: pre-handler skipped only for resumed sub-graph tasks", submit.Pos(), "guarded by preProcessor != nil && !skipPreHandler", "pre-handler guard changed")
	}
	// the rerun/sub-graph handler marks exactly the sub-graph tasks
	skipMarkOnlySubGraphs(w, r, "C05.skip-prehandler")

	// ---- task contexts are built from the run's context, never from the previous task's
	r.Rule("C05.task-context-per-task", "the context a task is given (node key, forwarded checkpoint) is derived from the context of the run, not from a value carried round the loop that creates the tasks: a later task must not inherit the node path and the nested checkpoint of the task created before it", 2)
	{
		n := 0
		for _, name := range []string{"runner.restoreTasks", "runner.createTasks"} {
			fn := w.Fn("compose", name)
			headers := map[*ssa.BasicBlock]bool{}
			for _, li := range naturalLoops(fn) {
				headers[li.header] = true
			}
			instrs(fn, func(in ssa.Instruction) {
				c, ok := in.(*ssa.Call)
				if !ok {
					return
				}
				sc := staticCallee(c)
				if sc == nil || !(sc.Name() == "setNodeKey" || sc.Name() == "forwardCheckPoint" || sc.Name() == "clearNodeKey") {
					return
				}
				n++
				carried := false
				seen := map[ssa.Value]bool{}
				var walk func(v ssa.Value, d int)
				walk = func(v ssa.Value, d int) {
					if v == nil || d > 8 || seen[v] {
						return
					}
					seen[v] = true
					switch x := v.(type) {
					case *ssa.Phi:
						if headers[x.Block()] {
							carried = true
						}
						for _, e := range x.Edges {
							walk(e, d+1)
						}
					case *ssa.Call:
						if len(x.Call.Args) > 0 && x.Call.Args[0].Type().String() == "context.Context" {
							walk(x.Call.Args[0], d+1)
						}
					case *ssa.UnOp:
						if al, ok := x.X.(*ssa.Alloc); ok {
							// a local cell: carried if it is stored to inside a loop and allocated outside it
							for _, cell := range loopCarriedCells(fn) {
								if cell == al {
									carried = true
								}
							}
						}
					}
				}
				walk(c.Call.Args[0], 0)
				r.Check(!carried, "C05.task-context-per-task", fmt.Sprintf("%s: %s call #%d starts from the run's context", w.fname(fn), sc.Name(), n), c.Pos(), "the context argument is not carried round the task loop", "the context handed on is the one built for the previous task of the loop: the second and later restored tasks get the previous task's node path and look for their nested checkpoint under it — an interrupted nested graph that is not first in map order finds none, restarts from scratch on its zero input and re-executes its completed nodes")
			})
		}
		if n < 2 {
			r.Deferred = append(r.Deferred, fmt.Sprintf("C05.task-context-per-task: only %d setNodeKey / forwardCheckPoint calls found", n))
		}
	}

	// ---- nested-once
	r.Rule("C05.nested-once", "forwardCheckPoint only from restoreTasks; fresh tasks carry a cleared checkpoint", 2)
	for _, c := range w.staticCallers(fwd) {
		top := topFunc(c.Parent())
		r.Check(top == restoreTasks, "C05.nested-once", "forwardCheckPoint called from "+w.fname(top), c.Pos(), "resume path only", "a nested checkpoint is handed to a task that is not being resumed: a later execution of the node restarts from the old checkpoint instead of starting fresh")
	}
	fCtx := w.Field("compose", "task", "ctx")
	taskT := w.Named("compose", "task")
	okc := false
	instrs(createTasks, func(in ssa.Instruction) {
		st, ok := in.(*ssa.Store)
		if !ok {
			return
		}
		fa, ok := st.Addr.(*ssa.FieldAddr)
		if !ok || !sameField(fieldVarOfAddr(fa), fCtx) || namedOf(fa.X.Type()) != taskT {
			return
		}
		if c, ok := st.Val.(*ssa.Call); ok && clr != nil && isCallTo(c, clr) {
			okc = true
		}
	})
	r.Check(okc, "C05.nested-once", "createTasks: fresh task context has the checkpoint cleared", createTasks.Pos(), "ctx: clearCheckPoint(...)", "freshly scheduled nodes inherit the run's checkpoint: a nested graph executed again later resumes from the stale nested checkpoint")
	// clearCheckPoint really clears: returns ctx unchanged only when no checkpoint, else WithValue(checkPointKey, nil)
	if clr != nil {
		okk := false
		instrs(clr, func(in ssa.Instruction) {
			if c, ok := in.(*ssa.Call); ok && calleeFullName(c) == "context.WithValue" {
				if mi, ok := c.Call.Args[2].(*ssa.MakeInterface); ok && isNilConst(mi.X) {
					okk = true
				}
			}
		})
		r.Check(okk, "C05.nested-once", "clearCheckPoint stores a nil checkpoint", clr.Pos(), "context.WithValue(ctx, checkPointKey{}, nil)", "clearCheckPoint does not clear")
	}
	clearCheckPointExact(w, r, "C05.nested-once")
}

// clearCheckPointExact: clearCheckPoint hands its context back unchanged only when that context carries no checkpoint
// at all (getCheckPointFromCtx(ctx) == nil dominates the return) — under any weaker condition a freshly scheduled
// nested graph finds the enclosing graph's checkpoint in its context and restores itself from it.
func clearCheckPointExact(w *World, r *Report, rule string) {
	clr := w.TryFn("compose", "clearCheckPoint")
	if clr == nil {
		// the subject of the rule is gone: that is the violation (freshly scheduled nodes have no clearing step), not a lost anchor
		r.Fail(rule, "the checkpoint is cleared for freshly scheduled nodes", w.Fn("compose", "runner.createTasks").Pos(), "clearCheckPoint no longer exists: createTasks cannot hand a freshly scheduled node a context without the checkpoint the run was resumed from — a nested graph scheduled again later in a resumed run restarts from the stale nested checkpoint, reuses the finished execution's state and ignores its new input")
		return
	}
	get := w.Fn("compose", "getCheckPointFromCtx")
	n := 0
	instrs(clr, func(in ssa.Instruction) {
		ret, ok := in.(*ssa.Return)
		if !ok || len(ret.Results) != 1 || len(clr.Params) == 0 || ret.Results[0] != ssa.Value(clr.Params[0]) {
			return
		}
		n++
		exact := hasGuard(ret.Block(), func(g guard) bool {
			return guardIsNil(g, func(v ssa.Value) bool { c, ok := v.(*ssa.Call); return ok && isCallTo(c, get) })
		})
		r.Check(exact, rule, fmt.Sprintf("clearCheckPoint: unchanged-context return #%d", n), ret.Pos(), "only under getCheckPointFromCtx(ctx) == nil", "the context is handed back with a checkpoint still in it under some other condition: a nested graph scheduled for the first time in a resumed run restores from the enclosing graph's checkpoint — it skips its START and its interrupt-before gate (a configured node runs without ever being reported) or fails with 'channel … from checkpoint is not registered'")
	})
	for _, p := range clr.Blocks {
		_ = p
	}
	if n == 0 {
		r.Info(rule, "clearCheckPoint: no unchanged-context return", clr.Pos(), "the function always installs a nil checkpoint")
	}
}

// streamPairsSetChecks: NEVER-WRITTEN applied to the function-bearing fields of package compose, armed for
// the fields whose value reaches newCheckPointer's pair tables (checked by type: streamConvertPair), info for
// the rest.
func streamPairsSetChecks(w *World, r *Report, rule string) {
	scp := w.Named("compose", "streamConvertPair")
	nw := neverWrittenFields(w, "compose")
	bad := map[*types.Var]bool{}
	for _, u := range nw {
		if !containsFunc(u.field.Type(), 0) {
			continue
		}
		construct := u.owner.Obj().Name() + "." + u.field.Name() + " is read but never written"
		if namedOf(u.field.Type()) == scp {
			bad[u.field] = true
			r.Fail(rule, construct, u.reads[0].Pos(), "the field always holds the zero streamConvertPair (nil concatStream / restoreStream) yet it is installed in the checkpointer's pair table: a Stream/Transform run that is interrupted while a value from that sender is pending in a channel panics (nil function call) instead of returning the interrupt and writing the checkpoint")
		} else {
			r.Info(rule, construct, u.reads[0].Pos(), "function-bearing field never written in package compose (not a checkpoint pair)")
		}
	}
	// every pair installed in the tables is accounted for
	gcompile := w.Fn("compose", "graph.compile")
	n := 0
	instrs(gcompile, func(in ssa.Instruction) {
		mu, ok := in.(*ssa.MapUpdate)
		if !ok || namedOf(mu.Value.Type()) != scp {
			return
		}
		n++
		f, _ := loadedField(mu.Value)
		if f == nil {
			r.Fail(rule, fmt.Sprintf("graph.compile pair table entry #%d", n), mu.Pos(), "the installed pair is not read from a field")
			return
		}
		if !bad[f.Origin()] {
			r.OK(rule, fmt.Sprintf("graph.compile installs %s (entry #%d)", f.Name(), n), mu.Pos(), "the field is written where the node / runner is built")
		}
	})
	if n < 4 {
		undecidedf("%s: %d pair-table entries in graph.compile (floor 4)", rule, n)
	}
	// each entry is on the right side: table of pending INPUTS (1st argument of newCheckPointer) gets a node's input pair
	// and, for END, the graph's OUTPUT pair (what END receives is the graph's output); the table of channel contents per
	// SENDER (2nd argument) gets a node's output pair and, for START, the graph's INPUT pair (what START sends)
	ncp := w.Fn("compose", "newCheckPointer")
	var inTable, outTable ssa.Value
	for _, c := range callsTo(gcompile, ncp) {
		inTable, outTable = c.Common().Args[0], c.Common().Args[1]
	}
	if inTable == nil {
		undecidedf("%s: newCheckPointer call not found in graph.compile", rule)
	}
	cSTART, cEND := constStringOf(w, "compose", "START"), constStringOf(w, "compose", "END")
	k := 0
	instrs(gcompile, func(in ssa.Instruction) {
		mu, ok := in.(*ssa.MapUpdate)
		if !ok || (mu.Map != inTable && mu.Map != outTable) {
			return
		}
		f, _ := loadedField(mu.Value)
		if f == nil {
			return
		}
		k++
		isInputTable := mu.Map == inTable
		wantInputPair := isInputTable
		who := "a node"
		if ks, ok := constString(mu.Key); ok {
			switch ks {
			case cEND:
				who = "END"
				wantInputPair = false
				if !isInputTable {
					r.Fail(rule, fmt.Sprintf("graph.compile pair table side of entry #%d", k), mu.Pos(), "END is registered as a sender")
					return
				}
			case cSTART:
				who = "START"
				wantInputPair = true
				if isInputTable {
					r.Fail(rule, fmt.Sprintf("graph.compile pair table side of entry #%d", k), mu.Pos(), "START is registered as a receiver of pending inputs")
					return
				}
			}
		}
		gotInput := strings.HasPrefix(f.Name(), "input")
		table := map[bool]string{true: "pending inputs (by receiver)", false: "channel contents (by sender)"}[isInputTable]
		r.Check(gotInput == wantInputPair, rule, fmt.Sprintf("graph.compile pair table side of entry #%d (%s, table of %s)", k, who, table), mu.Pos(), "installs "+f.Name(), fmt.Sprintf("installs %s for %s in the table of %s: a value of the other type is parked there, so a Stream/Transform run interrupted while it is pending fails with 'cannot convert sr to streamReader[T]' instead of returning the interrupt (no checkpoint written), and a resume under another paradigm fails to restore", f.Name(), who, table))
	})
	if k < 4 {
		undecidedf("%s: %d pair-table entries with a field source (floor 4)", rule, k)
	}
}

// pairTableTypingCheck decides three structural facts and reports their conjunction:
//
//	(1) graph.compile fills the table for channel contents (2nd argument of newCheckPointer) per SENDER from the
//	    sender's own outputStreamConvertPair;
//	(2) channelManager.updateValues stores into the channel what edgeHandlerManager.handle returned;
//	(3) an edge handler installed in graph.handlerOnEdges packs its stream form with a fixed chunk type
//	    (streamFieldMap: map[string]any) whatever the sender's type.
//
// Together: for a field-mapped edge the pending stream is a stream of map[string]any while the pair expects the
// sender's type; convertCheckPoint fails ("cannot convert sr to streamReader[T]") and the interrupt is lost.
func pairTableTypingCheck(w *World, r *Report, rule string) {
	gcompile := w.Fn("compose", "graph.compile")
	ncp := w.Fn("compose", "newCheckPointer")
	// (1)
	var table ssa.Value
	for _, c := range callsTo(gcompile, ncp) {
		table = c.Common().Args[1]
	}
	if table == nil {
		undecidedf("%s: newCheckPointer call not found in graph.compile", rule)
	}
	perSender := false
	var at ssa.Instruction
	instrs(gcompile, func(in ssa.Instruction) {
		mu, ok := in.(*ssa.MapUpdate)
		if !ok || mu.Map != table {
			return
		}
		if f, _ := loadedField(mu.Value); f != nil && f.Name() == "outputStreamConvertPair" {
			// keyed by the ranged node key itself
			if e, ok := mu.Key.(*ssa.Extract); ok {
				if _, isNext := e.Tuple.(*ssa.Next); isNext {
					perSender, at = true, in
				}
			}
		}
	})
	// (2)
	uv := w.Fn("compose", "channelManager.updateValues")
	ehh := w.Fn("compose", "edgeHandlerManager.handle")
	storesHandled := false
	for _, c := range callsTo(uv, ehh) {
		e := extractOf(c, 0)
		if e == nil {
			continue
		}
		for _, ref := range *e.Referrers() {
			if mu, ok := ref.(*ssa.MapUpdate); ok && mu.Value == ssa.Value(e) {
				// the map is what reportValues receives
				instrs(uv, func(in ssa.Instruction) {
					if invokeName(in) == "reportValues" && in.(ssa.CallInstruction).Common().Args[0] == mu.Map {
						storesHandled = true
					}
				})
			}
		}
	}
	// (3)
	sfm := w.Fn("compose", "streamFieldMap")
	retypes := ""
	if len(sfm.AnonFuncs) == 1 {
		instrs(sfm.AnonFuncs[0], func(in ssa.Instruction) {
			c, ok := in.(*ssa.Call)
			if !ok {
				return
			}
			if f, ok := c.Call.Value.(*ssa.Function); ok && origin(f) == w.Fn("compose", "packStreamReader") && len(f.TypeArgs()) == 1 {
				if _, isTP := f.TypeArgs()[0].(*types.TypeParam); !isTP {
					retypes = f.TypeArgs()[0].String()
				}
			}
		})
	}
	installed := false
	fHOE := w.Field("compose", "graph", "handlerOnEdges")
	for _, fn := range w.RepoFuncs("compose") {
		if len(callsTo(fn, sfm)) == 0 {
			continue
		}
		for _, fw := range fieldWrites(fn) {
			if sameField(fw.field, fHOE) {
				installed = true
			}
		}
	}
	// (4) … unless the conversion is told which receiver's channel it is working on and compile hands the checkpointer
	// the set of (receiver, sender) edges that carry field mappings: then the pair is chosen per edge
	perEdge := false
	{
		fChannels := w.Field("compose", "checkpoint", "Channels")
		fRecords := w.Field("compose", "graph", "fieldMappingRecords")
		keyed := 0
		for _, name := range []string{"checkPointer.convertCheckPoint", "checkPointer.restoreCheckPoint"} {
			fn := w.Fn("compose", name)
			instrs(fn, func(in ssa.Instruction) {
				mc, ok := in.(*ssa.MakeClosure)
				if !ok {
					return
				}
				for _, b := range mc.Bindings {
					v := b
					if al, ok := b.(*ssa.Alloc); ok {
						for _, ref := range *al.Referrers() {
							if st, ok := ref.(*ssa.Store); ok && st.Addr == ssa.Value(al) {
								v = st.Val
							}
						}
					}
					if ex, ok := v.(*ssa.Extract); ok && ex.Index == 1 {
						if nx, ok := ex.Tuple.(*ssa.Next); ok {
							if rg, ok := nx.Iter.(*ssa.Range); ok && isLoadOfField(rg.X, fChannels) {
								keyed++
							}
						}
					}
				}
			})
		}
		edgeTable := false
		for _, c := range callsTo(gcompile, ncp) {
			for _, a := range c.Common().Args {
				mk, ok := a.(*ssa.MakeMap)
				if !ok {
					continue
				}
				// filled (directly or through its inner maps) inside a loop ranging over g.fieldMappingRecords
				for _, li := range naturalLoops(gcompile) {
					overRecords := false
					for _, in := range li.header.Instrs {
						if nx, ok := in.(*ssa.Next); ok {
							if rg, ok := nx.Iter.(*ssa.Range); ok && isLoadOfField(rg.X, fRecords) {
								overRecords = true
							}
						}
					}
					if !overRecords {
						continue
					}
					for b := range li.body {
						for _, in := range b.Instrs {
							if mu, ok := in.(*ssa.MapUpdate); ok && mu.Map == ssa.Value(mk) {
								edgeTable = true
							}
						}
					}
				}
			}
		}
		perEdge = keyed >= 2 && edgeTable
	}
	construct := "graph.compile: pair table for channel contents typed per sender; field-mapping edge handlers retype the stored stream"
	if perSender && storesHandled && retypes != "" && installed && !perEdge {
		r.Fail(rule, construct, at.Pos(), fmt.Sprintf("channel contents are converted for the checkpoint with the SENDER's outputStreamConvertPair, but channels hold what the edge handlers returned, and streamFieldMap retypes the stream to %s: a Stream/Transform run interrupted while a field-mapped value is pending fails with 'failed to convert checkpoint: cannot convert sr to streamReader[T]' — the interrupt is not reported and no checkpoint is written", retypes))
		return
	}
	r.OK(rule, construct, gcompile.Pos(), fmt.Sprintf("not all of: per-sender table=%v, channels store handler results=%v, retyping handler=%q installed=%v, no per-edge choice=%v", perSender, storesHandled, retypes, installed, !perEdge))
}

// completedOnce: in runner.run every batch of completed tasks (a result of taskManager.wait / waitAll) is resolved
// exactly once. For each call H of the sub-graph/rerun interrupt handler and each batch L collected before it:
// L is part of H's completeTasks argument iff no calculateNextTasks call that dominates H already consumed L
// (resolving a batch twice re-evaluates branches and overwrites the freshly reset channels with a partial set of
// values; not resolving it loses it). The tasks such a calculateNextTasks call computed must reach H as well.
func completedOnce(w *World, r *Report, rule string) {
	run := w.Fn("compose", "runner.run")
	hSub := w.Fn("compose", "runner.handleInterruptWithSubGraphAndRerunNodes")
	cnt := w.Fn("compose", "runner.calculateNextTasks")
	wait := w.Fn("compose", "taskManager.wait")
	waitAll := w.Fn("compose", "taskManager.waitAll")
	ci := paramIndex(hSub, "completeTasks")
	cti := paramIndex(cnt, "completedTasks")
	type batch struct {
		call ssa.CallInstruction
		val  ssa.Value
		name string
	}
	var batches []batch
	for i, c := range callsTo(run, wait) {
		if e := extractOf(c, 0); e != nil {
			batches = append(batches, batch{c, e, fmt.Sprintf("wait #%d", i+1)})
		}
	}
	for i, c := range callsTo(run, waitAll) {
		if e := extractOf(c, 0); e != nil {
			batches = append(batches, batch{c, e, fmt.Sprintf("waitAll #%d", i+1)})
		}
	}
	n := 0
	for hi, h := range callsTo(run, hSub) {
		arg := h.Common().Args[ci]
		for _, b := range batches {
			if !instrDominates(b.call, h) {
				continue
			}
			n++
			consumedBy := -1
			for k, c := range callsTo(run, cnt) {
				if instrDominates(c, h) && derivesFrom(c.Common().Args[cti], b.val) {
					consumedBy = k + 1
				}
			}
			given := derivesFrom(arg, b.val)
			construct := fmt.Sprintf("runner.run: sub-graph/rerun interrupt #%d and the batch of %s", hi+1, b.name)
			switch {
			case consumedBy < 0 && given:
				r.OK(rule, construct, h.Pos(), "not yet resolved: handed to the handler")
			case consumedBy > 0 && !given:
				r.OK(rule, construct, h.Pos(), fmt.Sprintf("already resolved by calculateNextTasks #%d: not handed to the handler again", consumedBy))
			case consumedBy < 0 && !given:
				r.Fail(rule, construct, h.Pos(), "a batch of completed tasks is neither resolved by calculateNextTasks nor handed to the interrupt handler: their outputs and their successors are lost on resume")
			default:
				r.Fail(rule, construct, h.Pos(), fmt.Sprintf("the batch was already resolved by calculateNextTasks #%d (values written, ready successors taken out of their channels, channels reset) and is handed to the interrupt handler again: it is resolved a second time into the reset channels — a joined successor keeps only part of its inputs and the resumed run ends with 'no tasks to execute' (eager mode, depends on completion order)", consumedBy))
			}
		}
		// tasks computed before this interrupt are saved
		for k, c := range callsTo(run, cnt) {
			if !instrDominates(c, h) {
				continue
			}
			n++
			e := extractOf(c, 0)
			kept := false
			if e != nil {
				for _, a := range h.Common().Args {
					if derivesFrom(a, e) {
						kept = true
					}
				}
			}
			r.Check(kept, rule, fmt.Sprintf("runner.run: sub-graph/rerun interrupt #%d keeps the tasks of calculateNextTasks #%d", hi+1, k+1), h.Pos(), "the computed tasks are handed to the handler (saved as pending inputs)",
				"the tasks computed by a calculateNextTasks call before this interrupt are dropped: their inputs were already taken out of the channels and are in neither the checkpoint's channels nor its pending inputs")
		}
	}
	if n < 3 {
		undecidedf("%s: only %d (batch / computed tasks, handler call) pairs in run (floor 3)", rule, n)
	}
}

// skipMarkOnlySubGraphs: in handleInterruptWithSubGraphAndRerunNodes a SkipPreHandler mark is set only under membership
// of the task's node in subGraphInterrupts (shared by C05 and C11).
func skipMarkOnlySubGraphs(w *World, r *Report, rule string) {
	hSub := w.Fn("compose", "runner.handleInterruptWithSubGraphAndRerunNodes")

	okm := false
	sgi := hSub.Params[paramIndex(hSub, "subGraphInterrupts")]
	instrs(hSub, func(in ssa.Instruction) {
		if mu, ok := in.(*ssa.MapUpdate); ok {
			if b, ok := constBool(mu.Value); ok && b {
				if hasGuard(mu.Block(), func(g guard) bool {
					e, ok := g.cond.(*ssa.Extract)
					if !ok || !g.pol {
						return false
					}
					lk, ok := e.Tuple.(*ssa.Lookup)
					return ok && lk.CommaOk && lk.X == ssa.Value(sgi)
				}) {
					okm = true
					// … under that membership alone: a further condition (the task's own flag, a counter) loses the mark on
					// the second interrupt of the same nested graph
					isMember := func(g guard) bool {
						e, ok := g.cond.(*ssa.Extract)
						if !ok {
							return false
						}
						lk, ok := e.Tuple.(*ssa.Lookup)
						return ok && lk.CommaOk && lk.X == ssa.Value(sgi)
					}
					extra := extraGuards(mu.Block(), isMember, guardIsLoopCond(hSub))
					r.Check(len(extra) == 0, rule, hSub.Name()+": the skip mark depends on sub-graph membership only", mu.Pos(), "no further condition", fmt.Sprintf("the mark is set only under %v as well: a nested graph that interrupts a second time before finishing is saved without the mark (its task was restored with the flag set), so the next resume runs the node's state pre-handler again and its state updates are applied twice", extra))
				} else {
					r.Fail(rule, hSub.Name()+": skip mark outside the sub-graph arm", mu.Pos(), "a node that is not an interrupted sub-graph (e.g. a rerun node, whose pre-handler must rebuild its input from state) is marked to skip its pre-handler")
				}
			}
		}
	})
	r.Check(okm, rule, hSub.Name()+": only interrupted sub-graphs skip their pre-handler", hSub.Pos(), "SkipPreHandler[key] = true under membership in subGraphInterrupts", "rerun nodes / other nodes are marked to skip their pre-handler")
}

// taskSkipFlag: the bool field of compose.task that restoreTasks fills from the checkpoint's skip table (a lookup in
// its map[string]bool parameter) — identified by what is done with it, not by its name. nil when there is none.
func taskSkipFlag(w *World) *types.Var {
	rt := w.Fn("compose", "runner.restoreTasks")
	taskT := w.Named("compose", "task")
	for _, fw := range fieldWrites(rt) {
		if fw.owner != taskT {
			continue
		}
		if b, ok := fw.field.Type().Underlying().(*types.Basic); !ok || b.Kind() != types.Bool {
			continue
		}
		if lk, ok := fw.val.(*ssa.Lookup); ok {
			if p, ok := lk.X.(*ssa.Parameter); ok && p.Parent() == rt {
				return fw.field
			}
		}
	}
	return nil
}
