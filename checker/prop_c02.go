package main

import (
	"fmt"
	"go/token"
	"go/types"
	"strings"

	"golang.org/x/tools/go/ssa"
)

func init() {
	register(&propDef{
		id: "C02",
		explanation: "Static clauses of 'all-predecessor (DAG/Workflow) nodes run at most once, exactly when triggered': " +
			"(ready-guards) dagChannel.get reports ready only when not skipped, after scanning all control predecessors (none waiting) and all data predecessors (all reported); every ready return resets values and both predecessor tables (reset-on-fire + acyclicity = at most once); " +
			"(cycle-gate) DAG mode is enabled only after validateDAG, whose error blocks compile, and exactly when the DAG channel builder is selected; " +
			"(skip-report) every non-error return of calculateBranch reports the unselected targets; reportBranch propagates skips transitively over the full successor table; " +
			"(successors-complete) the successor table used for skip propagation contains data edges, control edges and branch targets; " +
			"(filter) values are forwarded only for declared data predecessors, dependencies only for declared control predecessors, unknown target channels are errors; " +
			"(workflow-flags) the three dependency kinds of a Workflow are lowered with the matching (noControl,noData) flags and Workflow branches carry no data.",
		decided:    []string{"ready-guards", "cycle-gate", "skip-report", "successors-complete", "filter", "workflow-flags", "skip-survives", "ready-poll-all"},
		notDecided: []string{"correctness of the skip bookkeeping over all shapes x branch outcomes", "merge semantics of the assembled input", "user branch conditions"},
		run:        runC02,
	})
}

func runC02(w *World, r *Report) {
	dagT := w.Named("compose", "dagChannel")
	get := methodOf(w, dagT, "get")
	// the skip flag: located by type and role (the only bool field of dagChannel), so that a rename is reported by a
	// rule instead of breaking the anchor
	var fSkipped *types.Var
	{
		st := dagT.Underlying().(*types.Struct)
		for i := 0; i < st.NumFields(); i++ {
			if b, ok := st.Field(i).Type().Underlying().(*types.Basic); ok && b.Kind() == types.Bool {
				fSkipped = st.Field(i)
			}
		}
		if fSkipped == nil {
			undecidedf("C02: dagChannel has no bool field (skip flag)")
		}
	}
	r.Rule("C02.skip-survives", "the skip flag of a DAG channel is part of what a checkpoint keeps (exported field): a skipped node stays skipped after a resume", 1)
	r.Check(fSkipped.Exported(), "C02.skip-survives", "dagChannel."+fSkipped.Name()+" is exported", fSkipped.Pos(), "persisted by the byte store", "the skip flag is an unexported field: the serializer drops it, so after an interrupt + resume the channels that were marked skipped are ready again — branch-skipped nodes and their successors execute with zero input")
	r.Rule("C02.triggered-tasks-kept", "a node whose channel reported ready (its task was computed, its inputs taken out of the channel) is started or handed to the interrupt handler — never dropped: a triggered node executes (shared with C03 / C05)", 2)
	computedTasksKept(w, r, "C02.triggered-tasks-kept")
	r.Rule("C02.ready-poll-all", "every channel is asked for readiness in every round (a DAG channel also becomes ready through a skip report, without being written to) — shared with C03", 1)
	pollAllCheck(w, r, "C02.ready-poll-all")
	fCP := w.Field("compose", "dagChannel", "ControlPredecessors")
	fDP := w.Field("compose", "dagChannel", "DataPredecessors")

	// ---- ready-guards
	r.Rule("C02.ready-guards", "dagChannel.get: ready only if !Skipped, no control predecessor waiting, every data predecessor reported; ready returns reset all bookkeeping", 8)
	var ready []*ssa.Return
	instrs(get, func(in ssa.Instruction) {
		if ret, ok := in.(*ssa.Return); ok && ret.Block() != get.Recover {
			if b, ok := constBool(returnedValue(ret, 1)); !ok || b {
				ready = append(ready, ret)
			}
		}
	})
	if len(ready) < 2 {
		undecidedf("C02.ready-guards: %d ready returns in dagChannel.get (floor 2)", len(ready))
	}
	isReady := func(in ssa.Instruction) bool {
		for _, x := range ready {
			if ssa.Instruction(x) == in {
				return true
			}
		}
		return false
	}
	// (a) Skipped test: the Skipped==true arm cannot reach a ready return, and the test is on every path
	foundSk := false
	instrs(get, func(in ssa.Instruction) {
		iff, ok := in.(*ssa.If)
		if !ok || !isLoadOfField(iff.Cond, fSkipped) {
			return
		}
		foundSk = true
		reach, _ := pathFromBlock(pathQuery{fn: get, goal: isReady}, iff.Block().Succs[0])
		skip, _ := pathQuery{fn: get, goal: isReady, avoid: func(i ssa.Instruction) bool { return i == ssa.Instruction(iff) }}.exists()
		r.Check(!reach && !skip, "C02.ready-guards", "dagChannel.get: skipped channel never ready", iff.Pos(), "Skipped arm returns not-ready; tested on every path", "a skipped node can be reported ready")
	})
	if !foundSk {
		r.Fail("C02.ready-guards", "dagChannel.get: skipped channel never ready", get.Pos(), "no test of Skipped in get")
	}
	// (b)/(c) scans
	waiting := constValOf(w, "compose", "dependencyStateWaiting")
	scan := func(name string, f interface{ Name() string }, isBlocker func(iff *ssa.If, elem ssa.Value) (int, bool)) {
		var rg *ssa.Range
		instrs(get, func(in ssa.Instruction) {
			if x, ok := in.(*ssa.Range); ok {
				if lf, _ := loadedField(x.X); lf != nil && lf.Name() == f.Name() {
					rg = x
				}
			}
		})
		if rg == nil {
			r.Fail("C02.ready-guards", "dagChannel.get: scan of "+name, get.Pos(), "no range over "+name+": readiness ignores these predecessors")
			return
		}
		skip, wit := pathQuery{fn: get, goal: isReady, avoid: func(i ssa.Instruction) bool { return i == ssa.Instruction(rg) }}.exists()
		// the blocking element test: its blocking arm cannot reach a ready return
		blocked := false
		instrs(get, func(in ssa.Instruction) {
			iff, ok := in.(*ssa.If)
			if !ok {
				return
			}
			// element value: extract #2 of next over rg
			var elem ssa.Value
			instrs(get, func(i2 ssa.Instruction) {
				if e, ok := i2.(*ssa.Extract); ok && e.Index == 2 {
					if n, ok := e.Tuple.(*ssa.Next); ok && n.Iter == ssa.Value(rg) {
						elem = e
					}
				}
			})
			if elem == nil {
				return
			}
			arm, ok := isBlocker(iff, elem)
			if !ok {
				return
			}
			reach, _ := pathFromBlock(pathQuery{fn: get, goal: isReady}, iff.Block().Succs[arm])
			if !reach {
				blocked = true
			}
		})
		r.Check(!skip && blocked, "C02.ready-guards", "dagChannel.get: scan of "+name, rg.Pos(), "the scan lies on every path to a ready return and its blocking arm returns not-ready", "readiness does not wait for "+name+": "+wit)
	}
	scan("ControlPredecessors", fCP, func(iff *ssa.If, elem ssa.Value) (int, bool) {
		op, x, y, ok := asCmp(iff.Cond)
		if ok && x == elem && isConstN(y, waiting) {
			if op == token.EQL {
				return 0, true
			}
			if op == token.NEQ {
				return 1, true
			}
		}
		return 0, false
	})
	scan("DataPredecessors", fDP, func(iff *ssa.If, elem ssa.Value) (int, bool) {
		if iff.Cond == elem {
			return 1, true // !ready -> not-ready: false successor
		}
		return 0, false
	})
	// (d) reset on fire
	ruleClearOnRead(w, r, "C02.ready-guards")
	reportSkipExact(w, r, "C02.ready-guards")
	// "… and at least one of them actually routed to it": a channel without any predecessor (a node no edge, branch or
	// dependency leads to) has nothing that could route to it — the vacuous "nobody is waiting" must not make it ready
	{
		get := methodOf(w, dagT, "get")
		isEmptinessTest := func(in ssa.Instruction) bool {
			iff, ok := in.(*ssa.If)
			if !ok {
				return false
			}
			found := false
			var walk func(v ssa.Value, d int)
			walk = func(v ssa.Value, d int) {
				if d > 4 || v == nil {
					return
				}
				if isLenOf(v, func(x ssa.Value) bool { return isLoadOfField(x, fCP) }) {
					found = true
				}
				if b, ok := v.(*ssa.BinOp); ok {
					walk(b.X, d+1)
					walk(b.Y, d+1)
				}
			}
			walk(iff.Cond, 0)
			return found
		}
		readyRet := func(in ssa.Instruction) bool {
			ret, ok := in.(*ssa.Return)
			if !ok || len(ret.Results) != 3 {
				return false
			}
			c, ok := returnedValue(ret, 1).(*ssa.Const)
			return ok && c.Value != nil && c.Value.String() == "true"
		}
		vac, wit := pathQuery{fn: get, goal: readyRet, avoid: isEmptinessTest}.exists()
		r.Check(!vac, "C02.ready-guards", "dagChannel.get: a channel without predecessors is never ready", get.Pos(), "every ready return is preceded by the test of len(ControlPredecessors)", "a ready return is reachable without looking at whether the channel has any predecessor ("+wit+"): for a node nothing leads to, 'no control predecessor is waiting' and 'every data predecessor reported' hold vacuously on every poll — the node is scheduled again in every step (3 times in a 3-step DAG, a busy loop in an idle Workflow) although nothing ever routed to it")
	}

	// ---- cycle gate
	// ---- what a data predecessor reports is kept: the store into Values is reached for every reported key that is a
	// data predecessor of a channel that is not skipped — whatever the bookkeeping flag of that predecessor says (a skip
	// report sets the same flag to mean "do not wait for it")
	r.Rule("C02.reported-values-kept", "dagChannel.reportValues stores every value of a declared data predecessor (guards: the loop, the comma-ok of the DataPredecessors lookup, !Skipped — nothing else)", 1)
	{
		rv := w.Fn("compose", "dagChannel.reportValues")
		fValues := w.Field("compose", "dagChannel", "Values")
		loopCond := guardIsLoopCond(rv)
		n := 0
		instrs(rv, func(in ssa.Instruction) {
			mu, ok := in.(*ssa.MapUpdate)
			if !ok || !isLoadOfField(mu.Map, fValues) {
				return
			}
			n++
			isDeclared := func(g guard) bool {
				e, ok := g.cond.(*ssa.Extract)
				if !ok || e.Index != 1 {
					return false
				}
				lk, ok := e.Tuple.(*ssa.Lookup)
				return ok && lk.CommaOk && isLoadOfField(lk.X, fDP) && g.pol
			}
			extra := extraGuards(mu.Block(), loopCond, isDeclared, guardOnField(fSkipped))
			r.Check(len(extra) == 0, "C02.reported-values-kept", fmt.Sprintf("reportValues: store into Values #%d", n), mu.Pos(), "reached for every declared data predecessor of a live channel", "the reported value is kept only when "+strings.Join(extra, " && ")+": in the documented 'read data across a branch' pattern (a branch start node's output read through WithNoDirectDependency) the skip report of the start node's own branch arrives first and the node's output, delivered in the same step, is thrown away — the reader runs (another branch routes to it) with that input missing although the node ran")
		})
		if n == 0 {
			r.Fail("C02.reported-values-kept", "reportValues: store into Values", rv.Pos(), "no store into dagChannel.Values found")
		}
	}

	r.Rule("C02.cycle-gate", "runner.dag is set only after validateDAG (error blocks compile) and exactly when the DAG channel builder is selected", 2)
	gcompile := w.Fn("compose", "graph.compile")
	vdag := w.Fn("compose", "validateDAG")
	fdag := w.Field("compose", "runner", "dag")
	fCB := w.Field("compose", "runner", "chanBuilder")
	{
		vcalls := callsTo(gcompile, vdag)
		var dagStore, cbStore *ssa.Store
		instrs(gcompile, func(in ssa.Instruction) {
			if st, ok := in.(*ssa.Store); ok {
				if fa, ok := st.Addr.(*ssa.FieldAddr); ok {
					if sameField(fieldVarOfAddr(fa), fdag) {
						dagStore = st
					}
					if sameField(fieldVarOfAddr(fa), fCB) {
						cbStore = st
					}
				}
			}
		})
		good := len(vcalls) == 1 && dagStore != nil
		if good {
			reach, _ := pathQuery{fn: gcompile, goal: func(in ssa.Instruction) bool { return in == ssa.Instruction(dagStore) }, avoid: func(in ssa.Instruction) bool { return in == ssa.Instruction(vcalls[0]) }}.exists()
			good = !reach
		}
		r.Check(good, "C02.cycle-gate", "graph.compile: r.dag = true only after validateDAG", gcompile.Pos(), "validateDAG dominates the store", "all-predecessor mode enabled without cycle validation (a cyclic graph would deadlock / run forever without a step bound)")
		// builder selection and r.dag coincide: cb is phi(pregel, dag); the dag store is guarded by runType == runTypeDAG, runType phi has the DAG value on the same edges
		coincide := false
		if cbStore != nil && dagStore != nil {
			if cbPhi, ok := through(cbStore.Val).(*ssa.Phi); ok {
				dagB := w.Fn("compose", "dagChannelBuilder")
				for _, g := range guardsOf(dagStore.Block()) {
					op, x, _, ok := asCmp(g.cond)
					if !ok || op != token.EQL || !g.pol {
						continue
					}
					rtPhi, ok := x.(*ssa.Phi)
					if !ok || rtPhi.Block() != cbPhi.Block() || len(rtPhi.Edges) != len(cbPhi.Edges) {
						continue
					}
					same := true
					_, _, y, _ := asCmp(g.cond)
					for i := range cbPhi.Edges {
						isDagB := funcArgIs(cbPhi.Edges[i], dagB)
						isDagRT := constEq(rtPhi.Edges[i], y)
						if isDagB != isDagRT {
							same = false
						}
					}
					coincide = same
				}
			}
		}
		r.Check(coincide, "C02.cycle-gate", "graph.compile: DAG channels <=> r.dag", gcompile.Pos(), "channel builder and run type are selected on the same edges", "DAG channels can be combined with the Pregel loop (or vice versa): step bound / readiness semantics mismatch")
	}

	// ---- skip-report
	r.Rule("C02.skip-report", "calculateBranch reports unselected targets on every successful return, pruning selected ones only after all branches ran; reportBranch propagates transitively", 4)
	cb := w.Fn("compose", "runner.calculateBranch")
	rb := w.Fn("compose", "channelManager.reportBranch")
	{
		skip, wit := pathQuery{fn: cb, goal: func(in ssa.Instruction) bool {
			ret, ok := in.(*ssa.Return)
			return ok && isNilConst(ret.Results[1])
		}, avoid: func(in ssa.Instruction) bool { return isCallTo(in, rb) }}.exists()
		r.Check(!skip, "C02.skip-report", "calculateBranch: reportBranch before every successful return", cb.Pos(), "no nil-error return skips reportBranch", "branch outcomes are not always reported (unselected targets keep waiting forever / run when they should be skipped): "+wit)
		branchPruneCheck(w, r, "C02.skip-report")
		// every branch contributes its unselected end nodes, whatever it selected (an empty selection skips them all):
		// no iteration of the loop over the node's branches goes on to the next branch without scanning branch.endNodes
		fEnd := w.Field("compose", "GraphBranch", "endNodes")
		nr := 0
		instrs(cb, func(in ssa.Instruction) {
			rg, ok := in.(*ssa.Range)
			if !ok || !isLoadOfField(rg.X, fEnd) {
				return
			}
			nr++
			skips, wit := iterationSkips2(cb, rg)
			r.Check(!skips, "C02.skip-report", "calculateBranch: every branch's end nodes are scanned for unselected ones", rg.Pos(), "no iteration over the node's branches bypasses the scan of branch.endNodes", "a branch can be passed over without its end nodes being looked at ("+wit+"): when a multi-way branch selects nothing, none of its targets is reported as skipped — their control predecessor stays 'waiting' for ever, the skip never propagates and a join / END on a live path never fires ('no tasks to execute')")
		})
		if nr == 0 {
			r.Fail("C02.skip-report", "calculateBranch: scan of branch.endNodes", cb.Pos(), "no range over GraphBranch.endNodes found")
		}
	}
	{
		// reportBranch: work-list loop re-reads len(nKeys) where nKeys grows inside the loop, over c.successors
		fSucc := w.Field("compose", "channelManager", "successors")
		grows := false
		usesSucc := false
		instrs(rb, func(in ssa.Instruction) {
			if iff, ok := in.(*ssa.If); ok {
				op, _, y, ok := asCmp(iff.Cond)
				if ok && op == token.LSS {
					if c, ok := y.(*ssa.Call); ok && isBuiltin(c, "len") {
						if phi, ok := c.Call.Args[0].(*ssa.Phi); ok {
							for _, e := range phi.Edges {
								if ac, ok := e.(*ssa.Call); ok && isBuiltin(ac, "append") {
									grows = true
								}
								if p2, ok := e.(*ssa.Phi); ok {
									for _, e2 := range p2.Edges {
										if ac, ok := e2.(*ssa.Call); ok && isBuiltin(ac, "append") {
											grows = true
										}
									}
								}
							}
						}
					}
				}
			}
			if lk, ok := in.(*ssa.Lookup); ok && isLoadOfField(lk.X, fSucc) {
				usesSucc = true
			}
		})
		r.Check(grows && usesSucc, "C02.skip-report", "reportBranch: transitive propagation", rb.Pos(), "work list grows while it is scanned; successors come from the successor table", "skip is not propagated to transitive successors")
		// reportSkip result decides propagation
		nrs := 0
		instrs(rb, func(in ssa.Instruction) {
			if invokeName(in) == "reportSkip" {
				nrs++
			}
		})
		r.Check(nrs >= 2, "C02.skip-report", "reportBranch: reportSkip on direct and transitive targets", rb.Pos(), fmt.Sprintf("%d reportSkip calls", nrs), "reportSkip is not applied to transitive successors")
	}

	// ---- successors-complete
	r.Rule("C02.successors-complete", "getSuccessors = data edges + control edges + branch targets", 3)
	successorsCompleteCheck(w, r, "C02.successors-complete")

	// ---- filter
	r.Rule("C02.filter", "updateValues forwards only from declared data predecessors; updateDependencies only from declared control predecessors; unknown channels are errors", 4)
	uv := w.Fn("compose", "channelManager.updateValues")
	ud := w.Fn("compose", "channelManager.updateDependencies")
	fDPm := w.Field("compose", "channelManager", "dataPredecessors")
	fCPm := w.Field("compose", "channelManager", "controlPredecessors")
	fChs := w.Field("compose", "channelManager", "channels")
	guardedByMember := func(fn *ssa.Function, in ssa.Instruction, table interface{ Name() string }) bool {
		return hasGuard(in.Block(), func(g guard) bool {
			e, ok := g.cond.(*ssa.Extract)
			if !ok || e.Index != 1 || !g.pol {
				return false
			}
			lk, ok := e.Tuple.(*ssa.Lookup)
			if !ok || !lk.CommaOk {
				return false
			}
			// the looked-up set derives from c.<table>[target] (possibly replaced by an empty map when missing)
			return derivesFromFieldLookup(lk.X, table.Name(), 0)
		})
	}
	{
		var mu *ssa.MapUpdate
		instrs(uv, func(in ssa.Instruction) {
			if m, ok := in.(*ssa.MapUpdate); ok {
				if _, isMk := m.Map.(*ssa.MakeMap); isMk {
					mu = m
				}
			}
		})
		r.Check(mu != nil && guardedByMember(uv, mu, fDPm), "C02.filter", "updateValues: value forwarded only for data predecessors", uv.Pos(), "guarded by membership in dataPredecessors[target]", "values from non-data predecessors (control-only dependencies, data-less branches) reach the node's input")
		unknownErr := func(fn *ssa.Function) bool {
			okk := false
			instrs(fn, func(in ssa.Instruction) {
				iff, ok := in.(*ssa.If)
				if !ok {
					return
				}
				e, ok := iff.Cond.(*ssa.Extract)
				if !ok || e.Index != 1 {
					return
				}
				lk, ok := e.Tuple.(*ssa.Lookup)
				if !ok || !lk.CommaOk || !isLoadOfField(lk.X, fChs) {
					return
				}
				// miss arm returns an error and reaches no report call
				reach, _ := pathFromBlock(pathQuery{fn: fn, goal: func(i ssa.Instruction) bool {
					n := invokeName(i)
					return n == "reportValues" || n == "reportDependencies"
				}}, iff.Block().Succs[1])
				if !reach {
					okk = true
				}
			})
			return okk
		}
		r.Check(unknownErr(uv), "C02.filter", "updateValues: unknown target channel is an error", uv.Pos(), "miss arm returns an error", "values for an unknown channel are silently dropped or dereference nil")
		r.Check(unknownErr(ud), "C02.filter", "updateDependencies: unknown target channel is an error", ud.Pos(), "miss arm returns an error", "dependencies for an unknown channel are silently dropped")
		var ap ssa.Instruction
		instrs(ud, func(in ssa.Instruction) {
			if isBuiltin(in, "append") {
				ap = in
			}
		})
		r.Check(ap != nil && guardedByMember(ud, ap, fCPm), "C02.filter", "updateDependencies: only declared control predecessors", ud.Pos(), "guarded by membership in controlPredecessors[target]", "completion of a non-control predecessor (data-only dependency) triggers the node")
	}

	// ---- workflow flags
	r.Rule("C02.successors-not-mutated", "the successor lists of the compiled graph are never the first operand of an append on the run path (shared with C01.successors-not-mutated): the targets a branch picked in one run must not end up in the edge list every later completion of that node reads", 1)
	{
		owners := map[*types.Named]bool{w.Named("compose", "chanCall"): true}
		reach := runReach(w)
		var fns []*ssa.Function
		for _, fn := range w.RepoFuncs("compose") {
			if reach[fn] || reach[topFunc(fn)] {
				fns = append(fns, fn)
			}
		}
		n0 := len(r.Obs)
		ruleAppendAlias(w, r, "C02.successors-not-mutated", owners, fns, reach)
		if len(r.Obs) == n0 {
			r.OK("C02.successors-not-mutated", "run-path appends", w.Fn("compose", "runner.resolveCompletedTasks").Pos(), fmt.Sprintf("%d run-path functions: no append starts from a chanCall slice", len(fns)))
		}
	}

	r.Rule("C02.zero-input-fits-handlers", "a node whose input is assembled from mapped fields / static values gets, when triggered without data, a zero value its pre-node handler chain can take (the intermediate map[string]any), chosen per channel from a set graph.compile fills exactly where it installs the map-to-input converter (shared with C15)", 3)
	mappedZeroChecks(w, r, "C02.zero-input-fits-handlers")

	r.Rule("C02.passthrough-sides", "the helper a pass-through node derives from its neighbour fills its input-side slots (zero value, empty stream — what a DAG channel hands a node triggered without data) from ONE side of the neighbour (shared with C04.role-uniform, package compose)", 5)
	ruleRoleUniform(w, r, "C02.passthrough-sides", "compose")

	r.Rule("C02.dependencies-from-control-only", "resolveCompletedTasks reports a finished node as a control dependency only to its control successors and to the nodes its branches selected: no key it registers in the dependency table derives from the node's data successors (writeTo) — a 'ready' reported to a data-only successor overwrites the 'skipped' mark a non-selecting branch has just set", 2)
	{
		rct := w.Fn("compose", "runner.resolveCompletedTasks")
		fWriteTo := w.Field("compose", "chanCall", "writeTo")
		var fromWriteTo func(v ssa.Value, d int, seen map[ssa.Value]bool) bool
		fromWriteTo = func(v ssa.Value, d int, seen map[ssa.Value]bool) bool {
			if v == nil || d > 12 || seen[v] {
				return false
			}
			seen[v] = true
			if isLoadOfField(v, fWriteTo) {
				return true
			}
			switch x := v.(type) {
			case *ssa.Phi:
				for _, e := range x.Edges {
					if fromWriteTo(e, d+1, seen) {
						return true
					}
				}
			case *ssa.Call:
				if isBuiltin(x, "append") {
					for _, a := range x.Call.Args {
						if fromWriteTo(a, d+1, seen) {
							return true
						}
					}
				}
			case *ssa.Slice:
				return fromWriteTo(x.X, d+1, seen)
			case *ssa.Extract:
				return false
			}
			return false
		}
		n := 0
		instrs(rct, func(in ssa.Instruction) {
			mu, ok := in.(*ssa.MapUpdate)
			if !ok {
				return
			}
			// the dependency table: map[string][]string
			mt, isMap := mu.Map.Type().Underlying().(*types.Map)
			if !isMap {
				return
			}
			if sl, isSl := mt.Elem().Underlying().(*types.Slice); !isSl || sl.Elem().String() != "string" {
				return
			}
			n++
			bad := false
			if u, isU := mu.Key.(*ssa.UnOp); isU && u.Op == token.MUL {
				if ia, isIA := u.X.(*ssa.IndexAddr); isIA {
					bad = fromWriteTo(ia.X, 0, map[ssa.Value]bool{})
				}
			}
			r.Check(!bad, "C02.dependencies-from-control-only", fmt.Sprintf("resolveCompletedTasks: dependency registration #%d", n), mu.Pos(), "keys come from controls / the branches' selection", "the list whose elements are registered as control successors includes the data successors (writeTo): in a Workflow a node that is an end node of the finished node's branch AND takes its output through a data-only dependency, not selected by the branch, has its skip mark overwritten by a spurious 'ready' — if its other control predecessor skips it too it is no longer all-skipped and executes although nobody routed to it")
		})
		if n < 2 {
			r.Deferred = append(r.Deferred, fmt.Sprintf("C02.dependencies-from-control-only: only %d dependency registrations found in resolveCompletedTasks", n))
		}
	}

	r.Rule("C02.value-handlers-leave-their-input-alone", "the value-form handlers package compose installs in front of nodes and on edges (function literals of shape func(any) (any, error) built at Compile: static-value merge, map-to-input conversion, run-time checks) never write through the value they are given: what arrives may be the channel's shared 'no data' value — map[string]any(nil) for a node that fires without data — or a value other successors hold as well", 3)
	{
		n := 0
		for _, fn := range w.RepoFuncs("compose") {
			if fn.Parent() == nil {
				continue
			}
			sig := fn.Signature
			if sig.Recv() != nil || sig.Params().Len() != 1 || sig.Results().Len() != 2 {
				continue
			}
			if _, isI := sig.Params().At(0).Type().Underlying().(*types.Interface); !isI || sig.Params().At(0).Type().String() != "any" && sig.Params().At(0).Type().String() != "interface{}" {
				continue
			}
			if sig.Results().At(1).Type().String() != "error" || sig.Results().At(0).Type().String() != sig.Params().At(0).Type().String() {
				continue
			}
			n++
			ruleNoMutateParams(w, r, "C02.value-handlers-leave-their-input-alone", fn, nil)
		}
		if n < 3 {
			r.Deferred = append(r.Deferred, fmt.Sprintf("C02.value-handlers-leave-their-input-alone: only %d value-form handler literals found in package compose", n))
		}
	}

	r.Rule("C02.skip-propagates-on-the-transition", "dagChannel.reportSkip answers 'became skipped' — true only where the channel was not skipped before (what it returns depends on the value Skipped had on entry): reportBranch enqueues every node reportSkip answers true for, a successor is listed once per edge kind, so an answer of 'is skipped' on every call doubles the work list at every node of an untaken chain (2^N: twenty skipped nodes take half a second, thirty would need gigabytes)", 1)
	{
		rs := w.Fn("compose", "dagChannel.reportSkip")
		fSk := dagSkipFlag(w)
		var loads []*ssa.UnOp
		var store *ssa.Store
		instrs(rs, func(in ssa.Instruction) {
			if u, ok := in.(*ssa.UnOp); ok && u.Op == token.MUL {
				if fa, isFA := u.X.(*ssa.FieldAddr); isFA && sameField(fieldVarOfAddr(fa), fSk) {
					loads = append(loads, u)
				}
			}
			if st, ok := in.(*ssa.Store); ok {
				if fa, isFA := st.Addr.(*ssa.FieldAddr); isFA && sameField(fieldVarOfAddr(fa), fSk) {
					store = st
				}
			}
		})
		good := false
		if store != nil {
			instrs(rs, func(in ssa.Instruction) {
				ret, ok := in.(*ssa.Return)
				if !ok || len(ret.Results) != 1 {
					return
				}
				for _, ld := range loads {
					if instrDominates(ld, store) && dataDependsOn(ret.Results[0], ld) {
						good = true
					}
					// the early form: `if ch.Skipped { return false }` in front of everything else
					if b, isC := constBool(ret.Results[0]); isC && !b && instrDominates(ld, store) {
						if hasGuard(ret.Block(), func(g guard) bool { return g.cond == ssa.Value(ld) && g.pol }) {
							good = true
						}
					}
				}
			})
		}
		r.Check(good, "C02.skip-propagates-on-the-transition", "dagChannel.reportSkip returns true only on the transition", rs.Pos(), "the result depends on Skipped as it was on entry", "reportSkip answers true whenever the channel IS skipped, also when it already was: every further report re-enqueues the node in reportBranch, and with each successor listed once as data and once as control successor the work list doubles per node — a branch that leaves a plain chain a1 -> … -> aN -> END untaken costs 2^N (24 nodes: 7 s, 30: out of memory) although none of the nodes runs")
	}

	r.Rule("C02.skip-settles-data-predecessors-on-their-own", "reportSkip marks a skipped predecessor as settled in the data table whether or not it is also a control predecessor: the write into DataPredecessors stands under the key's presence in THAT table only — a data-only predecessor (WithNoDirectDependency) that a branch skips would otherwise stay unsettled for ever and a node that was legitimately triggered never runs ('no tasks to execute')", 1)
	{
		rs := w.Fn("compose", "dagChannel.reportSkip")
		fData := w.Field("compose", "dagChannel", "DataPredecessors")
		fCtl := w.Field("compose", "dagChannel", "ControlPredecessors")
		n := 0
		instrs(rs, func(in ssa.Instruction) {
			mu, ok := in.(*ssa.MapUpdate)
			if !ok || !isLoadOfField(mu.Map, fData) {
				return
			}
			n++
			bad := ""
			for _, g := range guardsOf(mu.Block()) {
				c := g.cond
				if u, isU := c.(*ssa.UnOp); isU && u.Op == token.NOT {
					c = u.X
				}
				if e, isE := c.(*ssa.Extract); isE {
					if lk, isLk := e.Tuple.(*ssa.Lookup); isLk && isLoadOfField(lk.X, fCtl) {
						bad = guardText(g)
					}
				}
			}
			r.Check(bad == "", "C02.skip-settles-data-predecessors-on-their-own", fmt.Sprintf("reportSkip: data-table write #%d", n), mu.Pos(), "under the key's presence in DataPredecessors only", "the write is also conditional on the control table ("+bad+"): a data-only predecessor that is skipped is never marked as settled — get waits for every DataPredecessors entry, so the target, triggered by its other control predecessor, never becomes ready")
		})
		if n == 0 {
			undecidedf("C02.skip-settles-data-predecessors-on-their-own: reportSkip writes no DataPredecessors entry")
		}
	}

	r.Rule("C02.visits-all", "the loops that hand a finished node's output and dependencies to its successors (resolveCompletedTasks, updateValues, updateDependencies, createTasks) are left only when exhausted or with an error: a duplicate or data-less target met first must not end the delivery for the targets listed after it (shared with C01 / C03)", 4)
	ruleLoopsTotal(w, r, "C02.visits-all", []*ssa.Function{
		w.Fn("compose", "runner.resolveCompletedTasks"), w.Fn("compose", "channelManager.updateValues"), w.Fn("compose", "channelManager.updateDependencies"), w.Fn("compose", "runner.createTasks"),
	}, map[string]string{}, "a successor that was selected gets no data or no trigger: it never runs, END never becomes ready ('no tasks to execute')")

	shareRule(w, r, "C02.fanin-merge-pure", "assembling a fan-in node's input writes through none of the values being merged: in Invoke mode every successor of a node is handed the same map value, so a merge that accumulates into one predecessor's output gives a sibling entries from a node that never routed to it", 2, "C01", "C01.merge-pure")
	shareRule(w, r, "C02.late-completions-fully-applied", "tasks that finish in the same step as a rerun / nested interrupt have their values AND their control dependencies folded into the channels, in every trigger mode: after the resume the join they routed to becomes ready", 2, "C03", "C03.completion-fully-applied")
	shareRule(w, r, "C02.decided-marks-survive-save", "what an interrupt writes is the run's channel table itself: a DAG channel that holds no value still holds the marks of finished and skipped predecessors, and a selection of 'channels with values' loses them (the join waits for ever after the resume)", 2, "C05", "C05.nothing-dropped-at-save")
	shareRule(w, r, "C02.end-value-returned-when-ready", "when END is ready its value is what the run returns, whatever else became ready in the same step: END's channel is read destructively, so an END set aside 'to be taken later' can never become ready again and the run ends 'no tasks to execute'", 1, "C01", "C01.end-short-circuit")

	r.Rule("C02.workflow-flags", "noDirectDependency -> (noControl=true,noData=false); dependencyWithoutInput -> (false,true); default -> (false,false); workflow branches skipData=true", 4)
	adr := w.Fn("compose", "WorkflowNode.addDependencyRelation")
	addEdge := w.Fn("compose", "graph.addEdgeWithMappings")
	fNDD := w.Field("compose", "workflowAddInputOpts", "noDirectDependency")
	fDWI := w.Field("compose", "workflowAddInputOpts", "dependencyWithoutInput")
	seen := map[string]bool{}
	for _, lit := range adr.AnonFuncs {
		cs := callsTo(lit, addEdge)
		if len(cs) != 1 {
			continue
		}
		a := cs[0].Common().Args
		nc, ok1 := constBool(a[3])
		nd, ok2 := constBool(a[4])
		// which arm creates this literal?
		var mk ssa.Instruction
		instrs(adr, func(in ssa.Instruction) {
			if mc, ok := in.(*ssa.MakeClosure); ok && mc.Fn == lit {
				mk = mc
			}
		})
		if mk == nil || !ok1 || !ok2 {
			r.Fail("C02.workflow-flags", "addDependencyRelation literal", lit.Pos(), "flags are not constants / literal not located")
			continue
		}
		arm := "default"
		for _, g := range guardsOf(mk.Block()) {
			if isLoadOfField(g.cond, fNDD) && g.pol {
				arm = "noDirectDependency"
			}
			if isLoadOfField(g.cond, fDWI) && g.pol && arm == "default" {
				arm = "dependencyWithoutInput"
			}
		}
		want := map[string][2]bool{"noDirectDependency": {true, false}, "dependencyWithoutInput": {false, true}, "default": {false, false}}[arm]
		seen[arm] = true
		r.Check(nc == want[0] && nd == want[1], "C02.workflow-flags", "addDependencyRelation arm "+arm, cs[0].Pos(), fmt.Sprintf("(noControl,noData) = (%v,%v)", nc, nd), fmt.Sprintf("arm %s lowers to (noControl,noData)=(%v,%v), want (%v,%v): control-only / data-only dependencies are swapped", arm, nc, nd, want[0], want[1]))
	}
	if len(seen) != 3 {
		r.Fail("C02.workflow-flags", "addDependencyRelation arms", adr.Pos(), fmt.Sprintf("expected the three dependency arms, recognised %d", len(seen)))
	}
	wfc := w.Fn("compose", "Workflow.compile")
	addBranch := w.Fn("compose", "graph.addBranch")
	okb := false
	for _, c := range callsTo(wfc, addBranch) {
		if b, ok := constBool(c.Common().Args[3]); ok && b {
			okb = true
		}
	}
	r.Check(okb, "C02.workflow-flags", "Workflow.compile: branches carry no data", wfc.Pos(), "addBranch(..., skipData=true)", "workflow branches forward the branch input to their targets")
}

func constEq(a, b ssa.Value) bool {
	ca, ok1 := a.(*ssa.Const)
	cb, ok2 := b.(*ssa.Const)
	return ok1 && ok2 && ca.Value != nil && cb.Value != nil && ca.Value.ExactString() == cb.Value.ExactString()
}

// derivesFromFieldLookup: v is m[k] (or a phi of it and a fresh empty map) where m is a load of field `name`.
func derivesFromFieldLookup(v ssa.Value, name string, d int) bool {
	if d > 6 {
		return false
	}
	switch x := v.(type) {
	case *ssa.Lookup:
		f, _ := loadedField(x.X)
		return f != nil && f.Name() == name
	case *ssa.Extract:
		return derivesFromFieldLookup(x.Tuple, name, d+1)
	case *ssa.Phi:
		ok := false
		for _, e := range x.Edges {
			if derivesFromFieldLookup(e, name, d+1) {
				ok = true
			} else if _, isMk := e.(*ssa.MakeMap); !isMk {
				return false
			}
		}
		return ok
	}
	return false
}

// branchPruneCheck: calculateBranch removes the targets selected by any branch from the skipped set only after
// every branch of the node has been evaluated (a node that is both selected — it is sent a value / stream copy —
// and marked skipped never consumes what it was sent).
func branchPruneCheck(w *World, r *Report, rule string) {
	cb := w.Fn("compose", "runner.calculateBranch")
	// pruning of the skipped set (a target selected by ANY branch of the node is not skipped) happens only
	// after every branch has been evaluated: from a delete(skipped, selected) no branch evaluation is reachable
	var dels []ssa.Instruction
	instrs(cb, func(in ssa.Instruction) {
		if isBuiltin(in, "delete") {
			dels = append(dels, in)
		}
	})
	isBranchEval := func(in ssa.Instruction) bool {
		c, ok := in.(*ssa.Call)
		if !ok || c.Call.IsInvoke() || staticCallee(c) != nil {
			return false
		}
		f, _ := loadedField(c.Call.Value)
		return f != nil && (f.Name() == "invoke" || f.Name() == "collect")
	}
	okPrune := len(dels) > 0
	for _, d := range dels {
		if again, _ := (pathQuery{fn: cb, from: d, goal: isBranchEval}).exists(); again {
			okPrune = false
		}
	}
	r.Check(okPrune, rule, "calculateBranch: skipped set pruned after all branches were evaluated", cb.Pos(), "no branch evaluation follows the pruning", "the skipped set is pruned while branches are still being evaluated: a target selected by an earlier branch and discarded by a later one stays skipped (order-dependent)")
}

// skipFlagOf: the skip flag of a DAG channel, located by type (its only bool field).
func skipFlagOf(w *World) *types.Var {
	st := w.Named("compose", "dagChannel").Underlying().(*types.Struct)
	var f *types.Var
	for i := 0; i < st.NumFields(); i++ {
		if b, ok := st.Field(i).Type().Underlying().(*types.Basic); ok && b.Kind() == types.Bool {
			f = st.Field(i)
		}
	}
	if f == nil {
		undecidedf("dagChannel has no bool field (skip flag)")
	}
	return f
}

// reportSkipExact: a DAG channel is skipped iff ALL its control predecessors are skipped — decided by comparing every
// state with dependencyStateSkipped, not by "nobody is waiting any more" (a predecessor that already completed is not
// skipped; whether its report or the skip arrives first must not matter). Shared by C02 and C03.
func reportSkipExact(w *World, r *Report, rule string) {
	dagT := w.Named("compose", "dagChannel")
	fSkipped := skipFlagOf(w)

	rs := methodOf(w, dagT, "reportSkip")
	skippedConst := constValOf(w, "compose", "dependencyStateSkipped")
	var stSk *ssa.Store
	for _, fw := range fieldWrites(rs) {
		if sameField(fw.field, fSkipped) {
			stSk = fw.in.(*ssa.Store)
		}
	}
	good := stSk != nil
	if good {
		// the stored value is a phi(true, false) where false comes from an arm guarded by state != skipped
		foundCmp := false
		instrs(rs, func(in ssa.Instruction) {
			if iff, ok := in.(*ssa.If); ok {
				op, _, y, ok := asCmp(iff.Cond)
				if ok && isConstN(y, skippedConst) && (op == token.NEQ || op == token.EQL) {
					foundCmp = true
				}
			}
		})
		good = foundCmp
	}
	r.Check(good, rule, "dagChannel.reportSkip: skipped iff all control predecessors skipped", rs.Pos(), "Skipped computed from a scan comparing every state with dependencyStateSkipped", "skip condition changed")
}

// successorsCompleteCheck: shared by C02.successors-complete and C03.skip-reaches-every-successor.
func successorsCompleteCheck(w *World, r *Report, rule string) {
	gs := w.Fn("compose", "getSuccessors")
	for _, fld := range []struct{ typ, name string }{{"chanCall", "writeTo"}, {"chanCall", "controls"}, {"GraphBranch", "endNodes"}} {
		f := w.Field("compose", fld.typ, fld.name)
		used := false
		instrs(gs, func(in ssa.Instruction) {
			switch x := in.(type) {
			case *ssa.Call:
				if isBuiltin(x, "copy") || isBuiltin(x, "append") {
					for _, a := range x.Call.Args {
						if isLoadOfField(a, f) {
							used = true
						}
					}
				}
			case *ssa.Range:
				if isLoadOfField(x.X, f) {
					// the range key must be appended
					used = true
				}
			}
		})
		// and the result flows to the return: every append result chain reaches the return (checked by flowsTo on the returned value)
		r.Check(used, rule, "getSuccessors includes "+fld.name, gs.Pos(), "copied/appended into the successor list", "successor table misses "+fld.name+": skip propagation (and readiness of data-only successors of a skipped node) breaks")
	}

}
