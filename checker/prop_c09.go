package main

import (
	"fmt"
	"go/token"
	"go/types"
	"sort"

	"golang.org/x/tools/go/ssa"
)

func compiledTypeSet(w *World) map[*types.Named]bool {
	return compiledTypes(w,
		w.Named("compose", "runner"),
		w.Named("compose", "runnablePacker"),
		w.Named("compose", "composableRunnable"),
		w.Named("compose", "ToolsNode"),
	)
}

// extraSync: repo callees known to invoke their function argument synchronously and not retain it.
func repoSyncCallee(w *World) func(ssa.CallInstruction) bool {
	ps := w.TryFn("compose", "ProcessState")
	return func(c ssa.CallInstruction) bool {
		return ps != nil && isCallTo(c, ps)
	}
}

func init() {
	register(&propDef{
		id: "C09",
		explanation: "Static clauses of 'a compiled runnable is safe for concurrent use; runs are isolated': " +
			"(read-only-at-runtime) no function reachable (VTA) from the run entry points writes a field/map/slice element of a compiled type (closure of struct types reachable from runner/runnablePacker/composableRunnable/ToolsNode) unless the object is being constructed there; " +
			"(no-global-write) no package-level variable is written on a run path outside sync.Once; " +
			"(capture-write) no function literal that outlives its creator writes a variable captured from it (such a variable is shared by all concurrent runs); " +
			"(append-alias) no append on a slice held by a shared object (callback manager handlers, NodePath, Option paths, compiled types) whose result is used elsewhere than stored back (would write into the shared backing array); " +
			"(per-run-managers) channel/task managers and their containers are allocated inside run; (state-per-run) the state generator is invoked inside the per-run closure only; (options-per-run) extractOption does not write through its inputs.",
		decided:    []string{"read-only-at-runtime", "no-global-write", "capture-write", "append-alias", "per-run-managers", "state-per-run", "options-per-run", "chunks-not-mutated", "empty-stream-fresh", "node-compile-no-shared-write"},
		notDecided: []string{"absence of all data races (needs may-happen-in-parallel + points-to analysis)", "races inside user-supplied node bodies", "aliasing through any/reflect"},
		run:        runC09,
	})
}

func runC09(w *World, r *Report) {
	roots := runRoots(w)
	for _, n := range []string{"Agent.Generate", "Agent.Stream"} {
		if f := w.TryFn("flow/agent/react", n); f != nil {
			roots = append(roots, f)
		}
	}
	for _, n := range []string{"MultiAgent.Generate", "MultiAgent.Stream"} {
		if f := w.TryFn("flow/agent/multiagent/host", n); f != nil {
			roots = append(roots, f)
		}
	}
	// component implementations shipped with the module that run inside nodes
	if f := w.TryFn("components/prompt", "DefaultChatTemplate.Format"); f != nil {
		roots = append(roots, f)
	}
	reach := w.reachableFrom(roots...)
	compiled := compiledTypeSet(w)

	r.Rule("C09.read-only-at-runtime", "no run-path function writes a field of a compiled (shared) object", 0)
	nfn, nw := ruleReadOnlyAtRuntime(w, r, "C09.read-only-at-runtime", reach, compiled, roots)
	var cts []string
	for t := range compiled {
		cts = append(cts, t.Obj().Name())
	}
	sort.Strings(cts)
	r.Notes = append(r.Notes, fmt.Sprintf("read-only-at-runtime: %d repo functions reachable from %d run roots; %d field writes inspected; %d compiled types: %v", nfn, len(roots), nw, len(cts), cts))
	if nfn < 150 {
		undecidedf("C09: only %d functions reachable from the run roots (floor 150): call graph degenerate", nfn)
	}

	r.Rule("C09.no-container-on-compiled", "no run-path function calls a mutating method of a sync.Map / container/list that is a field of a compiled (shared) object", 0)
	ruleNoContainerWriteOnCompiled(w, r, "C09.no-container-on-compiled", reach, compiled, roots)

	r.Rule("C09.no-global-write", "no run-path function writes a package-level variable outside sync.Once", 1)
	ruleNoGlobalWrite(w, r, "C09.no-global-write", reach, roots)

	r.Rule("C09.capture-write", "no escaping function literal writes a variable captured from the function it escapes from", 5)
	cws := captureWrites(w, w.RepoFuncs("compose", "schema", "flow", "internal", "callbacks", "components", "utils"), repoSyncCallee(w))
	for _, cw := range cws {
		construct := fmt.Sprintf("%s writes captured %s", w.fname(cw.lit), cw.varName)
		if cw.escaping == nil {
			r.OK("C09.capture-write", construct, cw.store.Pos(), "literal is invoked synchronously within the declaring function's call (defer / direct call / sync.Once / ProcessState)")
			continue
		}
		if reason, ok := captureExceptions[construct]; ok {
			r.Except("C09.capture-write", construct, cw.store.Pos(), reason)
			continue
		}
		r.Fail("C09.capture-write", construct, cw.store.Pos(), fmt.Sprintf("variable %q declared in %s is written by literal %s, which escapes (%s): all invocations, including concurrent runs, share it", cw.varName, w.fname(cw.declIn), w.fname(cw.escaping), cw.why))
	}

	// stream chunks are shared by every copy of a stream (fan-out, callback handlers, replays) and by concurrent
	// consumers: the functions that fold chunks never write through them
	r.Rule("C09.chunks-not-mutated", "ConcatMessages / concatToolCalls / concatMessageArray do not write through their input chunks (also not through a shallow copy of a chunk's sub-struct)", 3)
	for _, n := range []string{"ConcatMessages", "concatToolCalls", "concatMessageArray"} {
		f := w.Fn("schema", n)
		n0 := len(r.Obs)
		ruleNoMutateParams(w, r, "C09.chunks-not-mutated", f, nil)
		if len(r.Obs) == n0 {
			r.OK("C09.chunks-not-mutated", w.fname(f)+" leaves its inputs untouched", f.Pos(), "no store / map update rooted in a parameter")
		}
	}
	// per-run placeholder streams are made per call
	r.Rule("C09.empty-stream-fresh", "the producers stored in genericHelper.inputEmptyStream / outputEmptyStream create their stream inside the call (no stream object captured from construction time)", 2)
	{
		gh := w.Named("compose", "genericHelper")
		n := 0
		for _, fn := range w.RepoFuncs("compose") {
			for _, fw := range fieldWrites(fn) {
				if fw.owner != gh || !(fw.field.Name() == "inputEmptyStream" || fw.field.Name() == "outputEmptyStream") {
					continue
				}
				n++
				construct := fmt.Sprintf("%s sets genericHelper.%s", w.fname(origin(fn)), fw.field.Name())
				if f, _ := loadedField(fw.val); f != nil && (f.Name() == "inputEmptyStream" || f.Name() == "outputEmptyStream") {
					r.OK("C09.empty-stream-fresh", construct, fw.in.Pos(), "copied from another helper's producer")
					continue
				}
				switch v := fw.val.(type) {
				case *ssa.Function:
					r.OK("C09.empty-stream-fresh", construct, fw.in.Pos(), "a plain function (captures nothing): "+v.Name())
				case *ssa.MakeClosure:
					lit := v.Fn.(*ssa.Function)
					shared := ""
					instrs(lit, func(in ssa.Instruction) {
						ret, ok := in.(*ssa.Return)
						if !ok || len(ret.Results) == 0 {
							return
						}
						for _, fv := range lit.FreeVars {
							if derivesFrom(returnedValue(ret, 0), fv) {
								shared = fv.Name()
							}
						}
					})
					r.Check(shared == "", "C09.empty-stream-fresh", construct, fw.in.Pos(), "closure whose result does not derive from a captured object", "the producer returns a stream derived from the captured object "+shared+" created once at construction time: every run (and every concurrent caller) of the compiled node gets the same single-consumer stream — from the second run on it is empty, concurrent callers race on its cursor")
				case *ssa.Call:
					// a factory: inspect the literal it returns
					var lit *ssa.Function
					if sc := staticCallee(v); sc != nil {
						instrs(origin(sc), func(in ssa.Instruction) {
							if ret, ok := in.(*ssa.Return); ok && len(ret.Results) == 1 {
								if mc, ok := ret.Results[0].(*ssa.MakeClosure); ok {
									lit = mc.Fn.(*ssa.Function)
								}
							}
						})
					}
					if lit == nil {
						r.Check(false, "C09.empty-stream-fresh", construct, fw.in.Pos(), "", "the producer is the result of a call evaluated at construction time ("+valText(fw.val)+") that cannot be inspected")
						break
					}
					shared := ""
					instrs(lit, func(in ssa.Instruction) {
						ret, ok := in.(*ssa.Return)
						if !ok || len(ret.Results) == 0 {
							return
						}
						for _, fv := range lit.FreeVars {
							if isRefType(deref(fv.Type())) && derivesFrom(returnedValue(ret, 0), fv) {
								shared = fv.Name()
							}
						}
					})
					r.Check(shared == "", "C09.empty-stream-fresh", construct, fw.in.Pos(), "factory-made closure whose result does not derive from a captured object", "the producer returns a stream derived from the object "+shared+" which its factory created once at construction time: every run (and every concurrent caller) of the compiled node gets the same single-consumer stream — from the second run on it is empty, concurrent callers race on its cursor")
				default:
					r.Check(false, "C09.empty-stream-fresh", construct, fw.in.Pos(), "", "the producer is neither a function nor a literal ("+valText(fw.val)+")")
				}
			}
		}
		if n < 2 {
			undecidedf("C09.empty-stream-fresh: %d writes of the empty-stream producers (floor 2)", n)
		}
	}

	// a component's / Lambda's composableRunnable may be the executor of several graph nodes (the same *Lambda added
	// twice, or to two graphs): compiling a node must not write its per-node data into that shared object
	r.Rule("C09.node-compile-no-shared-write", "graphNode.compileIfNeeded writes meta / nodeInfo only into a runnable that belongs to this node's compilation (the nested graph's fresh result or a copy), never through graphNode.cr itself", 2)
	{
		cin := w.Fn("compose", "graphNode.compileIfNeeded")
		fCr := w.Field("compose", "graphNode", "cr")
		crT := w.Named("compose", "composableRunnable")
		n := 0
		for _, fw := range fieldWrites(cin) {
			if fw.owner != crT {
				continue
			}
			n++
			shared := ""
			var walk func(v ssa.Value, d int)
			seen := map[ssa.Value]bool{}
			walk = func(v ssa.Value, d int) {
				if d > 6 || seen[v] || shared != "" {
					return
				}
				seen[v] = true
				switch x := v.(type) {
				case *ssa.Phi:
					for _, e := range x.Edges {
						walk(e, d+1)
					}
				case *ssa.UnOp:
					if isLoadOfField(x, fCr) {
						shared = "the node's cr field (shared with every other node built from the same Lambda / component runnable)"
					}
				}
			}
			walk(fw.base, 0)
			r.Check(shared == "", "C09.node-compile-no-shared-write", "compileIfNeeded sets composableRunnable."+fw.field.Name(), fw.in.Pos(), "written into the compilation's own runnable", "per-node data is written through "+shared+": with one *Lambda used for two nodes the node compiled last overwrites the other's node info (both report the same RunInfo), and re-compiling while an earlier runnable serves requests is a data race")
		}
		if n < 2 {
			undecidedf("C09.node-compile-no-shared-write: %d writes of composableRunnable fields in compileIfNeeded (floor 2)", n)
		}
	}

	// every mutex-protected field is accessed under its mutex everywhere
	r.Rule("C09.guarded-by", "a field of a struct with a sync.Mutex that is accessed with the mutex held somewhere (and written somewhere) is accessed with it held everywhere outside constructors", 10)
	ruleGuardedBy(w, r, "C09.guarded-by", guardedByExceptions, "compose", "schema", "internal", "callbacks", "flow", "components", "utils")

	r.Rule("C09.atomic-consistent", "a field that is updated through sync/atomic somewhere is accessed only through sync/atomic", 1)
	// (no field found at all is an anchor drift: the rule's floor of 1 reports it as UNDECIDED at the end, after the
	// other rules have had their say)
	ruleAtomicConsistent(w, r, "C09.atomic-consistent", "compose", "schema", "internal", "callbacks", "flow", "components", "utils")

	r.Rule("C09.lock-released", "every path from a Lock / RLock to a return of the same function unlocks the mutex or has a deferred Unlock registered (a leaked lock blocks every other run using the object)", 5)
	if n := ruleLockReleased(w, r, "C09.lock-released", map[string]string{}, "compose", "schema", "internal", "callbacks", "flow", "components", "utils"); n == 0 {
		undecidedf("C09.lock-released: no Lock call found")
	}

	// error objects travel between runs (a node may return a memoised / single-flighted error of an inner runnable, the
	// caller of an earlier run still holds the one it got): the framework extends a run error by building a new one
	r.Rule("C09.errors-copied-on-extend", "wrapGraphNodeError / wrapStreamWrapperError never write through the error they are given (no in-place extension of an object other runs and callers may hold)", 2)
	ruleNoMutateParams(w, r, "C09.errors-copied-on-extend", w.Fn("compose", "wrapGraphNodeError"), nil)
	ruleNoMutateParams(w, r, "C09.errors-copied-on-extend", w.Fn("compose", "wrapStreamWrapperError"), nil)

	r.Rule("C09.ctx-not-captured", "no per-call function literal (one that has its own context.Context parameter) passes on a context captured from the function that built it; no function hands a callee a context derived from context.Background()/TODO()", 2)
	{
		uses, examined := capturedCtxUses(w.RepoFuncs("flow", "compose", "components", "utils", "callbacks", "schema", "internal"))
		seen := map[string]bool{}
		for _, u := range uses {
			construct := fmt.Sprintf("%s uses captured context %s", w.fname(u.lit), u.fv.Name())
			if seen[construct] {
				continue
			}
			seen[construct] = true
			// a literal nested in another per-call literal legitimately uses its parent's per-call context
			parentPerCall := false
			if p := u.lit.Parent(); p != nil && p.Parent() != nil {
				for _, pp := range p.Params {
					if isContextType(pp.Type()) && pp.Name() == u.fv.Name() {
						parentPerCall = true
					}
				}
			}
			if p := u.lit.Parent(); p != nil && !parentPerCall {
				// the enclosing function is itself called per run with that context (not a constructor) when the captured
				// variable is one of ITS parameters and it is not a New*/build* style function returning the runnable
				for _, pp := range p.Params {
					if pp.Name() == u.fv.Name() && isContextType(pp.Type()) && !returnsLongLived(p) {
						parentPerCall = true
					}
				}
			}
			if parentPerCall {
				r.OK("C09.ctx-not-captured", construct, u.call.Pos(), "the captured context is the per-call context of the enclosing call")
				continue
			}
			r.Fail("C09.ctx-not-captured", construct, u.call.Pos(), "the literal has a context parameter of its own but hands on the context its constructor was called with: every run shares that context at this point — values of the run's context (caller id, trace) are invisible, and a construction context that has been cancelled since (ctx, cancel := …; defer cancel() in an init function) is seen as cancelled by every run")
		}
		r.OK("C09.ctx-not-captured", fmt.Sprintf("%d per-call literals in the module examined", examined), token.NoPos, "captured contexts classified")
		// … and nothing on a run path replaces the caller's context by a fresh one
		hos := ctxHandOvers(w.RepoFuncs("flow", "compose", "components", "utils", "callbacks", "schema", "internal"))
		nb := 0
		for _, h := range hos {
			if h.kind == "background" {
				nb++
				r.Fail("C09.ctx-not-captured", fmt.Sprintf("%s hands a fresh context to a callee", w.fname(origin(h.fn))), h.call.Pos(), "the callee runs on context.Background()/TODO() (or a context derived from it) instead of the caller's: the run's values, deadline and cancellation are cut off at this point")
			}
		}
		if nb == 0 {
			r.OK("C09.ctx-not-captured", fmt.Sprintf("%d context hand-overs in the module classified", len(hos)), token.NoPos, "every context passed on derives from a parameter, the enclosing call's context or a per-run object")
		}
		if len(hos) < 200 {
			undecidedf("C09.ctx-not-captured: only %d context hand-overs found (floor 200)", len(hos))
		}
		if examined < 5 {
			r.Deferred = append(r.Deferred, fmt.Sprintf("C09.ctx-not-captured: only %d per-call literals found in flow/", examined))
		}
	}

	r.Rule("C09.component-methods-read-only", "the run-time methods of the module's own components and helpers (exported pointer-receiver methods taking a context.Context, with the same-receiver methods they call) store nothing into their receiver unless a mutex of the receiver is held: one component instance inside a compiled graph serves every concurrent run", 10)
	{
		// package compose is covered by C09.read-only over the run path; its context-taking builder methods (Compile) write by design
		cl := runMethodClosure(w, "schema", "internal", "flow", "callbacks", "components", "utils")
		var roots []*ssa.Function
		for fn := range cl {
			roots = append(roots, fn)
		}
		sort.Slice(roots, func(i, j int) bool { return roots[i].String() < roots[j].String() })
		for _, root := range roots {
			bad := 0
			for _, f := range cl[root] {
				for _, rw := range receiverWrites(f) {
					owner := namedOf(f.Params[0].Type())
					held := false
					if owner != nil {
						if mu := mutexStructs(w, w.relPkg(fnPkg(f).Path()))[owner]; mu != nil {
							held = heldAt(f, mu, false)[rw.in]
						}
					}
					if held {
						continue
					}
					bad++
					r.Fail("C09.component-methods-read-only", fmt.Sprintf("%s: %s of receiver field %s in %s", w.fname(root), rw.kind, rw.field.Name(), w.fname(f)), rw.in.Pos(), "a run-time method writes a field of the object it is called on without a lock: two concurrent runs of the compiled graph share that object — a data race (lazy caches, counters, last-request fields), and with append-built caches a torn or doubled value")
				}
			}
			if bad == 0 {
				r.OK("C09.component-methods-read-only", fmt.Sprintf("%s (+%d same-receiver callees)", w.fname(root), len(cl[root])-1), root.Pos(), "no unlocked store into the receiver")
			}
		}
	}

	shareRule(w, r, "C09.state-handlers-locked", "every way into the run's state — the plain and the stream state handlers, ProcessState, GetState — calls the user function under the state mutex: handlers run on the run-loop goroutine while sibling nodes are inside the state", 5, "C11", "C11.lock-region")
	r.Rule("C09.copy-cells-consistent", "the cells and the close counter shared by the copies of one stream are written under sync.Once / atomically and read behind them (shared with C08.copy-cell): copies are closed and read by different goroutines", 6)
	copyCellChecks(w, r, "C09.copy-cells-consistent")

	shareRule(w, r, "C09.task-published-after-its-result", "the executor records a node's panic in the task before it hands the task back to the run loop (one deferred function, or the hand-over registered first): the loop goroutine must not read err / output of a task that is still being written", 2, "C03", "C03.push-on-every-exit")
	shareRule(w, r, "C09.concat-writes-a-map-of-its-own", "concatenating map chunks writes into a fresh map: copies of a stream hand every receiver the same chunk objects, and a receiver that concatenates into the first chunk rewrites what the other receivers — and later or concurrent runs replaying the same chunks — still read", 1, "C14", "C14.inputs-immutable")
	shareRule(w, r, "C09.static-value-stream-per-run", "a consumable stream is built per call, never once at Compile: every Stream run of a compiled workflow gets its own static-value reader (a second run on a shared one closes a closed channel)", 1, "C15", "C15.static-values-per-run")

	r.Rule("C09.handler-state-own-run-only", "a callback handler is inherited through the context by every component of its kind that starts below the run it was given to — a compiled graph run by a tool, the agent's graph nested in a parent graph — so a handler method with state of its own (it stores into a receiver field, closes a channel or an object held there) does that only under a test of something read from the context it is handed: otherwise a nested run's start and end are taken for the run's own", 3)
	{
		isCtx := func(t types.Type) bool {
			n := namedOf(t)
			return n != nil && n.Obj().Pkg() != nil && n.Obj().Pkg().Path() == "context" && n.Obj().Name() == "Context"
		}
		isHandlerSig := func(f *ssa.Function) bool {
			sig := f.Signature
			if sig.Recv() == nil || sig.Params().Len() != 3 || sig.Results().Len() != 1 {
				return false
			}
			if !isCtx(sig.Params().At(0).Type()) || !isCtx(sig.Results().At(0).Type()) {
				return false
			}
			n := namedOf(sig.Params().At(1).Type())
			return n != nil && n.Obj().Name() == "RunInfo"
		}
		// readsContext: the function calls Value on a context (at most one module callee deep)
		var readsContext func(f *ssa.Function, d int) bool
		readsContext = func(f *ssa.Function, d int) bool {
			found := false
			instrs(f, func(in ssa.Instruction) {
				c, ok := in.(ssa.CallInstruction)
				if !ok || found {
					return
				}
				if c.Common().IsInvoke() && c.Common().Method.Name() == "Value" && isCtx(c.Common().Value.Type()) {
					found = true
					return
				}
				if sc := staticCallee(c); sc != nil && w.inRepo(sc) && d < 2 && readsContext(sc, d+1) {
					found = true
				}
			})
			return found
		}
		dependsOnContextRead := func(cond ssa.Value) bool {
			found := false
			seen := map[ssa.Value]bool{}
			var visit func(v ssa.Value, d int)
			visit = func(v ssa.Value, d int) {
				if v == nil || d > 10 || found || seen[v] {
					return
				}
				seen[v] = true
				if c, ok := v.(*ssa.Call); ok {
					hasCtx := false
					for _, a := range c.Call.Args {
						if isCtx(a.Type()) {
							hasCtx = true
						}
					}
					if c.Call.IsInvoke() && c.Call.Method.Name() == "Value" && isCtx(c.Call.Value.Type()) {
						found = true
						return
					}
					if sc := staticCallee(c); sc != nil && w.inRepo(sc) && hasCtx && readsContext(sc, 0) {
						found = true
						return
					}
				}
				if ins, ok := v.(ssa.Instruction); ok {
					for _, op := range ins.Operands(nil) {
						visit(*op, d+1)
					}
				}
			}
			visit(cond, 0)
			return found
		}
		underContextTest := func(b *ssa.BasicBlock) bool {
			for d := b; d != nil; d = d.Idom() {
				gs := compoundEntryGuards(d)
				if d == b {
					gs = append(gs, guardsOf(b)...)
				}
				for _, g := range gs {
					if dependsOnContextRead(g.cond) {
						return true
					}
				}
			}
			return false
		}
		n := 0
		for _, f := range w.RepoFuncs("flow", "utils", "callbacks", "compose", "components") {
			if !isHandlerSig(f) || len(f.Params) == 0 {
				continue
			}
			recv := f.Params[0]
			fromRecv := func(v ssa.Value) bool {
				fld, base := loadedField(v)
				return fld != nil && base == ssa.Value(recv)
			}
			check := func(what string, in ssa.Instruction) {
				n++
				r.Check(underContextTest(in.Block()), "C09.handler-state-own-run-only", fmt.Sprintf("%s: %s", w.fname(f), what), in.Pos(), "under a test of what the context carries", "unconditional: every component of this kind that starts below the run fires the same handler — with react.WithMessageFuture, a tool that runs a compiled Graph with the context it was given makes the second graph start close the future's 'started' channel again ('close of closed channel', the agent run fails) and replace / close the outer run's message channel")
			}
			k := 0
			for _, fw := range fieldWrites(f) {
				if fw.base == ssa.Value(recv) {
					k++
					check(fmt.Sprintf("store #%d into receiver field %s", k, fw.field.Name()), fw.in)
				}
			}
			k = 0
			instrs(f, func(in ssa.Instruction) {
				c, ok := in.(*ssa.Call)
				if !ok {
					return
				}
				if isBuiltin(c, "close") && fromRecv(c.Call.Args[0]) {
					k++
					check(fmt.Sprintf("close #%d of a channel held in the receiver", k), in)
					return
				}
				if sc := staticCallee(c); sc != nil && sc.Name() == "Close" && sc.Signature.Recv() != nil && len(c.Call.Args) > 0 && fromRecv(c.Call.Args[0]) {
					k++
					check(fmt.Sprintf("Close #%d of an object held in the receiver", k), in)
				}
			})
		}
		if n == 0 {
			r.Info("C09.handler-state-own-run-only", "no callback handler method of the module keeps state of its own", token.NoPos, "nothing to decide")
		}
	}
	r.Rule("C09.result-slice-is-own", "a slice a bundled component builds by appending what other parties hand it (the chat template joining the messages of its entries) starts from a slice of its own: the first operand of every append in components/prompt goes back to make / a literal / nil, never to a value returned by another component or received as an argument — a MessagesPlaceholder returns the caller's history slice itself, and appending to it writes into spare capacity shared by every run that was given that history", 1)
	{
		n := 0
		for _, fn := range w.RepoFuncs("components/prompt") {
			k := 0
			instrs(fn, func(in ssa.Instruction) {
				c, ok := in.(*ssa.Call)
				if !ok || !isBuiltin(c, "append") {
					return
				}
				k++
				n++
				bad := ""
				seen := map[ssa.Value]bool{}
				var walk func(v ssa.Value, d int)
				walk = func(v ssa.Value, d int) {
					if v == nil || d > 12 || seen[v] || bad != "" {
						return
					}
					seen[v] = true
					switch x := v.(type) {
					case *ssa.Phi:
						for _, e := range x.Edges {
							walk(e, d+1)
						}
					case *ssa.Call:
						if isBuiltin(x, "append") {
							walk(x.Call.Args[0], d+1)
						} else {
							bad = "the result of " + valText(x)
						}
					case *ssa.MakeSlice, *ssa.Const, *ssa.Alloc:
					case *ssa.Slice:
						walk(x.X, d+1)
					case *ssa.UnOp:
						if a, isA := x.X.(*ssa.Alloc); isA && x.Op == token.MUL {
							for _, st := range storesToCell(fn, a) {
								walk(st.Val, d+1)
							}
						} else {
							bad = valText(x)
						}
					default:
						bad = valText(v)
					}
				}
				walk(c.Call.Args[0], 0)
				r.Check(bad == "", "C09.result-slice-is-own", fmt.Sprintf("%s: append #%d", w.fname(fn), k), c.Pos(), "starts from make / a literal / nil", "appends to "+bad+": with a MessagesPlaceholder as first entry that is the caller's own history slice — two concurrent runs sharing one read-only history (with spare capacity) overwrite each other's prompt tail, run A's model sees 'question of B'")
			})
		}
		if n == 0 {
			r.Info("C09.result-slice-is-own", "no append in components/prompt", token.NoPos, "nothing to decide")
		}
	}
	r.Rule("C09.no-append-onto-captured-slices", "no function literal of the bundled flows (handlers and lambdas built once in a constructor, run per call) appends onto a slice captured from the constructor: with spare capacity every run writes its elements into the one backing array, and two overlapping runs read each other's input (the host agent's model is shown the other run's messages)", 0)
	{
		n := 0
		for _, fn := range w.RepoFuncs("flow") {
			if fn.Parent() == nil {
				continue
			}
			instrs(fn, func(in ssa.Instruction) {
				c, ok := in.(*ssa.Call)
				if !ok || !isBuiltin(c, "append") {
					return
				}
				v := c.Call.Args[0]
				captured := false
				for d := 0; d < 4 && v != nil; d++ {
					switch x := v.(type) {
					case *ssa.FreeVar:
						captured = true
						v = nil
					case *ssa.UnOp:
						v = x.X
					case *ssa.Slice:
						v = x.X
					default:
						v = nil
					}
				}
				if !captured {
					return
				}
				// a store back into the same captured variable is a build-up of that variable (checked by CAPTURE-WRITE), not
				// a per-call result
				n++
				r.Fail("C09.no-append-onto-captured-slices", fmt.Sprintf("%s appends onto a captured slice", w.fname(fn)), c.Pos(), "the first operand of the append is a slice captured from the constructor ("+valText(c.Call.Args[0])+"): built once with spare capacity, it makes every call write into the same backing array — two concurrent runs of the host multi-agent show the host model the other run's messages")
			})
		}
		if n == 0 {
			r.OK("C09.no-append-onto-captured-slices", "no literal of flow/* appends onto a captured slice", token.NoPos, "none")
		}
	}
	r.Rule("C09.reslice-append", "no append onto a re-slice (x[:k]) of a parameter slice or of a slice held in a field of a shared object, except the owner's delete-in-place stored back into the same field", 1)
	ruleResliceAppend(w, r, "C09.reslice-append", "compose", "schema", "internal", "flow", "callbacks", "components", "utils")

	r.Rule("C09.append-alias", "append on a slice held in a shared object is stored back to the same field or starts from a fresh slice", 1)
	armedOwners := map[*types.Named]bool{}
	for t := range compiled {
		armedOwners[t] = true
	}
	for _, n := range []struct{ p, t string }{{"internal/callbacks", "manager"}, {"compose", "NodePath"}, {"compose", "Option"}, {"flow/agent", "AgentOption"}} {
		armedOwners[w.Named(n.p, n.t)] = true
	}
	ruleAppendAlias(w, r, "C09.append-alias", armedOwners, w.RepoFuncs("compose", "internal", "flow", "callbacks", "schema"), reach)

	// per-run managers
	r.Rule("C09.per-run-managers", "run allocates its channel manager / task manager and their containers per call", 4)
	run := w.Fn("compose", "runner.run")
	for _, name := range []string{"runner.initChannelManager", "runner.initTaskManager"} {
		f := w.Fn("compose", name)
		r.Check(len(callsTo(run, f)) == 1, "C09.per-run-managers", "runner.run calls "+name, run.Pos(), "called once per run", "runner.run no longer creates its own manager")
		// returns a fresh allocation
		fresh := true
		instrs(f, func(in ssa.Instruction) {
			if ret, ok := in.(*ssa.Return); ok {
				if _, ok := ret.Results[0].(*ssa.Alloc); !ok {
					fresh = false
				}
			}
		})
		r.Check(fresh, "C09.per-run-managers", name+" returns fresh object", f.Pos(), "returns a literal allocated in the call", "manager is not a fresh allocation (cached/shared between runs)")
	}
	// fields of the managers that are containers must be made in the init function (not copied from runner)
	chm := w.Named("compose", "channelManager")
	icm := w.Fn("compose", "runner.initChannelManager")
	for _, fw := range fieldWrites(icm) {
		if fw.owner != chm || fw.kind != "store" {
			continue
		}
		switch fw.field.Name() {
		case "channels", "dataPredecessors", "controlPredecessors":
			_, isMake := fw.val.(*ssa.MakeMap)
			r.Check(isMake, "C09.per-run-managers", "channelManager."+fw.field.Name()+" is per run", fw.in.Pos(), "map made in initChannelManager", "mutable per-run map is taken from the shared runner")
		}
	}

	// state per run: the state generator is invoked only inside a literal stored to runner.runCtx
	r.Rule("C09.state-per-run", "stateGenerator is called only inside the literal stored in runner.runCtx; run invokes runCtx on the fresh-start arm; state generators of the bundled flows return fresh objects that do not alias constructor variables", 4)
	sg := w.Field("compose", "graph", "stateGenerator")
	runCtx := w.Field("compose", "runner", "runCtx")
	ncall := 0
	for _, fn := range w.RepoFuncs("compose") {
		instrs(fn, func(in ssa.Instruction) {
			c, ok := in.(ssa.CallInstruction)
			if !ok || c.Common().IsInvoke() {
				return
			}
			if !isLoadOfField(c.Common().Value, sg) {
				return
			}
			ncall++
			// fn must be a literal whose MakeClosure is stored to runner.runCtx
			okk := false
			if p := fn.Parent(); p != nil {
				instrs(p, func(pi ssa.Instruction) {
					if st, ok := pi.(*ssa.Store); ok {
						if fa, ok := st.Addr.(*ssa.FieldAddr); ok && sameField(fieldVarOfAddr(fa), runCtx) {
							if mc, ok := st.Val.(*ssa.MakeClosure); ok && mc.Fn == fn {
								okk = true
							}
						}
					}
				})
			}
			r.Check(okk, "C09.state-per-run", "call of graph.stateGenerator in "+w.fname(fn), in.Pos(), "inside the per-run context literal (runner.runCtx)", "state generator invoked outside the per-run closure: state object shared between runs")
		})
	}
	if ncall == 0 {
		undecidedf("C09.state-per-run: no call of graph.stateGenerator found")
	}
	nrc := 0
	instrs(run, func(in ssa.Instruction) {
		c, ok := in.(ssa.CallInstruction)
		if ok && !c.Common().IsInvoke() && isLoadOfField(c.Common().Value, runCtx) {
			nrc++
		}
	})
	r.Check(nrc == 1, "C09.state-per-run", "runner.run invokes runCtx", run.Pos(), "exactly one invocation per run", fmt.Sprintf("runner.run invokes runCtx %d times", nrc))

	// state-fresh: the state generators of the bundled agents return fresh objects not aliasing constructor variables
	ruleStateFresh(w, r, "C09.state-per-run")

	// options per run
	r.Rule("C09.options-per-run", "extractOption allocates its result and never writes through its parameters", 1)
	eo := w.Fn("compose", "extractOption")
	ruleNoMutateParams(w, r, "C09.options-per-run", eo, nil)
}

// frozen exception tables (one construct each, with reason)
var captureExceptions = map[string]string{}
var appendExceptions = map[string]string{}

// ruleNoMutateParams: no Store/MapUpdate in fn (incl. closures) whose address derives from one of fn's
// parameters (all params when which == nil).
func ruleNoMutateParams(w *World, r *Report, rule string, fn *ssa.Function, which map[string]bool) {
	bad := 0
	for _, f := range withAnons(fn) {
		instrs(f, func(in ssa.Instruction) {
			var addr ssa.Value
			switch x := in.(type) {
			case *ssa.Store:
				addr = x.Addr
			case *ssa.MapUpdate:
				addr = x.Map
			default:
				return
			}
			if p := paramRoot(addr, 0); p != nil && p.Parent() == fn && (which == nil || which[p.Name()]) {
				bad++
				r.Fail(rule, fmt.Sprintf("%s writes through parameter %s", w.fname(fn), p.Name()), in.Pos(), "input object mutated: "+in.String())
			}
		})
	}
	if bad == 0 {
		r.OK(rule, w.fname(fn)+" does not write through its parameters", fn.Pos(), "no Store/MapUpdate rooted in a parameter")
	}
}

// paramRoot: the parameter an address/map/slice value is derived from (through field/index/deref), or nil.
func paramRoot(v ssa.Value, depth int) *ssa.Parameter {
	if depth > 15 {
		return nil
	}
	switch x := v.(type) {
	case *ssa.Parameter:
		return x
	case *ssa.FieldAddr:
		return paramRoot(x.X, depth+1)
	case *ssa.IndexAddr:
		return paramRoot(x.X, depth+1)
	case *ssa.Field:
		return paramRoot(x.X, depth+1)
	case *ssa.UnOp:
		// a reference (pointer / slice / map) loaded from a field of a LOCAL struct that was filled by copying a
		// whole struct out of a parameter still points into the parameter's storage (a by-value copy is shallow)
		if fa, ok := x.X.(*ssa.FieldAddr); ok && isRefType(x.Type()) {
			for _, al := range pointeeAllocs(fa.X, 0) {
				for _, ref := range *al.Referrers() {
					if st, ok := ref.(*ssa.Store); ok && st.Addr == ssa.Value(al) {
						if p := paramRoot(st.Val, depth+1); p != nil {
							return p
						}
					}
				}
			}
		}
		return paramRoot(x.X, depth+1)
	case *ssa.Lookup:
		return paramRoot(x.X, depth+1)
	case *ssa.Slice:
		return paramRoot(x.X, depth+1)
	case *ssa.Index:
		return paramRoot(x.X, depth+1)
	case *ssa.Extract:
		if n, ok := x.Tuple.(*ssa.Next); ok {
			return paramRoot(n.Iter, depth+1)
		}
		if l, ok := x.Tuple.(*ssa.Lookup); ok {
			return paramRoot(l.X, depth+1)
		}
		if ta, ok := x.Tuple.(*ssa.TypeAssert); ok {
			return paramRoot(ta.X, depth+1)
		}
	case *ssa.TypeAssert:
		return paramRoot(x.X, depth+1)
	case *ssa.MakeInterface:
		return paramRoot(x.X, depth+1)
	case *ssa.ChangeType:
		return paramRoot(x.X, depth+1)
	case *ssa.Range:
		return paramRoot(x.X, depth+1)
	case *ssa.Alloc:
		// local copy of a parameter (spilled): stores into the copy are not writes to the caller's object
		return nil
	}
	return nil
}

// ruleStateFresh: every literal passed to compose.WithGenLocalState inside the module returns a fresh
// allocation, and no reference-typed value captured from the enclosing constructor is stored into it
// (such a slice/map/pointer would be shared by the states of all runs).
func ruleStateFresh(w *World, r *Report, rule string) {
	gls := w.Fn("compose", "WithGenLocalState")
	n := 0
	for _, fn := range w.RepoFuncs("flow", "compose", "components") {
		for _, c := range callsTo(fn, gls) {
			n++
			lit := staticCalleeOfValue(c.Common().Args[0])
			construct := "state generator passed to WithGenLocalState in " + w.fname(fn)
			if lit == nil {
				r.Info(rule, construct, c.Pos(), "generator is not a literal (cannot inspect)")
				continue
			}
			bad := ""
			instrs(lit, func(in ssa.Instruction) {
				switch x := in.(type) {
				case *ssa.Return:
					if len(x.Results) == 1 {
						if _, ok := through(x.Results[0]).(*ssa.Alloc); !ok {
							bad = "returns a value that is not allocated in the generator"
						}
					}
				case *ssa.Store:
					if fa, ok := x.Addr.(*ssa.FieldAddr); ok {
						if fv := freeVarRoot(x.Val, 0); fv != nil && isRefType(x.Val.Type()) {
							bad = "field " + fieldVarOfAddr(fa).Name() + " is initialised from captured variable " + fv.Name() + " (" + x.Val.Type().String() + "): every run's state aliases the same storage"
						}
					}
				}
			})
			r.Check(bad == "", rule, construct, c.Pos(), "returns a fresh object; no captured reference stored into it", bad)
		}
	}
	if n == 0 {
		r.Info(rule, "WithGenLocalState callers", gls.Pos(), "no caller inside the module")
	}
}

func staticCalleeOfValue(v ssa.Value) *ssa.Function {
	switch x := through(v).(type) {
	case *ssa.Function:
		return x
	case *ssa.MakeClosure:
		return x.Fn.(*ssa.Function)
	}
	return nil
}

func freeVarRoot(v ssa.Value, d int) *ssa.FreeVar {
	if d > 10 {
		return nil
	}
	switch x := v.(type) {
	case *ssa.FreeVar:
		return x
	case *ssa.UnOp:
		return freeVarRoot(x.X, d+1)
	case *ssa.Slice:
		return freeVarRoot(x.X, d+1)
	case *ssa.ChangeType:
		return freeVarRoot(x.X, d+1)
	case *ssa.MakeInterface:
		return freeVarRoot(x.X, d+1)
	case *ssa.FieldAddr:
		return freeVarRoot(x.X, d+1)
	case *ssa.Field:
		return freeVarRoot(x.X, d+1)
	}
	return nil
}

func isRefType(t types.Type) bool {
	switch t.Underlying().(type) {
	case *types.Slice, *types.Map, *types.Pointer, *types.Chan:
		return true
	}
	return false
}

// pointeeAllocs: the local allocations a pointer value may point to: the Alloc itself, or — for a pointer loaded
// from a field of a local struct — the allocations stored into that field anywhere in the function.
func pointeeAllocs(v ssa.Value, d int) []*ssa.Alloc {
	if d > 3 {
		return nil
	}
	switch x := v.(type) {
	case *ssa.Alloc:
		return []*ssa.Alloc{x}
	case *ssa.UnOp:
		fa, ok := x.X.(*ssa.FieldAddr)
		if !ok {
			return nil
		}
		var out []*ssa.Alloc
		for _, base := range pointeeAllocs(fa.X, d+1) {
			for _, ref := range *base.Referrers() {
				f2, ok := ref.(*ssa.FieldAddr)
				if !ok || f2.Field != fa.Field {
					continue
				}
				for _, rr := range *f2.Referrers() {
					if st, ok := rr.(*ssa.Store); ok && st.Addr == ssa.Value(f2) {
						out = append(out, pointeeAllocs(st.Val, d+1)...)
					}
				}
			}
		}
		return out
	}
	return nil
}

var guardedByExceptions = map[string]string{}

// returnsLongLived: the function hands out something that outlives the call (a pointer / interface / func result): a
// constructor. Its context parameter is the construction context.
func returnsLongLived(fn *ssa.Function) bool {
	res := fn.Signature.Results()
	for i := 0; i < res.Len(); i++ {
		switch res.At(i).Type().Underlying().(type) {
		case *types.Pointer, *types.Signature:
			return true
		case *types.Interface:
			if !isErrorType(res.At(i).Type()) {
				return true
			}
		}
	}
	return false
}
