package main

import (
	"fmt"
	"go/token"
	"go/types"
	"reflect"
	"strings"

	"golang.org/x/tools/go/ssa"
)

// REFLECT-ZERO: typestate for reflect.Type (possibly nil) and reflect.Value (possibly the zero Value).

type reflectHit struct {
	fn     *ssa.Function
	use    ssa.Instruction
	src    ssa.Value
	what   string // description of source
	sink   string
	isType bool
}

func isReflectType(t types.Type) bool {
	n, ok := t.(*types.Named)
	return ok && n.Obj().Pkg() != nil && n.Obj().Pkg().Path() == "reflect" && n.Obj().Name() == "Type"
}

func isReflectValue(t types.Type) bool {
	n, ok := t.(*types.Named)
	return ok && n.Obj().Pkg() != nil && n.Obj().Pkg().Path() == "reflect" && n.Obj().Name() == "Value"
}

// possiblyNilIface: x (argument of reflect.TypeOf / ValueOf) may be a nil interface value.
func possiblyNilIface(x ssa.Value) bool {
	if mi, ok := x.(*ssa.MakeInterface); ok {
		// boxed concrete value: the interface is never nil (TypeOf is non-nil); ValueOf may still be a nil pointer but valid
		_ = mi
		return false
	}
	if c, ok := x.(*ssa.Const); ok {
		return c.Value == nil
	}
	_, isIface := x.Type().Underlying().(*types.Interface)
	return isIface
}

// nonNilGuarded: block b executes only when v (or the interface value src it was computed from) is non-nil.
func nonNilGuarded(b *ssa.BasicBlock, vals ...ssa.Value) bool {
	return hasGuard(b, func(g guard) bool {
		return guardNonNil(g, func(x ssa.Value) bool {
			for _, v := range vals {
				if x == v || sameLoad(x, v) {
					return true
				}
			}
			return false
		})
	})
}

// sameLoad: two loads of the same address expression (x.f loaded twice, m[k] twice ...).
func sameLoad(a, b ssa.Value) bool {
	ua, ok1 := a.(*ssa.UnOp)
	ub, ok2 := b.(*ssa.UnOp)
	if ok1 && ok2 && ua.Op == token.MUL && ub.Op == token.MUL {
		if ua.X == ub.X {
			return true
		}
		ia, ok3 := ua.X.(*ssa.IndexAddr)
		ib, ok4 := ub.X.(*ssa.IndexAddr)
		if ok3 && ok4 && ia.X == ib.X && sameKeyExpr(ia.Index, ib.Index) {
			return true
		}
	}
	return false
}

// validGuarded: block executes only when v.IsValid() returned true (or v.Kind() != Invalid).
func validGuarded(b *ssa.BasicBlock, v ssa.Value) bool {
	for d := b; d != nil; d = d.Idom() {
		if _, ok := reachedOnlyByKindEdges(d, v); ok {
			return true
		}
	}
	return hasGuard(b, func(g guard) bool {
		c, ok := g.cond.(*ssa.Call)
		if ok && g.pol && calleeFullName(c) == "(reflect.Value).IsValid" && valueAlias(c.Call.Args[0], v) {
			return true
		}
		// CanSet / CanAddr / CanInterface are false (not a panic) on the zero Value
		if ok && g.pol && valueAlias(c.Call.Args[0], v) {
			switch calleeFullName(c) {
			case "(reflect.Value).CanSet", "(reflect.Value).CanAddr", "(reflect.Value).CanInterface":
				return true
			}
		}
		// (also below: a `case K1, K2:` arm reached only by Kind() == Ki edges)
		// v.Kind() == K with K != Invalid: the zero Value has kind Invalid
		if op, x, y, isCmp := asCmp(g.cond); isCmp && ((op == token.EQL && g.pol) || (op == token.NEQ && !g.pol)) {
			if kc, ok := x.(*ssa.Call); ok && calleeFullName(kc) == "(reflect.Value).Kind" && valueAlias(kc.Call.Args[0], v) {
				if k, ok := constInt(y); ok && k != 0 {
					return true
				}
			}
		}
		return false
	})
}

func valueAlias(a, b ssa.Value) bool {
	if a == b {
		return true
	}
	// loads of the same local cell
	ua, ok1 := a.(*ssa.UnOp)
	ub, ok2 := b.(*ssa.UnOp)
	return ok1 && ok2 && ua.X == ub.X
}

var reflectValueSinks = map[string]bool{
	"Type": true, "Interface": true, "Elem": true, "IsNil": true, "Len": true, "MapKeys": true, "MapRange": true, "MapIndex": true,
	"Field": true, "FieldByName": true, "NumField": true, "Set": true, "SetMapIndex": true, "Index": true, "Call": true, "Convert": true,
	"String": false, "Kind": false, "IsValid": false, "IsZero": true, "CanSet": false, "CanInterface": false, "CanAddr": false,
}

// reflectZeroHits lists uses of a possibly-nil reflect.Type / possibly-zero reflect.Value in fn.
func reflectZeroHits(fn *ssa.Function) []reflectHit {
	var out []reflectHit
	instrs(fn, func(in ssa.Instruction) {
		c, ok := in.(ssa.CallInstruction)
		if !ok {
			return
		}
		com := c.Common()
		// --- Type sinks: method call on a reflect.Type value, or reflect.SliceOf/MapOf/New/MakeMap/Zero(t)
		var tv ssa.Value
		sink := ""
		if com.IsInvoke() && isReflectType(com.Value.Type()) {
			tv, sink = com.Value, "Type."+com.Method.Name()
		} else if name := calleeFullName(in); strings.HasPrefix(name, "reflect.") {
			switch name {
			case "reflect.SliceOf", "reflect.MapOf", "reflect.New", "reflect.MakeMap", "reflect.Zero", "reflect.MakeSlice", "reflect.PtrTo", "reflect.PointerTo", "reflect.MakeMapWithSize":
				for _, a := range com.Args {
					if isReflectType(a.Type()) {
						tv, sink = a, name
					}
				}
			}
		}
		if tv != nil {
			if src, ok := tv.(*ssa.Call); ok && calleeFullName(src) == "reflect.TypeOf" {
				arg := src.Call.Args[0]
				if possiblyNilIface(arg) && !nonNilGuarded(in.Block(), tv, arg) {
					out = append(out, reflectHit{fn, in, tv, "reflect.TypeOf(" + argDesc(arg) + ")", sink, true})
				}
			}
		}
		// --- Value sinks
		if !com.IsInvoke() {
			name := calleeFullName(in)
			if strings.HasPrefix(name, "(reflect.Value).") && len(com.Args) > 0 {
				m := strings.TrimPrefix(name, "(reflect.Value).")
				// argument sinks: a zero Value stored as a map element deletes the key silently; Set/Append of it panic
				argSinks := map[string][]int{"SetMapIndex": {2}, "Set": {1}}
				for _, ai := range argSinks[m] {
					if ai < len(com.Args) {
						a := com.Args[ai]
						if what := zeroValueSource(a, 0); what != "" && !validGuarded(in.Block(), a) && !srcNonNilGuarded(in.Block(), a) {
							out = append(out, reflectHit{fn, in, a, what, "argument of Value." + m, false})
						}
					}
				}
				if reflectValueSinks[m] {
					recv := com.Args[0]
					if what := zeroValueSource(recv, 0); what != "" && !validGuarded(in.Block(), recv) && !srcNonNilGuarded(in.Block(), recv) {
						out = append(out, reflectHit{fn, in, recv, what, "Value." + m, false})
					}
				}
			}
		}
	})
	return out
}

func argDesc(v ssa.Value) string {
	if f, _ := loadedField(v); f != nil {
		return "." + f.Name()
	}
	switch x := v.(type) {
	case *ssa.Parameter:
		return x.Name()
	case *ssa.UnOp:
		if ia, ok := x.X.(*ssa.IndexAddr); ok {
			return argDesc(ia.X) + "[" + argDesc(ia.Index) + "]"
		}
	case *ssa.Const:
		return x.String()
	case *ssa.Extract:
		return "elem"
	case *ssa.FreeVar:
		return x.Name()
	}
	if u, ok := v.(*ssa.UnOp); ok {
		if fv, ok := u.X.(*ssa.FreeVar); ok {
			return fv.Name()
		}
	}
	return "value"
}

// zeroValueSource: v may be the zero reflect.Value; returns a description of why, or "".
func zeroValueSource(v ssa.Value, d int) string {
	if d > 6 {
		return ""
	}
	switch x := v.(type) {
	case *ssa.Parameter:
		if why, ok := reflectZeroParams[x]; ok {
			return why
		}
	case *ssa.Call:
		name := calleeFullName(x)
		switch name {
		case "(reflect.Value).Elem":
			// Elem of a nil pointer is the zero Value. Armed for the "dereference after a kind test" idiom: the receiver
			// is known to be of pointer kind (dominating Kind() == reflect.Ptr), is not a freshly made pointer, and
			// nothing established that it is non-nil (IsNil() false, or a call that instantiates it)
			recv := x.Call.Args[0]
			if kindPtrGuarded(x.Block(), recv) && !freshPointerValue(recv, 0) && !nilGuardedFalse(x.Block(), recv) && !instantiatedBefore(x, recv) {
				return "Value.Elem() of a possibly nil pointer"
			}
		case "reflect.ValueOf":
			if possiblyNilIface(x.Call.Args[0]) && !nonNilGuarded(x.Block(), x.Call.Args[0]) {
				return "reflect.ValueOf(" + argDesc(x.Call.Args[0]) + ") of a possibly nil interface"
			}
		case "(reflect.Value).MapIndex":
			return "Value.MapIndex (missing key)"
		case "(reflect.Value).FieldByName":
			return "Value.FieldByName (missing field)"
		}
	case *ssa.UnOp:
		if x.Op == token.MUL {
			if a, ok := x.X.(*ssa.Alloc); ok {
				// local variable of type reflect.Value: any store of a possibly-zero value, or no store at all (zero)
				for _, ref := range *a.Referrers() {
					if st, ok := ref.(*ssa.Store); ok && st.Addr == ssa.Value(a) {
						if s := zeroValueSource(st.Val, d+1); s != "" {
							return s
						}
					}
				}
			}
		}
	case *ssa.Phi:
		for i, e := range x.Edges {
			// an incoming edge taken only after e.IsValid() held does not carry a zero Value
			p := x.Block().Preds[i]
			if validGuarded(p, e) || edgeIsValidTrue(p, x.Block(), e) {
				continue
			}
			if _, ok := kindTrueEdge(p, x.Block(), e); ok {
				continue
			}
			if s := zeroValueSource(e, d+1); s != "" {
				return s
			}
		}
	}
	return ""
}

// edgeIsValidTrue: block p ends in `if v.IsValid()` (possibly negated by successor order) and the edge
// p->succ is the one taken when IsValid is true.
func edgeIsValidTrue(p, succ *ssa.BasicBlock, v ssa.Value) bool {
	iff, ok := p.Instrs[len(p.Instrs)-1].(*ssa.If)
	if !ok {
		return false
	}
	c, ok := iff.Cond.(*ssa.Call)
	if !ok || calleeFullName(c) != "(reflect.Value).IsValid" || !valueAlias(c.Call.Args[0], v) {
		return false
	}
	return p.Succs[0] == succ
}

// srcNonNilGuarded: the interface the Value was built from is known non-nil at b.
func srcNonNilGuarded(b *ssa.BasicBlock, v ssa.Value) bool {
	c, ok := v.(*ssa.Call)
	if !ok || calleeFullName(c) != "reflect.ValueOf" {
		return false
	}
	arg := c.Call.Args[0]
	if nonNilGuarded(b, arg) {
		return true
	}
	// the dynamic type of the same interface value was established non-nil: `reflect.TypeOf(x) != nil`, or
	// `reflect.TypeOf(x) == t` with t itself established non-nil
	typeOfArg := func(v ssa.Value) bool {
		tc, ok := v.(*ssa.Call)
		if !ok || calleeFullName(tc) != "reflect.TypeOf" {
			return false
		}
		a := tc.Call.Args[0]
		return a == arg || sameLoad(a, arg)
	}
	return hasGuard(b, func(g guard) bool {
		if guardNonNil(g, typeOfArg) {
			return true
		}
		op, x, y, ok := asCmp(g.cond)
		if !ok || !((op == token.EQL && g.pol) || (op == token.NEQ && !g.pol)) {
			return false
		}
		for _, p := range [][2]ssa.Value{{x, y}, {y, x}} {
			if typeOfArg(p[0]) && isReflectType(p[1].Type()) {
				other := p[1]
				if hasGuard(g.at.Block(), func(g2 guard) bool {
					return guardNonNil(g2, func(v ssa.Value) bool { return v == other })
				}) {
					return true
				}
			}
		}
		return false
	})
}

// ruleReflectZero applies the typestate to the given functions with a frozen exception table keyed by construct.
func ruleReflectZero(w *World, r *Report, rule string, fns []*ssa.Function, exceptions map[string]string) int {
	// pre-pass: which parameters can be handed a zero Value by a caller in the set (two rounds: chains of helpers)
	reflectZeroParams = map[*ssa.Parameter]string{}
	inSet := map[*ssa.Function]bool{}
	for _, f := range fns {
		inSet[origin(f)] = true
	}
	for round := 0; round < 2; round++ {
		for _, fn := range fns {
			instrs(fn, func(in ssa.Instruction) {
				c, ok := in.(ssa.CallInstruction)
				if !ok {
					return
				}
				sc := staticCallee(c)
				if sc == nil || !inSet[origin(sc)] {
					return
				}
				for i, a := range c.Common().Args {
					if i >= len(origin(sc).Params) || !isReflectValue(a.Type()) {
						continue
					}
					if what := zeroValueSource(a, 0); what != "" && !validGuarded(in.Block(), a) && !srcNonNilGuarded(in.Block(), a) {
						reflectZeroParams[origin(sc).Params[i]] = what + " (passed by " + w.fname(origin(fn)) + ")"
					}
				}
			})
		}
	}
	n := 0
	seen := map[token.Pos]bool{}
	for _, fn := range fns {
		for _, h := range reflectZeroHits(fn) {
			if seen[h.use.Pos()] {
				continue
			}
			seen[h.use.Pos()] = true
			n++
			construct := fmt.Sprintf("%s: %s on %s", w.fname(origin(fn)), h.sink, h.what)
			if reason, ok := exceptions[construct]; ok {
				r.Except(rule, construct, h.use.Pos(), reason)
				continue
			}
			kind := "zero reflect.Value"
			if h.isType {
				kind = "nil reflect.Type"
			}
			r.Fail(rule, construct, h.use.Pos(), "possibly "+kind+" used without a validity/nil guard: panics ('call of reflect.Value.X on zero Value' / nil pointer dereference) instead of returning an error")
		}
	}
	return n
}

// REFLECT-ADDR: a reflect.Value obtained from Value.MapIndex is never addressable, and neither is a struct
// field reached through it: Set on it panics and CanSet is false (the repo's setters then report "field not
// exported" and the caller panics "must succeed"). Taint from MapIndex results, through phis, Field /
// FieldByName, and module-internal calls (argument -> parameter, derived return values), to the receiver of
// a Set* method. Elem() ends the taint (pointer targets are addressable).

type addrHit struct {
	fn   *ssa.Function
	sink ssa.Instruction
	src  ssa.Instruction
}

func reflectNonAddrHits(w *World, fns []*ssa.Function) []addrHit {
	inScope := map[*ssa.Function]bool{}
	for _, f := range fns {
		inScope[f] = true
	}
	tainted := map[ssa.Value]ssa.Instruction{} // value -> originating MapIndex
	var work []ssa.Value
	mark := func(v ssa.Value, src ssa.Instruction) {
		if v == nil || !isReflectValue(v.Type()) {
			if t, ok := v.Type().(*types.Tuple); !ok || t.Len() == 0 {
				return
			}
		}
		if _, done := tainted[v]; done {
			return
		}
		tainted[v] = src
		work = append(work, v)
	}
	for _, f := range fns {
		instrs(f, func(in ssa.Instruction) {
			if c, ok := in.(*ssa.Call); ok && calleeFullName(c) == "(reflect.Value).MapIndex" {
				mark(c, c)
			}
		})
	}
	var hits []addrHit
	seenSink := map[ssa.Instruction]bool{}
	for len(work) > 0 {
		v := work[len(work)-1]
		work = work[:len(work)-1]
		src := tainted[v]
		refs := v.Referrers()
		if refs == nil {
			continue
		}
		for _, ref := range *refs {
			switch u := ref.(type) {
			case *ssa.Phi:
				// an edge taken only when v.CanAddr() held carries an addressable value
				carries := false
				for i, e := range u.Edges {
					if e != v {
						continue
					}
					p := u.Block().Preds[i]
					if canAddrGuarded(p, v) || edgeCanAddrTrue(p, u.Block(), v) {
						continue
					}
					carries = true
				}
				if carries {
					mark(u, src)
				}
			case *ssa.Extract:
				if isReflectValue(u.Type()) {
					mark(u, src)
				}
			case *ssa.Store:
				// local cell
				if al, ok := u.Addr.(*ssa.Alloc); ok && u.Val == v {
					for _, l := range *al.Referrers() {
						if lo, ok := l.(*ssa.UnOp); ok {
							mark(lo, src)
						}
					}
				}
			case *ssa.Return:
				// handled at call sites below (callee summaries by re-scanning callers)
				fn := u.Parent()
				for _, caller := range fns {
					for _, c := range callsTo(caller, fn) {
						if cv, ok := c.(ssa.Value); ok {
							mark(cv, src)
						}
					}
				}
			case ssa.CallInstruction:
				com := u.Common()
				name := calleeFullName(u)
				if strings.HasPrefix(name, "(reflect.Value).") && len(com.Args) > 0 && com.Args[0] == v {
					m := strings.TrimPrefix(name, "(reflect.Value).")
					switch {
					case m == "Field" || m == "FieldByName" || m == "FieldByIndex":
						if cv, ok := u.(ssa.Value); ok {
							mark(cv, src)
						}
					case strings.HasPrefix(m, "Set") && m != "SetMapIndex":
						if !seenSink[u] {
							seenSink[u] = true
							hits = append(hits, addrHit{u.Parent(), u, src})
						}
					}
					continue
				}
				if sc := staticCallee(u); sc != nil && inScope[origin(sc)] {
					for i, a := range com.Args {
						if a == v && i < len(sc.Params) {
							mark(origin(sc).Params[i], src)
						}
					}
				}
			}
		}
	}
	return hits
}

func canAddrGuarded(b *ssa.BasicBlock, v ssa.Value) bool {
	return hasGuard(b, func(g guard) bool {
		c, ok := g.cond.(*ssa.Call)
		return ok && g.pol && calleeFullName(c) == "(reflect.Value).CanAddr" && valueAlias(c.Call.Args[0], v)
	})
}

func edgeCanAddrTrue(p, succ *ssa.BasicBlock, v ssa.Value) bool {
	iff, ok := p.Instrs[len(p.Instrs)-1].(*ssa.If)
	if !ok {
		return false
	}
	c, ok := iff.Cond.(*ssa.Call)
	if !ok || calleeFullName(c) != "(reflect.Value).CanAddr" || !valueAlias(c.Call.Args[0], v) {
		return false
	}
	return p.Succs[0] == succ
}

// reflectZeroParams: parameters of module functions that receive a possibly-zero reflect.Value at some call site
// (filled by ruleReflectZero for the function set it is given).
var reflectZeroParams = map[*ssa.Parameter]string{}

// nilGuardedFalse: block b executes only when v.IsNil() returned false.
func nilGuardedFalse(b *ssa.BasicBlock, v ssa.Value) bool {
	// an `if v.IsNil() { v.Set(new) }` before the dereference: nil-ness was considered and repaired
	for d := b; d != nil; d = d.Idom() {
		if iff, ok := d.Instrs[len(d.Instrs)-1].(*ssa.If); ok && d != b {
			if c, ok := iff.Cond.(*ssa.Call); ok && calleeFullName(c) == "(reflect.Value).IsNil" && valueAlias(c.Call.Args[0], v) {
				t := d.Succs[0]
				for _, in := range t.Instrs {
					if sc, ok := in.(*ssa.Call); ok && calleeFullName(sc) == "(reflect.Value).Set" {
						return true
					}
				}
			}
		}
	}
	return hasGuard(b, func(g guard) bool {
		c, ok := g.cond.(*ssa.Call)
		return ok && !g.pol && calleeFullName(c) == "(reflect.Value).IsNil" && valueAlias(c.Call.Args[0], v)
	})
}

// kindPtrGuarded: b executes only when v.Kind() == reflect.Ptr held.
func kindPtrGuarded(b *ssa.BasicBlock, v ssa.Value) bool {
	for d := b; d != nil; d = d.Idom() {
		if ks, ok := reachedOnlyByKindEdges(d, v); ok {
			for _, k := range ks {
				if k == 22 { // reflect.Ptr among the kinds of a `case` arm
					return true
				}
			}
		}
	}
	return hasGuard(b, func(g guard) bool {
		op, x, y, ok := asCmp(g.cond)
		if !ok {
			return false
		}
		c, ok := x.(*ssa.Call)
		if !ok || calleeFullName(c) != "(reflect.Value).Kind" || !valueAlias(c.Call.Args[0], v) {
			return false
		}
		k, ok := constInt(y)
		if !ok || k != 22 { // reflect.Ptr
			return false
		}
		return (op == token.EQL && g.pol) || (op == token.NEQ && !g.pol)
	})
}

// freshPointerValue: v was made by reflect.New / Value.Addr (never a nil pointer).
func freshPointerValue(v ssa.Value, d int) bool {
	if d > 4 {
		return false
	}
	switch x := v.(type) {
	case *ssa.Call:
		n := calleeFullName(x)
		return n == "reflect.New" || n == "(reflect.Value).Addr"
	case *ssa.Phi:
		for _, e := range x.Edges {
			if !freshPointerValue(e, d+1) {
				return false
			}
		}
		return len(x.Edges) > 0
	}
	return false
}

// instantiatedBefore: a call that receives recv and may set it (a module helper such as instantiateIfNeeded) dominates in.
func instantiatedBefore(in ssa.Instruction, recv ssa.Value) bool {
	found := false
	instrs(in.Parent(), func(o ssa.Instruction) {
		c, ok := o.(*ssa.Call)
		if !ok || found {
			return
		}
		sc := staticCallee(c)
		if sc == nil || !strings.Contains(strings.ToLower(sc.Name()), "instantiate") {
			return
		}
		for _, a := range c.Call.Args {
			if valueAlias(a, recv) && instrDominates(c, in) {
				found = true
			}
		}
	})
	return found
}

// kindTrueEdge: block p ends in `if v.Kind() == K` (K != Invalid) and succ is the arm taken when it holds; returns K.
func kindTrueEdge(p, succ *ssa.BasicBlock, v ssa.Value) (int64, bool) {
	iff, ok := p.Instrs[len(p.Instrs)-1].(*ssa.If)
	if !ok {
		return 0, false
	}
	op, x, y, isCmp := asCmp(iff.Cond)
	if !isCmp {
		return 0, false
	}
	kc, ok := x.(*ssa.Call)
	if !ok || calleeFullName(kc) != "(reflect.Value).Kind" || !valueAlias(kc.Call.Args[0], v) {
		return 0, false
	}
	k, ok := constInt(y)
	if !ok || k == 0 {
		return 0, false
	}
	if (op == token.EQL && p.Succs[0] == succ) || (op == token.NEQ && p.Succs[1] == succ) {
		return k, true
	}
	return 0, false
}

// reachedOnlyByKindEdges: every predecessor edge of b is a "Kind() == K" true edge (a `case K1, K2:` arm); returns the kinds.
func reachedOnlyByKindEdges(b *ssa.BasicBlock, v ssa.Value) ([]int64, bool) {
	if len(b.Preds) == 0 {
		return nil, false
	}
	var ks []int64
	for _, p := range b.Preds {
		k, ok := kindTrueEdge(p, b, v)
		if !ok {
			return nil, false
		}
		ks = append(ks, k)
	}
	return ks, true
}

// REFLECT-KIND-API: reflect.MakeSlice(t, …) panics unless t.Kind() == Slice (an array type is NOT accepted). Every call
// whose type argument is not built by reflect.SliceOf must sit on an arm entered only over `Kind() == reflect.Slice`
// edges; an arm shared with reflect.Array (`case reflect.Slice, reflect.Array:`) is reported.
type makeSliceSite struct {
	fn    *ssa.Function
	call  *ssa.Call
	kinds []int64
	known bool
}

func makeSliceSites(fns []*ssa.Function) []makeSliceSite {
	var out []makeSliceSite
	isKindCall := func(v ssa.Value) bool {
		c, ok := v.(*ssa.Call)
		if !ok {
			return false
		}
		if c.Call.IsInvoke() {
			return c.Call.Method.Name() == "Kind"
		}
		return calleeFullName(c) == "(reflect.Value).Kind"
	}
	var kindsInto func(b *ssa.BasicBlock, depth int) ([]int64, bool)
	kindsInto = func(b *ssa.BasicBlock, depth int) ([]int64, bool) {
		if depth > 3 || len(b.Preds) == 0 {
			return nil, false
		}
		var ks []int64
		for _, p := range b.Preds {
			iff, ok := p.Instrs[len(p.Instrs)-1].(*ssa.If)
			if !ok {
				// a straight-line predecessor: look through it
				if len(p.Succs) == 1 {
					sub, ok := kindsInto(p, depth+1)
					if !ok {
						return nil, false
					}
					ks = append(ks, sub...)
					continue
				}
				return nil, false
			}
			op, x, y, isCmp := asCmp(iff.Cond)
			k, isConst := constInt(y)
			if !isCmp || !isKindCall(x) || !isConst {
				return nil, false
			}
			if (op == token.EQL && p.Succs[0] == b) || (op == token.NEQ && p.Succs[1] == b) {
				ks = append(ks, k)
				continue
			}
			return nil, false
		}
		return ks, true
	}
	for _, fn := range fns {
		instrs(fn, func(in ssa.Instruction) {
			c, ok := in.(*ssa.Call)
			if !ok || calleeFullName(c) != "reflect.MakeSlice" {
				return
			}
			if tc, ok := c.Call.Args[0].(*ssa.Call); ok && calleeFullName(tc) == "reflect.SliceOf" {
				return
			}
			// walk up: the block itself or a dominating arm entered over kind edges
			site := makeSliceSite{fn: fn, call: c}
			for b := c.Block(); b != nil; b = b.Idom() {
				if ks, ok := kindsInto(b, 0); ok {
					site.kinds, site.known = ks, true
					break
				}
				if len(b.Preds) != 1 {
					break
				}
			}
			out = append(out, site)
		})
	}
	return out
}

func ruleMakeSliceKind(w *World, r *Report, rule string, pkgs ...string) int {
	const kindSlice = 23
	sites := makeSliceSites(w.RepoFuncs(pkgs...))
	for i, s := range sites {
		construct := fmt.Sprintf("reflect.MakeSlice #%d in %s", i+1, w.fname(origin(s.fn)))
		good := s.known && len(s.kinds) > 0
		var others []string
		for _, k := range s.kinds {
			if k != kindSlice {
				good = false
				others = append(others, reflect.Kind(k).String())
			}
		}
		det := "the call is not on an arm selected by the type's kind"
		if s.known {
			det = "the arm is also entered for kind " + strings.Join(others, ", ")
		}
		r.Check(good, rule, construct, s.call.Pos(), "reached only over Kind() == reflect.Slice", det+": reflect.MakeSlice panics ('MakeSlice of non-slice type') for an array type — an accepted mapping into an array-typed input (or the zero input of such a node) takes every run down with a panic instead of delivering the value")
	}
	return len(sites)
}

// REFLECT-FRESH-ACCUMULATOR: the reflect.Value a concat function writes into (SetMapIndex / Set / SetLen …) is one it
// created (reflect.MakeMap / MakeSlice / New / Zero), never one reached from its parameters (Index / MapIndex / Elem /
// Field of a parameter): an input chunk adopted as accumulator is rewritten in place, and the copies of a stream share
// their chunk objects.
func reflectWriteReceiversFromParams(fn *ssa.Function) []*ssa.Call {
	var out []*ssa.Call
	var fromParam func(v ssa.Value, d int, seen map[ssa.Value]bool) bool
	fromParam = func(v ssa.Value, d int, seen map[ssa.Value]bool) bool {
		if d > 10 || v == nil || seen[v] {
			return false
		}
		seen[v] = true
		switch x := v.(type) {
		case *ssa.Parameter:
			return isReflectValue(x.Type())
		case *ssa.Phi:
			for _, e := range x.Edges {
				if fromParam(e, d+1, seen) {
					return true
				}
			}
		case *ssa.Call:
			name := calleeFullName(x)
			switch name {
			case "reflect.MakeMap", "reflect.MakeMapWithSize", "reflect.MakeSlice", "reflect.New", "reflect.Zero":
				return false
			}
			if strings.HasPrefix(name, "(reflect.Value).") && len(x.Call.Args) > 0 {
				return fromParam(x.Call.Args[0], d+1, seen)
			}
			if name == "reflect.ValueOf" {
				return paramRoot(through(x.Call.Args[0]), 0) != nil
			}
		case *ssa.Extract:
			return fromParam(x.Tuple, d+1, seen)
		}
		return false
	}
	instrs(fn, func(in ssa.Instruction) {
		c, ok := in.(*ssa.Call)
		if !ok {
			return
		}
		switch calleeFullName(c) {
		case "(reflect.Value).SetMapIndex", "(reflect.Value).Set", "(reflect.Value).SetLen", "(reflect.Value).SetString", "(reflect.Value).SetInt":
			if fromParam(c.Call.Args[0], 0, map[ssa.Value]bool{}) {
				out = append(out, c)
			}
		}
	})
	return out
}
