package main

import (
	"flag"
	"fmt"
	"os"
	"path/filepath"
	"runtime/debug"
	"sort"
	"strconv"
	"strings"
	"time"
)

type propDef struct {
	id          string
	explanation string
	decided     []string
	notDecided  []string
	assumptions []string
	run         func(w *World, r *Report)
	technique   string
	levelText   string
	levelNote   string
	designRef   string
}

var props = map[string]*propDef{}

func register(p *propDef) { props[p.id] = p }

var commonAssumptions = []string{
	"go/packages + go/types + go/ssa (golang.org/x/tools v0.29.0) represent the program faithfully; VTA call graph over CHA is a sound over-approximation of calls except through reflection",
	"the analysed configuration is the default build (GOOS/GOARCH of this machine, no tags); thorough additionally loads GOARCH=386",
	"decides only the structural clauses listed in decided_clauses; the behavioural remainder listed in not_decided is not claimed",
}

func main() {
	prop := flag.String("prop", "", "property id (C01..C20) or 'all'")
	tier := flag.String("tier", "quick", "quick|thorough")
	repo := flag.String("repo", "/repo", "path of the eino tree to analyse")
	verif := flag.String("verif", "", "verif dir (evidence, known-findings); default: parent of the binary's dir")
	manifest := flag.Bool("manifest", false, "print MANIFEST.json for the registered properties and exit")
	dumpfn := flag.String("dumpfn", "", "debug: pkg:func to dump SSA of")
	flag.Parse()
	if *dumpfn == "NEVERWRITTEN" {
		debugNeverWritten(loadWorld(*repo))
		return
	}
	if *dumpfn == "LOOPS" {
		debugLoops(loadWorld(*repo))
		return
	}
	if *dumpfn == "MAPCARRIED" {
		w := loadWorld(*repo)
		for _, fn := range w.RepoFuncs("compose", "schema", "internal", "flow", "callbacks", "components", "utils") {
			for _, c := range mapRangeCarried(fn) {
				fmt.Printf("%s | %s | %s %s : %s | %s\n", w.fname(fn), c.loop.what, c.phi.Name(), c.phi.Comment, c.phi.Type(), carriedKind(c))
			}
		}
		return
	}
	if *dumpfn == "ROLES" {
		w := loadWorld(*repo)
		n := 0
		for _, ra := range roleAssignments(w.RepoFuncs("compose", "schema", "internal", "flow", "callbacks", "components", "utils")) {
			n++
			mark := "same "
			if opposite(ra.dstRole, ra.srcRole) {
				mark = "CROSS"
			}
			fmt.Printf("%s %s | %s <- %s | %s\n", mark, w.fname(origin(ra.fn)), ra.dst, ra.src, w.pos(ra.at.Pos()))
		}
		fmt.Println(n, "role-carrying assignments")
		return
	}
	if *dumpfn == "CTX" {
		w := loadWorld(*repo)
		cnt := map[string]int{}
		for _, h := range ctxHandOvers(w.RepoFuncs("compose", "schema", "internal", "flow", "callbacks", "components", "utils")) {
			cnt[h.kind]++
			if h.kind != "param" && h.kind != "captured-per-call" {
				fmt.Printf("%s | %s | %s | %s\n", h.kind, w.fname(origin(h.fn)), valText(h.arg), w.pos(h.call.Pos()))
			}
		}
		fmt.Println(cnt)
		return
	}
	if *dumpfn == "RESLICE" {
		w := loadWorld(*repo)
		for _, ra := range resliceAppends(w.RepoFuncs("compose", "schema", "internal", "flow", "callbacks", "components", "utils")) {
			fmt.Printf("%s | %s | %s\n", w.fname(origin(ra.fn)), ra.root, w.pos(ra.call.Pos()))
		}
		return
	}
	if *dumpfn == "COPIERS" {
		w := loadWorld(*repo)
		for _, pc := range partialCopies(w.RepoFuncs("compose", "schema", "internal", "flow", "callbacks", "components", "utils")) {
			fmt.Printf("%s | %s | copied=%v | missing=%v | %s\n", w.fname(origin(pc.fn)), pc.typ.Obj().Name(), pc.copied, pc.missing, w.pos(pc.at.Pos()))
		}
		return
	}
	if *dumpfn == "STICKY" {
		w := loadWorld(*repo)
		for _, fn := range w.RepoFuncs("compose", "schema", "internal", "flow", "callbacks", "components", "utils") {
			for _, sf := range stickyFlagsTestedInLoop(fn) {
				fmt.Printf("%s | %s | flag %s | tested at %s\n", w.fname(origin(fn)), sf.loop.what, sf.phi.Comment, w.pos(sf.test.Cond.Pos()))
			}
		}
		return
	}
	if *dumpfn == "ERRDROP" {
		w := loadWorld(*repo)
		for _, fn := range w.RepoFuncs("compose", "schema", "internal", "flow", "callbacks", "components", "utils") {
			for _, d := range errDroppedReturns(fn) {
				fmt.Printf("%s | %s | return at %s | %s\n", w.fname(origin(fn)), calleeFullName(d.call), w.pos(d.ret.Pos()), d.why)
			}
		}
		return
	}
	if *dumpfn == "RECVWRITES" {
		w := loadWorld(*repo)
		for _, fn := range w.RepoFuncs("schema", "internal", "flow", "callbacks", "components", "utils", "compose") {
			for _, d := range receiverWrites(fn) {
				fmt.Printf("%s | %s %s | %s\n", w.fname(origin(fn)), d.kind, d.field.Name(), w.pos(d.in.Pos()))
			}
		}
		return
	}
	if *dumpfn == "DEFERCELLS" {
		w := loadWorld(*repo)
		for _, fn := range w.RepoFuncs("schema", "internal", "flow", "callbacks", "components", "utils", "compose") {
			for _, d := range deferredErrorCells(fn) {
				fmt.Printf("%s | cell %s | %v | %s\n", w.fname(origin(fn)), d.cell.Comment, d.okAll, w.pos(d.def.Pos()))
			}
		}
		return
	}
	if strings.HasPrefix(*dumpfn, "WRITERS:") {
		// WRITERS:pkg.Type — every function that writes a field of that struct type
		w := loadWorld(*repo)
		spec := strings.TrimPrefix(*dumpfn, "WRITERS:")
		i := strings.LastIndex(spec, ".")
		tn := w.Named(spec[:i], spec[i+1:])
		for _, fn := range w.RepoFuncs("schema", "internal", "flow", "callbacks", "components", "utils", "compose") {
			for _, fw := range fieldWrites(fn) {
				if fw.owner == tn {
					fmt.Printf("%s | %s %s | fresh=%v | %s\n", w.fname(fn), fw.kind, fw.field.Name(), freshBase(fw.base, 0), w.pos(fw.in.Pos()))
				}
			}
		}
		return
	}
	if *dumpfn == "DEADCLOSURES" {
		w := loadWorld(*repo)
		for _, fn := range w.RepoFuncs("schema", "internal", "flow", "callbacks", "components", "utils", "compose") {
			for _, mc := range deadClosures(fn) {
				fmt.Printf("%s | %s | %s\n", w.fname(fn), mc.Fn.Name(), w.pos(mc.Fn.Pos()))
			}
		}
		return
	}
	if *dumpfn == "LIST" {
		w := loadWorld(*repo)
		for _, f := range w.RepoFuncs() {
			fmt.Println(w.fname(f))
		}
		return
	}
	if *dumpfn != "" {
		w := loadWorld(*repo)
		parts := strings.SplitN(*dumpfn, ":", 2)
		fn := w.Fn(parts[0], parts[1])
		for _, f := range withAnons(fn) {
			f.WriteTo(os.Stdout)
		}
		return
	}
	if *manifest {
		writeManifest()
		return
	}
	if *verif == "" {
		exe, _ := os.Executable()
		*verif = filepath.Dir(filepath.Dir(exe))
	}
	seed, _ := strconv.Atoi(os.Getenv("VERIF_SEED"))
	var ids []string
	if *prop == "all" {
		for id := range props {
			ids = append(ids, id)
		}
		sort.Strings(ids)
	} else {
		for _, id := range strings.Split(*prop, ",") {
			if props[id] == nil {
				fmt.Fprintf(os.Stderr, "unknown property %q\n", id)
				os.Exit(2)
			}
			ids = append(ids, id)
		}
	}
	t0 := time.Now()
	var w *World
	exit := 0
	func() {
		defer func() {
			if e := recover(); e != nil {
				if u, ok := e.(undecided); ok {
					fmt.Printf("UNDECIDED property=%s reason=%s\n", *prop, u.msg)
				} else {
					fmt.Printf("UNDECIDED property=%s reason=checker panic: %v\n%s\n", *prop, e, debug.Stack())
				}
				exit = 2
			}
		}()
		w = loadWorld(*repo)
	}()
	if exit != 0 {
		os.Exit(exit)
	}
	fmt.Printf("loaded %d module packages from %s in %.1fs\n", len(w.Pkgs), *repo, w.LoadS)
	for _, id := range ids {
		p := props[id]
		t1 := time.Now()
		code := func() (code int) {
			r := newReport(w, id, *tier)
			r.Decided, r.NotDec = p.decided, p.notDecided
			defer func() {
				if e := recover(); e != nil {
					if u, ok := e.(undecided); ok {
						fmt.Printf("UNDECIDED property=%s reason=%s\n", id, u.msg)
					} else {
						fmt.Printf("UNDECIDED property=%s reason=checker panic: %v\n%s\n", id, e, debug.Stack())
					}
					code = 2
				}
			}()
			fmt.Printf("== %s (%s)\n", id, *tier)
			p.run(w, r)
			wall := time.Since(t1).Seconds()
			if len(ids) == 1 {
				wall = time.Since(t0).Seconds()
			}
			return r.finish(*verif, wall, seed, p.explanation, append(append([]string{}, commonAssumptions...), p.assumptions...))
		}()
		if code > exit {
			if code == 1 || exit != 1 {
				exit = code
			}
		}
		if code == 1 {
			exit = 1
		}
	}
	os.Exit(exit)
}

func debugLoops(w *World) {
	for _, fn := range w.RepoFuncs("compose", "schema", "internal", "flow", "callbacks", "components") {
		for _, ex := range earlyExits(fn) {
			if ex.errExit {
				continue
			}
			fmt.Printf("%s | %s | exit at %s\n", w.fname(fn), ex.loop.what, w.pos(exitPos(ex)))
		}
	}
}

func debugNeverWritten(w *World) {
	for _, u := range neverWrittenFields(w, "compose", "schema", "internal", "flow", "callbacks", "components") {
		fmt.Printf("%s.%s (%s) reads=%d first=%s\n", u.owner.Obj().Name(), u.field.Name(), u.field.Type(), len(u.reads), w.pos(u.reads[0].Pos()))
	}
}
