package main

import (
	"fmt"
	"go/token"
	"go/types"
	"sort"
	"strings"

	"golang.org/x/tools/go/ssa"
)

func init() {
	register(&propDef{
		id: "C16",
		explanation: "Static clauses of 'call options reach exactly the nodes they address': " +
			"(visits-all) the loops of extractOption over options, nodes and designated paths are left only when exhausted or with an error (no break / early success return); " +
			"(opts-forwarded) every function that receives call options and calls another callable taking call options of the same family (or any/type-parameter conversions of it) passes its own options on — all runnable wrappers, paradigm adapters, keyed wrappers, nested-graph entries; " +
			"(error-arms) in extractOption an empty path, an unknown first key, a sub-path below a component and an option-type mismatch on a designated component are arms that return an error and cannot reach a distribution write; " +
			"(type-filter) an undesignated component option is handed to a node only under option-type equality, whole Options only to nested graphs; " +
			"(no-leak) extractOption never writes through its inputs; every per-node option list is built by append on the per-run map's own element; options forwarded to nested graphs are deepCopy results whose paths are then replaced; deepCopy copies every slice field; " +
			"(alias) no in-place append on Option.paths / NodePath.path; " +
			"(tasks-carry-options) both task constructors hand the extracted options to the task; " +
			"(convert-option) convertOption uses a comma-ok assertion and returns an error; (reflect-zero) the error arms cannot panic on a nil option.",
		decided:    []string{"visits-all", "opts-forwarded", "error-arms", "type-filter", "no-leak", "alias", "tasks-carry-options", "convert-option", "reflect-zero", "passthrough-not-a-graph", "designation-accumulates"},
		notDecided: []string{"routing correctness over all nestings/designations (value-level)", "how components interpret their options"},
		run:        runC16,
	})
}

var c16ReflectExceptions = map[string]string{}

func runC16(w *World, r *Report) {
	eo := w.Fn("compose", "extractOption")
	optT := w.Named("compose", "Option")
	_ = w.Field("compose", "Option", "paths")
	fOptions := w.Field("compose", "Option", "options")
	fPath := w.Field("compose", "NodePath", "path")
	fOptType := w.Field("compose", "composableRunnable", "optionType")
	nodesP := eo.Params[paramIndex(eo, "nodes")]

	// the result map
	var optMap *ssa.MakeMap
	instrs(eo, func(in ssa.Instruction) {
		if mm, ok := in.(*ssa.MakeMap); ok && optMap == nil {
			optMap = mm
		}
	})
	if optMap == nil {
		undecidedf("C16: extractOption does not allocate its result map")
	}
	var updates []*ssa.MapUpdate
	instrs(eo, func(in ssa.Instruction) {
		if mu, ok := in.(*ssa.MapUpdate); ok && mu.Map == ssa.Value(optMap) {
			updates = append(updates, mu)
		}
	})
	if len(updates) < 4 {
		undecidedf("C16: %d distribution writes in extractOption (floor 4)", len(updates))
	}
	isUpdate := func(in ssa.Instruction) bool {
		mu, ok := in.(*ssa.MapUpdate)
		return ok && mu.Map == ssa.Value(optMap)
	}
	// "continuing" = reaching a distribution write or the next option/path (any Next / rangeindex increment)
	continues := func(in ssa.Instruction) bool {
		if isUpdate(in) {
			return true
		}
		if _, ok := in.(*ssa.Next); ok {
			return true
		}
		if b, ok := in.(*ssa.BinOp); ok && b.Op == token.ADD && isConstN(b.Y, 1) {
			if _, isPhi := b.X.(*ssa.Phi); isPhi {
				return true
			}
		}
		if ret, ok := in.(*ssa.Return); ok && isNilConst(ret.Results[1]) {
			return true
		}
		return false
	}

	// ---- every option, every designated path and every node is visited
	r.Rule("C16.visits-all", "the loops of extractOption (options, nodes, designated paths) are left only when exhausted or with an error", 3)
	{
		loops := naturalLoops(eo)
		if len(loops) < 3 {
			undecidedf("C16.visits-all: %d loops in extractOption (floor 3)", len(loops))
		}
		bad := map[*ssa.BasicBlock]bool{}
		for _, ex := range earlyExits(eo) {
			if ex.errExit {
				continue
			}
			bad[ex.loop.header] = true
			r.Fail("C16.visits-all", "extractOption: "+ex.loop.what, exitPos(ex), "the loop can be left early without an error (break / return): the remaining elements are not processed — a later designated path of the same option is ignored, nested paths are not forwarded and unknown nodes after it are not reported")
		}
		for _, li := range loops {
			if !bad[li.header] {
				r.OK("C16.visits-all", "extractOption: "+li.what, li.pos, "exits: exhaustion or error return only")
			}
		}
	}

	// ---- options are handed on by every wrapper
	r.Rule("C16.opts-forwarded", "a function taking call options that calls another callable taking call options passes its own options on", 40)
	{
		keys := map[string]int{}
		for _, site := range optsForwardSites(w, w.RepoFuncs("compose", "flow", "components", "schema", "callbacks", "utils")) {
			base := fmt.Sprintf("%s calls %s", w.fname(site.in), site.what)
			keys[base]++
			construct := base
			if keys[base] > 1 {
				construct = fmt.Sprintf("%s #%d", base, keys[base])
			}
			if site.ok {
				r.OK("C16.opts-forwarded", construct, site.call.Pos(), "variadic argument derives from the caller's opts")
			} else if reason, ok := optsForwardExceptions[base]; ok {
				r.Except("C16.opts-forwarded", construct, site.call.Pos(), reason)
			} else {
				r.Fail("C16.opts-forwarded", construct, site.call.Pos(), "the options received by "+w.fname(site.owner)+" are not passed to this call: options addressed to the wrapped node (and to everything below it) are silently dropped in this execution mode")
			}
		}
	}

	// ---- only a nested graph is handed whole Options: a pass-through node also has no option type, but is no graph
	r.Rule("C16.passthrough-not-a-graph", "wherever extractOption treats optionType == nil as 'nested graph' and forwards an Option, the node is known not to be a pass-through node", 2)
	{
		fOT := w.Field("compose", "composableRunnable", "optionType")
		fPT := w.Field("compose", "composableRunnable", "isPassthrough")
		n := 0
		instrs(eo, func(in ssa.Instruction) {
			mu, ok := in.(*ssa.MapUpdate)
			if !ok {
				return
			}
			asGraph := hasGuard(mu.Block(), func(g guard) bool {
				return guardIsNil(g, func(v ssa.Value) bool { return isLoadOfField(v, fOT) })
			})
			if !asGraph {
				return
			}
			n++
			notPT := hasGuard(mu.Block(), func(g guard) bool {
				return isLoadOfField(g.cond, fPT) && !g.pol
			})
			r.Check(notPT, "C16.passthrough-not-a-graph", fmt.Sprintf("extractOption: Option forwarded to an option-type-less node #%d", n), mu.Pos(), "under optionType == nil && !isPassthrough",
				"a node without an option type is taken for a nested graph although it may be a pass-through node: a path designated below a pass-through node, or a component option designated to it, is silently accepted instead of being an error")
		})
		if n < 2 {
			undecidedf("C16.passthrough-not-a-graph: %d forwarding writes under optionType == nil (floor 2)", n)
		}
	}

	// ---- a designation built in steps keeps the earlier paths
	r.Rule("C16.designation-accumulates", "DesignateNodeWithPath stores a path list that derives from BOTH the option's earlier paths and the new ones", 1)
	{
		dnp := w.Fn("compose", "Option.DesignateNodeWithPath")
		fPaths := w.Field("compose", "Option", "paths")
		var newP *ssa.Parameter
		for _, p := range dnp.Params {
			if sl, ok := p.Type().Underlying().(*types.Slice); ok {
				if namedOf(sl.Elem()) != nil && namedOf(sl.Elem()).Obj().Name() == "NodePath" {
					newP = p
				}
			}
		}
		n := 0
		for _, fw := range fieldWrites(dnp) {
			if !sameField(fw.field, fPaths) {
				continue
			}
			n++
			fromNew := newP != nil && derivesFrom(fw.val, newP)
			fromOld := false
			instrs(dnp, func(in ssa.Instruction) {
				if u, ok := in.(*ssa.UnOp); ok && isLoadOfField(u, fPaths) && derivesFrom(fw.val, u) {
					fromOld = true
				}
			})
			// a copy() into a zero-length destination copies nothing
			instrs(dnp, func(in ssa.Instruction) {
				if c, ok := in.(*ssa.Call); ok && isBuiltin(c, "copy") {
					if ms, ok := c.Call.Args[0].(*ssa.MakeSlice); ok {
						if l, ok := constInt(ms.Len); ok && l == 0 {
							fromOld = false
						}
					}
				}
			})
			r.Check(fromNew && fromOld, "C16.designation-accumulates", "DesignateNodeWithPath result keeps old and new paths", fw.in.Pos(), "append(copy of o.paths, path...)", fmt.Sprintf("the stored path list derives from the new paths=%v, from the earlier paths=%v: a designation built in steps forgets the nodes designated earlier (and DesignateNode() with no key turns a designated option into an undesignated one that is broadcast to every node of its type)", fromNew, fromOld))
		}
		if n == 0 {
			r.Fail("C16.designation-accumulates", "DesignateNodeWithPath result keeps old and new paths", dnp.Pos(), "the method no longer stores Option.paths")
		}
	}

	// the option functions that ADD to a list keep what an earlier option of the same kind put there: two
	// WithToolOption values reaching one tools node (an undesignated and a designated one, two in one option, two
	// react.WithToolOptions) both apply
	r.Rule("C16.additive-options-accumulate", "the additive option functions (WithToolOption, WithGraphCompileCallbacks, host.WithAgentCallbacks — frozen list, read from the code: the ones documented as 'adds') store a list that derives from both the field's earlier content and their argument", 3)
	{
		additive := []struct{ pkg, fn, field string }{
			{"compose", "WithToolOption", "ToolOptions"},
			{"compose", "WithGraphCompileCallbacks", "callbacks"},
			{"flow/agent/multiagent/host", "WithAgentCallbacks", "agentCallbacks"},
		}
		for _, a := range additive {
			outer := w.Fn(a.pkg, a.fn)
			n := 0
			for _, lit := range withAnons(outer) {
				if lit == outer {
					continue
				}
				for _, fw := range fieldWrites(lit) {
					if fw.field.Name() != a.field {
						continue
					}
					n++
					fromOld, fromNew := false, false
					instrs(lit, func(in ssa.Instruction) {
						if u, ok := in.(*ssa.UnOp); ok {
							if f, _ := loadedField(u); f != nil && sameField(f, fw.field) && derivesFrom(fw.val, u) {
								fromOld = true
							}
						}
					})
					for _, fv := range lit.FreeVars {
						if derivesFrom(fw.val, fv) {
							fromNew = true
						}
					}
					r.Check(fromOld && fromNew, "C16.additive-options-accumulate", fmt.Sprintf("%s: %s keeps earlier and new entries", a.fn, a.field), fw.in.Pos(), "append(old, new...)", fmt.Sprintf("the stored list derives from the earlier content=%v, from the argument=%v: when two options of this kind reach the same target only the last one survives (an undesignated WithToolsNodeOption(WithToolOption(a)) is silently cancelled by a designated WithToolOption(b))", fromOld, fromNew))
				}
			}
			if n == 0 {
				undecidedf("C16.additive-options-accumulate: %s no longer stores %s", a.fn, a.field)
			}
		}
	}

	// what a nested graph is handed for one designated path is the rest of THAT path
	r.Rule("C16.forwarded-path-is-this-path", "extractOption: inside the loop over an option's designated paths, the path list stored into the copy forwarded to a nested graph is empty (the path ended at the graph) or computed from the path of the current iteration — never from the option's first path or from the copy's own list", 2)
	{
		eo := w.Fn("compose", "extractOption")
		fPaths := w.Field("compose", "Option", "paths")
		n := 0
		// the elements of the loop over an option's paths: loads of opt.paths[i], whatever the loop is written like
		var elems []*ssa.UnOp
		instrs(eo, func(in ssa.Instruction) {
			ld, ok := in.(*ssa.UnOp)
			if !ok || ld.Op != token.MUL {
				return
			}
			if ia, ok := ld.X.(*ssa.IndexAddr); ok && isLoadOfField(ia.X, fPaths) {
				// … at the loop's running index (computed from a phi), not at a fixed position
				if _, isConst := ia.Index.(*ssa.Const); isConst {
					return
				}
				running := false
				var walk func(v ssa.Value, d int)
				seen := map[ssa.Value]bool{}
				walk = func(v ssa.Value, d int) {
					if v == nil || d > 4 || seen[v] {
						return
					}
					seen[v] = true
					if _, ok := v.(*ssa.Phi); ok {
						running = true
						return
					}
					if in, ok := v.(ssa.Instruction); ok {
						for _, op := range in.Operands(nil) {
							if *op != nil {
								walk(*op, d+1)
							}
						}
					}
				}
				walk(ia.Index, 0)
				if running {
					elems = append(elems, ld)
				}
			}
		})
		loops := naturalLoops(eo)
		for _, fw := range fieldWrites(eo) {
			if !sameField(fw.field, fPaths) {
				continue
			}
			// only stores inside a loop that also holds an element load
			var mine []*ssa.UnOp
			for _, li := range loops {
				if !li.body[fw.in.Block()] {
					continue
				}
				for _, el := range elems {
					if li.body[el.Block()] {
						mine = append(mine, el)
					}
				}
			}
			if len(mine) == 0 {
				continue
			}
			n++
			good := false
			// an empty list
			if sl, ok := fw.val.(*ssa.Slice); ok {
				if al, ok := sl.X.(*ssa.Alloc); ok {
					if at, ok := al.Type().(*types.Pointer).Elem().Underlying().(*types.Array); ok && at.Len() == 0 {
						good = true
					}
				}
			}
			if ms, ok := fw.val.(*ssa.MakeSlice); ok {
				if l, ok := constInt(ms.Len); ok && l == 0 {
					good = true
				}
			}
			for _, el := range mine {
				if dataDependsOn(fw.val, el) {
					good = true
				}
			}
			r.Check(good, "C16.forwarded-path-is-this-path", fmt.Sprintf("extractOption: forwarded path list #%d", n), fw.in.Pos(), "empty, or the tail of the path of this iteration", "the copy handed to the nested graph carries a path that is not computed from the path being processed (e.g. the copy's own first path with its head removed): for the second and later paths of one option the nested graph receives the tail of the option's FIRST path — DesignateNodeWithPath(<A,n1>,<B,n2>) reaches B/n1 and never B/n2, callbacks fire for the wrong node, and <B>,<A,n1> fails with 'designated an empty path'")
		}
		if n < 2 {
			undecidedf("C16.forwarded-path-is-this-path: %d path-list stores found inside the loop over designated paths (2 expected)", n)
		}
	}

	// options handed on through a task record instead of a call: the retriever flows build utils.RetrieveTask values that
	// ConcurrentRetrieveWithCallback later calls with task.RetrieveOptions — a function that has call options of its own
	// and builds such a task puts them in
	r.Rule("C16.task-records-carry-options", "every utils.RetrieveTask built in a function that received retriever call options sets RetrieveOptions from them (the indirect form of C16.opts-forwarded: the wrapped retriever is called from the task record)", 2)
	{
		taskT := w.Named("flow/retriever/utils", "RetrieveTask")
		n := 0
		for _, fn := range w.RepoFuncs("flow") {
			var optP *ssa.Parameter
			for _, p := range fn.Params {
				if sl, ok := p.Type().Underlying().(*types.Slice); ok {
					if nm := namedOf(sl.Elem()); nm != nil && nm.Obj().Name() == "Option" && nm.Obj().Pkg() != nil && strings.HasSuffix(nm.Obj().Pkg().Path(), "components/retriever") {
						optP = p
					}
				}
			}
			if optP == nil {
				continue
			}
			instrs(fn, func(in ssa.Instruction) {
				al, ok := in.(*ssa.Alloc)
				if !ok || namedOf(al.Type()) != taskT {
					return
				}
				n++
				set := false
				for _, fw := range fieldWrites(fn) {
					if fw.owner == taskT && fw.base == ssa.Value(al) && fw.field.Name() == "RetrieveOptions" && derivesFrom(fw.val, optP) {
						set = true
					}
				}
				r.Check(set, "C16.task-records-carry-options", fmt.Sprintf("%s: retrieve task #%d carries the call's options", w.fname(fn), n), al.Pos(), "RetrieveOptions: opts", "the task record is built without the options this call received: a retriever.WithTopK(…) / compose.WithRetrieverOption(…) delivered to this retriever node — designated or not — reaches the node and stops there, the wrapped retriever is called without it (the sibling router retriever forwards them)")
			})
		}
		if n < 2 {
			r.Deferred = append(r.Deferred, fmt.Sprintf("C16.task-records-carry-options: only %d RetrieveTask literals found in option-taking functions", n))
		}
	}

	r.Rule("C16.task-manager-gets-all-options", "initTaskManager stores the run's call options as they came: node callbacks are looked up in them when a task starts (a list filtered by the NUMBER of designated paths drops a callbacks option designated to two nodes)", 1)
	{
		itm := w.Fn("compose", "runner.initTaskManager")
		fOpts := w.Field("compose", "taskManager", "opts")
		var optsP *ssa.Parameter
		for _, p := range itm.Params {
			if sl, ok := p.Type().Underlying().(*types.Slice); ok {
				if nm := namedOf(sl.Elem()); nm != nil && nm.Obj().Name() == "Option" {
					optsP = p
				}
			}
		}
		n := 0
		for _, fw := range fieldWrites(itm) {
			if !sameField(fw.field, fOpts) {
				continue
			}
			n++
			r.Check(optsP != nil && fw.val == ssa.Value(optsP), "C16.task-manager-gets-all-options", "initTaskManager: taskManager.opts = the options of the call", fw.in.Pos(), "the parameter itself", "the task manager gets a filtered / rebuilt list instead of the call's options: an option the filter wrongly leaves out (callbacks designated to several nodes by one option — DesignateNode(\"a\",\"c\")) is never seen when the node's callbacks are initialised; the handler does not fire and nothing is reported")
		}
		if n == 0 {
			undecidedf("C16.task-manager-gets-all-options: initTaskManager does not store taskManager.opts")
		}
	}

	r.Rule("C16.every-path-resolved", "extractOption resolves the first element of every designated path among the graph's nodes before it does anything else with the path: no way through an iteration of the loop over an option's paths gets round the lookup (callbacks designated to a node that does not exist are an error of the call, like a component option is)", 1)
	{
		eo := w.Fn("compose", "extractOption")
		var nodesP *ssa.Parameter
		for _, p := range eo.Params {
			if _, ok := p.Type().Underlying().(*types.Map); ok {
				nodesP = p
			}
		}
		var lookups []*ssa.Lookup
		instrs(eo, func(in ssa.Instruction) {
			if lk, ok := in.(*ssa.Lookup); ok && lk.CommaOk && nodesP != nil && lk.X == ssa.Value(nodesP) {
				lookups = append(lookups, lk)
			}
		})
		if len(lookups) == 0 {
			undecidedf("C16.every-path-resolved: extractOption never looks a key up in its nodes table with comma-ok")
		}
		for i, lk := range lookups {
			skip, wit := iterationSkips(eo, lk)
			r.Check(!skip, "C16.every-path-resolved", fmt.Sprintf("extractOption: node lookup #%d lies on every way through its loop", i+1), lk.Pos(), "no iteration avoids it", "a path can be disposed of before its node is looked up ("+wit+"): WithCallbacks(h).DesignateNode(\"typo\") succeeds and the handler silently never fires — the unknown-node error is only reached by options that carry component options")
		}
	}

	// ---- error-arms
	r.Rule("C16.one-path-per-key", "Option.DesignateNode turns each of its keys into a path of its own: every NewNodePath call in it takes a one-element list whose element is one element of the key list (never the key list itself, which would be ONE nested path k1/k2/…)", 1)
	{
		dn := w.Fn("compose", "Option.DesignateNode")
		nnp := w.Fn("compose", "NewNodePath")
		var keyP *ssa.Parameter
		for _, p := range dn.Params {
			if _, ok := p.Type().Underlying().(*types.Slice); ok {
				keyP = p
			}
		}
		calls := callsTo(dn, nnp)
		if len(calls) == 0 || keyP == nil {
			undecidedf("C16.one-path-per-key: DesignateNode has %d NewNodePath calls", len(calls))
		}
		for i, c := range calls {
			good, det := false, "the argument list is not a fresh one-element list"
			if sl, ok := c.Common().Args[0].(*ssa.Slice); ok {
				if al, ok := sl.X.(*ssa.Alloc); ok {
					if at, ok := al.Type().(*types.Pointer).Elem().Underlying().(*types.Array); ok && at.Len() == 1 {
						for _, ref := range *al.Referrers() {
							if ia, ok := ref.(*ssa.IndexAddr); ok {
								for _, r2 := range *ia.Referrers() {
									if st, ok := r2.(*ssa.Store); ok {
										if ld, ok := st.Val.(*ssa.UnOp); ok {
											if ka, ok := ld.X.(*ssa.IndexAddr); ok && ka.X == ssa.Value(keyP) {
												good = true
											}
										}
									}
								}
							}
						}
					}
				}
			} else if c.Common().Args[0] == ssa.Value(keyP) {
				det = "the whole key list is handed to NewNodePath"
			}
			inLoop := false
			for _, li := range naturalLoops(dn) {
				if li.body[c.Block()] {
					inLoop = true
				}
			}
			r.Check(good && inLoop, "C16.one-path-per-key", fmt.Sprintf("Option.DesignateNode: NewNodePath call #%d", i+1), c.Pos(), "one key per path, inside the loop over the keys", det+": DesignateNode(a, b) designates the nested node a/b instead of the two nodes a and b — the option reaches neither (or fails the run with 'unknown node'), or reaches a node of a nested graph that was never named")
		}
	}

	r.Rule("C16.builder-result-used", "no call of a by-value builder method (value receiver of struct type T returning T: Option.DesignateNode, DesignateNodeWithPath, …) anywhere in the module discards its result: the receiver is a copy, the designation lives only in what is returned", 3)
	{
		n := 0
		for _, fn := range w.RepoFuncs("compose", "schema", "internal", "flow", "callbacks", "components", "utils") {
			instrs(fn, func(in ssa.Instruction) {
				c, ok := in.(*ssa.Call)
				if !ok {
					return
				}
				sc := staticCallee(c)
				if sc == nil || !w.inRepo(sc) || sc.Signature.Recv() == nil || sc.Signature.Results().Len() != 1 {
					return
				}
				rt := sc.Signature.Recv().Type()
				if _, isPtr := rt.Underlying().(*types.Pointer); isPtr {
					return
				}
				if _, isStruct := rt.Underlying().(*types.Struct); !isStruct || !types.Identical(rt, sc.Signature.Results().At(0).Type()) {
					return
				}
				n++
				used := false
				for _, ref := range *c.Referrers() {
					if _, dbg := ref.(*ssa.DebugRef); !dbg {
						used = true
					}
				}
				r.Check(used, "C16.builder-result-used", fmt.Sprintf("%s calls %s", w.fname(fn), w.fname(sc)), c.Pos(), "result used", "the result of a by-value builder is dropped: the statement does nothing — an option meant for one node stays undesignated and is applied to the graph and every node it fits (callbacks of the host node fire for every node, a model option reaches every model)")
			})
		}
		if n < 3 {
			r.Deferred = append(r.Deferred, fmt.Sprintf("C16.builder-result-used: only %d calls of by-value builders in the module", n))
		}
	}

	r.Rule("C16.error-arms", "empty path / unknown node / sub-path of a component / option type mismatch are error returns", 4)
	arm := func(name string, pred func(iff *ssa.If) (int, bool)) {
		found := false
		instrs(eo, func(in ssa.Instruction) {
			iff, ok := in.(*ssa.If)
			if !ok {
				return
			}
			bad, ok := pred(iff)
			if !ok {
				return
			}
			found = true
			reach, wit := pathFromBlock(pathQuery{fn: eo, goal: continues}, iff.Block().Succs[bad])
			r.Check(!reach, "C16.error-arms", "extractOption: "+name, iff.Pos(), "the arm returns an error", "the ill-addressed option is silently accepted or skipped: "+wit)
		})
		if !found {
			r.Fail("C16.error-arms", "extractOption: "+name, eo.Pos(), "check not found")
		}
	}
	lenPathIs := func(n int64) func(iff *ssa.If) (int, bool) {
		return func(iff *ssa.If) (int, bool) {
			op, x, y, ok := asCmp(iff.Cond)
			if ok && isConstN(y, n) && isLenOf(x, func(v ssa.Value) bool { return isLoadOfField(v, fPath) }) {
				if op == token.EQL {
					return 0, true
				}
				if op == token.NEQ {
					return 1, true
				}
			}
			return 0, false
		}
	}
	arm("empty designated path", lenPathIs(0))
	arm("unknown designated node", func(iff *ssa.If) (int, bool) {
		e, ok := iff.Cond.(*ssa.Extract)
		if !ok || e.Index != 1 {
			return 0, false
		}
		lk, ok := e.Tuple.(*ssa.Lookup)
		if !ok || !lk.CommaOk || lk.X != ssa.Value(nodesP) {
			return 0, false
		}
		return 1, true
	})
	// sub-path below a component: on the len(path)!=1 side, optionType != nil -> error
	{
		var lenIf *ssa.If
		instrs(eo, func(in ssa.Instruction) {
			if iff, ok := in.(*ssa.If); ok {
				if _, ok := lenPathIs(1)(iff); ok {
					lenIf = iff
				}
			}
		})
		found := false
		if lenIf != nil {
			op, _, _, _ := asCmp(lenIf.Cond)
			longArm := lenIf.Block().Succs[1]
			if op == token.NEQ {
				longArm = lenIf.Block().Succs[0]
			}
			instrs(eo, func(in ssa.Instruction) {
				iff, ok := in.(*ssa.If)
				if !ok || !(iff.Block() == longArm || longArm.Dominates(iff.Block())) {
					return
				}
				op, x, y, ok := asCmp(iff.Cond)
				if !ok || !isLoadOfField(x, fOptType) || !isNilConst(y) {
					return
				}
				bad := 0
				if op == token.EQL {
					bad = 1
				}
				found = true
				reach, wit := pathFromBlock(pathQuery{fn: eo, goal: continues}, iff.Block().Succs[bad])
				r.Check(!reach, "C16.error-arms", "extractOption: path below a non-graph node", iff.Pos(), "designating below a component returns an error", "a sub-path of a component is accepted: "+wit)
			})
		}
		if !found {
			r.Fail("C16.error-arms", "extractOption: path below a non-graph node", eo.Pos(), "check not found")
		}
	}
	// type mismatch on a designated component
	isTypeOfOpt0 := func(v ssa.Value) bool {
		c, ok := v.(*ssa.Call)
		return ok && calleeFullName(c) == "reflect.TypeOf"
	}
	arm("option type mismatch on a designated component", func(iff *ssa.If) (int, bool) {
		op, x, y, ok := asCmp(iff.Cond)
		if !ok || op != token.NEQ {
			return 0, false
		}
		if (isLoadOfField(x, fOptType) && isTypeOfOpt0(y)) || (isLoadOfField(y, fOptType) && isTypeOfOpt0(x)) {
			return 0, true
		}
		return 0, false
	})

	// ---- type-filter
	r.Rule("C16.type-filter", "undesignated component options reach a node only under option-type equality; whole Options go to nested graphs only", 2)
	for _, mu := range updates {
		ap, ok := mu.Value.(*ssa.Call)
		if !ok || !isBuiltin(ap, "append") {
			continue
		}
		// which kind of payload?
		payloadOptions := len(ap.Call.Args) == 2 && isLoadOfField(ap.Call.Args[1], fOptions)
		gs := guardsOf(mu.Block())
		designated := false
		for _, g := range gs {
			if _, ok := lenPathIs(1)(g.at); ok {
				designated = true
			}
			if _, ok := lenPathIs(0)(g.at); ok {
				designated = true
			}
		}
		if designated {
			continue
		}
		if payloadOptions {
			eq := false
			for _, g := range gs {
				op, x, y, ok := asCmp(g.cond)
				if ok && op == token.EQL && g.pol && ((isLoadOfField(y, fOptType) && isTypeOfOpt0(x)) || (isLoadOfField(x, fOptType) && isTypeOfOpt0(y))) {
					eq = true
				}
			}
			r.Check(eq, "C16.type-filter", "extractOption: undesignated component options filtered by type", mu.Pos(), "guarded by reflect.TypeOf(options[0]) == node.optionType", "component options are handed to nodes of another component type")
		} else {
			toGraph := false
			for _, g := range gs {
				if guardIsNil(g, func(v ssa.Value) bool { return isLoadOfField(v, fOptType) }) {
					toGraph = true
				}
			}
			r.Check(toGraph, "C16.type-filter", "extractOption: whole Option forwarded only to nested graphs", mu.Pos(), "guarded by optionType == nil", "a whole compose.Option is handed to a component node")
		}
	}

	r.Rule("C16.carrier-not-forwarded", "an undesignated Option carrying no component options (callbacks, step limit, checkpoint settings of the called graph) is not distributed to any node", 2)
	undesignatedCarrierCheck(w, r, "C16.carrier-not-forwarded", "settings addressed to the called graph itself reach its nested graphs")

	r.Rule("C16.callback-designation", "callbacks designated to a node reach exactly that node: the graph takes the undesignated handlers, a node takes the handlers of EVERY option one of whose paths is [its key] (shared with C10.designation)", 2)
	designationChecks(w, r, "C16.callback-designation")

	// an option of one call is not retained by the compiled object: nothing on the run path writes a field of a compiled
	// (shared) type — e.g. the tool list of a WithToolList call option must not become the node's tool list
	r.Rule("C16.options-not-retained", "no run-path function writes a field of a compiled (shared) object (shared with C09.read-only-at-runtime): what a call option selects does not outlive the call", 0)
	{
		roots := runRoots(w)
		ruleReadOnlyAtRuntime(w, r, "C16.options-not-retained", w.reachableFrom(roots...), compiledTypeSet(w), roots)
	}

	// a node's state pre-/post-handler is run with that node's call options (submit / waitOne pass task.option on): the
	// runnable wrapped around a handler therefore accepts options of any type — a concrete option type would make
	// convertOption reject every real option routed to a node that also has a state handler
	r.Rule("C16.handler-wrappers-take-any-option", "the runnables built for state pre-/post-handlers (plain and stream) are instantiated with option type `any`", 4)
	{
		fPre := w.Field("compose", "processorOpts", "statePreHandler")
		fPost := w.Field("compose", "processorOpts", "statePostHandler")
		rl := w.Fn("compose", "runnableLambda")
		builders := map[*ssa.Function]bool{}
		for _, fn := range w.RepoFuncs("compose") {
			for _, fw := range fieldWrites(fn) {
				if !sameField(fw.field, fPre) && !sameField(fw.field, fPost) {
					continue
				}
				if c, ok := fw.val.(*ssa.Call); ok {
					if sc := staticCallee(c); sc != nil {
						builders[origin(sc)] = true
					}
				}
			}
		}
		n := 0
		var bs []*ssa.Function
		for b := range builders {
			bs = append(bs, b)
		}
		sort.Slice(bs, func(i, j int) bool { return bs[i].String() < bs[j].String() })
		for _, b := range bs {
			for _, c := range callsTo(b, rl) {
				n++
				// the option type is the element type of the variadic last parameter of the function value handed in
				good := false
				got := "?"
				for _, a := range c.Common().Args {
					if isNilConst(a) {
						continue
					}
					sig, ok := a.Type().Underlying().(*types.Signature)
					if !ok || !sig.Variadic() {
						continue
					}
					last := sig.Params().At(sig.Params().Len() - 1).Type()
					if sl, ok := last.Underlying().(*types.Slice); ok {
						got = sl.Elem().String()
						if it, ok := sl.Elem().Underlying().(*types.Interface); ok && it.Empty() {
							if _, isTP := sl.Elem().(*types.TypeParam); !isTP {
								good = true
							}
						}
					}
				}
				r.Check(good, "C16.handler-wrappers-take-any-option", w.fname(b)+" builds its runnable with option type any", c.Pos(), "runnableLambda[…, …, any]", "the handler's runnable is instantiated with option type "+got+": the node's own call options are handed to it as well, convertOption rejects them ('unexpected component option type') and a valid option routed to a node that has a state handler fails the run instead of reaching the node")
			}
		}
		if n < 4 {
			r.Fail("C16.handler-wrappers-take-any-option", "state handler runnable builders", rl.Pos(), fmt.Sprintf("%d runnableLambda calls in %d builder functions found (floor 4)", n, len(bs)))
		}
	}

	// ---- no-leak
	r.Rule("C16.no-leak", "no write through inputs; per-node lists built on the per-run map element; nested options are deepCopy results; deepCopy copies slices", 6)
	ruleNoMutateParams(w, r, "C16.no-leak", eo, nil)
	for i, mu := range updates {
		ap, ok := mu.Value.(*ssa.Call)
		good := ok && isBuiltin(ap, "append")
		if good {
			lk, ok := ap.Call.Args[0].(*ssa.Lookup)
			good = ok && lk.X == ssa.Value(optMap) && sameKeyExpr(lk.Index, mu.Key)
		}
		r.Check(good, "C16.no-leak", fmt.Sprintf("extractOption: distribution write #%d appends to the per-run element", i+1), mu.Pos(), "optMap[k] = append(optMap[k], …)", "a node's option list can alias a slice owned by the caller's Option (shared by nodes and by concurrent calls)")
	}
	deepCopy := w.Fn("compose", "Option.deepCopy")
	nStores := 0
	instrs(eo, func(in ssa.Instruction) {
		st, ok := in.(*ssa.Store)
		if !ok {
			return
		}
		fa, ok := st.Addr.(*ssa.FieldAddr)
		if !ok || namedOf(fa.X.Type()) != optT {
			return
		}
		nStores++
		fromCopy := false
		if al, ok := fa.X.(*ssa.Alloc); ok {
			for _, ref := range *al.Referrers() {
				if s2, ok := ref.(*ssa.Store); ok && s2.Addr == ssa.Value(al) {
					if c, ok := s2.Val.(*ssa.Call); ok && isCallTo(c, deepCopy) {
						fromCopy = true
					}
				}
			}
		}
		r.Check(fromCopy, "C16.no-leak", "extractOption rewrites "+fieldVarOfAddr(fa).Name()+" on a deep copy", st.Pos(), "the rewritten Option is the result of deepCopy", "the caller's Option (or a shallow copy sharing its slices) is modified: paths leak into later calls")
	})
	if nStores < 2 {
		r.Fail("C16.no-leak", "extractOption forwards rewritten options to nested graphs", eo.Pos(), fmt.Sprintf("%d path rewrites found (expected 2: whole-graph designation and sub-path designation)", nStores))
	}
	{
		// deepCopy: every slice-typed field of Option that is set in the returned literal has a fresh root; every slice field is set
		st := optT.Underlying().(*types.Struct)
		set := map[string]bool{}
		bad := ""
		instrs(deepCopy, func(in ssa.Instruction) {
			s, ok := in.(*ssa.Store)
			if !ok {
				return
			}
			fa, ok := s.Addr.(*ssa.FieldAddr)
			if !ok || namedOf(fa.X.Type()) != optT {
				return
			}
			f := fieldVarOfAddr(fa)
			if _, isSlice := f.Type().Underlying().(*types.Slice); isSlice {
				if _, isParamSpill := s.Val.(*ssa.Parameter); isParamSpill {
					return
				}
				set[f.Name()] = true
				if rt := rootOfSlice(s.Val, 0); rt.kind != "fresh" {
					bad += f.Name() + " is not a fresh copy (" + rt.desc + "); "
				}
			}
		})
		for i := 0; i < st.NumFields(); i++ {
			if _, isSlice := st.Field(i).Type().Underlying().(*types.Slice); isSlice && !set[st.Field(i).Name()] {
				bad += st.Field(i).Name() + " is not copied; "
			}
		}
		// NodePath elements are copied by value (nPath := *path)
		r.Check(bad == "", "C16.no-leak", "Option.deepCopy copies every slice field", deepCopy.Pos(), "options, handler, paths are fresh slices", "deepCopy shares storage with the original: "+bad)
	}

	// ---- alias
	r.Rule("C16.alias", "no in-place append on Option.paths / NodePath.path", 0)
	owners := map[*types.Named]bool{optT: true, w.Named("compose", "NodePath"): true}
	ruleAppendAlias(w, r, "C16.alias", owners, w.RepoFuncs("compose", "flow"), map[*ssa.Function]bool{})
	r.Info("C16.alias", "scope", eo.Pos(), "all functions of compose and flow/**")

	// ---- tasks carry options
	r.Rule("C16.tasks-carry-options", "createTasks and restoreTasks set task.option from the extracted option map", 2)
	fTaskOpt := w.Field("compose", "task", "option")
	for _, n := range []string{"runner.createTasks", "runner.restoreTasks"} {
		f := w.Fn("compose", n)
		om := f.Params[paramIndex(f, "optMap")]
		ok := false
		for _, fw := range fieldWrites(f) {
			if !sameField(fw.field, fTaskOpt) {
				continue
			}
			v := fw.val
			if e, isE := v.(*ssa.Extract); isE {
				v = e.Tuple
			}
			if lk, isL := v.(*ssa.Lookup); isL && lk.X == ssa.Value(om) {
				ok = true
			}
		}
		r.Check(ok, "C16.tasks-carry-options", f.Name()+" hands optMap[key] to the task", f.Pos(), "task.option = optMap[nodeKey]", "tasks built here run without their call options (e.g. every node resumed from a checkpoint)")
	}
	// the executor passes task.option to the node
	{
		ex := w.Fn("compose", "taskManager.executor")
		ok := false
		instrs(ex, func(in ssa.Instruction) {
			if c, ok2 := in.(*ssa.Call); ok2 && staticCallee(c) == nil && !c.Call.IsInvoke() {
				for _, a := range c.Call.Args {
					if isLoadOfField(a, fTaskOpt) {
						ok = true
					}
				}
			}
		})
		r.Check(ok, "C16.tasks-carry-options", "executor passes task.option to the node", ex.Pos(), "runWrapper(..., task.option...)", "the node is invoked without its options")
	}

	shareRule(w, r, "C16.option-lists-are-copied", "an option list handed on is never appended to in place: what GetComposeOptions returns and what the agents append their own options to is a slice of its own, or the option list of one call ends up in storage another call reads", 1, "C09", "C09.append-alias")
	r.Rule("C16.pass-through-designation-refused", "a designation that lands on a pass-through node is refused when it carries component options OR names a path below the node — each reason alone is enough (a pass-through node has no options and nothing below it): the refusal in extractOption is entered directly from both tests, not from their conjunction", 1)
	{
		eo := w.Fn("compose", "extractOption")
		fPT := w.Field("compose", "composableRunnable", "isPassthrough")
		n := 0
		instrs(eo, func(in ssa.Instruction) {
			ret, ok := in.(*ssa.Return)
			if !ok || len(ret.Results) != 2 || isNilConst(ret.Results[1]) {
				return
			}
			if !hasGuard(ret.Block(), func(g guard) bool { return g.pol && isLoadOfField(g.cond, fPT) }) {
				return
			}
			n++
			direct := 0
			for _, p := range ret.Block().Preds {
				if iff, isIf := p.Instrs[len(p.Instrs)-1].(*ssa.If); isIf && p.Succs[0] == ret.Block() {
					if op, _, _, isCmp := asCmp(iff.Cond); isCmp && (op == token.GTR || op == token.NEQ || op == token.GEQ) {
						direct++
					}
				}
			}
			r.Check(direct >= 2, "C16.pass-through-designation-refused", fmt.Sprintf("extractOption: refusal #%d for a pass-through node is entered from either test", n), ret.Pos(), fmt.Sprintf("%d tests lead straight to it", direct), "the refusal needs both reasons at once: a component option (WithChatModelOption) designated to a pass-through node, and callbacks designated to a path below one (NewNodePath(\"pt\", \"inner\")), are accepted without an error and silently dropped — an option addressed to a node that cannot take it must be an error")
		})
		if n == 0 {
			r.Deferred = append(r.Deferred, fmt.Sprintf("C16.pass-through-designation-refused: no refusal under isPassthrough found in extractOption"))
		}
	}

	r.Rule("C16.every-call-form-gets-the-run-context", "wrapRunnableCtx — what puts the graph's per-run context (option extraction, graph callbacks) in front of a compiled graph — replaces all four call forms of the runnable (Invoke, Stream, Collect, Transform): a form it forgets runs without initGraphCallbacks, so undesignated callbacks given to that entry point reach neither the graph nor any node", 1)
	{
		wr := w.Fn("compose", "runnablePacker.wrapRunnableCtx")
		rpT := w.Named("compose", "runnablePacker")
		written := map[string]bool{}
		for _, fw := range fieldWrites(wr) {
			if fw.owner != nil && fw.owner.Origin().Obj() == rpT.Obj() {
				written[fw.field.Name()] = true
			}
		}
		var missing []string
		st := rpT.Underlying().(*types.Struct)
		nf := 0
		for i := 0; i < st.NumFields(); i++ {
			if _, isFn := st.Field(i).Type().Underlying().(*types.Signature); !isFn {
				continue
			}
			nf++
			if !written[st.Field(i).Name()] {
				missing = append(missing, st.Field(i).Name())
			}
		}
		if nf < 4 {
			undecidedf("C16.every-call-form-gets-the-run-context: runnablePacker has %d function fields", nf)
		}
		r.Check(len(missing) == 0, "C16.every-call-form-gets-the-run-context", "wrapRunnableCtx wraps every call form", wr.Pos(), fmt.Sprintf("%d function fields replaced", nf), "the call form(s) "+strings.Join(missing, ", ")+" keep the unwrapped function: a compiled graph called through that entry point (c = Collect) never runs initGraphCallbacks — callbacks given without designation fire for Invoke, Stream and Transform and for nothing under Collect, while designated callbacks and component options on the same call still work")
	}

	r.Rule("C16.concurrent-option-lists-clipped", "an option list handed to several inner calls that run at the same time (the retriever flows' concurrent Retrieve calls) is handed over without its spare capacity (opts[:len:len]) or as a list of the call's own: an inner component that appends a default option to its list must not write into the slot its siblings read (the ToolsNode does the same for tool calls, C17.parallel-protocol)", 1)
	{
		n := 0
		for _, fn := range w.RepoFuncs("flow/retriever") {
			// calls made on a goroutine of their own: the function literal of a go statement
			isGoLit := false
			if p := fn.Parent(); p != nil {
				instrs(p, func(in ssa.Instruction) {
					if g, ok := in.(*ssa.Go); ok {
						if mc, isMC := g.Call.Value.(*ssa.MakeClosure); isMC && mc.Fn == ssa.Value(fn) {
							isGoLit = true
						}
						if f2, isF := g.Call.Value.(*ssa.Function); isF && f2 == fn {
							isGoLit = true
						}
					}
				})
			}
			if !isGoLit {
				continue
			}
			instrs(fn, func(in ssa.Instruction) {
				c, ok := in.(*ssa.Call)
				if !ok || !c.Call.IsInvoke() || len(c.Call.Args) == 0 {
					return
				}
				last := c.Call.Args[len(c.Call.Args)-1]
				sl, isSl := last.Type().Underlying().(*types.Slice)
				if !isSl || namedOf(sl.Elem()) == nil || namedOf(sl.Elem()).Obj().Name() != "Option" {
					return
				}
				n++
				clipped := false
				switch x := last.(type) {
				case *ssa.Slice:
					clipped = x.Max != nil
				case *ssa.MakeSlice:
					clipped = true
				}
				r.Check(clipped, "C16.concurrent-option-lists-clipped", fmt.Sprintf("%s: option list of the concurrent %s call", w.fname(fn), c.Call.Method.Name()), c.Pos(), "opts[:len(opts):len(opts)] / a list of its own", "every concurrent inner call is handed the caller's option slice with its spare capacity: an inner retriever that appends an option to its list writes into the slot its siblings use — called directly with a list that has spare capacity, every inner call of the router / multi-query retriever ends up with the last writer's option (and it is a data race)")
			})
		}
		if n == 0 {
			r.Deferred = append(r.Deferred, fmt.Sprintf("C16.concurrent-option-lists-clipped: no concurrent inner call with an option list found in flow/retriever"))
		}
	}

	// ---- convert-option
	r.Rule("C16.convert-option", "convertOption: comma-ok assertion, mismatch returns an error (no success return is reachable from the failed assertion)", 2)
	co := w.Fn("compose", "convertOption")
	okc, bad := false, false
	instrs(co, func(in ssa.Instruction) {
		if ta, ok := in.(*ssa.TypeAssert); ok {
			if ta.CommaOk {
				okc = true
			} else {
				bad = true
			}
		}
	})
	r.Check(okc && !bad, "C16.convert-option", "convertOption uses comma-ok", co.Pos(), "mismatch is an error", "a wrong option type panics inside the node wrapper")
	// … and the mismatch IS an error: from the not-ok side of the assertion no success return is reachable (extractOption
	// looks at the first element of a list only, this conversion is what turns a mixed list into an error)
	instrs(co, func(in ssa.Instruction) {
		ta, ok := in.(*ssa.TypeAssert)
		if !ok || !ta.CommaOk {
			return
		}
		for _, ref := range *ta.Referrers() {
			e, isE := ref.(*ssa.Extract)
			if !isE || e.Index != 1 {
				continue
			}
			for _, r2 := range *e.Referrers() {
				iff, isIf := r2.(*ssa.If)
				if !isIf {
					continue
				}
				reach, wit := pathFromBlock(pathQuery{fn: co, goal: func(x ssa.Instruction) bool {
					ret, isRet := x.(*ssa.Return)
					return isRet && len(ret.Results) == 2 && isNilConst(ret.Results[1])
				}}, iff.Block().Succs[1])
				r.Check(!reach, "C16.convert-option", "convertOption: an option of another type fails the conversion", ta.Pos(), "no success return behind the failed assertion", "an element of another option type is skipped ("+wit+"): WithLambdaOption(optA, optB).DesignateNode(\"a\") succeeds and drops optB silently — an option of the wrong type is no longer an error, and an undesignated mixed list delivers optB to no node")
			}
		}
	})

	// ---- reflect-zero
	r.Rule("C16.reflect-zero", "no method call on reflect.TypeOf(x) of a possibly nil option value without a nil guard", 0)
	n := ruleReflectZero(w, r, "C16.reflect-zero", []*ssa.Function{eo, co}, c16ReflectExceptions)
	r.Info("C16.reflect-zero", "scope", eo.Pos(), fmt.Sprintf("extractOption, convertOption: %d possibly-nil uses", n))
	// positive control: the rule must see the reflect.TypeOf calls it reasons about
	nTypeOf := 0
	for _, f := range []*ssa.Function{eo, co} {
		nTypeOf += len(callsNamed(f, "reflect.TypeOf"))
	}
	r.Check(nTypeOf >= 3, "C16.reflect-zero", "reflect.TypeOf call sites inspected", eo.Pos(), fmt.Sprintf("%d sites", nTypeOf), "the rule no longer sees the TypeOf calls of the option type checks")
}

var optsForwardExceptions = map[string]string{}

// undesignatedCarrierCheck: in extractOption, an undesignated Option that carries no component options (a carrier of
// callbacks / the run-time step limit / checkpoint settings of THIS graph) is never distributed to a node. Every
// distribution write on the undesignated arm must be dominated by "len(opt.options) != 0".
func undesignatedCarrierCheck(w *World, r *Report, rule, consequence string) {
	eo := w.Fn("compose", "extractOption")
	fOptions := w.Field("compose", "Option", "options")
	fPaths := w.Field("compose", "Option", "paths")
	var optMap *ssa.MakeMap
	instrs(eo, func(in ssa.Instruction) {
		if mm, ok := in.(*ssa.MakeMap); ok && optMap == nil {
			optMap = mm
		}
	})
	n := 0
	instrs(eo, func(in ssa.Instruction) {
		mu, ok := in.(*ssa.MapUpdate)
		if !ok || optMap == nil || mu.Map != ssa.Value(optMap) {
			return
		}
		gs := guardsOf(mu.Block())
		undesignated, hasOptions := false, false
		for _, g := range gs {
			op, x, y, ok := asCmp(g.cond)
			if !ok || !isConstN(y, 0) {
				continue
			}
			positive := (op == token.EQL && !g.pol) || (op == token.NEQ && g.pol) || (op == token.GTR && g.pol)
			zero := (op == token.EQL && g.pol) || (op == token.NEQ && !g.pol) || (op == token.GTR && !g.pol)
			if isLenOf(x, func(v ssa.Value) bool { return isLoadOfField(v, fPaths) }) && zero {
				undesignated = true
			}
			if isLenOf(x, func(v ssa.Value) bool { return isLoadOfField(v, fOptions) }) && positive {
				hasOptions = true
			}
		}
		if !undesignated {
			return
		}
		n++
		r.Check(hasOptions, rule, fmt.Sprintf("extractOption: undesignated distribution write #%d", n), mu.Pos(), "only under len(opt.options) != 0", "an undesignated Option without component options is handed to a node: "+consequence)
	})
	if n == 0 {
		r.Fail(rule, "extractOption: undesignated distribution writes", eo.Pos(), "no distribution write under len(opt.paths) == 0 found")
	}
}
