package main

import (
	"fmt"
	"go/token"
	"go/types"
	"sort"
	"strings"

	"golang.org/x/tools/go/ssa"
)

// ---------------------------------------------------------------------------------------------
// compiled types: closure over field types from the given root structs (repo-declared structs only)

func compiledTypes(w *World, roots ...*types.Named) map[*types.Named]bool {
	out := map[*types.Named]bool{}
	var visit func(t types.Type, depth int)
	visit = func(t types.Type, depth int) {
		if depth > 12 {
			return
		}
		switch x := t.(type) {
		case *types.Named:
			n := x.Origin()
			if n.Obj().Pkg() == nil || !strings.HasPrefix(n.Obj().Pkg().Path(), modPath) {
				return
			}
			if st, ok := n.Underlying().(*types.Struct); ok {
				if out[n] {
					return
				}
				out[n] = true
				for i := 0; i < st.NumFields(); i++ {
					visit(st.Field(i).Type(), depth+1)
				}
			} else {
				visit(n.Underlying(), depth+1)
			}
		case *types.Pointer:
			visit(x.Elem(), depth+1)
		case *types.Slice:
			visit(x.Elem(), depth+1)
		case *types.Array:
			visit(x.Elem(), depth+1)
		case *types.Map:
			visit(x.Key(), depth+1)
			visit(x.Elem(), depth+1)
		case *types.Struct:
			for i := 0; i < x.NumFields(); i++ {
				visit(x.Field(i).Type(), depth+1)
			}
		}
	}
	for _, r := range roots {
		visit(r, 0)
	}
	return out
}

// freshBase: the written object was allocated in this very function (a literal under construction).
func freshBase(v ssa.Value, depth int) bool {
	if depth > 10 {
		return false
	}
	switch x := v.(type) {
	case *ssa.Alloc:
		// a local initialised by copying a whole existing struct (by-value receiver/parameter spill,
		// `c := *p`) is NOT fresh: its slice/map fields still alias the original's storage
		for _, ref := range *x.Referrers() {
			if st, ok := ref.(*ssa.Store); ok && st.Addr == x {
				if _, isStruct := deref(x.Type()).Underlying().(*types.Struct); isStruct {
					return false
				}
			}
		}
		return true
	case *ssa.Phi:
		for _, e := range x.Edges {
			if !freshBase(e, depth+1) {
				return false
			}
		}
		return true
	case *ssa.FieldAddr:
		return freshBase(x.X, depth+1)
	case *ssa.IndexAddr:
		return freshBase(x.X, depth+1)
	case *ssa.UnOp:
		if x.Op == token.MUL {
			// load of a local cell holding a fresh pointer: p := &T{}; p.f = ...
			if a, ok := x.X.(*ssa.Alloc); ok {
				fresh := true
				n := 0
				for _, ref := range *a.Referrers() {
					if st, ok := ref.(*ssa.Store); ok && st.Addr == a {
						n++
						if !freshBase(st.Val, depth+1) {
							fresh = false
						}
					}
				}
				return fresh && n > 0
			}
		}
	case *ssa.MakeMap, *ssa.MakeSlice:
		return true
	}
	return false
}

// ruleReadOnlyAtRuntime: no function reachable from the run entry points writes a field (or map /
// slice element held in a field) of a compiled type, unless the object is under construction there.
func ruleReadOnlyAtRuntime(w *World, r *Report, rule string, reach map[*ssa.Function]bool, compiled map[*types.Named]bool, roots []*ssa.Function) (nfn, nwrites int) {
	var fns []*ssa.Function
	for fn := range reach {
		if fn.Blocks != nil && w.inRepo(fn) && fn.Synthetic == "" {
			fns = append(fns, fn)
		}
	}
	sort.Slice(fns, func(i, j int) bool { return fns[i].String() < fns[j].String() })
	seenPos := map[token.Pos]bool{}
	for _, fn := range fns {
		nfn++
		for _, fw := range fieldWrites(fn) {
			nwrites++
			if fw.owner == nil || !compiled[fw.owner] {
				continue
			}
			if seenPos[fw.in.Pos()] {
				continue
			}
			seenPos[fw.in.Pos()] = true
			construct := fmt.Sprintf("%s writes %s.%s", w.fname(origin(fn)), fw.owner.Obj().Name(), fw.field.Name())
			if freshBase(fw.base, 0) {
				r.OK(rule, construct, fw.in.Pos(), "object under construction in this function (fresh allocation)")
				continue
			}
			r.Fail(rule, construct, fw.in.Pos(), fmt.Sprintf("%s of a compiled (shared, read-only at run time) object on a run path: %s", fw.kind, w.chainTo(fn, roots...)))
		}
	}
	return
}

// ruleNoGlobalWrite: no function reachable from the run entry points writes a package-level variable
// (or an element of a map/slice held in one), except inside a literal passed to (*sync.Once).Do.
func ruleNoGlobalWrite(w *World, r *Report, rule string, reach map[*ssa.Function]bool, roots []*ssa.Function) int {
	onceLits := map[*ssa.Function]bool{}
	for _, fn := range w.RepoFuncs() {
		instrs(fn, func(in ssa.Instruction) {
			if calleeFullName(in) == "(*sync.Once).Do" {
				c := in.(ssa.CallInstruction).Common()
				if mc, ok := c.Args[len(c.Args)-1].(*ssa.MakeClosure); ok {
					onceLits[mc.Fn.(*ssa.Function)] = true
				} else if f, ok := c.Args[len(c.Args)-1].(*ssa.Function); ok {
					onceLits[f] = true
				}
			}
		})
	}
	var fns []*ssa.Function
	for fn := range reach {
		if fn.Blocks != nil && w.inRepo(fn) && fn.Synthetic == "" {
			fns = append(fns, fn)
		}
	}
	sort.Slice(fns, func(i, j int) bool { return fns[i].String() < fns[j].String() })
	n := 0
	for _, fn := range fns {
		if fn.Name() == "init" || strings.HasPrefix(fn.Name(), "init#") {
			continue
		}
		instrs(fn, func(in ssa.Instruction) {
			var g *ssa.Global
			kind := ""
			switch x := in.(type) {
			case *ssa.Store:
				switch a := x.Addr.(type) {
				case *ssa.Global:
					g, kind = a, "store"
				case *ssa.IndexAddr:
					if u, ok := a.X.(*ssa.UnOp); ok {
						if gg, ok := u.X.(*ssa.Global); ok {
							g, kind = gg, "element store"
						}
					}
				case *ssa.FieldAddr:
					if gg, ok := a.X.(*ssa.Global); ok {
						g, kind = gg, "field store"
					}
				}
			case *ssa.MapUpdate:
				if u, ok := x.Map.(*ssa.UnOp); ok {
					if gg, ok := u.X.(*ssa.Global); ok {
						g, kind = gg, "map update"
					}
				}
			}
			if g == nil || g.Pkg == nil || !strings.HasPrefix(g.Pkg.Pkg.Path(), modPath) {
				return
			}
			n++
			construct := fmt.Sprintf("%s writes global %s", w.fname(origin(fn)), g.Name())
			if onceLits[fn] {
				r.OK(rule, construct, in.Pos(), "inside a literal passed to sync.Once.Do")
				return
			}
			r.Fail(rule, construct, in.Pos(), kind+" to a package-level variable on a run path: "+w.chainTo(fn, roots...))
		})
	}
	return n
}

// ---------------------------------------------------------------------------------------------
// CAPTURE-WRITE

var syncCallees = map[string]bool{
	"(*sync.Once).Do": true, "sort.Slice": true, "sort.SliceStable": true, "sort.Search": true,
	"strings.Map": true, "strings.FieldsFunc": true, "strings.TrimFunc": true, "strings.IndexFunc": true,
	"go/ast.Inspect": true,
}

// closureEscapes: does the literal lit (created in its parent by MakeClosure) outlive / run outside the
// dynamic extent of the parent's invocation? Synchronous uses: immediate call, defer, argument to a
// known-synchronous callee (allow-list + extraSync).
func closureEscapes(lit *ssa.Function, extraSync func(ssa.CallInstruction) bool) (bool, string) {
	parent := lit.Parent()
	if parent == nil {
		return false, ""
	}
	esc, why := false, ""
	var mcs []ssa.Value
	instrs(parent, func(in ssa.Instruction) {
		if mc, ok := in.(*ssa.MakeClosure); ok && mc.Fn == lit {
			mcs = append(mcs, mc)
		}
	})
	// literals without free variables are referenced as plain *ssa.Function operands
	if len(lit.FreeVars) == 0 {
		return false, ""
	}
	var follow func(v ssa.Value, depth int)
	follow = func(v ssa.Value, depth int) {
		if depth > 6 || esc {
			return
		}
		refs := v.Referrers()
		if refs == nil {
			return
		}
		for _, ref := range *refs {
			switch u := ref.(type) {
			case *ssa.Go:
				esc, why = true, "run as a goroutine"
			case ssa.CallInstruction:
				if u.Common().Value == v {
					continue // called / deferred directly
				}
				if syncCallees[calleeFullName(u)] || (extraSync != nil && extraSync(u)) {
					continue
				}
				esc, why = true, "passed to "+calleeFullName(u)
			case *ssa.Store:
				if a, ok := u.Addr.(*ssa.Alloc); ok && u.Val == v {
					// stored in a local variable: follow its loads
					for _, l := range *a.Referrers() {
						if lo, ok := l.(*ssa.UnOp); ok {
							follow(lo, depth+1)
						}
					}
					// a captured local cell may be used by other closures: treat as escape
					for _, l := range *a.Referrers() {
						if _, ok := l.(*ssa.MakeClosure); ok {
							esc, why = true, "stored in a variable captured by another closure"
						}
					}
					continue
				}
				esc, why = true, "stored to "+u.Addr.String()
			case *ssa.Return:
				esc, why = true, "returned"
			case *ssa.MakeInterface, *ssa.ChangeType, *ssa.Phi:
				follow(u.(ssa.Value), depth+1)
			case *ssa.MapUpdate, *ssa.Send:
				esc, why = true, "stored in a map / sent"
			case *ssa.DebugRef:
			default:
				esc, why = true, fmt.Sprintf("used by %T", u)
			}
		}
	}
	for _, mc := range mcs {
		follow(mc, 0)
	}
	return esc, why
}

// declaringFunc finds, for free variable #idx of lit, the function whose local (Alloc/Parameter) it is,
// and the chain of literals between.
func declaringFunc(lit *ssa.Function, fv *ssa.FreeVar) (*ssa.Function, []*ssa.Function, string) {
	chain := []*ssa.Function{lit}
	cur := lit
	var cv ssa.Value = fv
	for {
		parent := cur.Parent()
		if parent == nil {
			return nil, chain, fv.Name()
		}
		idx := -1
		for i, f := range cur.FreeVars {
			if f == cv {
				idx = i
			}
		}
		if idx < 0 {
			return nil, chain, fv.Name()
		}
		var binding ssa.Value
		instrs(parent, func(in ssa.Instruction) {
			if mc, ok := in.(*ssa.MakeClosure); ok && mc.Fn == cur && binding == nil {
				binding = mc.Bindings[idx]
			}
		})
		if binding == nil {
			return nil, chain, fv.Name()
		}
		if pfv, ok := binding.(*ssa.FreeVar); ok {
			cur = parent
			cv = pfv
			chain = append(chain, cur)
			continue
		}
		return parent, chain, fv.Name()
	}
}

type captureWrite struct {
	lit      *ssa.Function
	store    *ssa.Store
	varName  string
	declIn   *ssa.Function
	escaping *ssa.Function
	why      string
}

// captureWrites lists every Store to a captured variable inside function literals of the given
// functions, classifying whether a literal between the store and the variable's declaring function
// escapes (the variable is then shared by all invocations of the escaping literal).
func captureWrites(w *World, fns []*ssa.Function, extraSync func(ssa.CallInstruction) bool) []captureWrite {
	var out []captureWrite
	for _, fn := range fns {
		if fn.Parent() == nil {
			continue
		}
		instrs(fn, func(in ssa.Instruction) {
			st, ok := in.(*ssa.Store)
			if !ok {
				return
			}
			fv, ok := st.Addr.(*ssa.FreeVar)
			viaObject := false
			if !ok {
				// a write through a captured pointer: the address derives (field / element chain) from a load
				// of a captured variable whose declaring function only ever stores objects it allocated itself
				// in it: that object is shared by every invocation of the literal.
				fv = capturedObjectRoot(st.Addr)
				if fv == nil {
					return
				}
				viaObject = true
			}
			decl, chain, name := declaringFunc(fn, fv)
			if viaObject {
				if decl == nil || !cellHoldsOnlyOwnAllocs(decl, chain, fv) {
					return
				}
				name = "object held by " + name
			}
			cw := captureWrite{lit: fn, store: st, varName: name, declIn: decl}
			for _, c := range chain {
				if esc, why := closureEscapes(c, extraSync); esc {
					cw.escaping, cw.why = c, why
					break
				}
			}
			out = append(out, cw)
		})
	}
	return out
}

// ---------------------------------------------------------------------------------------------
// APPEND-ALIAS

type sliceRoot struct {
	kind  string // fresh | field | global | freevar | param | mapelem | call | other
	field *types.Var
	owner *types.Named
	base  ssa.Value
	desc  string
}

func rootOfSlice(v ssa.Value, depth int) sliceRoot {
	if depth > 12 {
		return sliceRoot{kind: "other", desc: "deep"}
	}
	switch x := v.(type) {
	case *ssa.Const:
		return sliceRoot{kind: "fresh", desc: "nil"}
	case *ssa.MakeSlice:
		return sliceRoot{kind: "fresh", desc: "make"}
	case *ssa.Slice:
		if _, ok := x.X.(*ssa.Alloc); ok {
			return sliceRoot{kind: "fresh", desc: "literal"}
		}
		return rootOfSlice(x.X, depth+1)
	case *ssa.Call:
		if b, ok := x.Call.Value.(*ssa.Builtin); ok && b.Name() == "append" {
			return rootOfSlice(x.Call.Args[0], depth+1)
		}
		if sc := staticCallee(x); sc != nil && sc.Blocks != nil && depth < 8 && sc.Signature.Results().Len() == 1 {
			var worst sliceRoot
			worst.kind = "fresh"
			n := 0
			instrs(sc, func(in ssa.Instruction) {
				if ret, ok := in.(*ssa.Return); ok && len(ret.Results) == 1 {
					n++
					rr := rootOfSlice(ret.Results[0], depth+4)
					if rootRank(rr.kind) > rootRank(worst.kind) {
						worst = rr
					}
				}
			})
			if n > 0 && (worst.kind == "field" || worst.kind == "fresh") {
				if worst.kind == "field" {
					worst.desc = "result of " + sc.Name() + " which may return " + worst.desc
				}
				return worst
			}
		}
		return sliceRoot{kind: "call", desc: calleeFullName(x)}
	case *ssa.Phi:
		// worst root among edges (a shared field beats everything else)
		var worst sliceRoot
		worst.kind = "fresh"
		for _, e := range x.Edges {
			if e == v {
				continue
			}
			rr := rootOfSlice(e, depth+3)
			if rootRank(rr.kind) > rootRank(worst.kind) {
				worst = rr
			}
		}
		return worst
	case *ssa.UnOp:
		if x.Op == token.MUL {
			switch a := x.X.(type) {
			case *ssa.FieldAddr:
				return sliceRoot{kind: "field", field: fieldVarOfAddr(a), owner: namedOf(a.X.Type()), base: a.X, desc: "field " + fieldVarOfAddr(a).Name()}
			case *ssa.Global:
				return sliceRoot{kind: "global", desc: "global " + a.Name()}
			case *ssa.FreeVar:
				return sliceRoot{kind: "freevar", desc: "captured " + a.Name()}
			case *ssa.Alloc:
				// local variable: look at what is stored in it
				var worst sliceRoot
				worst.kind = "fresh"
				for _, ref := range *a.Referrers() {
					if st, ok := ref.(*ssa.Store); ok && st.Addr == a {
						rr := rootOfSlice(st.Val, depth+3)
						if rootRank(rr.kind) > rootRank(worst.kind) {
							worst = rr
						}
					}
				}
				return worst
			case *ssa.IndexAddr:
				return sliceRoot{kind: "other", desc: "element"}
			}
		}
	case *ssa.Field:
		return sliceRoot{kind: "field", field: fieldVarOfField(x), owner: namedOf(x.X.Type()), base: x.X, desc: "field " + fieldVarOfField(x).Name() + " (by value)"}
	case *ssa.Parameter:
		return sliceRoot{kind: "param", desc: "parameter " + x.Name()}
	case *ssa.Lookup:
		return sliceRoot{kind: "mapelem", desc: "map element"}
	case *ssa.Extract:
		return sliceRoot{kind: "call", desc: "call result"}
	}
	return sliceRoot{kind: "other", desc: fmt.Sprintf("%T", v)}
}

type appendSite struct {
	fn     *ssa.Function
	call   *ssa.Call
	root   sliceRoot
	stored string // "same-field" | "other" | "none"
	fresh1 bool   // append([]T{...}, x...) form: first arg fresh
}

// appendSites lists append calls whose first operand is rooted in a struct field.
func appendSites(fn *ssa.Function) []appendSite {
	var out []appendSite
	instrs(fn, func(in ssa.Instruction) {
		c, ok := in.(*ssa.Call)
		if !ok || !isBuiltin(c, "append") {
			return
		}
		rt := rootOfSlice(c.Call.Args[0], 0)
		as := appendSite{fn: fn, call: c, root: rt, stored: "none"}
		if rt.kind == "field" {
			for _, ref := range *c.Referrers() {
				switch u := ref.(type) {
				case *ssa.Store:
					if fa, ok := u.Addr.(*ssa.FieldAddr); ok && u.Val == c {
						if sameField(fieldVarOfAddr(fa), rt.field) {
							as.stored = "same-field"
						} else {
							as.stored = "other"
						}
					}
				case *ssa.MapUpdate:
					as.stored = "other"
				}
			}
		}
		out = append(out, as)
	})
	return out
}

// ruleAppendAlias: append on a slice held in a field of one of the owner types must either start from a
// fresh slice, be part of constructing the owner, or (build time only) be stored back to the same field.
func ruleAppendAlias(w *World, r *Report, rule string, owners map[*types.Named]bool, fns []*ssa.Function, reach map[*ssa.Function]bool) {
	for _, fn := range fns {
		for _, as := range appendSites(fn) {
			if as.root.kind != "field" || as.root.owner == nil || !owners[as.root.owner] {
				continue
			}
			construct := fmt.Sprintf("%s append(%s.%s)", w.fname(origin(fn)), as.root.owner.Obj().Name(), as.root.field.Name())
			if freshBase(as.root.base, 0) {
				r.OK(rule, construct, as.call.Pos(), "owner object is under construction in this function")
				continue
			}
			_, byValueCopy := as.root.base.(*ssa.Alloc)
			if as.stored == "same-field" && !reach[fn] && !byValueCopy {
				r.OK(rule, construct, as.call.Pos(), "result stored back to the same field (build-time accumulation)")
				continue
			}
			if reason, ok := appendExceptions[construct]; ok {
				r.Except(rule, construct, as.call.Pos(), reason)
				continue
			}
			r.Fail(rule, construct, as.call.Pos(), fmt.Sprintf("append on shared slice %s.%s whose result is not kept by the owner (stored: %s): with spare capacity it writes into the backing array other holders read/append concurrently", as.root.owner.Obj().Name(), as.root.field.Name(), as.stored))
		}
	}
}

func rootRank(kind string) int {
	switch kind {
	case "field":
		return 6
	case "global", "freevar":
		return 5
	case "param":
		return 4
	case "mapelem":
		return 3
	case "call":
		return 2
	case "other":
		return 1
	}
	return 0
}

// capturedObjectRoot: addr = FieldAddr/IndexAddr chain over *fv (a load of a captured variable).
func capturedObjectRoot(addr ssa.Value) *ssa.FreeVar {
	for depth := 0; depth < 8; depth++ {
		switch a := addr.(type) {
		case *ssa.FieldAddr:
			addr = a.X
		case *ssa.IndexAddr:
			addr = a.X
		case *ssa.UnOp:
			if a.Op != token.MUL {
				return nil
			}
			if fv, ok := a.X.(*ssa.FreeVar); ok {
				if _, isPtr := deref(fv.Type()).Underlying().(*types.Pointer); isPtr {
					return fv
				}
				return nil
			}
			addr = a.X
		default:
			return nil
		}
	}
	return nil
}

// cellHoldsOnlyOwnAllocs: the captured variable's cell (an Alloc of the declaring function) is only
// ever assigned composite literals / new(T) allocated by the declaring function itself.
func cellHoldsOnlyOwnAllocs(decl *ssa.Function, chain []*ssa.Function, fv *ssa.FreeVar) bool {
	// locate the cell: binding of the outermost literal in the chain
	outer := chain[len(chain)-1]
	var cv ssa.Value = fv
	cur := chain[0]
	for _, next := range chain[1:] {
		idx := -1
		for i, f := range cur.FreeVars {
			if f == cv {
				idx = i
			}
		}
		if idx < 0 {
			return false
		}
		var b ssa.Value
		instrs(next, func(in ssa.Instruction) {
			if mc, ok := in.(*ssa.MakeClosure); ok && mc.Fn == cur && b == nil {
				b = mc.Bindings[idx]
			}
		})
		cv, cur = b, next
	}
	idx := -1
	for i, f := range outer.FreeVars {
		if f == cv {
			idx = i
		}
	}
	if idx < 0 {
		return false
	}
	var cell *ssa.Alloc
	instrs(decl, func(in ssa.Instruction) {
		if mc, ok := in.(*ssa.MakeClosure); ok && mc.Fn == outer && cell == nil {
			cell, _ = mc.Bindings[idx].(*ssa.Alloc)
		}
	})
	if cell == nil {
		return false
	}
	n := 0
	own := true
	for _, f := range withAnons(decl) {
		instrs(f, func(in ssa.Instruction) {
			st, ok := in.(*ssa.Store)
			if !ok {
				return
			}
			if f == decl && st.Addr == ssa.Value(cell) {
				n++
				if al, ok := st.Val.(*ssa.Alloc); !ok || al.Parent() != decl {
					own = false
				}
			} else if f != decl {
				if r, ok := st.Addr.(*ssa.FreeVar); ok && r.Name() == cell.Comment {
					own = false // reassigned inside a literal: not decided here
				}
			}
		})
	}
	return n > 0 && own
}

// ruleNoContainerWriteOnCompiled: a sync.Map / container/list / sync.Pool-less memo hung on a compiled object is shared
// state too; its mutating methods are writes although no field is stored. Receiver = address of a field of a compiled
// type that is not under construction.
var containerMutators = map[string]bool{
	"(*sync.Map).Store": true, "(*sync.Map).LoadOrStore": true, "(*sync.Map).LoadAndDelete": true, "(*sync.Map).Delete": true,
	"(*sync.Map).Swap": true, "(*sync.Map).CompareAndSwap": true, "(*sync.Map).CompareAndDelete": true, "(*sync.Map).Clear": true,
	"(*container/list.List).PushBack": true, "(*container/list.List).PushFront": true, "(*container/list.List).Remove": true, "(*container/list.List).Init": true,
}

func ruleNoContainerWriteOnCompiled(w *World, r *Report, rule string, reach map[*ssa.Function]bool, compiled map[*types.Named]bool, roots []*ssa.Function) int {
	var fns []*ssa.Function
	for fn := range reach {
		if fn.Blocks != nil && w.inRepo(fn) && fn.Synthetic == "" {
			fns = append(fns, fn)
		}
	}
	sort.Slice(fns, func(i, j int) bool { return fns[i].String() < fns[j].String() })
	n, bad := 0, 0
	for _, fn := range fns {
		instrs(fn, func(in ssa.Instruction) {
			name := calleeFullName(in)
			if !containerMutators[name] {
				return
			}
			n++
			c := in.(ssa.CallInstruction).Common()
			if len(c.Args) == 0 {
				return
			}
			recv := c.Args[0]
			if u, ok := recv.(*ssa.UnOp); ok && u.Op == token.MUL { // pointer-typed field: *list.List
				recv = u.X
			}
			fa, ok := recv.(*ssa.FieldAddr)
			if !ok {
				return
			}
			owner := ownerOfFieldAddr(fa)
			if owner == nil || !compiled[owner.Origin()] || freshBase(fa.X, 0) {
				return
			}
			bad++
			f := fieldVarOfAddr(fa)
			r.Fail(rule, fmt.Sprintf("%s calls %s on %s.%s", w.fname(origin(fn)), name, owner.Obj().Name(), f.Name()), in.Pos(), "a container hung on a compiled (shared) object is mutated on a run path: what one run leaves there is seen by every later and concurrent run of the same runnable ("+w.chainTo(fn, roots...)+")")
		})
	}
	if bad == 0 {
		r.OK(rule, fmt.Sprintf("%d container mutator calls on run paths, none on a field of a compiled type", n), token.NoPos, "per-run containers only")
	}
	return n
}

// CAPTURED-CTX: a function literal that runs per call (it has a context.Context parameter of its own) must not hand a
// context captured from the function that built it (a constructor: NewAgent, a graph builder) to anything: every run
// would share that one context — its values, its deadline, its cancellation.
type capturedCtxUse struct {
	lit  *ssa.Function
	call ssa.Instruction
	fv   *ssa.FreeVar
}

func isContextType(t types.Type) bool {
	n := namedOf(t)
	return n != nil && n.Obj().Pkg() != nil && n.Obj().Pkg().Path() == "context" && n.Obj().Name() == "Context"
}

func capturedCtxUses(fns []*ssa.Function) (uses []capturedCtxUse, examined int) {
	for _, fn := range fns {
		if fn.Parent() == nil {
			continue
		}
		own := false
		for _, p := range fn.Params {
			if isContextType(p.Type()) {
				own = true
			}
		}
		if !own {
			continue
		}
		examined++
		for _, fv := range fn.FreeVars {
			// captured by reference (*context.Context cell) or by value
			t := fv.Type()
			if p, ok := t.(*types.Pointer); ok {
				t = p.Elem()
			}
			if !isContextType(t) {
				continue
			}
			// the captured cell must belong to a function that is not itself a per-call literal sharing the same ctx param
			for _, ref := range *fv.Referrers() {
				var vals []ssa.Value
				if u, ok := ref.(*ssa.UnOp); ok {
					vals = append(vals, u)
				} else if _, ok := ref.(ssa.CallInstruction); ok {
					vals = append(vals, fv)
				}
				for _, v := range vals {
					for _, r2 := range *v.Referrers() {
						if c, ok := r2.(ssa.CallInstruction); ok {
							uses = append(uses, capturedCtxUse{fn, c, fv})
						}
					}
					if c, ok := ref.(ssa.CallInstruction); ok && v == ssa.Value(fv) {
						uses = append(uses, capturedCtxUse{fn, c, fv})
					}
				}
			}
		}
	}
	return
}

// CTX-FORWARD: the context a function hands to a callee derives from the context it was given (its own parameter, a
// context captured from an enclosing per-call function, a context stored in a per-run object) — never from
// context.Background()/TODO() and never from a constructor's context.
type ctxHandOver struct {
	fn   *ssa.Function
	call ssa.CallInstruction
	arg  ssa.Value
	kind string // "param" | "captured-per-call" | "captured-constructor" | "field" | "background" | "other"
}

func ctxRootKind(v ssa.Value, fn *ssa.Function, depth int, seen map[ssa.Value]bool) string {
	if depth > 14 || v == nil || seen[v] {
		return "other"
	}
	seen[v] = true
	switch x := v.(type) {
	case *ssa.Parameter:
		return "param"
	case *ssa.FreeVar:
		// captured: per-call when the defining function received it as a parameter and is not a constructor
		p := fn.Parent()
		for p != nil {
			for _, pp := range p.Params {
				if pp.Name() == x.Name() && isContextType(pp.Type()) {
					return "captured-per-call" // whether the capturing literal has a context of its own is CAPTURED-CTX's business
				}
			}
			p = p.Parent()
		}
		return "captured-per-call"
	case *ssa.UnOp:
		if f, _ := loadedField(x); f != nil {
			return "field"
		}
		if fv, ok := x.X.(*ssa.FreeVar); ok {
			return ctxRootKind(fv, fn, depth+1, seen)
		}
		if al, ok := x.X.(*ssa.Alloc); ok {
			best := "other"
			for _, ref := range *al.Referrers() {
				if st, ok := ref.(*ssa.Store); ok && st.Addr == ssa.Value(al) {
					k := ctxRootKind(st.Val, fn, depth+1, seen)
					if k == "background" || k == "captured-constructor" {
						return k
					}
					if k != "other" {
						best = k
					}
				}
			}
			return best
		}
	case *ssa.Call:
		name := calleeFullName(x)
		if name == "context.Background" || name == "context.TODO" {
			return "background"
		}
		// a context-returning call: derives from its context argument
		for _, a := range x.Call.Args {
			if isContextType(a.Type()) {
				return ctxRootKind(a, fn, depth+1, seen)
			}
		}
		if x.Call.IsInvoke() && isContextType(x.Call.Value.Type()) {
			return ctxRootKind(x.Call.Value, fn, depth+1, seen)
		}
		return "other"
	case *ssa.Extract:
		return ctxRootKind(x.Tuple, fn, depth+1, seen)
	case *ssa.Phi:
		best := "other"
		for _, e := range x.Edges {
			k := ctxRootKind(e, fn, depth+1, seen)
			if k == "background" || k == "captured-constructor" {
				return k
			}
			if k != "other" {
				best = k
			}
		}
		return best
	case *ssa.MakeInterface:
		return ctxRootKind(x.X, fn, depth+1, seen)
	case *ssa.ChangeInterface:
		return ctxRootKind(x.X, fn, depth+1, seen)
	case *ssa.TypeAssert:
		return ctxRootKind(x.X, fn, depth+1, seen)
	}
	return "other"
}

func ctxHandOvers(fns []*ssa.Function) []ctxHandOver {
	var out []ctxHandOver
	for _, fn := range fns {
		instrs(fn, func(in ssa.Instruction) {
			c, ok := in.(ssa.CallInstruction)
			if !ok {
				return
			}
			name := calleeFullName(in)
			if strings.HasPrefix(name, "context.") || strings.HasPrefix(name, "(context.") {
				return // deriving, not handing over
			}
			for _, a := range c.Common().Args {
				if !isContextType(a.Type()) {
					continue
				}
				out = append(out, ctxHandOver{fn, c, a, ctxRootKind(a, fn, 0, map[ssa.Value]bool{})})
			}
		})
	}
	return out
}

// RESLICE-APPEND: append(x[:k], …) writes into x's backing array from position k on. When x is a parameter (the caller's
// slice) or a slice held in a field of a shared object, that is an in-place update of somebody else's storage: the
// filter-in-place idiom `hit := keys[:0]` is only sound on a slice the function owns.
type resliceAppend struct {
	fn   *ssa.Function
	call *ssa.Call
	root string
}

func resliceAppends(fns []*ssa.Function) []resliceAppend {
	var out []resliceAppend
	for _, fn := range fns {
		instrs(fn, func(in ssa.Instruction) {
			c, ok := in.(*ssa.Call)
			if !ok || !isBuiltin(c, "append") || len(c.Call.Args) == 0 {
				return
			}
			// first operand: a re-slice (possibly through phis of the loop that accumulates) of foreign storage
			seen := map[ssa.Value]bool{}
			var root func(v ssa.Value, d int) string
			root = func(v ssa.Value, d int) string {
				if d > 6 || seen[v] {
					return ""
				}
				seen[v] = true
				switch x := v.(type) {
				case *ssa.Slice:
					if x.High == nil && x.Low == nil {
						return ""
					}
					if x.High == nil {
						return "" // x[k:] keeps the tail: appending extends past the end like a plain append
					}
					switch b := x.X.(type) {
					case *ssa.Parameter:
						if _, isSlice := b.Type().Underlying().(*types.Slice); isSlice {
							return "parameter " + b.Name()
						}
					case *ssa.UnOp:
						if f, _ := loadedField(b); f != nil {
							return "field " + f.Name()
						}
					}
				case *ssa.Phi:
					for _, e := range x.Edges {
						if r := root(e, d+1); r != "" {
							return r
						}
					}
				case *ssa.Call:
					if isBuiltin(x, "append") && len(x.Call.Args) > 0 {
						return root(x.Call.Args[0], d+1)
					}
				}
				return ""
			}
			if rt := root(c.Call.Args[0], 0); rt != "" {
				out = append(out, resliceAppend{fn, c, rt})
			}
		})
	}
	return out
}

func ruleResliceAppend(w *World, r *Report, rule string, pkgs ...string) int {
	ras := resliceAppends(w.RepoFuncs(pkgs...))
	n := 0
	for _, ra := range ras {
		n++
		construct := fmt.Sprintf("%s: append on a re-slice of %s", w.fname(origin(ra.fn)), ra.root)
		// the owner's own delete-in-place: the result goes straight back into the same field
		storedBack := false
		if strings.HasPrefix(ra.root, "field ") {
			for _, ref := range *ra.call.Referrers() {
				if st, ok := ref.(*ssa.Store); ok {
					if fa, ok := st.Addr.(*ssa.FieldAddr); ok && "field "+fieldVarOfAddr(fa).Name() == ra.root {
						storedBack = true
					}
				}
			}
		}
		if storedBack {
			r.OK(rule, construct, ra.call.Pos(), "delete-in-place on the owner's own field, stored back to it")
			continue
		}
		r.Fail(rule, construct, ra.call.Pos(), "append(x[:k], …) overwrites x's backing array from position k on, and x is not this function's own storage: a filter-in-place over a configured list (e.g. the interrupt-before nodes) rewrites the list itself — entries disappear for the rest of this run, for the resumed run and for every later run of the compiled graph, and concurrent runs race on it")
	}
	if n == 0 {
		r.OK(rule, "no append on a re-slice of a parameter or of a shared field in "+strings.Join(pkgs, ", "), token.NoPos, "none present")
	}
	return n
}

// RECEIVER-WRITE-AT-RUNTIME: a method that can be called while the object is in use by several goroutines — the run
// methods of components (anything reachable, through methods of the same receiver, from an exported method that takes
// a context.Context or implements a module interface) — stores into a field of its receiver (or into a slice / map held
// in one). Without a lock that is a data race the moment one instance serves two requests, which is how a component
// inside a compiled graph is used.
type recvWrite struct {
	fn    *ssa.Function
	in    ssa.Instruction
	field *types.Var
	kind  string
}

func receiverWrites(fn *ssa.Function) []recvWrite {
	var out []recvWrite
	if fn.Signature.Recv() == nil || len(fn.Params) == 0 {
		return nil
	}
	recv := fn.Params[0]
	if _, ok := recv.Type().Underlying().(*types.Pointer); !ok {
		return nil
	}
	for _, fw := range fieldWrites(fn) {
		if fw.field == nil {
			continue
		}
		if paramRoot(fw.base, 0) == recv {
			out = append(out, recvWrite{fn, fw.in, fw.field, fw.kind})
		}
	}
	// append-to-field through a store of a slice: covered by the Store on the FieldAddr above
	return out
}

// runMethodClosure: exported pointer-receiver methods that take a context.Context (the calling convention of every
// component's run-time entry point) and the methods of the same receiver they call, transitively.
func runMethodClosure(w *World, pkgs ...string) map[*ssa.Function][]*ssa.Function {
	out := map[*ssa.Function][]*ssa.Function{}
	for _, fn := range w.RepoFuncs(pkgs...) {
		sig := fn.Signature
		if sig.Recv() == nil || fn.Object() == nil || !fn.Object().Exported() || fn.Parent() != nil {
			continue
		}
		if _, ok := sig.Recv().Type().Underlying().(*types.Pointer); !ok {
			continue
		}
		hasCtx := false
		for i := 0; i < sig.Params().Len(); i++ {
			if sig.Params().At(i).Type().String() == "context.Context" {
				hasCtx = true
			}
		}
		if !hasCtx {
			continue
		}
		seen := map[*ssa.Function]bool{fn: true}
		work := []*ssa.Function{fn}
		for len(work) > 0 {
			f := work[0]
			work = work[1:]
			out[fn] = append(out[fn], f)
			if len(f.Params) == 0 {
				continue
			}
			recv := f.Params[0]
			instrs(f, func(in ssa.Instruction) {
				c, ok := in.(ssa.CallInstruction)
				if !ok {
					return
				}
				sc := staticCallee(c)
				if sc == nil || !w.inRepo(sc) || sc.Signature.Recv() == nil || len(c.Common().Args) == 0 || c.Common().Args[0] != ssa.Value(recv) {
					return
				}
				if !seen[sc] {
					seen[sc] = true
					work = append(work, sc)
				}
			})
		}
	}
	return out
}

// SNAPSHOT: a finalizer (`Build`) hands out an object that no longer depends on the builder: the receiver pointer is
// only read through in the method (loads of *recv / of its fields) and never stored, wrapped into an interface, passed
// on or returned — otherwise what is registered on the builder AFTER Build changes a handler already given away.
func builderPointerKept(p ssa.Value) []ssa.Instruction {
	var out []ssa.Instruction
	refs := p.Referrers()
	if refs == nil {
		return nil
	}
	for _, ref := range *refs {
		switch x := ref.(type) {
		case *ssa.UnOp: // load
		case *ssa.FieldAddr:
			// address of a field: escapes if that address is itself kept (not merely loaded from)
			for _, r2 := range *x.Referrers() {
				switch y := r2.(type) {
				case *ssa.UnOp:
				case *ssa.Store:
					if y.Val == ssa.Value(x) {
						out = append(out, r2)
					}
				case *ssa.DebugRef:
				default:
					out = append(out, r2)
				}
			}
		case *ssa.Store:
			if x.Val == p {
				out = append(out, ref)
			}
		case *ssa.DebugRef:
		case *ssa.BinOp: // nil comparison
		default:
			out = append(out, ref)
		}
	}
	return out
}

// OPTIONS-OWNED: the compile options a node was given (graphCompileOptions, kept in its nodeInfo for every later
// Compile) are written only by the option functions themselves (func(*graphCompileOptions) literals), by the
// constructor, or on a fresh per-compile object. A Compile that writes into a node's stored options changes what the
// nested graph is — for this parent, for every other parent, and for every later Compile.
func compileOptionsOwned(w *World, r *Report, rule string) {
	ot := w.Named("compose", "graphCompileOptions")
	n := 0
	exceptions := map[string]string{
		"(*compose.graphNode).beforeChildGraphCompile callbacks": "appends the sub-graph info collector when the parent is compiled with compile callbacks: an observer, it does not change what the nested graph compiles to",
	}
	for _, fn := range w.RepoFuncs("compose") {
		for _, fw := range fieldWrites(fn) {
			if fw.owner != ot {
				continue
			}
			n++
			construct := fmt.Sprintf("%s writes graphCompileOptions.%s", w.fname(fn), fw.field.Name())
			// an option function: func(*graphCompileOptions) with the object as its parameter
			isOptFn := false
			if sig := fn.Signature; sig.Params().Len() == 1 && sig.Results().Len() == 0 {
				if pt, ok := sig.Params().At(0).Type().(*types.Pointer); ok && namedOf(pt.Elem()) == ot {
					isOptFn = paramRoot(fw.base, 0) == fn.Params[0]
				}
			}
			switch {
			case isOptFn:
				r.OK(rule, construct, fw.in.Pos(), "an option function writing the options object it was handed")
			case freshBase(fw.base, 0):
				r.OK(rule, construct, fw.in.Pos(), "a fresh options object (constructor / per-compile copy)")
			case exceptions[w.fname(fn)+" "+fw.field.Name()] != "":
				r.Except(rule, construct, fw.in.Pos(), exceptions[w.fname(fn)+" "+fw.field.Name()])
			default:
				r.Fail(rule, construct, fw.in.Pos(), "the stored compile options of a node are rewritten outside the option functions: a nested graph no longer compiles to what it was declared as — e.g. it inherits the parent's trigger mode (a graph with uneven paths returns a different result inside an all-predecessor parent, a nested loop no longer compiles), and the inherited value sticks for every later Compile and every other parent")
			}
		}
	}
	if n < 6 {
		undecidedf("%s: only %d writes of graphCompileOptions fields found", rule, n)
	}
}

// DEAD-DEFAULT: a function literal that is built and then used by nothing (no call, no store, not passed on, not
// returned — the SSA value has no referrer) is a default that was prepared and then forgotten: the code that follows
// went on using the configured value the default was meant to replace (`x := cfg.F; if x == nil { x = func… }` followed
// by `use(cfg.F)`).
func deadClosures(fn *ssa.Function) []*ssa.MakeClosure {
	var out []*ssa.MakeClosure
	instrs(fn, func(in ssa.Instruction) {
		mc, ok := in.(*ssa.MakeClosure)
		if !ok {
			return
		}
		used := false
		if refs := mc.Referrers(); refs != nil {
			for _, ref := range *refs {
				if _, dbg := ref.(*ssa.DebugRef); !dbg {
					used = true
				}
			}
		}
		if !used {
			out = append(out, mc)
		}
	})
	return out
}

// OPEN-WINDOW: a two-index re-slice s[a:b] keeps the capacity of s beyond b. Storing such windows of ONE slab into a
// container inside a loop hands out slices whose appends run into each other's elements (slab[i:i] then
// append(window_i, x, y) writes window_{i+1}'s slot). The three-index form s[a:b:c] bounds it.
func openWindowsStored(fn *ssa.Function) []*ssa.Slice {
	var out []*ssa.Slice
	loops := naturalLoops(fn)
	instrs(fn, func(in ssa.Instruction) {
		sl, ok := in.(*ssa.Slice)
		if !ok || sl.Max != nil || sl.Low == nil {
			return
		}
		if _, isSlice := sl.X.Type().Underlying().(*types.Slice); !isSlice {
			return
		}
		if c, isC := sl.Low.(*ssa.Const); isC && c.Value != nil && c.Value.ExactString() == "0" {
			return
		}
		inLoop := false
		for _, li := range loops {
			if li.body[sl.Block()] {
				inLoop = true
			}
		}
		if !inLoop {
			return
		}
		// stored as an element of a slice / map (a container of windows)
		for _, ref := range *sl.Referrers() {
			switch x := ref.(type) {
			case *ssa.Store:
				if _, ok := x.Addr.(*ssa.IndexAddr); ok && x.Val == ssa.Value(sl) {
					out = append(out, sl)
				}
			case *ssa.MapUpdate:
				if x.Value == ssa.Value(sl) {
					out = append(out, sl)
				}
			}
		}
	})
	return out
}

// fieldCopiesComplete (COPY-BY-FIELDS-COMPLETE): a struct value of a named module type that is built by copying two or
// more fields from ANOTHER value of the same type (x.f = y.f with the same field on both sides) is a derived copy, and a
// derived copy sets every field of the type: a field the rebuilt value forgets silently falls back to its zero value.
// Returns the number of derived copies found.
func fieldCopiesComplete(w *World, r *Report, rule string, why string, typeOK func(*types.Named) bool, prefixes ...string) int {
	n := 0
	for _, fn := range w.RepoFuncs(prefixes...) {
		type acc struct {
			named  *types.Named
			set    map[string]bool
			copied map[ssa.Value]int // source value -> number of same-named fields copied from it
			pos    token.Pos
		}
		byBase := map[ssa.Value]*acc{}
		var order []ssa.Value
		for _, fw := range fieldWrites(fn) {
			al, ok := fw.base.(*ssa.Alloc)
			if !ok || fw.owner == nil || fw.kind != "store" {
				continue
			}
			if _, isStruct := deref(al.Type()).Underlying().(*types.Struct); !isStruct || namedOf(al.Type()) != fw.owner || !typeOK(fw.owner) {
				continue
			}
			a := byBase[al]
			if a == nil {
				a = &acc{named: fw.owner, set: map[string]bool{}, copied: map[ssa.Value]int{}, pos: al.Pos()}
				byBase[al] = a
				order = append(order, al)
			}
			a.set[fw.field.Name()] = true
			if f, src := loadedField(fw.val); f != nil && sameField(f, fw.field) && src != ssa.Value(al) {
				a.copied[src]++
			}
		}
		for _, b := range order {
			a := byBase[b]
			best := 0
			for _, k := range a.copied {
				if k > best {
					best = k
				}
			}
			if best < 2 {
				continue
			}
			st := a.named.Underlying().(*types.Struct)
			var missing []string
			for i := 0; i < st.NumFields(); i++ {
				if !a.set[st.Field(i).Name()] {
					missing = append(missing, st.Field(i).Name())
				}
			}
			n++
			r.Check(len(missing) == 0, rule, fmt.Sprintf("%s: %s rebuilt field by field (%d copied)", w.fname(fn), a.named.Obj().Name(), best), a.pos, "every field of the type is set", "the copy forgets "+strings.Join(missing, ", ")+": "+why)
		}
	}
	return n
}

// dagSkipFlag: the bool field of dagChannel that reportSkip stores — found by what is done with it, so that a seed that
// renames it (to keep it out of the checkpoint) is reported by the rules about the flag instead of losing their anchor.
func dagSkipFlag(w *World) *types.Var {
	rs := w.Fn("compose", "dagChannel.reportSkip")
	dcT := w.Named("compose", "dagChannel")
	var out *types.Var
	instrs(rs, func(in ssa.Instruction) {
		st, ok := in.(*ssa.Store)
		if !ok {
			return
		}
		fa, ok := st.Addr.(*ssa.FieldAddr)
		if !ok || namedOf(deref(fa.X.Type())) != dcT {
			return
		}
		if b, isB := st.Val.Type().Underlying().(*types.Basic); isB && b.Kind() == types.Bool {
			out = fieldVarOfAddr(fa)
		}
	})
	if out == nil {
		undecidedf("anchor: dagChannel.reportSkip stores no bool field (the skip flag)")
	}
	return out
}
