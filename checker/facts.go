package main

import (
	"fmt"
	"go/constant"
	"go/token"
	"go/types"
	"strings"

	"golang.org/x/tools/go/ssa"
)

// ---------------------------------------------------------------------------------------------
// calls

func origin(fn *ssa.Function) *ssa.Function {
	if fn == nil {
		return nil
	}
	if o := fn.Origin(); o != nil {
		return o
	}
	return fn
}

// staticCallee returns the statically known callee of a call instruction (generic instantiations are
// mapped to their origin), or nil for dynamic calls. Closures created in place are resolved.
func staticCallee(c ssa.CallInstruction) *ssa.Function {
	com := c.Common()
	if com.IsInvoke() {
		return nil
	}
	switch v := com.Value.(type) {
	case *ssa.Function:
		return origin(v)
	case *ssa.MakeClosure:
		return origin(v.Fn.(*ssa.Function))
	}
	return nil
}

func isCallTo(in ssa.Instruction, targets ...*ssa.Function) bool {
	c, ok := in.(ssa.CallInstruction)
	if !ok {
		return false
	}
	sc := staticCallee(c)
	if sc == nil {
		return false
	}
	for _, t := range targets {
		if t != nil && sc == origin(t) {
			return true
		}
	}
	return false
}

// invokeName returns the method name for an interface-method call, "" otherwise.
func invokeName(in ssa.Instruction) string {
	c, ok := in.(ssa.CallInstruction)
	if !ok || !c.Common().IsInvoke() {
		return ""
	}
	return c.Common().Method.Name()
}

// calleeFullName returns e.g. "fmt.Errorf", "(*sync.Mutex).Lock", "errors.Is" for static callees.
func calleeFullName(in ssa.Instruction) string {
	c, ok := in.(ssa.CallInstruction)
	if !ok {
		return ""
	}
	if c.Common().IsInvoke() {
		m := c.Common().Method
		return "(" + types.TypeString(c.Common().Value.Type(), nil) + ")." + m.Name()
	}
	if b, ok := c.Common().Value.(*ssa.Builtin); ok {
		return "builtin." + b.Name()
	}
	sc := staticCallee(c)
	if sc == nil {
		return ""
	}
	return sc.String()
}

func isBuiltin(in ssa.Instruction, name string) bool {
	c, ok := in.(ssa.CallInstruction)
	if !ok {
		return false
	}
	b, ok := c.Common().Value.(*ssa.Builtin)
	return ok && b.Name() == name
}

// callsTo lists the call instructions in fn (not its closures) whose static callee is target.
func callsTo(fn *ssa.Function, targets ...*ssa.Function) []ssa.CallInstruction {
	var out []ssa.CallInstruction
	instrs(fn, func(in ssa.Instruction) {
		if isCallTo(in, targets...) {
			out = append(out, in.(ssa.CallInstruction))
		}
	})
	return out
}

// callsNamed lists calls whose full callee name equals one of names.
func callsNamed(fn *ssa.Function, names ...string) []ssa.CallInstruction {
	var out []ssa.CallInstruction
	instrs(fn, func(in ssa.Instruction) {
		n := calleeFullName(in)
		for _, x := range names {
			if n == x {
				out = append(out, in.(ssa.CallInstruction))
			}
		}
	})
	return out
}

// callers of fn across the module (static calls only), incl. closures.
func (w *World) staticCallers(target *ssa.Function) []ssa.CallInstruction {
	var out []ssa.CallInstruction
	for _, fn := range w.RepoFuncs() {
		out = append(out, callsTo(fn, target)...)
	}
	return out
}

// ---------------------------------------------------------------------------------------------
// path search

type pathQuery struct {
	fn        *ssa.Function
	from      ssa.Instruction // start right after this instruction; nil = function entry
	goal      func(ssa.Instruction) bool
	avoid     func(ssa.Instruction) bool
	avoidEdge func(from, to *ssa.BasicBlock) bool
}

// exists reports whether some CFG path from the start reaches a goal instruction without executing
// an avoided instruction / taking an avoided edge. The witness lists the blocks traversed.
func (q pathQuery) exists() (bool, string) {
	type item struct {
		b    *ssa.BasicBlock
		i    int
		prev *item
	}
	seen := map[*ssa.BasicBlock]bool{}
	var work []*item
	if q.from == nil {
		if len(q.fn.Blocks) == 0 {
			return false, ""
		}
		work = append(work, &item{b: q.fn.Blocks[0]})
		seen[q.fn.Blocks[0]] = true
	} else {
		b := q.from.Block()
		idx := -1
		for i, in := range b.Instrs {
			if in == q.from {
				idx = i
			}
		}
		if idx < 0 {
			undecidedf("pathQuery: start instruction not in its block")
		}
		work = append(work, &item{b: b, i: idx + 1})
	}
	for len(work) > 0 {
		it := work[len(work)-1]
		work = work[:len(work)-1]
		stopped := false
		for i := it.i; i < len(it.b.Instrs); i++ {
			in := it.b.Instrs[i]
			if q.goal != nil && q.goal(in) {
				var chain []string
				for p := it; p != nil; p = p.prev {
					chain = append([]string{fmt.Sprintf("b%d", p.b.Index)}, chain...)
				}
				return true, strings.Join(chain, ">") + fmt.Sprintf(" reaches %s", in.String())
			}
			if q.avoid != nil && q.avoid(in) {
				stopped = true
				break
			}
		}
		if stopped {
			continue
		}
		for _, s := range it.b.Succs {
			if q.avoidEdge != nil && q.avoidEdge(it.b, s) {
				continue
			}
			if !seen[s] {
				seen[s] = true
				work = append(work, &item{b: s, prev: it})
			}
		}
	}
	return false, ""
}

func isReturn(in ssa.Instruction) bool { _, ok := in.(*ssa.Return); return ok }
func isPanicI(in ssa.Instruction) bool { _, ok := in.(*ssa.Panic); return ok }

// instrDominates: a executes before b on every path reaching b.
func instrDominates(a, b ssa.Instruction) bool {
	if a.Block() == b.Block() {
		for _, in := range a.Block().Instrs {
			if in == a {
				return true
			}
			if in == b {
				return false
			}
		}
		return false
	}
	return a.Block().Dominates(b.Block())
}

// ---------------------------------------------------------------------------------------------
// values

func deref(t types.Type) types.Type {
	if p, ok := t.Underlying().(*types.Pointer); ok {
		return p.Elem()
	}
	return t
}

func namedOf(t types.Type) *types.Named {
	t = deref(t)
	n, _ := t.(*types.Named)
	if n != nil {
		return n.Origin()
	}
	return nil
}

// fieldVarOfAddr returns the struct field addressed by a FieldAddr.
func fieldVarOfAddr(fa *ssa.FieldAddr) *types.Var {
	st, ok := deref(fa.X.Type()).Underlying().(*types.Struct)
	if !ok {
		return nil
	}
	return st.Field(fa.Field)
}

func fieldVarOfField(f *ssa.Field) *types.Var {
	st, ok := f.X.Type().Underlying().(*types.Struct)
	if !ok {
		return nil
	}
	return st.Field(f.Field)
}

// sameField compares field objects modulo generic instantiation (by owner position+name).
func sameField(a, b *types.Var) bool {
	if a == nil || b == nil {
		return false
	}
	if a == b {
		return true
	}
	return a.Name() == b.Name() && a.Pos() == b.Pos() && a.Pos().IsValid()
}

// loadedField: if v is a load of a struct field (through pointer or by value) return the field and base.
func loadedField(v ssa.Value) (*types.Var, ssa.Value) {
	switch x := v.(type) {
	case *ssa.UnOp:
		if x.Op == token.MUL {
			if fa, ok := x.X.(*ssa.FieldAddr); ok {
				return fieldVarOfAddr(fa), fa.X
			}
		}
	case *ssa.Field:
		return fieldVarOfField(x), x.X
	}
	return nil, nil
}

func isLoadOfField(v ssa.Value, f *types.Var) bool {
	g, _ := loadedField(v)
	return sameField(g, f)
}

// through strips conversions that keep identity of the value.
func through(v ssa.Value) ssa.Value {
	for {
		switch x := v.(type) {
		case *ssa.ChangeType:
			v = x.X
		case *ssa.ChangeInterface:
			v = x.X
		case *ssa.MakeInterface:
			v = x.X
		case *ssa.Convert:
			v = x.X
		default:
			return v
		}
	}
}

func constInt(v ssa.Value) (int64, bool) {
	c, ok := v.(*ssa.Const)
	if !ok || c.Value == nil || c.Value.Kind() != constant.Int {
		return 0, false
	}
	return c.Int64(), true
}

func constBool(v ssa.Value) (bool, bool) {
	c, ok := v.(*ssa.Const)
	if !ok || c.Value == nil || c.Value.Kind() != constant.Bool {
		return false, false
	}
	return constant.BoolVal(c.Value), true
}

func constString(v ssa.Value) (string, bool) {
	c, ok := v.(*ssa.Const)
	if !ok || c.Value == nil || c.Value.Kind() != constant.String {
		return "", false
	}
	return constant.StringVal(c.Value), true
}

func isNilConst(v ssa.Value) bool {
	c, ok := v.(*ssa.Const)
	return ok && c.Value == nil
}

// localCell: v is the address of a local variable (Alloc) — heap or stack.
func localCell(v ssa.Value) *ssa.Alloc {
	a, _ := v.(*ssa.Alloc)
	return a
}

// storesTo lists Store instructions in fn (not closures) writing to the cell.
func storesToCell(fn *ssa.Function, cell ssa.Value) []*ssa.Store {
	var out []*ssa.Store
	instrs(fn, func(in ssa.Instruction) {
		if st, ok := in.(*ssa.Store); ok && st.Addr == cell {
			out = append(out, st)
		}
	})
	return out
}

// ---------------------------------------------------------------------------------------------
// field writes

type fieldWrite struct {
	fn    *ssa.Function
	in    ssa.Instruction
	field *types.Var
	owner *types.Named // struct type that declares the field (nil for anonymous structs)
	base  ssa.Value    // the pointer/struct whose field is written
	kind  string       // "store" | "mapupdate" | "elemstore" | "append-store"
	val   ssa.Value
}

// addrRootField walks an address expression down to the first struct field it passes through:
// &x.f, &x.f[i], &x.f[i].g ... returns the *outermost owner* field (x.f).
func addrFields(addr ssa.Value) []*ssa.FieldAddr {
	var out []*ssa.FieldAddr
	for depth := 0; depth < 30; depth++ {
		switch a := addr.(type) {
		case *ssa.FieldAddr:
			out = append(out, a)
			addr = a.X
		case *ssa.IndexAddr:
			addr = a.X
		case *ssa.UnOp:
			if a.Op != token.MUL {
				return out
			}
			addr = a.X
		default:
			return out
		}
	}
	return out
}

func ownerOfFieldAddr(fa *ssa.FieldAddr) *types.Named {
	return namedOf(fa.X.Type())
}

// fieldWrites lists every instruction in fn (not closures) that writes a struct field, an element
// of a slice/array/map held in a struct field, or stores through such an address.
func fieldWrites(fn *ssa.Function) []fieldWrite {
	var out []fieldWrite
	instrs(fn, func(in ssa.Instruction) {
		switch x := in.(type) {
		case *ssa.Store:
			switch a := x.Addr.(type) {
			case *ssa.FieldAddr:
				out = append(out, fieldWrite{fn, in, fieldVarOfAddr(a), ownerOfFieldAddr(a), a.X, "store", x.Val})
			case *ssa.IndexAddr:
				// element store: find the field holding the slice/array
				if f, base := loadedField(a.X); f != nil {
					out = append(out, fieldWrite{fn, in, f, namedOf(base.Type()), base, "elemstore", x.Val})
				} else if fa, ok := a.X.(*ssa.FieldAddr); ok { // array field
					out = append(out, fieldWrite{fn, in, fieldVarOfAddr(fa), ownerOfFieldAddr(fa), fa.X, "elemstore", x.Val})
				}
			}
		case *ssa.MapUpdate:
			if f, base := loadedField(x.Map); f != nil {
				out = append(out, fieldWrite{fn, in, f, namedOf(base.Type()), base, "mapupdate", x.Value})
			}
		}
	})
	return out
}

// ---------------------------------------------------------------------------------------------
// call graph reachability

// repoSuccessors: the repo functions control can pass to from fn by one call: static/dynamic callees
// (VTA) that belong to the module; for callees outside the module (stdlib, third party) the function
// values passed as arguments at that call site (callbacks such as sync.Once.Do, sort.Slice). Bodies of
// non-module functions are not traversed: VTA's type-based resolution inside fmt/sync/... would connect
// every func() literal of the program.
func (w *World) repoSuccessors(fn *ssa.Function, withAnons bool) []*ssa.Function {
	var out []*ssa.Function
	n := w.CG().Nodes[fn]
	if n != nil {
		for _, e := range n.Out {
			c := e.Callee.Func
			if w.inRepoOrMock(c) {
				out = append(out, c)
				continue
			}
			if e.Site == nil {
				continue
			}
			for _, a := range e.Site.Common().Args {
				if f := staticCalleeOfValue(a); f != nil && w.inRepoOrMock(f) {
					out = append(out, f)
				}
			}
		}
	}
	if withAnons {
		out = append(out, fn.AnonFuncs...)
	}
	return out
}

func (w *World) inRepoOrMock(fn *ssa.Function) bool {
	p := fnPkg(fn)
	return p != nil && strings.HasPrefix(p.Path(), modPath)
}

func (w *World) reach(withAnons bool, roots ...*ssa.Function) map[*ssa.Function]bool {
	reach := map[*ssa.Function]bool{}
	var work []*ssa.Function
	for _, r := range roots {
		if r != nil && !reach[r] {
			reach[r] = true
			work = append(work, r)
		}
	}
	for len(work) > 0 {
		f := work[len(work)-1]
		work = work[:len(work)-1]
		for _, c := range w.repoSuccessors(f, withAnons) {
			if !reach[c] {
				reach[c] = true
				work = append(work, c)
			}
		}
	}
	return reach
}

// reachableFrom: call-graph reachability inside the module; function literals created in a reachable
// function are conservatively included (they may be invoked through values the call graph misses).
func (w *World) reachableFrom(roots ...*ssa.Function) map[*ssa.Function]bool {
	return w.reach(true, roots...)
}

// chainTo returns a call chain (function names) from any root to target, for diagnostics.
func (w *World) chainTo(target *ssa.Function, roots ...*ssa.Function) string {
	prev := map[*ssa.Function]*ssa.Function{}
	var queue []*ssa.Function
	for _, r := range roots {
		if r != nil {
			prev[r] = nil
			queue = append(queue, r)
		}
	}
	for len(queue) > 0 {
		f := queue[0]
		queue = queue[1:]
		if f == target {
			var names []string
			for x := f; x != nil; x = prev[x] {
				names = append([]string{w.fname(x)}, names...)
			}
			return strings.Join(names, " -> ")
		}
		nexts := w.repoSuccessors(f, !w.strictChains)
		for _, c := range nexts {
			if _, ok := prev[c]; !ok {
				prev[c] = f
				queue = append(queue, c)
			}
		}
	}
	return "(no chain found)"
}

// ---------------------------------------------------------------------------------------------
// defers

// deferredFuncs returns the functions deferred in fn (static callee or literal), with the Defer instr.
func deferredFuncs(fn *ssa.Function) map[*ssa.Defer]*ssa.Function {
	out := map[*ssa.Defer]*ssa.Function{}
	instrs(fn, func(in ssa.Instruction) {
		if d, ok := in.(*ssa.Defer); ok {
			out[d] = staticCallee(d)
		}
	})
	return out
}

// funcContains reports whether fn (not its closures) contains an instruction satisfying p.
func funcContains(fn *ssa.Function, p func(ssa.Instruction) bool) bool {
	found := false
	instrs(fn, func(in ssa.Instruction) {
		if p(in) {
			found = true
		}
	})
	return found
}

// methodOn: call instruction is a static call of method `name` on (pointer to) named type pkg.typ.
func isMethodCall(in ssa.Instruction, pkgPath, typ, name string) bool {
	c, ok := in.(ssa.CallInstruction)
	if !ok {
		return false
	}
	sc := staticCallee(c)
	if sc == nil || sc.Signature.Recv() == nil || sc.Name() != name {
		return false
	}
	n := namedOf(sc.Signature.Recv().Type())
	if n == nil || n.Obj().Pkg() == nil {
		return false
	}
	return n.Obj().Name() == typ && n.Obj().Pkg().Path() == pkgPath
}

// recvArg returns the receiver argument of a static method call.
func recvArg(c ssa.CallInstruction) ssa.Value {
	com := c.Common()
	if com.IsInvoke() {
		return com.Value
	}
	if len(com.Args) > 0 {
		return com.Args[0]
	}
	return nil
}

// ---------------------------------------------------------------------------------------------
// guards: the branch conditions that must hold (with polarity) for an instruction to execute

type guard struct {
	cond ssa.Value
	pol  bool // true: cond must be true
	at   *ssa.If
}

// guardsOf walks the dominator tree from the block of `in` to the entry; every dominating `If` one of
// whose successors dominates the block (while the other does not) contributes a guard.
func guardsOf(b *ssa.BasicBlock) []guard {
	var out []guard
	for d := b.Idom(); d != nil; d = d.Idom() {
		iff, ok := d.Instrs[len(d.Instrs)-1].(*ssa.If)
		if !ok {
			continue
		}
		t, f := d.Succs[0], d.Succs[1]
		td := (t == b || t.Dominates(b)) && len(t.Preds) == 1
		fd := (f == b || f.Dominates(b)) && len(f.Preds) == 1
		if td && !fd {
			out = append(out, guard{iff.Cond, true, iff})
		} else if fd && !td {
			out = append(out, guard{iff.Cond, false, iff})
		}
	}
	return out
}

// cmp decomposes a comparison value.
func asCmp(v ssa.Value) (op token.Token, x, y ssa.Value, ok bool) {
	b, isB := v.(*ssa.BinOp)
	if !isB {
		return 0, nil, nil, false
	}
	switch b.Op {
	case token.EQL, token.NEQ, token.LSS, token.LEQ, token.GTR, token.GEQ:
		return b.Op, b.X, b.Y, true
	}
	return 0, nil, nil, false
}

// isLenOf: v == len(x) where pred(x)
func isLenOf(v ssa.Value, pred func(ssa.Value) bool) bool {
	c, ok := v.(*ssa.Call)
	if !ok || !isBuiltin(c, "len") {
		return false
	}
	return pred(c.Call.Args[0])
}

// hasGuard reports whether some guard of block b satisfies pred.
func hasGuard(b *ssa.BasicBlock, pred func(g guard) bool) bool {
	for _, g := range guardsOf(b) {
		if pred(g) {
			return true
		}
	}
	return false
}

// nilCheckGuard: guard equivalent to "v != nil" (pol true on NEQ, pol false on EQL) for value matching pred.
func guardNonNil(g guard, pred func(ssa.Value) bool) bool {
	op, x, y, ok := asCmp(g.cond)
	if !ok {
		return false
	}
	var v ssa.Value
	if isNilConst(y) {
		v = x
	} else if isNilConst(x) {
		v = y
	} else {
		return false
	}
	if !pred(v) {
		return false
	}
	return (op == token.NEQ && g.pol) || (op == token.EQL && !g.pol)
}

func guardIsNil(g guard, pred func(ssa.Value) bool) bool {
	op, x, y, ok := asCmp(g.cond)
	if !ok {
		return false
	}
	var v ssa.Value
	if isNilConst(y) {
		v = x
	} else if isNilConst(x) {
		v = y
	} else {
		return false
	}
	if !pred(v) {
		return false
	}
	return (op == token.EQL && g.pol) || (op == token.NEQ && !g.pol)
}

// strictReach: functions reachable through call edges only (closures are included only if some call
// edge targets them).
func (w *World) strictReach(roots ...*ssa.Function) map[*ssa.Function]bool {
	return w.reach(false, roots...)
}

// returnedValue: the value returned in result position idx; for functions with named results and
// defers (results spilled to cells) the value last stored to the result cell in the return's block.
func returnedValue(ret *ssa.Return, idx int) ssa.Value {
	v := ret.Results[idx]
	u, ok := v.(*ssa.UnOp)
	if !ok || u.Op != token.MUL {
		return v
	}
	cell, ok := u.X.(*ssa.Alloc)
	if !ok {
		return v
	}
	var last ssa.Value
	for _, in := range ret.Block().Instrs {
		if in == ssa.Instruction(ret) {
			break
		}
		if st, ok := in.(*ssa.Store); ok && st.Addr == ssa.Value(cell) {
			last = st.Val
		}
	}
	if last != nil {
		return last
	}
	return v
}

// ---------------------------------------------------------------------------------------------
// GATE-EXACT: the conditions under which a block executes are exactly the expected ones. A conjunct
// added to a gate (`if flag && somethingElse`) shows up as one more dominating guard; a rule states
// which guards it expects (semantic predicates) and every other guard is reported with its text.

func valText(v ssa.Value) string { return valTextD(v, 0) }

func valTextD(v ssa.Value, d int) string {
	if d > 5 || v == nil {
		return "…"
	}
	switch x := v.(type) {
	case *ssa.Const:
		if x.Value == nil {
			return "nil"
		}
		return x.Value.String()
	case *ssa.Parameter:
		return x.Name()
	case *ssa.FreeVar:
		return x.Name()
	case *ssa.Global:
		return x.Name()
	case *ssa.Alloc:
		if x.Comment != "" {
			return x.Comment
		}
		return x.Name()
	case *ssa.UnOp:
		switch x.Op {
		case token.MUL:
			return valTextD(x.X, d+1)
		case token.NOT:
			return "!" + valTextD(x.X, d+1)
		case token.ARROW:
			return "<-" + valTextD(x.X, d+1)
		}
		return x.Op.String() + valTextD(x.X, d+1)
	case *ssa.FieldAddr:
		if f := fieldVarOfAddr(x); f != nil {
			return valTextD(x.X, d+1) + "." + f.Name()
		}
	case *ssa.Field:
		if f := fieldVarOfField(x); f != nil {
			return valTextD(x.X, d+1) + "." + f.Name()
		}
	case *ssa.IndexAddr:
		return valTextD(x.X, d+1) + "[" + valTextD(x.Index, d+1) + "]"
	case *ssa.Index:
		return valTextD(x.X, d+1) + "[" + valTextD(x.Index, d+1) + "]"
	case *ssa.Lookup:
		return valTextD(x.X, d+1) + "[" + valTextD(x.Index, d+1) + "]"
	case *ssa.BinOp:
		return valTextD(x.X, d+1) + " " + x.Op.String() + " " + valTextD(x.Y, d+1)
	case *ssa.Extract:
		if _, isNext := x.Tuple.(*ssa.Next); isNext {
			return [...]string{"range-ok", "range-key", "range-value"}[x.Index%3]
		}
		return valTextD(x.Tuple, d+1) + fmt.Sprintf("#%d", x.Index)
	case *ssa.MakeSlice:
		return "make(" + x.Type().String() + ", " + valTextD(x.Len, d+1) + ")"
	case *ssa.Call:
		name := calleeFullName(x)
		if b, ok := x.Call.Value.(*ssa.Builtin); ok {
			name = b.Name()
		}
		var as []string
		for _, a := range x.Call.Args {
			as = append(as, valTextD(a, d+2))
		}
		return name + "(" + strings.Join(as, ", ") + ")"
	case *ssa.MakeInterface:
		return valTextD(x.X, d+1)
	case *ssa.ChangeType:
		return valTextD(x.X, d+1)
	case *ssa.Convert:
		return valTextD(x.X, d+1)
	case *ssa.TypeAssert:
		return valTextD(x.X, d+1) + ".(" + x.AssertedType.String() + ")"
	case *ssa.Phi:
		if x.Comment != "" {
			return x.Comment
		}
	}
	return v.Name()
}

func guardText(g guard) string {
	if g.pol {
		return valText(g.cond)
	}
	return "!(" + valText(g.cond) + ")"
}

// extraGuards lists the guards of b accepted by none of the predicates. Besides the single dominating tests it looks at
// short-circuit chains: a block on b's dominator chain that is entered only over the same-polarity edges of a chain of
// Ifs (`if a && b { continue }` leaves over the false edges of a and of b) is guarded by the negated conjunction; each
// conjunct is offered to the predicates, an unaccepted one is reported as a compound guard.
func extraGuards(b *ssa.BasicBlock, allowed ...func(guard) bool) []string {
	var out []string
next:
	for _, g := range guardsOf(b) {
		for _, a := range allowed {
			if a(g) {
				continue next
			}
		}
		out = append(out, guardText(g))
	}
	for d := b; d != nil; d = d.Idom() {
		for _, cg := range compoundEntryGuards(d) {
			ok := false
			for _, a := range allowed {
				if a(cg) {
					ok = true
				}
			}
			if !ok {
				out = append(out, "part of a compound test: "+guardText(cg))
			}
		}
	}
	return out
}

// compoundEntryGuards: d has several predecessors, each ending in an If, that form one short-circuit chain (p1 -> p2 ->
// … each pi having pi-1 as its only predecessor) and all reach d over the edge of the same polarity. Returns one guard
// per conjunct (with the polarity of the edge taken); nil when d is not such a merge.
func compoundEntryGuards(d *ssa.BasicBlock) []guard {
	if len(d.Preds) < 2 {
		return nil
	}
	var gs []guard
	pol := -1
	inChain := map[*ssa.BasicBlock]bool{}
	for _, p := range d.Preds {
		inChain[p] = true
	}
	heads := 0
	for _, p := range d.Preds {
		if len(p.Instrs) == 0 {
			return nil
		}
		iff, ok := p.Instrs[len(p.Instrs)-1].(*ssa.If)
		if !ok {
			return nil
		}
		var edge int
		switch d {
		case p.Succs[0]:
			edge = 1
		case p.Succs[1]:
			edge = 0
		default:
			return nil
		}
		if pol == -1 {
			pol = edge
		} else if pol != edge {
			return nil
		}
		// chain link: the block's only predecessor is another member, except for the head
		if len(p.Preds) == 1 && inChain[p.Preds[0]] {
			// fine
		} else {
			heads++
		}
		gs = append(gs, guard{iff.Cond, edge == 1, iff})
	}
	if heads != 1 {
		return nil
	}
	return gs
}

// guardOnField: the guard compares (any operator) a load of field f with something.
func guardOnField(f *types.Var) func(guard) bool {
	return func(g guard) bool {
		_, x, y, ok := asCmp(g.cond)
		if ok {
			return isLoadOfField(x, f) || isLoadOfField(y, f)
		}
		return isLoadOfField(g.cond, f)
	}
}

// guardErrNil: "some error value == nil" holds (the success side of an error check).
func guardErrNil(g guard) bool {
	return guardIsNil(g, func(v ssa.Value) bool { return types.Identical(v.Type(), types.Universe.Lookup("error").Type()) })
}
func guardErrNonNil(g guard) bool {
	return guardNonNil(g, func(v ssa.Value) bool { return types.Identical(v.Type(), types.Universe.Lookup("error").Type()) })
}

// loadFieldPath: for a value `*(&(&root.f1).f2…)` returns the root address value and the field names walked.
func loadFieldPath(v ssa.Value) (ssa.Value, []string) {
	ld, ok := v.(*ssa.UnOp)
	if !ok || ld.Op != token.MUL {
		return nil, nil
	}
	var path []string
	cur := ld.X
	for {
		fa, ok := cur.(*ssa.FieldAddr)
		if !ok {
			break
		}
		path = append([]string{fieldVarOfAddr(fa).Name()}, path...)
		cur = fa.X
	}
	if len(path) == 0 {
		return nil, nil
	}
	return cur, path
}

// callsToName: the call instructions in fn whose callee's full name is name (e.g. "reflect.MakeSlice").
func callsToName(fn *ssa.Function, name string) []ssa.CallInstruction {
	var out []ssa.CallInstruction
	instrs(fn, func(in ssa.Instruction) {
		if c, ok := in.(ssa.CallInstruction); ok && calleeFullName(in) == name {
			out = append(out, c)
		}
	})
	return out
}
