package main

import (
	"fmt"
	"go/token"
	"go/types"
	"strings"

	"golang.org/x/tools/go/ssa"
)

func init() {
	register(&propDef{
		id: "C17",
		explanation: "Static clauses of 'ToolsNode answers every tool call, in call order, whatever the completion order': " +
			"(index-preserved) task i is built from tool call i; Invoke's output[i] and Stream's converted reader i are built from task i (result, call id) and the result lists have length len(tasks); " +
			"the stream converter of call i is total: every chunk, an empty one included, becomes a frame carrying call i's ToolMessage (no skipped chunk, no error); " +
			"(loopvar) no function literal that outlives its iteration captures a loop variable, and no address of a loop variable (or of one of its fields) is stored, captured, sent or passed to a callee that keeps it — interprocedural over module functions (the module is built with pre-1.22 loop semantics); " +
			"(err-before-use) every read of a task's output is dominated by the err == nil arm of the check of that same task; " +
			"(parallel-protocol) each worker is counted with wg.Add before it is spawned, registers wg.Done BEFORE its recover handler (so the panic is recorded before the waiter is released), records the panic in the task, gets a pointer to its own task and the caller's context; wg.Wait lies between the spawns and every return; " +
			"(unknown-tool) an unknown tool name is an error unless a handler is configured, in which case the handler task is used; " +
			"(siblings) Invoke and Stream perform the same steps with their respective runner.",
		decided:    []string{"index-preserved (incl. converter totality)", "loopvar (captures and escaping addresses)", "err-before-use", "parallel-protocol", "unknown-tool", "siblings", "eof-identity", "inline-after-spawn", "visits-all"},
		notDecided: []string{"run-time completion-order independence beyond the structural facts", "behaviour of tools", "position-wise concatenation of the streamed sparse lists (C14 covers concatMessageArray structurally)"},
		run:        runC17,
	})
}

// loopVarCaptures: MakeClosure instructions whose binding is a cell that lives across iterations of the
// loop the closure is created in (allocated outside the cycle, stored to inside it).
func loopVarCaptures(fn *ssa.Function) []string {
	var out []string
	instrs(fn, func(in ssa.Instruction) {
		mc, ok := in.(*ssa.MakeClosure)
		if !ok {
			return
		}
		cb := mc.Block()
		for i, b := range mc.Bindings {
			cell, ok := b.(*ssa.Alloc)
			if !ok {
				continue
			}
			// is the closure's block in a cycle?
			inCycle := blockReaches(cb, cb)
			if !inCycle {
				continue
			}
			// cell allocated outside the cycle?
			if blockReaches(cb, cell.Block()) && blockReaches(cell.Block(), cb) {
				continue // allocated per iteration
			}
			// stored to inside the cycle (the loop's post statement / body)?
			for _, ref := range *cell.Referrers() {
				st, ok := ref.(*ssa.Store)
				if !ok || st.Addr != ssa.Value(cell) {
					continue
				}
				sb := st.Block()
				if blockReaches(cb, sb) && blockReaches(sb, cb) {
					out = append(out, fmt.Sprintf("%s captures %s", mc.Fn.Name(), mc.Fn.(*ssa.Function).FreeVars[i].Name()))
					break
				}
			}
		}
	})
	return out
}

func blockReaches(from, to *ssa.BasicBlock) bool {
	seen := map[*ssa.BasicBlock]bool{}
	work := append([]*ssa.BasicBlock{}, from.Succs...)
	for len(work) > 0 {
		b := work[len(work)-1]
		work = work[:len(work)-1]
		if b == to {
			return true
		}
		if seen[b] {
			continue
		}
		seen[b] = true
		work = append(work, b.Succs...)
	}
	return false
}

// indexOfElemLoad: if v is (a field load of) base[idx] return idx.
func elemIndex(v ssa.Value, baseIs func(ssa.Value) bool) ssa.Value {
	for d := 0; d < 6; d++ {
		switch x := v.(type) {
		case *ssa.UnOp:
			v = x.X
		case *ssa.FieldAddr:
			v = x.X
		case *ssa.IndexAddr:
			if baseIs(x.X) {
				return x.Index
			}
			return nil
		default:
			return nil
		}
	}
	return nil
}

func runC17(w *World, r *Report) {
	// ---- shared: a streamable-only tool's mid-stream failure is not taken for the end of its stream
	r.Rule("C17.eof-identity", "the drains used by the tools node recognise end-of-stream by identity with io.EOF (shared with C13 / C04)", 1)
	eofIdentityCheck(w, r, "C17.eof-identity", "compose")
	// ---- the inline call runs while its siblings run
	r.Rule("C17.stream-errors-forwarded", "the forwarding goroutines behind the merge of the per-tool streams pass every item on, error items included, and stop only at io.EOF or a closed receiver (shared with C08.forwarder-protocol): a tool failing inside its stream fails the streamed call as it fails Invoke", 6)
	forwarderChecks(w, r, "C17.stream-errors-forwarded")
	r.Rule("C17.tools-not-rebound", "nothing on the tools node's run path writes a field of the node or of another compiled object: the tool list of a WithToolList call option is this call's, the node keeps the tools it was built with (shared with C09.read-only-at-runtime)", 0)
	{
		roots := []*ssa.Function{w.Fn("compose", "ToolsNode.Invoke"), w.Fn("compose", "ToolsNode.Stream")}
		ruleReadOnlyAtRuntime(w, r, "C17.tools-not-rebound", w.reachableFrom(roots...), compiledTypeSet(w), roots)
	}
	// the dispatch table: the position recorded for a tool name is the position its executor is stored at
	r.Rule("C17.tool-index-consistent", "convTools records for every tool name the very index under which it stores the tool's meta and runnable (or len(slice) taken right before an append)", 1)
	{
		ct := w.Fn("compose", "convTools")
		fIdx := w.Field("compose", "toolsTuple", "indexes")
		var idxVal ssa.Value
		var at ssa.Instruction
		instrs(ct, func(in ssa.Instruction) {
			if mu, ok := in.(*ssa.MapUpdate); ok && isLoadOfField(mu.Map, fIdx) {
				idxVal, at = mu.Value, in
			}
		})
		good, det := idxVal != nil, "no store into toolsTuple.indexes found"
		if good {
			for _, fname := range []string{"meta", "rps"} {
				f := w.Field("compose", "toolsTuple", fname)
				okF := false
				instrs(ct, func(in ssa.Instruction) {
					st, ok := in.(*ssa.Store)
					if !ok {
						return
					}
					if ia, ok := st.Addr.(*ssa.IndexAddr); ok && isLoadOfField(ia.X, f) && ia.Index == idxVal {
						okF = true
					}
				})
				// append form: the recorded index is len(field) evaluated before the append
				if !okF && isLenOf(idxVal, func(v ssa.Value) bool { return isLoadOfField(v, f) }) {
					for _, fw := range fieldWrites(ct) {
						if sameField(fw.field, f) && fw.kind == "append-store" && instrDominates(idxVal.(ssa.Instruction), fw.in) {
							okF = true
						}
					}
				}
				if !okF {
					good, det = false, "toolsTuple."+fname+" is not stored at the recorded index"
				}
			}
		}
		pos := ct.Pos()
		if at != nil {
			pos = at.Pos()
		}
		r.Check(good, "C17.tool-index-consistent", "convTools: indexes[name] is where meta / rps of that tool are stored", pos, "one index value for the name table and both slices", det+": the name table points one slot off for every tool listed after a skipped entry — a call is answered by the NEXT tool in the list under the right call id (Invoke and Stream), a call to the last tool panics with index out of range")
	}
	r.Rule("C17.inline-after-spawn", "parallelRunToolCall spawns every sibling before it runs the first call inline (no call may have to wait for call 0)", 1)
	{
		prtc := w.Fn("compose", "parallelRunToolCall")
		var inline []ssa.Instruction
		var spawns []ssa.Instruction
		instrs(prtc, func(in ssa.Instruction) {
			switch x := in.(type) {
			case *ssa.Go:
				spawns = append(spawns, x)
			case *ssa.Call:
				// the dynamic call of the `run` parameter on the caller's goroutine, when there are siblings
				if x.Call.IsInvoke() {
					return
				}
				isParam := false
				if _, ok := x.Call.Value.(*ssa.Parameter); ok {
					isParam = true
				}
				if u, ok := x.Call.Value.(*ssa.UnOp); ok {
					if al, ok := u.X.(*ssa.Alloc); ok {
						for _, ref := range *al.Referrers() {
							if st, ok := ref.(*ssa.Store); ok && st.Addr == ssa.Value(al) {
								if _, ok := st.Val.(*ssa.Parameter); ok {
									isParam = true
								}
							}
						}
					}
				}
				if isParam {
					inline = append(inline, x)
				}
			}
		})
		if len(spawns) == 0 || len(inline) == 0 {
			undecidedf("C17.inline-after-spawn: spawn / inline call of parallelRunToolCall not found")
		}
		for i, c := range inline {
			late, _ := pathQuery{fn: prtc, from: c, goal: func(in ssa.Instruction) bool { _, ok := in.(*ssa.Go); return ok }}.exists()
			r.Check(!late, "C17.inline-after-spawn", fmt.Sprintf("parallelRunToolCall: inline call #%d is not followed by a spawn", i+1), c.Pos(), "all goroutines are started before the inline call", "a sibling call is only started after the inline first call has finished: tool calls that wait for each other's progress dead-lock (until a context deadline), and no call can finish before call 0")
		}
	}

	// ---- visits-all: every tool call gets a task, a run and an answer
	r.Rule("C17.visits-all", "the loops over tool calls / tasks in the tools node are left only when exhausted or with an error", 5)
	ruleLoopsTotal(w, r, "C17.visits-all", []*ssa.Function{
		w.Fn("compose", "ToolsNode.genToolCallTasks"), w.Fn("compose", "parallelRunToolCall"), w.Fn("compose", "ToolsNode.Invoke"), w.Fn("compose", "ToolsNode.Stream"),
		w.Fn("compose", "convTools"),
	}, map[string]string{}, "a tool call of the message is not executed or not answered")

	invoke := w.Fn("compose", "ToolsNode.Invoke")
	stream := w.Fn("compose", "ToolsNode.Stream")
	gen := w.Fn("compose", "ToolsNode.genToolCallTasks")
	prt := w.Fn("compose", "parallelRunToolCall")
	taskT := w.Named("compose", "toolCallTask")
	fErr := w.Field("compose", "toolCallTask", "err")
	fOut := w.Field("compose", "toolCallTask", "output")
	fSOut := w.Field("compose", "toolCallTask", "sOutput")
	fCallID := w.Field("compose", "toolCallTask", "callID")
	fToolCalls := w.Field("schema", "Message", "ToolCalls")
	toolMsg := w.Fn("schema", "ToolMessage")

	tasksOf := func(fn *ssa.Function) ssa.Value {
		for _, c := range callsTo(fn, gen) {
			if e := extractOf(c, 0); e != nil {
				return e
			}
		}
		// through a method of the node that returns what genToolCallTasks returned (a shared "first half" helper)
		var viaHelper ssa.Value
		instrs(fn, func(in ssa.Instruction) {
			c, ok := in.(ssa.CallInstruction)
			if !ok || viaHelper != nil {
				return
			}
			sc := staticCallee(c)
			if sc == nil || !w.inRepo(sc) || len(callsTo(sc, gen)) == 0 {
				return
			}
			forwards := false
			instrs(sc, func(x ssa.Instruction) {
				ret, ok := x.(*ssa.Return)
				if !ok || len(ret.Results) == 0 {
					return
				}
				for _, gc := range callsTo(sc, gen) {
					gv := gc.(ssa.Value)
					if ret.Results[0] == gv || ret.Results[0] == ssa.Value(extractOf(gc, 0)) {
						forwards = true
					}
					if e, ok := ret.Results[0].(*ssa.Extract); ok && e.Tuple == gv && e.Index == 0 {
						forwards = true
					}
				}
			})
			if forwards {
				if e := extractOf(c, 0); e != nil {
					viaHelper = e
				}
			}
		})
		if viaHelper != nil {
			return viaHelper
		}
		undecidedf("C17: %s does not call genToolCallTasks", fn.Name())
		return nil
	}

	// ---- index-preserved
	r.Rule("C17.call-as-given", "a tool is run on the name, the arguments and the call id exactly as they stand in the tool call: genToolCallTasks' local copy of the call is written once (the whole element) and task.name / arg / callID (and newUnknownToolTask's arguments) are direct loads of Function.Name / Function.Arguments / ID of that copy; the runners hand task.arg itself to the tool", 6)
	{
		tcT := w.Named("schema", "ToolCall")
		var cell *ssa.Alloc
		instrs(gen, func(in ssa.Instruction) {
			if al, ok := in.(*ssa.Alloc); ok && namedOf(al.Type().(*types.Pointer).Elem()) == tcT {
				cell = al
			}
		})
		if cell == nil {
			undecidedf("C17.call-as-given: genToolCallTasks has no local schema.ToolCall copy")
		}
		// (1) written once, as a whole, from input.ToolCalls[i]
		nWhole := 0
		instrs(gen, func(in ssa.Instruction) {
			st, ok := in.(*ssa.Store)
			if !ok {
				return
			}
			if st.Addr == ssa.Value(cell) {
				nWhole++
				ld, ok := st.Val.(*ssa.UnOp)
				okSrc := false
				if ok {
					if ia, ok := ld.X.(*ssa.IndexAddr); ok && isLoadOfField(ia.X, fToolCalls) {
						okSrc = true
					}
				}
				r.Check(okSrc, "C17.call-as-given", "genToolCallTasks: the local call is a copy of input.ToolCalls[i]", st.Pos(), "whole-element copy", "the local tool call is filled from something else than the i-th call of the message")
				return
			}
			root := st.Addr
			for {
				fa, ok := root.(*ssa.FieldAddr)
				if !ok {
					break
				}
				root = fa.X
			}
			if root == ssa.Value(cell) && st.Addr != ssa.Value(cell) {
				r.Fail("C17.call-as-given", "genToolCallTasks rewrites a field of the tool call before running it", st.Pos(), "the name / arguments / id the tool is run with are no longer the call's (e.g. empty arguments 'normalised' to {}): the i-th message carries the tool's answer to different arguments, and a tool that would have failed on the given arguments succeeds")
			}
		})
		if nWhole != 1 {
			undecidedf("C17.call-as-given: %d whole stores into the local tool call", nWhole)
		}
		// (2) the task fields / unknown-tool arguments are direct loads of the copy
		want := map[string]string{"name": "Function.Name", "arg": "Function.Arguments", "callID": "ID"}
		direct := func(v ssa.Value, path string) bool {
			root, p := loadFieldPath(v)
			return root == ssa.Value(cell) && strings.Join(p, ".") == path
		}
		seenF := map[string]bool{}
		for _, fw := range fieldWrites(gen) {
			if fw.owner != taskT || want[fw.field.Name()] == "" {
				continue
			}
			seenF[fw.field.Name()] = true
			r.Check(direct(fw.val, want[fw.field.Name()]), "C17.call-as-given", "genToolCallTasks: task."+fw.field.Name()+" = toolCall."+want[fw.field.Name()], fw.in.Pos(), "direct load of the call's field", "task."+fw.field.Name()+" is not the call's "+want[fw.field.Name()]+" as given (trimmed, defaulted, re-encoded or taken from another field)")
		}
		for f := range want {
			if !seenF[f] {
				undecidedf("C17.call-as-given: genToolCallTasks never stores task.%s", f)
			}
		}
		unk := w.Fn("compose", "newUnknownToolTask")
		for _, c := range callsTo(gen, unk) {
			args := c.Common().Args
			for i, pth := range []string{"Function.Name", "Function.Arguments", "ID"} {
				if i >= len(args) {
					r.Fail("C17.call-as-given", fmt.Sprintf("genToolCallTasks: newUnknownToolTask argument %d = toolCall.%s", i, pth), c.Pos(), "newUnknownToolTask is no longer handed the call's "+pth)
					continue
				}
				r.Check(direct(args[i], pth), "C17.call-as-given", fmt.Sprintf("genToolCallTasks: newUnknownToolTask argument %d = toolCall.%s", i, pth), c.Pos(), "direct load of the call's field", "the unknown-tool handler is not given the call's "+pth+" as it stands")
			}
		}
		// newUnknownToolTask keeps its parameters
		for _, fw := range fieldWrites(unk) {
			if fw.owner != taskT || want[fw.field.Name()] == "" {
				continue
			}
			p, ok := fw.val.(*ssa.Parameter)
			if ld, isLd := fw.val.(*ssa.UnOp); !ok && isLd {
				// a parameter captured by the handler closure lives in a cell: the cell's only store is the parameter
				if al, isAl := ld.X.(*ssa.Alloc); isAl {
					n := 0
					for _, ref := range *al.Referrers() {
						if st, isSt := ref.(*ssa.Store); isSt && st.Addr == ssa.Value(al) {
							n++
							p, ok = st.Val.(*ssa.Parameter)
						}
					}
					ok = ok && n == 1
				}
			}
			r.Check(ok && p.Name() == fw.field.Name(), "C17.call-as-given", "newUnknownToolTask: task."+fw.field.Name()+" = parameter "+fw.field.Name(), fw.in.Pos(), "parameter stored unchanged", "the unknown-tool task's "+fw.field.Name()+" is not the parameter it was given")
		}
		// (3) the runners pass task.arg itself
		fArg := w.Field("compose", "toolCallTask", "arg")
		for _, rn := range []*ssa.Function{w.Fn("compose", "runToolCallTaskByInvoke"), w.Fn("compose", "runToolCallTaskByStream")} {
			n := 0
			instrs(rn, func(in ssa.Instruction) {
				c, ok := in.(*ssa.Call)
				if !ok {
					return
				}
				sc := staticCallee(c)
				if sc == nil || !(origin(sc).Name() == "Invoke" || origin(sc).Name() == "Stream") || len(c.Call.Args) < 3 {
					return
				}
				n++
				a := c.Call.Args[2]
				f, base := loadedField(a)
				r.Check(f != nil && sameField(f, fArg) && paramRoot(base, 0) != nil, "C17.call-as-given", w.fname(rn)+": the tool is called on task.arg", c.Pos(), "argument is a load of task.arg", "the tool is not handed the task's argument string itself")
			})
			if n == 0 {
				undecidedf("C17.call-as-given: %s: no Invoke/Stream call on the task's runnable", rn.Name())
			}
		}
	}

	r.Rule("C17.streamed-output-as-is", "the message of a streamable-only tool called through Invoke is the concatenation of the tool's chunks as they came: the string concat function of the chunk registry (and the rest of the concat closure) appends pieces without rewriting them (shared with C14.accumulate-only)", 1)
	{
		n := 0
		for _, f := range concatClosure(w) {
			n += piecesAsTheyCame(w, r, "C17.streamed-output-as-is", f, n)
		}
		if n == 0 {
			r.Deferred = append(r.Deferred, fmt.Sprintf("C17.streamed-output-as-is: no strings.Builder.WriteString in the concat closure"))
		}
	}

	r.Rule("C17.tool-streams-merge", "the merge of the per-call result streams dispatches consistently for every number of calls (static select table up to its size, reflect select above it): exactly five calls behave like four and six (shared with C01 / C04 / C08 / C18)", 1)
	mergeDispatchCheck(w, r, "C17.tool-streams-merge")

	r.Rule("C17.positions-do-not-share-room", "in the concat closure (the per-position lists of concatMessageArray included) no container is filled, in a loop, with two-index windows of one slab: the list of position i grows by append, and with open capacity its second element lands in position i+1's slot — message i+1 carries a chunk of call i, or the concatenation fails with 'different toolCallIDs' (shared with C14)", 0)
	{
		n := 0
		for _, f := range concatClosure(w) {
			for _, sl := range openWindowsStored(f) {
				n++
				r.Fail("C17.positions-do-not-share-room", fmt.Sprintf("%s stores an open-capacity window of a slab", w.fname(f)), sl.Pos(), "slab[a:b] without a capacity bound is stored per position: appends to one position's list overwrite the next position's first element — the streamed frames of a tools node with two calls, the first answering in two chunks, no longer concatenate to the list Invoke returns")
			}
		}
		if n == 0 {
			r.OK("C17.positions-do-not-share-room", "concat closure", token.NoPos, "no open-capacity windows of a shared slab")
		}
	}

	r.Rule("C17.index-preserved", "task i <- tool call i; result i <- task i; result lists sized len(tasks)", 3)
	{
		// genToolCallTasks: every store into toolCallTasks[i].<field> uses the index of the input.ToolCalls[i] load
		var mk *ssa.MakeSlice
		instrs(gen, func(in ssa.Instruction) {
			if m, ok := in.(*ssa.MakeSlice); ok && namedOf(m.Type().Underlying().(*types.Slice).Elem()) == taskT {
				mk = m
			}
		})
		var tcIdx ssa.Value
		instrs(gen, func(in ssa.Instruction) {
			if ia, ok := in.(*ssa.IndexAddr); ok && isLoadOfField(ia.X, fToolCalls) {
				tcIdx = ia.Index
			}
		})
		good := mk != nil && tcIdx != nil
		nst := 0
		if good {
			instrs(gen, func(in ssa.Instruction) {
				ia, ok := in.(*ssa.IndexAddr)
				if !ok || ia.X != ssa.Value(mk) {
					return
				}
				nst++
				if ia.Index != tcIdx {
					good = false
				}
			})
			// size = len(input.ToolCalls)
			if !isLenOf(mk.Len, func(v ssa.Value) bool { return isLoadOfField(v, fToolCalls) }) {
				good = false
			}
		}
		r.Check(good && nst >= 2, "C17.index-preserved", "genToolCallTasks: task i is built from tool call i", gen.Pos(), fmt.Sprintf("%d element accesses, all indexed by the tool-call loop index; len = len(ToolCalls)", nst), "a task slot is filled from a different tool call (or the task list has another length than the call list)")
	}
	{
		tasks := tasksOf(invoke)
		isTasks := func(v ssa.Value) bool { return v == tasks }
		var outMk *ssa.MakeSlice
		instrs(invoke, func(in ssa.Instruction) {
			if m, ok := in.(*ssa.MakeSlice); ok {
				outMk = m
			}
		})
		good := outMk != nil && isLenOf(outMk.Len, isTasks)
		nOut := 0
		instrs(invoke, func(in ssa.Instruction) {
			st, ok := in.(*ssa.Store)
			if !ok {
				return
			}
			ia, ok := st.Addr.(*ssa.IndexAddr)
			if !ok || outMk == nil || ia.X != ssa.Value(outMk) {
				return
			}
			nOut++
			c, ok := st.Val.(*ssa.Call)
			if !ok || !isCallTo(c, toolMsg) {
				good = false
				return
			}
			i0 := elemIndex(c.Call.Args[0], isTasks)
			i1 := elemIndex(c.Call.Args[1], isTasks)
			f0, _ := loadedField(c.Call.Args[0])
			f1, _ := loadedField(c.Call.Args[1])
			if i0 != ia.Index || i1 != ia.Index || !sameField(f0, fOut) || !sameField(f1, fCallID) {
				good = false
			}
		})
		r.Check(good && nOut == 1, "C17.index-preserved", "Invoke: output[i] = ToolMessage(tasks[i].output, tasks[i].callID)", invoke.Pos(), "same index on both sides; len(output) = len(tasks)", "the i-th answer is not built from the i-th task (id/output of different calls are paired, or the list has another length)")
	}
	{
		tasks := tasksOf(stream)
		isTasks := func(v ssa.Value) bool { return v == tasks }
		swc := w.Fn("schema", "StreamReaderWithConvert")
		var outMk *ssa.MakeSlice
		instrs(stream, func(in ssa.Instruction) {
			if m, ok := in.(*ssa.MakeSlice); ok {
				outMk = m
			}
		})
		good := outMk != nil && isLenOfVia(outMk.Len, isTasks)
		det := ""
		nOut := 0
		instrs(stream, func(in ssa.Instruction) {
			st, ok := in.(*ssa.Store)
			if !ok {
				return
			}
			ia, ok := st.Addr.(*ssa.IndexAddr)
			if !ok || outMk == nil || ia.X != ssa.Value(outMk) {
				return
			}
			nOut++
			c, ok := st.Val.(*ssa.Call)
			if !ok || !isCallTo(c, swc) {
				good, det = false, "sOutput[i] is not a converted reader"
				return
			}
			if elemIndex(c.Call.Args[0], isTasks) != ia.Index {
				good, det = false, "sOutput[i] is not built from tasks[i].sOutput"
			}
			if f, _ := loadedField(c.Call.Args[0]); !sameField(f, fSOut) {
				good, det = false, "sOutput[i] is not built from the task's stream output"
			}
			// the convert literal: ret[index] with index a per-iteration copy of i, callID = tasks[i].callID, ret sized n
			lit := staticCalleeOfValue(c.Call.Args[1])
			mc, _ := c.Call.Args[1].(*ssa.MakeClosure)
			if lit == nil || mc == nil {
				good, det = false, "convert is not a literal"
				return
			}
			idxOK, idOK, sizeOK := false, false, false
			for bi, fv := range lit.FreeVars {
				b := mc.Bindings[bi]
				cell, isCell := b.(*ssa.Alloc)
				// index copy: a cell allocated in the loop body and initialised with the loop index
				if isCell {
					for _, ref := range *cell.Referrers() {
						if s2, ok := ref.(*ssa.Store); ok && s2.Addr == ssa.Value(cell) {
							if s2.Val == ia.Index {
								// used as ret[index]
								instrs(lit, func(li ssa.Instruction) {
									if lia, ok := li.(*ssa.IndexAddr); ok {
										if u, ok := lia.Index.(*ssa.UnOp); ok && u.X == ssa.Value(fv) {
											idxOK = true
										}
									}
								})
							}
							if f, _ := loadedField(s2.Val); sameField(f, fCallID) && elemIndex(s2.Val, isTasks) == ia.Index {
								idOK = true
							}
							if isLenOf(s2.Val, isTasks) {
								instrs(lit, func(li ssa.Instruction) {
									if ms, ok := li.(*ssa.MakeSlice); ok {
										if u, ok := ms.Len.(*ssa.UnOp); ok && u.X == ssa.Value(fv) {
											sizeOK = true
										}
									}
								})
							}
						}
					}
				}
				// captured by value (never reassigned): binding is the value itself
				if b == ia.Index {
					idxOK = true
				}
			}
			// the converter is total: every chunk of tool i — an empty one included — becomes a frame carrying
			// tool i's message; no chunk is dropped (ErrNoValue) or turned into an error
			instrs(lit, func(li ssa.Instruction) {
				ret, ok := li.(*ssa.Return)
				if !ok {
					return
				}
				if !isNilConst(ret.Results[1]) {
					good, det = false, det+" the converter can return an error / skip a chunk (a tool whose whole output is empty gets no answer in the streamed form, while Invoke answers it)"
					return
				}
				skip, _ := pathQuery{fn: lit, from: lit.Blocks[0].Instrs[0], goal: func(x ssa.Instruction) bool { return x == li }, avoid: func(x ssa.Instruction) bool { return isCallTo(x, toolMsg) }}.exists()
				if skip {
					good, det = false, det+" a return of the converter is reachable without building the ToolMessage"
				}
			})
			if !idxOK {
				good, det = false, det+" the converted chunk is not placed at the task's own index"
			}
			if !idOK {
				good, det = false, det+" the call id is not the task's own"
			}
			if !sizeOK {
				good, det = false, det+" the sparse list is not sized len(tasks)"
			}
		})
		r.Check(good && nOut == 1, "C17.index-preserved", "Stream: reader i converts task i's chunks into a sparse list with slot i", stream.Pos(), "ret := make(n); ret[index] = ToolMessage(s, callID) with index/callID of task i", "streamed answers are not position-preserving: "+det)
	}

	// ---- loopvar
	shareRule(w, r, "C17.tool-error-stays-in-the-chain", "the error of a failing tool is wrapped with %w by the tools node in Stream as in Invoke: the same failing call gives an error errors.Is / errors.As can match in both modes", 1, "C13", "C13.percent-w")
	r.Rule("C17.given-tool-list-replaces", "a tool list given with the call replaces the configured tools whenever it was given (non-nil) — an explicitly empty list means 'no tool is available in this call' (every name is unknown), not 'use the configured ones': the conversion of the call's list in Invoke and Stream stands under ToolList != nil", 2)
	{
		conv := w.Fn("compose", "convTools")
		n := 0
		for _, nm := range []string{"ToolsNode.Invoke", "ToolsNode.Stream"} {
			f := w.Fn("compose", nm)
			// the conversion may sit in a helper the method calls (the common first half of Invoke and Stream)
			sites := callsTo(f, conv)
			if len(sites) == 0 {
				for _, g := range staticCalleesOf(w, f) {
					if w.inRepo(g) && g != conv {
						sites = append(sites, callsTo(g, conv)...)
					}
				}
			}
			for _, c := range sites {
				n++
				isTL := func(v ssa.Value) bool { fl, _ := loadedField(v); return fl != nil && fl.Name() == "ToolList" }
				good := hasGuard(c.Block(), func(g guard) bool { return guardNonNil(g, isTL) })
				r.Check(good, "C17.given-tool-list-replaces", nm+": the call's tool list is converted whenever one was given", c.Pos(), "under opt.ToolList != nil", "the call's list replaces the configured tools only when it is non-empty: with WithToolList() — explicitly no tools — every name should be unknown (an error, or the UnknownToolsHandler's answer), but the node silently runs the configured tools and returns their outputs")
			}
		}
		if n < 2 {
			r.Deferred = append(r.Deferred, fmt.Sprintf("C17.given-tool-list-replaces: only %d conversions of a call's tool list found", n))
		}
	}

	r.Rule("C17.frame-slot-is-the-position", "the slot of a call's messages in the streamed frames is the call's position in the list, as the result list of Invoke has it: no integer captured by a literal built in ToolsNode.Stream derives from the Index the model gave the call — a list not in index order would permute ids and outputs, indices that start at 1 or have gaps would index the frame out of range", 1)
	{
		st := w.Fn("compose", "ToolsNode.Stream")
		n := 0
		instrs(st, func(in ssa.Instruction) {
			mc, ok := in.(*ssa.MakeClosure)
			if !ok {
				return
			}
			for bi, b := range mc.Bindings {
				// captured by reference: a cell of int
				if bt, isB := deref(b.Type()).Underlying().(*types.Basic); !isB || bt.Info()&types.IsInteger == 0 {
					continue
				}
				n++
				bad := false
				seen := map[ssa.Value]bool{}
				var visit func(v ssa.Value, d int)
				visit = func(v ssa.Value, d int) {
					if v == nil || d > 12 || seen[v] || bad {
						return
					}
					seen[v] = true
					if f, _ := loadedField(v); f != nil && f.Name() == "Index" {
						bad = true
						return
					}
					switch x := v.(type) {
					case *ssa.Alloc:
						for _, s2 := range storesToCell(st, x) {
							visit(s2.Val, d+1)
						}
					case *ssa.Phi:
						for _, e := range x.Edges {
							visit(e, d+1)
						}
					case *ssa.UnOp:
						visit(x.X, d+1)
					case *ssa.BinOp:
						visit(x.X, d+1)
						visit(x.Y, d+1)
					case *ssa.Convert:
						visit(x.X, d+1)
					}
				}
				visit(b, 0)
				r.Check(!bad, "C17.frame-slot-is-the-position", fmt.Sprintf("ToolsNode.Stream: %s captures integer #%d", mc.Fn.Name(), bi), mc.Fn.(*ssa.Function).Pos(), "derives from the loop position only", "the frame slot is taken from ToolCall.Index: calls numbered 0..n-1 in list order are unaffected, but [1 0] / [2 0 3 1] silently permute ids and outputs and [1 2] / [0 2] make the converter index the frame out of range ('panic error: index out of range') although no tool failed — the streamed form no longer concatenates to the list Invoke returns")
			}
		})
		if n == 0 {
			r.Deferred = append(r.Deferred, fmt.Sprintf("C17.frame-slot-is-the-position: no literal of ToolsNode.Stream captures an integer"))
		}
	}

	r.Rule("C17.loopvar", "no escaping literal captures a loop variable (pre-1.22 semantics)", 1)
	nlit := 0
	for _, fn := range w.RepoFuncs("compose", "schema", "flow", "internal", "components") {
		nlit += len(fn.AnonFuncs)
		for _, c := range loopVarCaptures(fn) {
			r.Fail("C17.loopvar", w.fname(origin(fn))+": "+c, fn.Pos(), "a function literal created in a loop captures the loop's own variable (one variable for all iterations under go 1.18 semantics): when it runs later every instance sees the last value")
		}
	}
	ncell := 0
	for _, fn := range w.RepoFuncs("compose", "schema", "flow", "internal", "components") {
		ncell += len(loopCarriedCells(fn))
		for _, c := range loopVarAddrEscapes(w, fn) {
			r.Fail("C17.loopvar", w.fname(origin(fn))+": "+c, fn.Pos(), "the address of a loop variable (one variable for all iterations under go 1.18 semantics) is kept beyond the iteration: everything that kept it later reads the last element — e.g. every unknown-tool handler call gets the name of the last tool call")
		}
	}
	r.OK("C17.loopvar", "loop-carried variables", gen.Pos(), fmt.Sprintf("%d loop-carried variables inspected for escaping addresses", ncell))
	r.OK("C17.loopvar", "literals created in loops", invoke.Pos(), fmt.Sprintf("%d function literals inspected in compose/schema/flow/internal/components", nlit))

	// ---- err-before-use
	r.Rule("C17.err-before-use", "tasks[i].output / sOutput are read only on the tasks[i].err == nil arm", 2)
	for _, fn := range []*ssa.Function{invoke, stream} {
		tasks := tasksOf(fn)
		isTasks := func(v ssa.Value) bool { return v == tasks }
		n := 0
		instrs(fn, func(in ssa.Instruction) {
			fa, ok := in.(*ssa.FieldAddr)
			if !ok {
				return
			}
			f := fieldVarOfAddr(fa)
			if !(sameField(f, fOut) || sameField(f, fSOut)) {
				return
			}
			ia, ok := fa.X.(*ssa.IndexAddr)
			if !ok || !isTasks(ia.X) {
				return
			}
			n++
			g := hasGuard(fa.Block(), func(g guard) bool {
				return guardIsNil(g, func(v ssa.Value) bool {
					ef, _ := loadedField(v)
					return sameField(ef, fErr) && elemIndex(v, isTasks) == ia.Index
				})
			})
			r.Check(g, "C17.err-before-use", fmt.Sprintf("%s reads tasks[i].%s after the error check", fn.Name(), f.Name()), fa.Pos(), "dominated by tasks[i].err == nil (same i)", "a failed tool's (empty) output is used, or the check is on another task")
		})
		if n == 0 {
			r.Fail("C17.err-before-use", fn.Name()+" reads task results", fn.Pos(), "no read of the task outputs found")
		}
		// the error arm returns an error (the whole call fails)
		foundRet := false
		instrs(fn, func(in ssa.Instruction) {
			iff, ok := in.(*ssa.If)
			if !ok {
				return
			}
			op, x, y, ok := asCmp(iff.Cond)
			if !ok || !isNilConst(y) {
				return
			}
			if ef, _ := loadedField(x); !sameField(ef, fErr) {
				return
			}
			arm := 0
			if op == token.EQL {
				arm = 1
			}
			cont, _ := pathFromBlock(pathQuery{fn: fn, goal: func(i ssa.Instruction) bool {
				ret, ok := i.(*ssa.Return)
				return ok && isNilConst(ret.Results[1])
			}}, iff.Block().Succs[arm])
			if !cont {
				foundRet = true
			}
		})
		r.Check(foundRet, "C17.err-before-use", fn.Name()+": a failing tool fails the whole call", fn.Pos(), "tasks[i].err != nil returns an error", "tool errors are skipped")
	}

	// ---- parallel-protocol
	r.Rule("C17.parallel-protocol", "wg.Add before spawn; Done registered before the recover handler; panic recorded; own task pointer; caller's ctx; Wait before return; the dispatcher itself never blocks", 7)
	{
		ctxP := prt.Params[0]
		tasksP := prt.Params[paramIndex(prt, "tasks")]
		var gos []*ssa.Go
		instrs(prt, func(in ssa.Instruction) {
			if g, ok := in.(*ssa.Go); ok {
				gos = append(gos, g)
			}
		})
		// every call is started before the dispatcher waits for anything: the dispatcher itself (not its workers) performs no
		// channel operation that can block and calls nothing that waits, except through its deferred Wait
		{
			blocking := ""
			instrs(prt, func(in ssa.Instruction) {
				switch x := in.(type) {
				case *ssa.Send:
					blocking = "a channel send"
				case *ssa.UnOp:
					if x.Op == token.ARROW {
						blocking = "a channel receive"
					}
				case *ssa.Select:
					if x.Blocking {
						blocking = "a blocking select"
					}
				case *ssa.Call:
					switch calleeFullName(x) {
					case "(*sync.WaitGroup).Wait", "(*sync.Mutex).Lock", "(*sync.Cond).Wait", "time.Sleep":
						blocking = calleeFullName(x)
					}
				}
			})
			r.Check(blocking == "", "C17.parallel-protocol", "the dispatcher starts every call without waiting", prt.Pos(), "no blocking operation between the spawns", "parallelRunToolCall performs "+blocking+" while it is still starting calls: the calls behind it (and the inline call 0) do not start until an earlier one returns, so a message whose later calls must finish first — twelve calls released in reverse order — never completes: calls are no longer independent of one another's completion order")
		}
		if len(gos) != 1 {
			r.Fail("C17.parallel-protocol", "parallelRunToolCall spawns workers", prt.Pos(), fmt.Sprintf("expected one go statement, found %d", len(gos)))
		} else {
			g := gos[0]
			lit := staticCallee(g)
			// wg.Add(1) before the go in its block
			addOK := false
			for _, in := range g.Block().Instrs {
				if in == ssa.Instruction(g) {
					break
				}
				if calleeFullName(in) == "(*sync.WaitGroup).Add" {
					if isConstN(in.(ssa.CallInstruction).Common().Args[1], 1) {
						addOK = true
					}
				}
			}
			r.Check(addOK, "C17.parallel-protocol", "wg.Add(1) precedes each spawn", g.Pos(), "counted before it starts", "a worker is spawned without being counted: Wait can return before it finished")
			// Wait between spawn and every return
			skip, wit := pathQuery{fn: prt, from: g, goal: isReturn, avoid: func(in ssa.Instruction) bool { return calleeFullName(in) == "(*sync.WaitGroup).Wait" }}.exists()
			instrs(prt, func(d ssa.Instruction) {
				if df, ok := d.(*ssa.Defer); ok && calleeFullName(df) == "(*sync.WaitGroup).Wait" && instrDominates(df, g) {
					skip = false // registered before the first spawn: runs on every way out
				}
			})
			r.Check(!skip, "C17.parallel-protocol", "wg.Wait lies between the spawns and every return", g.Pos(), "results are read only after all workers finished", "parallelRunToolCall can return while workers are still running: "+wit)
			if lit != nil {
				var dDone, dRec *ssa.Defer
				instrs(lit, func(in ssa.Instruction) {
					d, ok := in.(*ssa.Defer)
					if !ok {
						return
					}
					if calleeFullName(d) == "(*sync.WaitGroup).Done" {
						dDone = d
					} else if f := staticCallee(d); f != nil && funcContains(f, func(i ssa.Instruction) bool { return isBuiltin(i, "recover") }) {
						dRec = d
					}
				})
				okOrder := dDone != nil && dRec != nil && instrDominates(dDone, dRec)
				r.Check(okOrder, "C17.parallel-protocol", "worker registers wg.Done before its recover handler", lit.Pos(), "defers run LIFO: the panic is stored in t.err before Done releases the waiter", "wg.Done runs before the recover handler stores the panic: the waiter can read a nil error for a panicking tool (the call succeeds with an empty answer)")
				if dRec != nil {
					rl := staticCallee(dRec)
					var rv ssa.Value
					instrs(rl, func(in ssa.Instruction) {
						if isBuiltin(in, "recover") {
							rv = in.(ssa.Value)
						}
					})
					okr, how := taintReachesSink(rl, rv, nil)
					r.Check(okr, "C17.parallel-protocol", "worker records the panic in its task", rl.Pos(), how, "a panicking tool leaves no error")
				}
			}
			// arguments: ctx is the caller's ctx; task pointer is &tasks[i] with the loop index
			args := g.Call.Args
			ctxOK := len(args) > 0 && args[0] == ssa.Value(ctxP)
			ptrOK := false
			for _, a := range args {
				if ia, ok := a.(*ssa.IndexAddr); ok && ia.X == ssa.Value(tasksP) {
					if _, isConst := ia.Index.(*ssa.Const); !isConst {
						ptrOK = true
					}
				}
			}
			r.Check(ctxOK, "C17.parallel-protocol", "workers run on the caller's context", g.Pos(), "ctx parameter passed through", "workers get a derived context (e.g. one cancelled when parallelRunToolCall returns): streaming tools that outlive the call are aborted")
			r.Check(ptrOK, "C17.parallel-protocol", "each worker gets a pointer to its own task", g.Pos(), "&tasks[i]", "workers do not write into their own task slot")
		}
		// the inline call made after the spawns may panic (it is the user's tool): the workers are waited for on that
		// way out as well — Wait is registered with defer before the call
		instrs(prt, func(in ssa.Instruction) {
			c, ok := in.(*ssa.Call)
			if !ok || staticCallee(c) != nil || c.Call.IsInvoke() || len(gos) == 0 {
				return
			}
			if _, isB := c.Call.Value.(*ssa.Builtin); isB {
				return
			}
			afterSpawn, _ := pathQuery{fn: prt, from: gos[0], goal: func(x ssa.Instruction) bool { return x == ssa.Instruction(c) }}.exists()
			if !afterSpawn {
				return
			}
			deferredWait := false
			instrs(prt, func(d ssa.Instruction) {
				if df, ok := d.(*ssa.Defer); ok && calleeFullName(df) == "(*sync.WaitGroup).Wait" && instrDominates(df, c) {
					deferredWait = true
				}
			})
			r.Check(deferredWait, "C17.parallel-protocol", "workers are waited for also when the inline call panics", c.Pos(), "defer wg.Wait() registered before the inline call", "when the tool of the first call panics, the panic leaves parallelRunToolCall past wg.Wait(): the tools node and the graph are reported as ended (and Invoke returns the panic as an error) while the other tool calls are still running — their OnEnd fires after the run is over, their results are written into a task list nobody reads")
		})
		// the option slice handed to every concurrently running tool is the same backing array: its capacity is clipped
		// (opts[:len:len]) before it is shared, so that a tool appending to its variadic opts gets a copy instead of
		// writing into the memory its siblings read
		{
			optsP := prt.Params[len(prt.Params)-1]
			clipped := func(v ssa.Value) bool {
				sl, ok := v.(*ssa.Slice)
				return ok && sl.Max != nil && sl.X == ssa.Value(optsP)
			}
			nShared, bad := 0, token.NoPos
			instrs(prt, func(in ssa.Instruction) {
				ci, ok := in.(ssa.CallInstruction)
				if !ok {
					return
				}
				if _, isB := ci.Common().Value.(*ssa.Builtin); isB {
					return
				}
				// only hand-overs on the concurrent path (a spawn before or after them) share the slice
				concurrent := false
				if _, isGo := in.(*ssa.Go); isGo {
					concurrent = true
				} else {
					isGoI := func(x ssa.Instruction) bool { _, ok := x.(*ssa.Go); return ok }
					if ok, _ := (pathQuery{fn: prt, from: in, goal: isGoI}).exists(); ok {
						concurrent = true
					}
					for _, g := range gos {
						if ok, _ := (pathQuery{fn: prt, from: g, goal: func(x ssa.Instruction) bool { return x == in }}).exists(); ok {
							concurrent = true
						}
					}
				}
				if !concurrent {
					return
				}
				for _, a := range ci.Common().Args {
					if !types.Identical(a.Type(), optsP.Type()) {
						continue
					}
					nShared++
					if !clipped(a) {
						bad = in.Pos()
					}
				}
			})
			r.Check(nShared >= 2 && bad == token.NoPos, "C17.parallel-protocol", "the tool options shared by the concurrent calls are capacity-clipped", prt.Pos(), fmt.Sprintf("%d hand-overs of opts[:len(opts):len(opts)]", nShared), "the variadic option slice is handed to every concurrently running tool with its spare capacity ("+w.pos(bad)+"): three WithToolOption calls leave len 3 / cap 4, and a tool that appends a default option to its opts writes into the array its siblings are reading — a data race, and both tools end up running with the last writer's option")
		}
		// no cancellable context derived here at all
		der := callsNamed(prt, "context.WithCancel", "context.WithTimeout", "context.WithDeadline")
		r.Check(len(der) == 0, "C17.parallel-protocol", "parallelRunToolCall derives no cancellable context", prt.Pos(), "none", "a context cancelled at return aborts streamable tools that are still producing")
		// the inline first task runs on the caller's ctx as well
		inlineOK := false
		instrs(prt, func(in ssa.Instruction) {
			c, ok := in.(*ssa.Call)
			if ok && staticCallee(c) == nil && !c.Call.IsInvoke() && len(c.Call.Args) > 1 && c.Call.Args[0] == ssa.Value(ctxP) {
				if ia, ok := c.Call.Args[1].(*ssa.IndexAddr); ok && ia.X == ssa.Value(tasksP) && isConstN(ia.Index, 0) {
					inlineOK = true
				}
			}
		})
		r.Check(inlineOK, "C17.parallel-protocol", "first task runs inline on the caller's ctx", prt.Pos(), "run(ctx, &tasks[0], ...)", "task 0 is not executed")
	}

	// ---- unknown-tool
	r.Rule("C17.unknown-tool", "unknown tool: error unless unknownToolHandler is set, then the handler task is used", 1)
	{
		nut := w.Fn("compose", "newUnknownToolTask")
		// the handler is located by use (last argument of newUnknownToolTask), not by name
		var fH *types.Var
		var hBase ssa.Value
		for _, c := range callsTo(gen, nut) {
			a := c.Common().Args
			fH, hBase = loadedField(a[len(a)-1])
		}
		if fH == nil {
			r.Fail("C17.unknown-tool", "genToolCallTasks: unknown tool handler source", gen.Pos(), "newUnknownToolTask is not called with a handler loaded from a field")
			fH = w.Field("compose", "ToolsNode", "tuple") // keeps the rest of the rule running; it fails below
		}
		// the configured handler applies whatever tool list the call runs against: it is read from the node itself, or
		// from an object every producer of which carries it (the per-call tuple built by convTools from WithToolList
		// knows nothing about the node's configuration)
		if hBase != nil {
			if hBase == ssa.Value(gen.Params[0]) {
				r.OK("C17.unknown-tool", "genToolCallTasks: unknown tool handler is the node's own", gen.Pos(), "read from the receiver (the configuration made at NewToolNode)")
			} else {
				owner := namedOf(deref(hBase.Type()))
				conv := w.Fn("compose", "convTools")
				setsIt := false
				for _, fw := range fieldWrites(conv) {
					if sameField(fw.field, fH) {
						setsIt = true
					}
				}
				name := "?"
				if owner != nil {
					name = owner.Obj().Name()
				}
				r.Check(setsIt, "C17.unknown-tool", "genToolCallTasks: unknown tool handler is the node's own", gen.Pos(), "every producer of "+name+" sets "+fH.Name(), "the handler is read from "+name+"."+fH.Name()+", but convTools — which builds the "+name+" of a call that passes WithToolList — never sets it: with a per-request tool list an unknown tool name fails with 'not found in toolsNode indexes' although a handler is configured")
			}
		}
		good := false
		instrs(gen, func(in ssa.Instruction) {
			iff, ok := in.(*ssa.If)
			if !ok {
				return
			}
			op, x, y, ok := asCmp(iff.Cond)
			if !ok || !isLoadOfField(x, fH) || !isNilConst(y) {
				return
			}
			nilArm, setArm := 0, 1
			if op == token.NEQ {
				nilArm, setArm = 1, 0
			}
			// miss guard
			miss := hasGuard(iff.Block(), func(g guard) bool {
				e, ok := g.cond.(*ssa.Extract)
				if !ok || e.Index != 1 || g.pol {
					return false
				}
				lk, ok := e.Tuple.(*ssa.Lookup)
				return ok && lk.CommaOk
			})
			cont, _ := pathFromBlock(pathQuery{fn: gen, goal: func(i ssa.Instruction) bool {
				ret, ok := i.(*ssa.Return)
				return ok && isNilConst(ret.Results[1])
			}, avoid: func(i ssa.Instruction) bool { return false }}, iff.Block().Succs[nilArm])
			usesHandler := false
			for _, in2 := range iff.Block().Succs[setArm].Instrs {
				if isCallTo(in2, nut) {
					usesHandler = true
				}
			}
			// nil arm must return an error immediately (it can reach the nil-error return only through... nothing)
			retErr := false
			for _, in2 := range iff.Block().Succs[nilArm].Instrs {
				if ret, ok := in2.(*ssa.Return); ok && !isNilConst(ret.Results[1]) {
					retErr = true
				}
			}
			_ = cont
			if miss && retErr && usesHandler {
				good = true
			}
		})
		r.Check(good, "C17.unknown-tool", "genToolCallTasks: unknown tool handling", gen.Pos(), "miss && handler == nil -> error; miss && handler != nil -> newUnknownToolTask", "an unknown tool name is silently skipped, or the handler is not used")
	}

	// ---- siblings
	r.Rule("C17.siblings", "Invoke and Stream: options, optional tool list conversion, task generation, parallel run with the matching runner", 2)
	for _, p := range []struct {
		fn     *ssa.Function
		runner string
	}{{invoke, "runToolCallTaskByInvoke"}, {stream, "runToolCallTaskByStream"}} {
		seq := []*ssa.Function{w.Fn("compose", "getToolsNodeOptions"), w.Fn("compose", "convTools"), gen, prt}
		// a step is performed by the method itself or inside ONE module function it calls (a shared "first half" helper)
		type site struct {
			outer, inner ssa.CallInstruction
		}
		find := func(f *ssa.Function) (site, bool) {
			if cs := callsTo(p.fn, f); len(cs) == 1 {
				return site{cs[0], cs[0]}, true
			} else if len(cs) > 1 {
				return site{}, false
			}
			var out []site
			instrs(p.fn, func(in ssa.Instruction) {
				c, ok := in.(ssa.CallInstruction)
				if !ok {
					return
				}
				h := staticCallee(c)
				if h == nil || !w.inRepo(h) || h == f {
					return
				}
				if ics := callsTo(h, f); len(ics) == 1 {
					out = append(out, site{c, ics[0]})
				}
			})
			if len(out) == 1 {
				return out[0], true
			}
			return site{}, false
		}
		before := func(a, b site) bool {
			if a.outer != b.outer {
				return instrDominates(a.outer, b.outer)
			}
			return instrDominates(a.inner, b.inner)
		}
		good := true
		var sites []site
		for _, f := range seq {
			st, ok := find(f)
			if !ok {
				good = false
				break
			}
			sites = append(sites, st)
		}
		if good {
			// options first; task generation after the options; the parallel run after task generation (convTools is
			// conditional: it need not dominate the generation)
			good = before(sites[0], sites[2]) && before(sites[2], sites[3]) && before(sites[0], sites[1])
			if !funcArgIs(sites[3].inner.Common().Args[1], w.Fn("compose", p.runner)) {
				good = false
			}
			if sites[3].outer != sites[3].inner {
				good = false // the runner is chosen by the method itself, not by a helper shared with its sibling
			}
		}
		r.Check(good, "C17.siblings", p.fn.Name()+" follows the common protocol with "+p.runner, p.fn.Pos(), "options -> [convTools] -> genToolCallTasks -> parallelRunToolCall(runner)", "Invoke/Stream diverge (wrong runner or a missing step)")
	}
}

// isLenOfVia: v is len(x) with pred(x), directly or through a local cell that only ever holds such a value.
func isLenOfVia(v ssa.Value, pred func(ssa.Value) bool) bool {
	if isLenOf(v, pred) {
		return true
	}
	u, ok := v.(*ssa.UnOp)
	if !ok || u.Op != token.MUL {
		return false
	}
	cell, ok := u.X.(*ssa.Alloc)
	if !ok {
		return false
	}
	n := 0
	for _, ref := range *cell.Referrers() {
		if st, ok := ref.(*ssa.Store); ok && st.Addr == ssa.Value(cell) {
			n++
			if !isLenOf(st.Val, pred) {
				return false
			}
		}
	}
	return n > 0
}

// toolStreamConverterTotal: every convert literal handed to StreamReaderWithConvert in ToolsNode.Stream returns a nil
// error on every path and builds the ToolMessage on every path.
func toolStreamConverterTotal(w *World, r *Report, rule string) {
	stream := w.Fn("compose", "ToolsNode.Stream")
	toolMsg := w.Fn("schema", "ToolMessage")
	n := 0
	for _, lit := range stream.AnonFuncs {
		if len(callsTo(lit, toolMsg)) == 0 && lit.Signature.Results().Len() != 2 {
			continue
		}
		if lit.Signature.Params().Len() != 1 {
			continue
		}
		n++
		bad := ""
		instrs(lit, func(in ssa.Instruction) {
			ret, ok := in.(*ssa.Return)
			if !ok {
				return
			}
			if !isNilConst(ret.Results[1]) {
				bad = "a chunk can be skipped / turned into an error"
				return
			}
			if skip, _ := (pathQuery{fn: lit, from: lit.Blocks[0].Instrs[0], goal: func(x ssa.Instruction) bool { return x == ssa.Instruction(ret) }, avoid: func(x ssa.Instruction) bool { return isCallTo(x, toolMsg) }}).exists(); skip {
				bad = "a return is reachable without building the ToolMessage"
			}
		})
		r.Check(bad == "", rule, fmt.Sprintf("ToolsNode.Stream converter #%d is total", n), lit.Pos(), "every chunk becomes a frame with the call's ToolMessage", bad+": a tool whose whole output is empty gets no answer in the streamed form (the next model call sees a nil message in its slot, or the stream is empty) while Generate/Invoke answer it")
	}
	if n == 0 {
		undecidedf("%s: converter literal of ToolsNode.Stream not found", rule)
	}
}

// toolsCallerCtxCheck: tools run on the context of the call (shared by C17.parallel-protocol's ctx clauses and C18): a
// streamable tool keeps producing after parallelRunToolCall has returned its reader, so a context that is cancelled
// when that function returns truncates the streamed tool result while Generate / Invoke get the whole of it.
func toolsCallerCtxCheck(w *World, r *Report, rule string) {
	prt := w.Fn("compose", "parallelRunToolCall")
	ctxP := prt.Params[0]
	n := 0
	instrs(prt, func(in ssa.Instruction) {
		switch x := in.(type) {
		case *ssa.Go:
			n++
			r.Check(len(x.Call.Args) > 0 && x.Call.Args[0] == ssa.Value(ctxP), rule, fmt.Sprintf("parallelRunToolCall: worker #%d runs on the caller's context", n), x.Pos(), "ctx parameter passed through", "workers get a derived context: a streaming tool that honours its context is cancelled as soon as the tools node has handed back the readers — Stream errors or truncates where Generate succeeds, a return-directly result is lost")
		case *ssa.Call:
			if staticCallee(x) == nil && !x.Call.IsInvoke() && len(x.Call.Args) > 1 {
				if _, isCtx := x.Call.Args[0].Type().Underlying().(*types.Interface); isCtx && x.Call.Value.Type().String() == prt.Params[1].Type().String() {
					n++
					r.Check(x.Call.Args[0] == ssa.Value(ctxP), rule, fmt.Sprintf("parallelRunToolCall: inline call #%d runs on the caller's context", n), x.Pos(), "ctx parameter passed through", "the inline tool call gets a derived context (cancelled at return): its stream is aborted before anybody reads it")
				}
			}
		}
	})
	der := callsNamed(prt, "context.WithCancel", "context.WithTimeout", "context.WithDeadline")
	r.Check(len(der) == 0, rule, "parallelRunToolCall derives no cancellable context", prt.Pos(), "none", "a context cancelled when parallelRunToolCall returns aborts streamable tools that are still producing")
	if n < 2 {
		r.Fail(rule, "parallelRunToolCall: tool launches", prt.Pos(), fmt.Sprintf("%d launches found (worker + inline expected)", n))
	}
}
