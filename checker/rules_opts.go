package main

import (
	"go/token"
	"go/types"
	"strings"

	"golang.org/x/tools/go/ssa"
)

// OPTS-FORWARD: a function that receives call options (`opts ...T`, T a call-option type) and calls another
// callable that takes call options hands its own options on. A wrapper that calls the wrapped runnable
// without them compiles and runs, but every option addressed to (or below) the wrapped node is lost.

func isCallOptionElem(t types.Type) bool {
	if _, ok := t.(*types.TypeParam); ok {
		return true
	}
	if i, ok := t.Underlying().(*types.Interface); ok && i.Empty() {
		return true
	}
	if n := namedOf(t); n != nil && n.Obj().Pkg() != nil && strings.HasPrefix(n.Obj().Pkg().Path(), modPath) {
		name := n.Obj().Name()
		return name == "Option" || name == "AgentOption"
	}
	return false
}

func variadicElem(sig *types.Signature) types.Type {
	if sig == nil || !sig.Variadic() {
		return nil
	}
	last := sig.Params().At(sig.Params().Len() - 1).Type()
	if s, ok := last.Underlying().(*types.Slice); ok {
		return s.Elem()
	}
	return nil
}

// derivesFrom: v is computed from src (through calls taking it, conversions, appends, slices, local cells,
// and captures by nested literals).
func derivesFrom(v, src ssa.Value) bool {
	seen := map[ssa.Value]bool{}
	var visit func(v ssa.Value, d int) bool
	visit = func(v ssa.Value, d int) bool {
		if v == src {
			return true
		}
		if v == nil || d > 14 || seen[v] {
			return false
		}
		seen[v] = true
		switch x := v.(type) {
		case *ssa.Phi:
			for _, e := range x.Edges {
				if visit(e, d+1) {
					return true
				}
			}
		case *ssa.Call:
			for _, a := range x.Call.Args {
				if visit(a, d+1) {
					return true
				}
			}
		case *ssa.Extract:
			return visit(x.Tuple, d+1)
		case *ssa.Slice:
			return visit(x.X, d+1)
		case *ssa.Alloc:
			// array backing a variadic call: any element stored
			for _, ref := range *x.Referrers() {
				if ia, ok := ref.(*ssa.IndexAddr); ok {
					for _, rr := range *ia.Referrers() {
						if st, ok := rr.(*ssa.Store); ok && visit(st.Val, d+1) {
							return true
						}
					}
				}
			}
		case *ssa.ChangeType:
			return visit(x.X, d+1)
		case *ssa.MakeInterface:
			return visit(x.X, d+1)
		case *ssa.TypeAssert:
			return visit(x.X, d+1)
		case *ssa.ChangeInterface:
			return visit(x.X, d+1)
		case *ssa.Convert:
			return visit(x.X, d+1)
		case *ssa.UnOp:
			if x.Op != token.MUL {
				return false
			}
			switch a := x.X.(type) {
			case *ssa.Alloc:
				for _, ref := range *a.Referrers() {
					if st, ok := ref.(*ssa.Store); ok && st.Addr == ssa.Value(a) && visit(st.Val, d+1) {
						return true
					}
				}
			case *ssa.FreeVar:
				return visit(a, d+1)
			case *ssa.IndexAddr:
				return visit(a.X, d+1)
			}
		case *ssa.FreeVar:
			// binding in the parent
			lit := x.Parent()
			idx := -1
			for i, f := range lit.FreeVars {
				if f == x {
					idx = i
				}
			}
			if p := lit.Parent(); p != nil && idx >= 0 {
				ok := false
				instrs(p, func(in ssa.Instruction) {
					if mc, isMC := in.(*ssa.MakeClosure); isMC && mc.Fn == lit && !ok {
						b := mc.Bindings[idx]
						if b == src {
							ok = true
							return
						}
						if al, isAl := b.(*ssa.Alloc); isAl {
							for _, ref := range *al.Referrers() {
								if st, isSt := ref.(*ssa.Store); isSt && st.Addr == ssa.Value(al) && visit(st.Val, d+1) {
									ok = true
								}
							}
						} else if visit(b, d+1) {
							ok = true
						}
					}
				})
				return ok
			}
		}
		return false
	}
	return visit(v, 0)
}

type optsSite struct {
	owner *ssa.Function // the function receiving opts
	in    *ssa.Function // where the call is (owner or a nested literal)
	call  ssa.CallInstruction
	ok    bool
	what  string
}

// optsForwardSites enumerates, for every function of fns with a call-option variadic, the calls it (or its
// nested literals without an own variadic) makes to callables that take call options.
func optsForwardSites(w *World, fns []*ssa.Function) []optsSite {
	var out []optsSite
	for _, fn := range fns {
		el := variadicElem(fn.Signature)
		if el == nil || !isCallOptionElem(el) || len(fn.Params) == 0 {
			continue
		}
		p := fn.Params[len(fn.Params)-1]
		var scope []*ssa.Function
		var collect func(f *ssa.Function)
		collect = func(f *ssa.Function) {
			scope = append(scope, f)
			for _, a := range f.AnonFuncs {
				if ael := variadicElem(a.Signature); ael != nil && isCallOptionElem(ael) {
					continue
				}
				collect(a)
			}
		}
		collect(fn)
		for _, f := range scope {
			instrs(f, func(in ssa.Instruction) {
				c, ok := in.(ssa.CallInstruction)
				if !ok {
					return
				}
				if _, isB := c.Common().Value.(*ssa.Builtin); isB {
					return
				}
				sig := c.Common().Signature()
				cel := variadicElem(sig)
				if cel == nil || !isCallOptionElem(cel) {
					return
				}
				// different option families (a retriever option cannot be handed to a graph): not a forwarding site
				if n1, n2 := namedOf(el), namedOf(cel); n1 != nil && n2 != nil && n1 != n2 {
					return
				}
				if sc := staticCallee(c); sc != nil && !w.inRepoOrMock(sc) && !c.Common().IsInvoke() {
					return // fmt.Errorf and friends
				}
				args := c.Common().Args
				if len(args) == 0 {
					return
				}
				va := args[len(args)-1]
				site := optsSite{owner: fn, in: f, call: c, what: calleeText(c)}
				site.ok = derivesFrom(va, p)
				out = append(out, site)
			})
		}
	}
	return out
}

func calleeText(c ssa.CallInstruction) string {
	if c.Common().IsInvoke() {
		return valText(c.Common().Value) + "." + c.Common().Method.Name()
	}
	if sc := staticCallee(c); sc != nil {
		return sc.Name()
	}
	return valText(c.Common().Value)
}
