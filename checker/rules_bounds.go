package main

import (
	"go/token"
	"go/types"

	"golang.org/x/tools/go/ssa"
)

// BOUNDED-INDEX: every slice element access s[i] with a non-constant index is justified by the code's own
// guards: some dominating condition gives i < X, and len(s) >= X follows from how s was made
// (make([]T, X)), from X being len(s) itself, or from a dominating comparison of len(s) with X.
// Undischarged accesses are reported with the missing fact. Constant indexes are out of scope (listed as info
// by the callers that want them).

type indexSite struct {
	fn    *ssa.Function
	in    ssa.Instruction
	slice ssa.Value
	index ssa.Value
	ok    bool
	why   string
}

// lenTerm canonicalises "the length of s": the Len operand when s is a make([]T, n) (directly or through a
// local cell that only ever holds that make), else nil.
func madeLen(s ssa.Value) ssa.Value {
	switch x := s.(type) {
	case *ssa.MakeSlice:
		return x.Len
	case *ssa.UnOp:
		if a, ok := x.X.(*ssa.Alloc); ok && x.Op == token.MUL {
			var l ssa.Value
			n := 0
			for _, ref := range *a.Referrers() {
				if st, ok := ref.(*ssa.Store); ok && st.Addr == ssa.Value(a) {
					n++
					if ms, ok := st.Val.(*ssa.MakeSlice); ok {
						l = ms.Len
					} else {
						return nil
					}
				}
			}
			if n == 1 {
				return l
			}
		}
	}
	return nil
}

func sameSliceValue(a, b ssa.Value) bool {
	if a == b || sameLoad(a, b) {
		return true
	}
	fa, ba := loadedField(a)
	fb, bb := loadedField(b)
	return fa != nil && sameField(fa, fb) && ba == bb
}

func sameIntValue(a, b ssa.Value) bool {
	if a == b {
		return true
	}
	ca, ok1 := constInt(a)
	cb, ok2 := constInt(b)
	if ok1 && ok2 && ca == cb {
		return true
	}
	// len(x) twice
	la, ok3 := a.(*ssa.Call)
	lb, ok4 := b.(*ssa.Call)
	if ok3 && ok4 && isBuiltin(la, "len") && isBuiltin(lb, "len") {
		return sameSliceValue(la.Call.Args[0], lb.Call.Args[0])
	}
	return false
}

// lenAtLeast: at block b, len(s) >= x is established.
func lenAtLeast(b *ssa.BasicBlock, s, x ssa.Value) (bool, string) {
	if c, ok := x.(*ssa.Call); ok && isBuiltin(c, "len") && sameSliceValue(c.Call.Args[0], s) {
		return true, "bound is len of the same slice"
	}
	if l := madeLen(s); l != nil {
		if sameIntValue(l, x) {
			return true, "slice made with that length"
		}
		// x = len(s2), s2 made with the same length
		if c, ok := x.(*ssa.Call); ok && isBuiltin(c, "len") {
			if l2 := madeLen(c.Call.Args[0]); l2 != nil && sameIntValue(l, l2) {
				return true, "both slices made with the same length"
			}
		}
	}
	isLenS := func(v ssa.Value) bool { return isLenOf(v, func(a ssa.Value) bool { return sameSliceValue(a, s) }) }
	found := ""
	for _, g := range guardsOf(b) {
		op, l, r, ok := asCmp(g.cond)
		if !ok {
			continue
		}
		if !g.pol {
			op = negateCmp(op)
		}
		// normalise to len(s) OP x
		if isLenS(r) && sameIntValue(l, x) {
			l, r = r, l
			op = flipCmp(op)
		}
		if isLenS(l) && sameIntValue(r, x) {
			switch op {
			case token.EQL, token.GEQ, token.GTR:
				found = "guard " + guardText(g)
			}
		}
	}
	return found != "", found
}

func negateCmp(op token.Token) token.Token {
	switch op {
	case token.EQL:
		return token.NEQ
	case token.NEQ:
		return token.EQL
	case token.LSS:
		return token.GEQ
	case token.GEQ:
		return token.LSS
	case token.GTR:
		return token.LEQ
	case token.LEQ:
		return token.GTR
	}
	return op
}
func flipCmp(op token.Token) token.Token {
	switch op {
	case token.LSS:
		return token.GTR
	case token.GTR:
		return token.LSS
	case token.LEQ:
		return token.GEQ
	case token.GEQ:
		return token.LEQ
	}
	return op
}

// indexSites lists the non-constant slice index accesses of fn with their justification.
func indexSites(fn *ssa.Function) []indexSite {
	var out []indexSite
	instrs(fn, func(in ssa.Instruction) {
		var s, idx ssa.Value
		switch x := in.(type) {
		case *ssa.IndexAddr:
			s, idx = x.X, x.Index
		case *ssa.Index:
			s, idx = x.X, x.Index
		default:
			return
		}
		t := s.Type().Underlying()
		if p, ok := t.(*types.Pointer); ok {
			t = p.Elem().Underlying()
		}
		if _, isSlice := t.(*types.Slice); !isSlice {
			return
		}
		if _, isConst := idx.(*ssa.Const); isConst {
			return
		}
		site := indexSite{fn: fn, in: in, slice: s, index: idx}
		// upper bounds of idx from the guards
		for _, g := range guardsOf(in.Block()) {
			op, l, r, ok := asCmp(g.cond)
			if !ok {
				continue
			}
			if !g.pol {
				op = negateCmp(op)
			}
			if r == idx {
				l, r = r, l
				op = flipCmp(op)
			}
			if l != idx || op != token.LSS {
				continue
			}
			if ok2, why := lenAtLeast(in.Block(), s, r); ok2 {
				site.ok, site.why = true, "index < "+valText(r)+"; "+why
				break
			}
			if site.why == "" {
				site.why = "index < " + valText(r) + ", but nothing establishes len(" + valText(s) + ") >= " + valText(r)
			}
		}
		if !site.ok && site.why == "" {
			site.why = "no dominating upper bound on the index"
		}
		out = append(out, site)
	})
	return out
}

// IFACE-COMPARE: `a == b` / `a != b` on two interface-typed operands panics at run time when both hold the same
// uncomparable dynamic type (slice, map, func, struct containing one). Safe forms: one side is nil, one side is a
// package-level sentinel / function result of error type compared by identity (pointer-shaped errors), or the
// static type is `error`.
type ifaceCompare struct {
	fn  *ssa.Function
	op  *ssa.BinOp
	why string
}

func ifaceCompares(fns []*ssa.Function) []ifaceCompare {
	var out []ifaceCompare
	isNilConst := func(v ssa.Value) bool {
		c, ok := v.(*ssa.Const)
		return ok && c.IsNil()
	}
	for _, fn := range fns {
		instrs(fn, func(in ssa.Instruction) {
			b, ok := in.(*ssa.BinOp)
			if !ok || (b.Op != token.EQL && b.Op != token.NEQ) {
				return
			}
			_, xi := b.X.Type().Underlying().(*types.Interface)
			_, yi := b.Y.Type().Underlying().(*types.Interface)
			if !xi || !yi || isNilConst(b.X) || isNilConst(b.Y) {
				return
			}
			if isErrorType(b.X.Type()) || isErrorType(b.Y.Type()) {
				return
			}
			if _, isTP := b.X.Type().(*types.TypeParam); isTP {
				return // comparable-constrained type parameters only compile when comparable
			}
			// reflect.Type values are comparable by construction (*rtype)
			if isReflectType(b.X.Type()) || isReflectType(b.Y.Type()) {
				return
			}
			out = append(out, ifaceCompare{fn, b, "both operands are interface values of unknown dynamic type"})
		})
	}
	return out
}

func isErrorType(t types.Type) bool {
	return types.Identical(t, types.Universe.Lookup("error").Type())
}
