package main

import (
	"embed"
	"encoding/json"
	"fmt"
	"os"
	"regexp"
	"sort"
	"strings"
)

// the rule files themselves, so that the manifest lists every clause a check decides and cannot fall behind the code
//
//go:embed prop_c*.go
var propSources embed.FS

var ruleDeclRE = regexp.MustCompile(`(?:r\.Rule|shareRule)\((?:w, r, )?"(C[0-9]{2})\.([a-z0-9'-]+)"`)

// declaredRules: property id -> ids of the rules registered in the rule files (r.Rule / shareRule), in source order.
func declaredRules() map[string][]string {
	out := map[string][]string{}
	seen := map[string]bool{}
	ents, _ := propSources.ReadDir(".")
	for _, e := range ents {
		b, err := propSources.ReadFile(e.Name())
		if err != nil {
			continue
		}
		for _, m := range ruleDeclRE.FindAllStringSubmatch(string(b), -1) {
			if k := m[1] + "." + m[2]; !seen[k] {
				seen[k] = true
				out[m[1]] = append(out[m[1]], m[2])
			}
		}
	}
	return out
}

// reasons for properties not (yet) claimed; must stay current with the registry.
var notApplicable = map[string]string{}

func writeManifest() {
	declared := declaredRules()
	var ids []string
	for id := range props {
		ids = append(ids, id)
	}
	sort.Strings(ids)
	var checks []any
	for _, id := range ids {
		p := props[id]
		tech := p.technique
		if tech == "" {
			tech = "static analysis: repository-specific rules over go/types + go/ssa (dominance / path queries, field-write inventory, VTA call-graph reachability)"
		}
		lt := p.levelText
		if lt == "" {
			lt = "Decides structural necessary conditions of the property on every path/caller of the current source (not the behaviour itself): " + strings.Join(p.decided, "; ")
			if all := declared[id]; len(all) > 0 {
				lt += fmt.Sprintf(". All %d rules of the check (statement of each in the evidence file): ", len(all)) + strings.Join(all, ", ")
			}
		}
		ln := p.levelNote
		if ln == "" {
			ln = "Trusted: go/packages+go/types+go/ssa (x/tools v0.29.0), VTA call graph (no reflection edges). Not decided: " + strings.Join(p.notDecided, "; ")
		}
		checks = append(checks, map[string]any{
			"property_id":         id,
			"quick_cmd":           "./check.sh " + id + " quick",
			"thorough_cmd":        "./check.sh " + id + " thorough",
			"evidence_file":       "/verif/evidence/" + id + ".json",
			"replay_cmd_template": "cat {path}; ./check.sh " + id + " quick",
			"engine":              "einocheck",
			"technique":           tech,
			"level_claimed":       map[string]any{"category": "other", "text": lt, "design_ref": "DESIGN.md §4 " + id},
			"level_note":          ln,
		})
	}
	na := []any{}
	for i := 1; i <= 20; i++ {
		id := fmt.Sprintf("C%02d", i)
		if props[id] != nil {
			continue
		}
		reason := notApplicable[id]
		if reason == "" {
			reason = "no static check registered for this property yet (see DESIGN.md §4 for the planned structural clauses); not claimed"
		}
		na = append(na, map[string]any{"property_id": id, "reason": reason})
	}
	m := map[string]any{
		"version":   1,
		"setup_cmd": "cd /verif/checker && GOFLAGS=-mod=mod GOPROXY=off GOSUMDB=off GOTOOLCHAIN=local GOWORK=off go build -o ../bin/einocheck .",
		"hooks": map[string]any{
			"guard":            "verif",
			"enable":           "none needed: the checks are static analyses of /repo's source (go/packages load of the working tree); no instrumentation is compiled into eino",
			"baseline_off_cmd": "/verif/scripts/baseline.sh /repo",
			"source_commits":   []string{},
			"add_only":         true,
		},
		"engines": []any{map[string]any{"name": "einocheck", "path": "/verif/checker", "serves_properties": ids,
			"kind_free_text": "custom static analyser (Go, x/tools v0.29.0: go/packages, go/ssa, callgraph/vta); one rule set per property; known findings in /verif/known-findings.json"}},
		"checks":         checks,
		"not_applicable": na,
		"notes":          "exit 0 = all obligations discharged or listed known findings; exit 1 + VIOLATION line = unlisted violation; exit 2 + UNDECIDED = anchors/floors no longer resolve (checker cannot decide). Fix commits in /repo are listed as 'fixed' in known-findings.json.",
	}
	b, _ := json.MarshalIndent(m, "", " ")
	os.Stdout.Write(b)
	fmt.Println()
}
