package main

import (
	"fmt"
	"go/constant"
	"go/token"
	"go/types"
	"sort"
	"strings"

	"golang.org/x/tools/go/ssa"
)

func init() {
	register(&propDef{
		id: "C08",
		explanation: "Static clauses of 'streams deliver every item exactly once, in order, to every reader': " +
			"(channel-ownership) the items/closed channels of a stream are sent/closed/received only by their designated functions; " +
			"(send-selects-closed) send first polls closed without blocking (so a closed reader is always reported on the next send) and its blocking select offers both the send and the closed case; " +
			"(forwarder-protocol) both forwarding goroutines recover into a (blocking) error item, close their output and their source on every exit, and leave the loop only on io.EOF or a closed receiver; " +
			"(copy-cell) a copy-list cell is written only inside its sync.Once literal; the cursor advances under the same `err != io.EOF` test in the filler and in the reader; closedNum is only touched atomically; the source is closed only when all children closed, each child counted once; " +
			"(kinds-exhaustive) Recv, Close and MergeStreamReaders handle all reader kinds; " +
			"(convert-skip) a converting reader skips only ErrNoValue items and returns every other error/EOF; " +
			"(merge-end) a merged reader ends only when no source is left, drops a source only when it is closed, and Close closes every source.",
		decided:    []string{"channel-ownership", "send-selects-closed", "forwarder-protocol", "copy-cell", "kinds-exhaustive", "convert-skip", "merge-end", "array-alias"},
		notDecided: []string{"ordering / exactly-once / deadlock freedom under all interleavings (model-checking question)", "behaviour of user convert functions", "fairness of select"},
		run:        runC08,
	})
	register(&propDef{
		id: "C19",
		explanation: "Static clauses of 'a finished streaming run leaves no blocked producer or goroutine behind' (every place where the framework drops or drains a stream closes it): " +
			"(surplus-closed) updateValues closes the copy handed to a successor that takes no data from the sender, for every target — the per-sender loop is never skipped; " +
			"(selected-never-skipped) calculateBranch prunes the targets selected by any branch from the skipped set only after all branches of the node were evaluated — a node that is sent a stream copy is never marked skipped (a skipped channel drops what it receives unread); " +
			"(drain-closes) concatStreamReader defers Close of what it drains before anything else; " +
			"(forwarders) forwarding goroutines close their source and output on every exit (C08.forwarder-protocol); " +
			"(last-close) closing the last copy closes the source, each child counted once (C08.copy-cell); " +
			"(close-exhaustive) StreamReader.Close handles all kinds, a merged reader closes every source, a converting reader delegates; " +
			"(copies-all-used) copyItem hands out every copy it creates.",
		decided:    []string{"surplus-closed", "selected-never-skipped", "drain-closes", "forwarders", "last-close", "close-exhaustive", "copies-all-used", "copies-match-consumers", "no-dropped-copy"},
		notDecided: []string{"absence of blocked goroutines as a run-time fact", "copy-count arithmetic beyond the linear forms of resolveCompletedTasks (no solver)", "streams dropped on framework error paths (outside the property's premise)", "user nodes that do not close their inputs"},
		run:        runC19,
	})
}

func isChanFieldOp(v ssa.Value, f *types.Var) bool { return isLoadOfField(v, f) }

func ioEOF(v ssa.Value) bool {
	u, ok := v.(*ssa.UnOp)
	if !ok {
		return false
	}
	g, ok := u.X.(*ssa.Global)
	return ok && g.Pkg != nil && g.Pkg.Pkg.Path() == "io" && g.Name() == "EOF"
}

// forwarderChecks: shared by C08.forwarder-protocol and C19.forwarders.
func forwarderChecks(w *World, r *Report, rule string) {
	streamSend := w.Fn("schema", "stream.send")
	closeSend := w.Fn("schema", "stream.closeSend")
	for _, name := range []string{"streamReaderWithConvert.toStream", "childStreamReader.toStream"} {
		ts := w.Fn("schema", name)
		var lit *ssa.Function
		instrs(ts, func(in ssa.Instruction) {
			if g, ok := in.(*ssa.Go); ok {
				lit = staticCallee(g)
			}
		})
		if lit == nil {
			r.Fail(rule, name+" forwarder", ts.Pos(), "no goroutine literal found")
			continue
		}
		d, dl, rv := recoverDefer(lit)
		if d == nil {
			r.Fail(rule, name+" forwarder recovers", lit.Pos(), "no deferred recover in the forwarding goroutine")
			continue
		}
		// the recovered error is delivered with the blocking stream.send (not a lossy non-blocking send)
		viaSend, how := taintReachesSink(dl, rv, func(c ssa.CallInstruction) bool { return isCallTo(c, streamSend) })
		lossy := funcContains(dl, func(in ssa.Instruction) bool {
			s, ok := in.(*ssa.Select)
			return ok && !s.Blocking
		})
		r.Check(viaSend && strings.Contains(how, "send") && !lossy, rule, name+": panic becomes an error item", dl.Pos(), "recover() -> ret.send(zero, err) (blocking)", "a panic in the forwarder is not (reliably) delivered as an error item: the consumer sees a clean EOF after truncated data")
		// on every exit: closeSend on the output and close of the source
		isCloseSend := func(in ssa.Instruction) bool { return isCallTo(in, closeSend) }
		isSrcClose := func(in ssa.Instruction) bool {
			c, ok := in.(ssa.CallInstruction)
			if !ok {
				return false
			}
			sc := staticCallee(c)
			return sc != nil && sc.Name() == "close" && sc.Signature.Recv() != nil
		}
		s1, w1 := pathQuery{fn: dl, goal: isReturn, avoid: isCloseSend}.exists()
		s2, w2 := pathQuery{fn: dl, goal: isReturn, avoid: isSrcClose}.exists()
		r.Check(!s1 && !s2, rule, name+": output and source closed on every exit", dl.Pos(), "closeSend() and source close() on every path of the deferred literal", "the forwarder can exit without closing its output / its source (reader blocks forever, producer leaks): "+w1+w2)
		// loop exits: only EOF or closed
		exits := 0
		badExit := ""
		for _, b := range lit.Blocks {
			iff, ok := b.Instrs[len(b.Instrs)-1].(*ssa.If)
			if !ok {
				continue
			}
			op, x, y, isCmp := asCmp(iff.Cond)
			switch {
			case isCmp && op == token.EQL && (ioEOF(y) || ioEOF(x)):
				exits++
			case !isCmp:
				// `if closed` where closed is the result of ret.send
				if c, ok := iff.Cond.(*ssa.Call); ok && isCallTo(c, streamSend) {
					exits++
				} else {
					badExit = iff.Cond.String()
				}
			default:
				badExit = iff.Cond.String()
			}
		}
		r.Check(exits == 2 && badExit == "", rule, name+": loop exits only on EOF or closed receiver", lit.Pos(), "two exit tests: err == io.EOF, send reported closed", "the forwarding loop has an unexpected exit condition "+badExit+" (items dropped) or lost one (goroutine never ends)")
	}
}

// copyCellChecks: shared by C08.copy-cell and C19.last-close.
func copyCellChecks(w *World, r *Report, rule string) {
	peek := w.Fn("schema", "parentStreamReader.peek")
	pclose := w.Fn("schema", "parentStreamReader.close")
	fItem := w.Field("schema", "cpStreamElement", "item")
	fNext := w.Field("schema", "cpStreamElement", "next")
	fClosedNum := w.Field("schema", "parentStreamReader", "closedNum")
	fSub := w.Field("schema", "parentStreamReader", "subStreamList")
	fSr := w.Field("schema", "parentStreamReader", "sr")
	var onceLit *ssa.Function
	instrs(peek, func(in ssa.Instruction) {
		if calleeFullName(in) == "(*sync.Once).Do" {
			c := in.(ssa.CallInstruction).Common()
			onceLit = staticCalleeOfValue(c.Args[len(c.Args)-1])
		}
	})
	if onceLit == nil {
		r.Fail(rule, "peek fills the cell under sync.Once", peek.Pos(), "no once.Do literal in peek")
		return
	}
	for _, fn := range w.RepoFuncs("schema") {
		for _, fw := range fieldWrites(fn) {
			if sameField(fw.field, fItem) || sameField(fw.field, fNext) {
				inOnce := origin(fn) == origin(onceLit) || (fn.Parent() != nil && origin(fn.Parent()) == origin(onceLit))
				ok := inOnce || freshBase(fw.base, 0)
				r.Check(ok, rule, fmt.Sprintf("cpStreamElement.%s written in %s", fw.field.Name(), w.fname(origin(fn))), fw.in.Pos(), "inside the once.Do literal (or while constructing a cell)", "a shared copy-list cell is written outside its sync.Once: concurrent children race / see different items")
			}
		}
	}
	// … and read only after it: every load of cell.item / cell.next in peek itself is dominated by the once.Do call (the
	// Once is the only happens-before edge between the child that filled the cell and the children that read it)
	{
		var onceCall ssa.Instruction
		instrs(peek, func(in ssa.Instruction) {
			if calleeFullName(in) == "(*sync.Once).Do" {
				onceCall = in
			}
		})
		nr := 0
		instrs(peek, func(in ssa.Instruction) {
			fa, ok := in.(*ssa.FieldAddr)
			if !ok {
				return
			}
			f := fieldVarOfAddr(fa)
			if !(sameField(f, fItem) || sameField(f, fNext)) {
				return
			}
			for _, ref := range *fa.Referrers() {
				ld, ok := ref.(*ssa.UnOp)
				if !ok {
					continue
				}
				nr++
				r.Check(onceCall != nil && instrDominates(onceCall, ld), rule, fmt.Sprintf("peek: read #%d of cell.%s follows once.Do", nr, f.Name()), ld.Pos(), "dominated by the once.Do call", "a child reads a copy-list cell without going through its sync.Once (a 'fast path' for a child that is behind): plain reads of fields another goroutine wrote inside the Once, with no happens-before edge — a data race between Recv calls on sibling copies, which are allowed to run on different goroutines; on weakly ordered hardware the lagging copy can see a stale or half-written item")
			}
		})
		if nr == 0 {
			undecidedf("%s: peek reads no cell field", rule)
		}
	}
	// … and what peek answers with is what the cell holds: no return after the once.Do call avoids the reads of the cell
	// (the filler answering from its own locals differs from its siblings when the fill went through the recover handler)
	{
		var onceCall ssa.Instruction
		instrs(peek, func(in ssa.Instruction) {
			if calleeFullName(in) == "(*sync.Once).Do" {
				onceCall = in
			}
		})
		if onceCall != nil {
			isCellRead := func(in ssa.Instruction) bool {
				ld, ok := in.(*ssa.UnOp)
				if !ok {
					return false
				}
				for fa, ok := ld.X.(*ssa.FieldAddr); ok; fa, ok = fa.X.(*ssa.FieldAddr) {
					if sameField(fieldVarOfAddr(fa), fItem) {
						return true
					}
				}
				return false
			}
			skip, wit := pathQuery{fn: peek, from: onceCall, goal: isReturn, avoid: isCellRead}.exists()
			r.Check(!skip, rule, "peek answers from the cell on every path behind once.Do", onceCall.Pos(), "no return after the Once avoids reading cell.item", "a copy can return without reading the cell it has just been through ("+wit+"): the child that fills a cell answers from its locals — when the source panicked inside the Once the recover handler recorded the error in the cell, the filler's locals are still zero, so the filling copy sees a phantom zero item and then the error while its siblings see only the error: the copies' sequences differ, and which copy is affected depends on the read order")
		}
	}
	// a panic of the source read inside once.Do leaves the Once done and the cell empty: every other copy would then
	// read a zero item that was never sent and a nil `next` (taken for "closed"). The filler must recover and record
	// the panic in the cell, and still link the next cell.
	{
		_, rec, rv := recoverDefer(onceLit)
		okRec := false
		det := "the once.Do literal has no deferred recover"
		if rec != nil && rv != nil {
			wItem, wNext := false, false
			for _, fw := range fieldWrites(rec) {
				if sameField(fw.field, fItem) {
					wItem = true
				}
				if sameField(fw.field, fNext) {
					wNext = true
				}
			}
			okRec = wItem && wNext
			det = fmt.Sprintf("the recover handler records the item=%v and links the next cell=%v", wItem, wNext)
		}
		r.Check(okRec, rule, "peek: a panic of the source read is recorded in the cell", onceLit.Pos(), "deferred recover inside once.Do writes cell.item (error) and cell.next",
			"a panic of p.sr.Recv() inside once.Do (a converting reader whose convert function panics) poisons the shared cell: "+det+" — the other copies read a phantom zero item with nil error, then ErrRecvAfterClosed for ever (no EOF), and the source is never closed")
	}
	// sibling agreement: the filler (once literal) and the reader (peek) advance the cursor under the same `err != io.EOF` test
	advGuard := func(fn *ssa.Function) (string, token.Pos) {
		desc := ""
		var pos token.Pos
		instrs(fn, func(in ssa.Instruction) {
			st, ok := in.(*ssa.Store)
			if !ok {
				return
			}
			ia, ok := st.Addr.(*ssa.IndexAddr)
			if !ok || !isLoadOfField(ia.X, fSub) {
				return
			}
			if isNilConst(st.Val) {
				return
			}
			pos = st.Pos()
			for _, g := range guardsOf(st.Block()) {
				op, x, y, ok := asCmp(g.cond)
				if !ok {
					continue
				}
				if ioEOF(y) || ioEOF(x) {
					if (op == token.NEQ && g.pol) || (op == token.EQL && !g.pol) {
						desc = "err != io.EOF"
					} else {
						desc = "err == io.EOF"
					}
				} else if isNilConst(y) && types.Identical(x.Type(), types.Universe.Lookup("error").Type()) {
					if (op == token.EQL && g.pol) || (op == token.NEQ && !g.pol) {
						desc = "err == nil"
					} else {
						desc = "err != nil"
					}
				}
			}
			if desc == "" {
				desc = "unconditional"
			}
		})
		return desc, pos
	}
	g1, p1 := advGuard(onceLit)
	g2, _ := advGuard(peek)
	r.Check(g1 == "err != io.EOF" && g2 == "err != io.EOF", rule, "copy cursor advances under err != io.EOF in filler and reader", p1, "both sites test err != io.EOF: error items are ordinary items, only EOF is terminal", fmt.Sprintf("filler advances under [%s], reader under [%s]: after an error item a copy's cursor becomes nil (treated as closed) or runs past the end", g1, g2))
	// closedNum only via sync/atomic
	for _, fn := range w.RepoFuncs("schema") {
		instrs(fn, func(in ssa.Instruction) {
			fa, ok := in.(*ssa.FieldAddr)
			if !ok || !sameField(fieldVarOfAddr(fa), fClosedNum) {
				return
			}
			atomicOnly := true
			for _, ref := range *fa.Referrers() {
				c, ok := ref.(ssa.CallInstruction)
				if ok && strings.HasPrefix(calleeFullName(c), "sync/atomic.") {
					continue
				}
				if st, ok := ref.(*ssa.Store); ok && freshBase(fa.X, 0) && isConstN(st.Val, 0) {
					continue
				}
				atomicOnly = false
			}
			r.Check(atomicOnly, rule, "closedNum accessed in "+w.fname(origin(fn)), fa.Pos(), "sync/atomic only", "closed-children counter accessed non-atomically: two children closing concurrently lose a count (source never closed) or double count")
		})
	}
	// close: nil guard first, nil store, atomic add, source closed iff count == len
	{
		var add ssa.CallInstruction
		instrs(pclose, func(in ssa.Instruction) {
			if calleeFullName(in) == "sync/atomic.AddUint32" {
				add = in.(ssa.CallInstruction)
			}
		})
		good := add != nil
		det := ""
		if good {
			// guard: subStreamList[idx] != nil
			g := hasGuard(add.Block(), func(g guard) bool {
				return guardNonNil(g, func(v ssa.Value) bool {
					u, ok := v.(*ssa.UnOp)
					if !ok {
						return false
					}
					ia, ok := u.X.(*ssa.IndexAddr)
					return ok && isLoadOfField(ia.X, fSub)
				})
			})
			if !g {
				good, det = false, "the add is not guarded by subStreamList[idx] != nil (a child closed twice is counted twice)"
			}
			// nil store dominates the add
			nilStore := false
			instrs(pclose, func(in ssa.Instruction) {
				if st, ok := in.(*ssa.Store); ok && isNilConst(st.Val) {
					if ia, ok := st.Addr.(*ssa.IndexAddr); ok && isLoadOfField(ia.X, fSub) && instrDominates(st, add) {
						nilStore = true
					}
				}
			})
			if !nilStore {
				good, det = false, det+" the child's slot is not cleared before counting"
			}
			// source close guarded by count == len(subStreamList)
			srcOK := false
			instrs(pclose, func(in ssa.Instruction) {
				c, ok := in.(ssa.CallInstruction)
				if !ok || len(c.Common().Args) == 0 || !isLoadOfField(c.Common().Args[0], fSr) {
					return
				}
				if hasGuard(in.Block(), func(g guard) bool {
					op, x, y, ok := asCmp(g.cond)
					if !ok || op != token.EQL || !g.pol {
						return false
					}
					isLen := func(v ssa.Value) bool { return isLenOf(v, func(m ssa.Value) bool { return isLoadOfField(m, fSub) }) }
					fromAdd := func(v ssa.Value) bool {
						for d := 0; d < 3; d++ {
							if v == add.(ssa.Value) {
								return true
							}
							if cv, ok := v.(*ssa.Convert); ok {
								v = cv.X
							} else {
								break
							}
						}
						return v == add.(ssa.Value)
					}
					return (isLen(y) && fromAdd(x)) || (isLen(x) && fromAdd(y))
				}) {
					srcOK = true
				}
			})
			if !srcOK {
				good, det = false, det+" the source is not closed exactly when the count reaches len(subStreamList)"
			}
		}
		r.Check(good, rule, "parentStreamReader.close: count once, close the source with the last child", pclose.Pos(), "nil-guard; slot cleared; atomic add; sr.Close() iff count == number of children", "last-close protocol broken:"+det)
		// the source is closed nowhere else
		for _, fn := range w.RepoFuncs("schema") {
			instrs(fn, func(in ssa.Instruction) {
				c, ok := in.(ssa.CallInstruction)
				if ok && len(c.Common().Args) > 0 && isLoadOfField(c.Common().Args[0], fSr) {
					if sc := staticCallee(c); sc != nil && sc.Name() == "Close" {
						r.Check(origin(fn) == origin(pclose), rule, "parent source closed in "+w.fname(origin(fn)), in.Pos(), "only by the last-close logic", "the shared source is closed while other copies still read it")
					}
				}
			})
		}
	}
}

func kindsExhaustive(w *World, r *Report, rule string, fnNames ...string) {
	rt := w.Named("schema", "readerType")
	var consts []int64
	sc := w.Pkg("schema").Types.Scope()
	for _, n := range sc.Names() {
		if c, ok := sc.Lookup(n).(*types.Const); ok && types.Identical(c.Type(), rt) {
			v, _ := constant.Int64Val(c.Val())
			consts = append(consts, v)
		}
	}
	if len(consts) < 5 {
		undecidedf("%s: %d readerType constants (floor 5)", rule, len(consts))
	}
	fTyp := w.Field("schema", "StreamReader", "typ")
	for _, name := range fnNames {
		fn := w.Fn("schema", name)
		seen := map[int64]bool{}
		instrs(fn, func(in ssa.Instruction) {
			b, ok := in.(*ssa.BinOp)
			if !ok || b.Op != token.EQL {
				return
			}
			if isLoadOfField(b.X, fTyp) || isLoadOfField(b.Y, fTyp) {
				if v, ok := constInt(b.Y); ok {
					seen[v] = true
				} else if v, ok := constInt(b.X); ok {
					seen[v] = true
				}
			}
		})
		var missing []string
		for _, c := range consts {
			if !seen[c] {
				missing = append(missing, fmt.Sprint(c))
			}
		}
		r.Check(len(missing) == 0, rule, name+" handles every reader kind", fn.Pos(), fmt.Sprintf("%d kinds", len(consts)), "reader kind(s) "+strings.Join(missing, ",")+" fall into the panicking default")
	}
}

func mergedCloseAll(w *World, r *Report, rule string) {
	mclose := w.Fn("schema", "multiStreamReader.close")
	fSts := w.Field("schema", "multiStreamReader", "sts")
	closeRecv := w.Fn("schema", "stream.closeRecv")
	good := false
	instrs(mclose, func(in ssa.Instruction) {
		if !isCallTo(in, closeRecv) {
			return
		}
		recv := in.(ssa.CallInstruction).Common().Args[0]
		// element of a range over msr.sts, indexed by the loop's own index
		if u, ok := recv.(*ssa.UnOp); ok {
			if ia, ok := u.X.(*ssa.IndexAddr); ok && isLoadOfField(ia.X, fSts) {
				// the loop bound is len(msr.sts)
				if hasGuard(in.Block(), func(g guard) bool {
					op, x, y, ok := asCmp(g.cond)
					return ok && op == token.LSS && g.pol && x == ia.Index && isLenOf(y, func(v ssa.Value) bool { return isLoadOfField(v, fSts) })
				}) {
					good = true
				}
			}
		}
	})
	r.Check(good, rule, "multiStreamReader.close closes every source", mclose.Pos(), "range over msr.sts, closeRecv on each element", "a merged reader's Close does not close every source stream (it iterates another list / uses another index): producers of still-running sources block forever")
}

func runC08(w *World, r *Report) {
	fItems := w.Field("schema", "stream", "items")
	fClosed := w.Field("schema", "stream", "closed")
	send := w.Fn("schema", "stream.send")

	// ---- channel-ownership
	r.Rule("C08.channel-ownership", "stream.items / stream.closed are operated only by their designated functions", 6)
	allowed := map[string]map[string]bool{
		"send items":    {"(*schema.stream[T]).send": true},
		"recv items":    {"(*schema.stream[T]).recv": true, "schema.receiveN": true},
		"recv closed":   {"(*schema.stream[T]).send": true},
		"close items":   {"(*schema.stream[T]).closeSend": true},
		"close closed":  {"(*schema.stream[T]).closeRecv": true},
		"reflect items": {"schema.newMultiStreamReader": true},
	}
	note := func(kind string, fn *ssa.Function, pos token.Pos) {
		top := w.fname(origin(topFunc(fn)))
		r.Check(allowed[kind][top], "C08.channel-ownership", kind+" in "+top, pos, "designated owner", "a stream channel is operated outside its owner function (breaks the single-writer/single-reader protocol)")
	}
	for _, fn := range w.RepoFuncs("schema", "compose", "internal") {
		instrs(fn, func(in ssa.Instruction) {
			switch x := in.(type) {
			case *ssa.Send:
				if isLoadOfField(x.Chan, fItems) {
					note("send items", fn, x.Pos())
				}
			case *ssa.UnOp:
				if x.Op == token.ARROW {
					if isLoadOfField(x.X, fItems) {
						note("recv items", fn, x.Pos())
					} else if isLoadOfField(x.X, fClosed) {
						note("recv closed", fn, x.Pos())
					}
				}
			case *ssa.Select:
				for _, st := range x.States {
					if isLoadOfField(st.Chan, fItems) {
						if st.Dir == types.SendOnly {
							note("send items", fn, x.Pos())
						} else {
							note("recv items", fn, x.Pos())
						}
					} else if isLoadOfField(st.Chan, fClosed) {
						note("recv closed", fn, x.Pos())
					}
				}
			case *ssa.Call:
				if isBuiltin(x, "close") {
					if isLoadOfField(x.Call.Args[0], fItems) {
						note("close items", fn, x.Pos())
					} else if isLoadOfField(x.Call.Args[0], fClosed) {
						note("close closed", fn, x.Pos())
					}
				}
				if calleeFullName(x) == "reflect.ValueOf" && isLoadOfField(through(x.Call.Args[0]), fItems) {
					note("reflect items", fn, x.Pos())
				}
			}
		})
	}

	// ---- send-selects-closed
	r.Rule("C08.send-selects-closed", "send polls closed first (non-blocking, returns true), then blocks on {closed, items<-}", 2)
	{
		var poll, block *ssa.Select
		instrs(send, func(in ssa.Instruction) {
			s, ok := in.(*ssa.Select)
			if !ok {
				return
			}
			hasClosed, hasSend := false, false
			for _, st := range s.States {
				if isLoadOfField(st.Chan, fClosed) && st.Dir == types.RecvOnly {
					hasClosed = true
				}
				if isLoadOfField(st.Chan, fItems) && st.Dir == types.SendOnly {
					hasSend = true
				}
			}
			if !s.Blocking && hasClosed && !hasSend {
				poll = s
			}
			if s.Blocking && hasSend {
				block = s
				if !hasClosed {
					r.Fail("C08.send-selects-closed", "send: blocking select offers the closed case", s.Pos(), "a send on a stream whose reader closed blocks forever once the buffer is full")
				}
			}
		})
		// … and that select is the ONLY way an item gets onto the channel: no plain `items <- x` anywhere in the package
		// (a plain send cannot be woken by closeRecv: a sender holding an error item when the reader goes away stays blocked,
		// and a forwarding goroutine blocked there never runs its deferred close of the source)
		plainSendChecks(w, r, "C08.send-selects-closed")
		r.Check(block != nil, "C08.send-selects-closed", "send: blocking select {closed, items<-}", send.Pos(), "both cases offered", "no blocking select with the send case")
		good := poll != nil && block != nil && instrDominates(poll, block)
		r.Check(good, "C08.send-selects-closed", "send: closed has priority over a buffered send", send.Pos(), "a non-blocking poll of closed dominates the blocking select", "without the priority poll a send into a closed stream with free buffer space succeeds at random: the writer is not told on its next send")
	}

	// ---- forwarder-protocol
	r.Rule("C08.forwarder-protocol", "forwarding goroutines: recover -> error item, close output+source on every exit, loop exits on EOF/closed only", 6)
	forwarderChecks(w, r, "C08.forwarder-protocol")

	// ---- copy-cell
	r.Rule("C08.copy-cell", "copy-list cells written under sync.Once; cursor advance agrees; atomic close count; last child closes the source", 6)
	copyCellChecks(w, r, "C08.copy-cell")
	r.Rule("C08.source-behind-the-copies-only", "the source of a copied stream is read and closed by the parent's own methods only (peek fills the shared cell, close counts the copies): no other function of package schema touches parentStreamReader.sr — a merge that reads the source directly for 'the last copy still open' loses the items the closed siblings had already pulled into the shared list", 2)
	{
		pT := w.Named("schema", "parentStreamReader")
		n := 0
		for _, fn := range w.RepoFuncs("schema") {
			top := topFunc(fn)
			own := false
			if rv := top.Signature.Recv(); rv != nil && namedOf(rv.Type()) != nil && namedOf(rv.Type()).Origin().Obj() == pT.Obj() {
				own = true
			}
			instrs(fn, func(in ssa.Instruction) {
				fa, ok := in.(*ssa.FieldAddr)
				if !ok {
					return
				}
				fv := fieldVarOfAddr(fa)
				if fv == nil || fv.Name() != "sr" {
					return
				}
				if nt := namedOf(deref(fa.X.Type())); nt == nil || nt.Origin().Obj() != pT.Obj() {
					return
				}
				// the constructor's store into a fresh parent
				if freshBase(fa.X, 0) {
					return
				}
				n++
				r.Check(own, "C08.source-behind-the-copies-only", fmt.Sprintf("%s touches parentStreamReader.sr", w.fname(origin(fn))), fa.Pos(), "a method of parentStreamReader", "the source behind the copies is reached from outside the parent: items that sibling copies pulled from the source before they were closed exist only in the shared linked list, so a reader of the raw source delivers [2 3 4] where every copy must see [1 2 3 4]")
			})
		}
		if n < 2 {
			r.Deferred = append(r.Deferred, fmt.Sprintf("C08.source-behind-the-copies-only: only %d accesses of parentStreamReader.sr found", n))
		}
	}
	r.Rule("C08.copies-share-the-converted-items", "the copies of a converted reader share the CONVERTED items: nothing on the way of StreamReader.Copy builds a convert reader, so a convert function runs once per item (inside the shared cell) whatever the number of copies — a stateful convert (numbering, de-duplicating, dropping by history) would otherwise show each copy a different sequence, and its panic would escape from one copy's Recv instead of landing in the cell", 1)
	{
		cp := w.Fn("schema", "StreamReader.Copy")
		bad := ""
		n := 0
		for f := range w.reach(true, cp) {
			if f.Blocks == nil || !w.inRepo(f) {
				continue
			}
			n++
			instrs(f, func(in ssa.Instruction) {
				if al, ok := in.(*ssa.Alloc); ok {
					if nt := namedOf(al.Type()); nt != nil && nt.Origin().Obj().Name() == "streamReaderWithConvert" {
						bad = w.fname(origin(f)) + " builds a streamReaderWithConvert"
					}
				}
				if c, ok := in.(ssa.CallInstruction); ok {
					if sc := staticCallee(c); sc != nil && origin(sc).Name() == "newStreamReaderWithConvert" {
						bad = w.fname(origin(f)) + " calls newStreamReaderWithConvert"
					}
				}
			})
		}
		r.Check(bad == "", "C08.copies-share-the-converted-items", "StreamReader.Copy and what it calls build no convert reader", cp.Pos(), fmt.Sprintf("%d functions on the way of Copy", n), bad+": the source is copied below the conversion and every copy converts for itself, in its own read order — with a numbering convert three copies of [a b c] read [4:a 5:b 6:c] instead of [1:a 2:b 3:c], with an ErrNoValue de-duplication [[x y y] [y z] [x x z]] instead of [x y z] each")
	}

	// ---- kinds-exhaustive
	r.Rule("C08.kinds-exhaustive", "Recv / Close / MergeStreamReaders switch over all reader kinds", 3)
	kindsExhaustive(w, r, "C08.kinds-exhaustive", "StreamReader.Recv", "StreamReader.Close", "MergeStreamReaders")

	// ---- convert-skip
	r.Rule("C08.convert-skip", "streamReaderWithConvert.recv skips only ErrNoValue", 2)
	{
		rv := w.Fn("schema", "streamReaderWithConvert.recv")
		env := w.GlobalVar("schema", "ErrNoValue")
		// the only way back to the loop head after a convert error is errors.Is(err, ErrNoValue) == true
		var isCall *ssa.Call
		instrs(rv, func(in ssa.Instruction) {
			if c, ok := in.(*ssa.Call); ok && calleeFullName(c) == "errors.Is" {
				if u, ok := c.Call.Args[1].(*ssa.UnOp); ok {
					if g, ok := u.X.(*ssa.Global); ok && g.Object() == types.Object(env) {
						isCall = c
					}
				}
			}
		})
		var recvAny ssa.Instruction
		instrs(rv, func(in ssa.Instruction) {
			if invokeName(in) == "recvAny" {
				recvAny = in
			}
		})
		good := isCall != nil && recvAny != nil
		if good {
			// back edges to recvAny: only through the true edge of `if errors.Is(...)` (the false edge returns)
			var okEdge [2]*ssa.BasicBlock
			for _, ref := range *isCall.Referrers() {
				if iff, ok := ref.(*ssa.If); ok {
					// `if !errors.Is(..) {return}`: false succ of the negation... cond is the call itself (ssa swaps succs for !)
					okEdge = [2]*ssa.BasicBlock{iff.Block(), iff.Block().Succs[0]}
				}
			}
			again, wit := pathQuery{fn: rv, from: recvAny, goal: func(in ssa.Instruction) bool { return in == recvAny }, avoidEdge: func(a, b *ssa.BasicBlock) bool { return a == okEdge[0] && b == okEdge[1] }}.exists()
			good = !again
			_ = wit
		}
		r.Check(good, "C08.convert-skip", "convert reader loops only on ErrNoValue", rv.Pos(), "the loop repeats only when errors.Is(err, ErrNoValue)", "items are skipped for other errors (or ErrNoValue is no longer skipped)")
		// a source error / EOF is returned as is
		srcErrReturned := false
		instrs(rv, func(in ssa.Instruction) {
			ret, ok := in.(*ssa.Return)
			if !ok {
				return
			}
			if e, ok := ret.Results[1].(*ssa.Extract); ok && e.Index == 1 && e.Tuple == recvAny.(ssa.Value) {
				srcErrReturned = true
			}
		})
		r.Check(srcErrReturned, "C08.convert-skip", "convert reader returns source errors unchanged", rv.Pos(), "return t, err of the source", "errors/EOF of the source are not passed through")
	}

	// ---- a converter's view of a stream item: a nil interface item has lost its static type when it comes back out of
	// recvAny; a plain assertion `item.(T)` to a type parameter / interface type panics on it
	r.Rule("C08.convert-item-assert", "in every converter handed to StreamReaderWithConvert / newStreamReaderWithConvert, a type assertion of the item to a type parameter or interface type uses the comma-ok form (a nil interface item is a legal item; the plain form panics on it)", 2)
	{
		conv := map[*ssa.Function]bool{w.Fn("schema", "StreamReaderWithConvert"): true, w.Fn("schema", "newStreamReaderWithConvert"): true}
		seen := map[*ssa.Function]bool{}
		for _, fn := range w.RepoFuncs("") {
			instrs(fn, func(in ssa.Instruction) {
				c, ok := in.(ssa.CallInstruction)
				if !ok {
					return
				}
				sc := staticCallee(c)
				if sc == nil || !conv[origin(sc)] || len(c.Common().Args) < 2 {
					return
				}
				var lit *ssa.Function
				switch a := c.Common().Args[1].(type) {
				case *ssa.MakeClosure:
					lit, _ = a.Fn.(*ssa.Function)
				case *ssa.Function:
					lit = a
				}
				if lit == nil || len(lit.Params) == 0 || seen[lit] {
					return
				}
				seen[lit] = true
				item := lit.Params[0]
				if _, isIface := item.Type().Underlying().(*types.Interface); !isIface {
					if _, isTP := item.Type().(*types.TypeParam); !isTP {
						return
					}
				}
				k := 0
				instrs(lit, func(in2 ssa.Instruction) {
					ta, ok := in2.(*ssa.TypeAssert)
					if !ok || ta.X != ssa.Value(item) {
						return
					}
					_, toTP := ta.AssertedType.(*types.TypeParam)
					_, toIface := ta.AssertedType.Underlying().(*types.Interface)
					if !toTP && !toIface {
						return
					}
					k++
					r.Check(ta.CommaOk, "C08.convert-item-assert", fmt.Sprintf("item assertion #%d in converter %s", k, w.fname(lit)), ta.Pos(), "comma-ok form: a nil interface item yields the zero value", "plain assertion of a stream item to a type parameter / interface: a nil interface item (legal, delivered by unconverted readers, copies and merges) makes Recv on the converted stream panic")
				})
			})
		}
	}

	// ---- array-backed readers share their backing array with every copy: nobody appends to it in place
	r.Rule("C08.array-alias", "no append on a slice derived from arrayReader.arr (the copies of an array-backed stream share that array): appends start from a fresh slice", 1)
	arrayAliasCheck(w, r, "C08.array-alias")

	r.Rule("C08.sync-fill-bounded", "a stream filled by its creator before any reader exists (MergeStreamReaders' array part) has the capacity of the filling loop's bound", 1)
	syncFillBounded(w, r, "C08.sync-fill-bounded")
	r.Rule("C08.select-table", "the static select table of the merged reader: the entry for n sources receives from n distinct sources and each case returns the index and item of its own source", 4)
	selectTableCheck(w, r, "C08.select-table")

	// ---- merge-end
	r.Rule("C08.merge-end", "merged reader: EOF only when no source is left; a source is dropped only when closed; Close closes all; static/reflect select boundary consistent; array-backed copies inherit the position", 5)
	{
		mr := w.Fn("schema", "multiStreamReader.recv")
		fChosen := w.Field("schema", "multiStreamReader", "chosenList")
		// EOF return guarded by len(chosenList) > 0 being false
		okEOF := false
		instrs(mr, func(in ssa.Instruction) {
			ret, ok := in.(*ssa.Return)
			if !ok || !ioEOF(ret.Results[1]) {
				return
			}
			if hasGuard(ret.Block(), func(g guard) bool {
				op, x, y, ok := asCmp(g.cond)
				return ok && op == token.GTR && !g.pol && isConstN(y, 0) && isLenOf(x, func(v ssa.Value) bool { return isLoadOfField(v, fChosen) })
			}) {
				okEOF = true
			}
		})
		r.Check(okEOF, "C08.merge-end", "merged recv returns EOF only when every source ended", mr.Pos(), "EOF under len(chosenList) == 0", "a merged stream can end while sources are still open")
		// removal from chosenList only on !ok paths: the store to chosenList is not reachable from an `ok` true arm
		var stores []ssa.Instruction
		for _, fw := range fieldWrites(mr) {
			if sameField(fw.field, fChosen) {
				stores = append(stores, fw.in)
			}
		}
		good := len(stores) > 0
		instrs(mr, func(in ssa.Instruction) {
			iff, ok := in.(*ssa.If)
			if !ok {
				return
			}
			if phi, ok := iff.Cond.(*ssa.Phi); ok {
				_ = phi
			}
			// conditions that are the ok results: Extract #2 of reflect.Select / receiveN
			e, ok := iff.Cond.(*ssa.Extract)
			if !ok || e.Index != 2 {
				return
			}
			reach, _ := pathFromBlock(pathQuery{fn: mr, goal: func(i ssa.Instruction) bool {
				for _, s := range stores {
					if s == i {
						return true
					}
				}
				return false
			}}, iff.Block().Succs[0])
			if reach {
				good = false
			}
		})
		r.Check(good, "C08.merge-end", "merged recv drops a source only when it is closed", mr.Pos(), "ok arms return the item; only !ok reaches the removal", "a source that delivered an item is removed from the merge")
		mergedCloseAll(w, r, "C08.merge-end")
		mergeDispatchCheck(w, r, "C08.merge-end")
		arrayCopyCheck(w, r, "C08.merge-end")
	}
}

func runC19(w *World, r *Report) {
	// ---- surplus-closed
	r.Rule("C19.surplus-closed", "updateValues closes streams sent to non-data successors; the per-sender loop runs for every target", 2)
	uv := w.Fn("compose", "channelManager.updateValues")
	{
		// the close call on a streamReader type-asserted from the value, on the not-a-data-predecessor arm
		var closeCall ssa.Instruction
		instrs(uv, func(in ssa.Instruction) {
			if invokeName(in) == "close" {
				closeCall = in
			}
		})
		good := closeCall != nil
		if good {
			good = hasGuard(closeCall.Block(), func(g guard) bool {
				e, ok := g.cond.(*ssa.Extract)
				if !ok || e.Index != 1 || g.pol {
					return false
				}
				lk, ok := e.Tuple.(*ssa.Lookup)
				return ok && lk.CommaOk && derivesFromFieldLookup(lk.X, "dataPredecessors", 0)
			})
		}
		r.Check(good, "C19.surplus-closed", "updateValues closes the surplus copy", uv.Pos(), "value.(streamReader).close() when the sender is not a data predecessor", "the stream copy handed to a control-only successor is never closed: its source pipe is never released")
		// the inner loop over fromMap is reached for every target: from the outer body no path to the next outer iteration avoids the inner range
		var outerNext *ssa.Next
		var innerRange *ssa.Range
		instrs(uv, func(in ssa.Instruction) {
			if rg, ok := in.(*ssa.Range); ok {
				if _, isParam := rg.X.(*ssa.Parameter); isParam {
					// outer: range over the values parameter
					instrs(uv, func(i2 ssa.Instruction) {
						if n, ok := i2.(*ssa.Next); ok && n.Iter == ssa.Value(rg) {
							outerNext = n
						}
					})
				} else if e, ok := rg.X.(*ssa.Extract); ok {
					if n, ok := e.Tuple.(*ssa.Next); ok && n == outerNext || true {
						if _, isNext := e.Tuple.(*ssa.Next); isNext {
							innerRange = rg
						}
					}
				}
			}
		})
		okLoop := outerNext != nil && innerRange != nil
		if okLoop {
			body := outerNext.Block().Succs[0]
			skip, wit := pathFromBlock(pathQuery{fn: uv, goal: func(in ssa.Instruction) bool { return in == ssa.Instruction(outerNext) },
				avoid: func(in ssa.Instruction) bool { return in == ssa.Instruction(innerRange) }}, body)
			okLoop = !skip
			_ = wit
		}
		r.Check(okLoop, "C19.surplus-closed", "updateValues visits every sender of every target", uv.Pos(), "the per-sender loop cannot be skipped for a target", "for some targets (e.g. nodes without data predecessors) the senders' values are never looked at: their stream copies stay unclosed")
	}

	// ---- what is sent to a skipped node (through a data-only edge, or an edge next to a branch that did not pick it) is
	// given up properly: reportValues closes the stream copies it is not going to keep
	r.Rule("C19.skipped-drops-closed", "a skipped DAG channel closes the stream values it will never hand out: those reported after the skip (reportValues) and those already stored when the skip arrives (reportSkip)", 2)
	{
		rv := w.Fn("compose", "dagChannel.reportValues")
		fSkipped := skipFlagOf(w)
		n := 0
		instrs(rv, func(in ssa.Instruction) {
			iff, ok := in.(*ssa.If)
			if !ok || !isLoadOfField(iff.Cond, fSkipped) {
				return
			}
			n++
			arm := iff.Block().Succs[0]
			leak, wit := pathFromBlock(pathQuery{fn: rv, goal: isReturn, avoid: func(x ssa.Instruction) bool { return invokeName(x) == "close" }}, arm)
			// a close loop has a zero-iteration path too: accept when the arm ranges over the parameter and closes inside
			rangesIns := false
			for _, b := range rv.Blocks {
				if !(b == arm || arm.Dominates(b)) {
					continue
				}
				for _, x := range b.Instrs {
					if rg, ok := x.(*ssa.Range); ok {
						if _, isP := rg.X.(*ssa.Parameter); isP {
							rangesIns = true
						}
					}
				}
			}
			closes := false
			for _, b := range rv.Blocks {
				if b == arm || arm.Dominates(b) {
					for _, x := range b.Instrs {
						if invokeName(x) == "close" {
							closes = true
						}
					}
				}
			}
			r.Check(rangesIns && closes, "C19.skipped-drops-closed", "reportValues: skipped arm closes what it drops", iff.Cond.Pos(), "ranges over the reported values and closes the stream readers among them", "a skipped channel forgets the values it is handed without closing them ("+map[bool]string{true: wit, false: "no close on the skipped arm"}[leak]+"): a stream copy made for a node that a branch skipped (data-only edge into a branch target; edge next to a branch) is never closed, so after an early close by the caller the fan-out's source stays open and its producer stays blocked on Send")
		})
		if n == 0 {
			r.Fail("C19.skipped-drops-closed", "reportValues: skipped arm", rv.Pos(), "no test of the skip flag found in reportValues")
		}
	}

	// … and what had ALREADY been delivered when the node becomes skipped (the value arrived first, the skip second —
	// which of the two comes first depends on the schedule) is given up at that moment
	{
		rs := w.Fn("compose", "dagChannel.reportSkip")
		fValues := w.Field("compose", "dagChannel", "Values")
		fSk := skipFlagOf(w)
		var skStore *ssa.Store
		for _, fw := range fieldWrites(rs) {
			if sameField(fw.field, fSk) {
				skStore, _ = fw.in.(*ssa.Store)
			}
		}
		good, det := false, "reportSkip does not set the skip flag"
		if skStore != nil {
			det = "no close of the values stored in the channel on the arm on which the channel has become skipped"
			instrs(rs, func(in ssa.Instruction) {
				if invokeName(in) != "close" {
					return
				}
				// inside a range over ch.Values, on an arm guarded by the very value stored into the skip flag
				rangesValues := false
				for _, b := range rs.Blocks {
					for _, x := range b.Instrs {
						if rg, ok := x.(*ssa.Range); ok && isLoadOfField(rg.X, fValues) && instrDominates(rg, in) {
							rangesValues = true
						}
					}
				}
				guarded := hasGuard(in.Block(), func(g guard) bool { return g.pol && g.cond == skStore.Val })
				// … and under nothing else (a further conjunct would leave some skipped channels with their streams open)
				extra := extraGuards(in.Block(), func(g guard) bool { return g.cond == skStore.Val }, guardIsLoopCond(rs), func(g guard) bool {
					e, ok := g.cond.(*ssa.Extract)
					if !ok {
						return false
					}
					_, isTA := e.Tuple.(*ssa.TypeAssert)
					return isTA
				}, func(g guard) bool {
					// "was not skipped before": a channel that already was skipped holds nothing any more (it gave its values up when it
					// became skipped, and reportValues closes what arrives later)
					fSkipped := dagSkipFlag(w)
					return !g.pol && isLoadOfField(g.cond, fSkipped)
				})
				if rangesValues && guarded && len(extra) == 0 {
					good = true
				} else if len(extra) > 0 {
					det = "the close of the stored values is further restricted by " + strings.Join(extra, " && ")
				}
			})
		}
		r.Check(good, "C19.skipped-drops-closed", "reportSkip: a channel that becomes skipped closes the stream values it already holds", rs.Pos(), "range over Values closing the stream readers, under the skipped condition", det+": a stream copy delivered to a node BEFORE a branch skips it (data-only input of a branch target) stays in the channel unread and unclosed — the producer stays blocked once the caller closes early; the opposite order is handled by reportValues")
	}

	// ---- the stream callback handlers the module itself ships (react's message future, the callback templates) give up
	// the copy they are handed on every path, like any handler must
	r.Rule("C19.bundled-handlers-close", "every stream callback handler defined in the module (func(ctx, *RunInfo, *StreamReader[…]) context.Context) closes its copy or hands it on, on every return path", 4)
	{
		n := 0
		for _, fn := range w.RepoFuncs("flow", "utils", "callbacks", "components") {
			sig := fn.Signature
			if sig.Params().Len() != 3 || sig.Results().Len() != 1 || len(fn.Blocks) == 0 {
				continue
			}
			if nm := namedOf(sig.Results().At(0).Type()); nm == nil || nm.Obj().Name() != "Context" {
				continue
			}
			pt, ok := sig.Params().At(2).Type().(*types.Pointer)
			if !ok {
				continue
			}
			if nm := namedOf(pt.Elem()); nm == nil || nm.Obj().Name() != "StreamReader" {
				continue
			}
			if ri, ok := sig.Params().At(1).Type().(*types.Pointer); !ok || namedOf(ri.Elem()) == nil || namedOf(ri.Elem()).Obj().Name() != "RunInfo" {
				continue
			}
			sp := fn.Params[len(fn.Params)-1]
			n++
			consumes := func(in ssa.Instruction) bool {
				ci, ok := in.(ssa.CallInstruction)
				if !ok {
					return false
				}
				if ci.Common().IsInvoke() && ci.Common().Value == ssa.Value(sp) {
					return true
				}
				// reading from the stream is not giving it up
				if sc := staticCallee(ci); sc != nil && origin(sc).Name() == "Recv" && len(ci.Common().Args) == 1 {
					return false
				}
				for _, a := range ci.Common().Args {
					if a == ssa.Value(sp) {
						return true
					}
				}
				return false
			}
			construct := "stream callback handler " + w.fname(origin(fn)) + " gives up its copy"
			if why, ok := bundledHandlerExceptions[w.fname(origin(fn))]; ok {
				r.Except("C19.bundled-handlers-close", construct, fn.Pos(), why)
				continue
			}
			// defensive `param == nil` tests: the true edge is not a path of a real call (the callback manager passes a
			// non-nil RunInfo and a non-nil copy)
			nilEdge := func(from, to *ssa.BasicBlock) bool {
				if len(from.Instrs) == 0 {
					return false
				}
				iff, ok := from.Instrs[len(from.Instrs)-1].(*ssa.If)
				if !ok {
					return false
				}
				op, x, y, ok := asCmp(iff.Cond)
				if !ok || !isNilConst(y) {
					return false
				}
				if _, isP := x.(*ssa.Parameter); !isP {
					return false
				}
				return (op == token.EQL && from.Succs[0] == to) || (op == token.NEQ && from.Succs[1] == to)
			}
			leak, wit := pathQuery{fn: fn, goal: isReturn, avoid: consumes, avoidEdge: nilEdge}.exists()
			r.Check(!leak, "C19.bundled-handlers-close", construct, fn.Pos(), "Close / hand-over before every return", "the handler returns without closing (or passing on) the stream copy it was given ("+wit+"): the copy keeps the fan-out's source open — with this handler installed, a caller that closes the run's output early leaves the producer (chat model, tool) blocked on Send for ever")
		}
		if n < 4 {
			r.Fail("C19.bundled-handlers-close", "stream callback handlers in the module", w.Fn("compose", "NewStreamGraphBranch").Pos(), fmt.Sprintf("%d handler-shaped functions found (floor 4)", n))
		}
	}

	// ---- a handler that declined a timing gets nothing for it: every handler list On hands to the dispatch goes through the TimingChecker test
	r.Rule("C19.declined-handlers-get-no-copy", "internal/callbacks.On builds the handler list element by element under the TimingChecker test: no bulk append of a manager's handler list (run-scoped or global) — a handler that said no to a stream timing is handed no copy of the stream (its stub method would never close it)", 1)
	{
		on := w.Fn("internal/callbacks", "On")
		fH := w.Field("internal/callbacks", "manager", "handlers")
		fG := w.Field("internal/callbacks", "manager", "globalHandlers")
		n, bad := 0, 0
		var at token.Pos
		instrs(on, func(in ssa.Instruction) {
			c, ok := in.(*ssa.Call)
			if !ok || !isBuiltin(c, "append") || len(c.Call.Args) < 2 {
				return
			}
			n++
			v := c.Call.Args[1]
			if sl, ok := v.(*ssa.Slice); ok {
				if _, isAlloc := sl.X.(*ssa.Alloc); isAlloc {
					return // a one-element variadic list
				}
				v = sl.X
			}
			if isLoadOfField(v, fH) || isLoadOfField(v, fG) {
				bad++
				at = c.Pos()
			}
		})
		if n == 0 {
			undecidedf("C19.declined-handlers-get-no-copy: On appends nothing")
		}
		r.Check(bad == 0, "C19.declined-handlers-get-no-copy", "On: handlers are admitted one by one", on.Pos(), fmt.Sprintf("%d appends, none spreads a whole handler list", n), "a whole handler list is appended unfiltered at "+w.pos(at)+": handlers in it that declined this timing (TimingChecker.Needed == false) are dispatched to all the same — for the stream timings each gets a copy of the streamed input / output which its stub method never closes, so the source is never closed and the producer stays blocked once the caller closes early")
	}

	// ---- the belief behind the two exceptions above, decided: what handlerTemplate.Needed can say yes to, the dispatchers handle
	r.Rule("C19.template-cases-agree", "utils/callbacks.handlerTemplate: the components Needed forwards to a user handler of the generic kind (composeTemplates) are exactly the ones each of the five dispatchers (OnStart, OnEnd, OnError, OnStartWithStreamInput, OnEndWithStreamOutput) forwards: a component Needed answers for and a dispatcher drops into `default` gets a stream copy made for it that nobody closes", 5)
	{
		fCT := w.Field("utils/callbacks", "HandlerHelper", "composeTemplates")
		caseSet := func(fn *ssa.Function) map[string]bool {
			out := map[string]bool{}
			instrs(fn, func(in ssa.Instruction) {
				iff, ok := in.(*ssa.If)
				if !ok {
					return
				}
				op, x, y, ok := asCmp(iff.Cond)
				if !ok || op != token.EQL {
					return
				}
				f, _ := loadedField(x)
				k, isC := y.(*ssa.Const)
				if f == nil || f.Name() != "Component" || !isC || k.Value == nil {
					return
				}
				// the arm the match leads to looks the component up in composeTemplates
				target := iff.Block().Succs[0]
				hit := false
				for _, b := range fn.Blocks {
					if b != target && !target.Dominates(b) {
						continue
					}
					// a block shared by several case labels is dominated by none of them: also accept the direct successor
					for _, x := range b.Instrs {
						if lk, ok := x.(*ssa.Lookup); ok && isLoadOfField(lk.X, fCT) {
							hit = true
						}
					}
				}
				if !hit {
					for _, x := range target.Instrs {
						if lk, ok := x.(*ssa.Lookup); ok && isLoadOfField(lk.X, fCT) {
							hit = true
						}
					}
				}
				if hit {
					out[k.Value.ExactString()] = true
				}
			})
			return out
		}
		hT := w.Named("utils/callbacks", "handlerTemplate")
		ref := caseSet(methodOf(w, hT, "Needed"))
		var refNames []string
		for k := range ref {
			refNames = append(refNames, k)
		}
		sort.Strings(refNames)
		if len(ref) < 3 {
			undecidedf("C19.template-cases-agree: Needed forwards only %d components to composeTemplates", len(ref))
		}
		for _, m := range []string{"OnStart", "OnEnd", "OnError", "OnStartWithStreamInput", "OnEndWithStreamOutput"} {
			fn := methodOf(w, hT, m)
			got := caseSet(fn)
			var missing, extra []string
			for k := range ref {
				if !got[k] {
					missing = append(missing, k)
				}
			}
			for k := range got {
				if !ref[k] {
					extra = append(extra, k)
				}
			}
			sort.Strings(missing)
			sort.Strings(extra)
			r.Check(len(missing) == 0 && len(extra) == 0, "C19.template-cases-agree", "handlerTemplate."+m+" forwards the components Needed answers for", fn.Pos(), "same case set as Needed: "+strings.Join(refNames, ", "),
				fmt.Sprintf("Needed answers for %v which this dispatcher does not forward (it falls to `default: return ctx`), dispatcher-only: %v — for a stream timing the callback manager has by then made a copy of the stream for this handler, and the default arm drops it unclosed: with HandlerHelper installed, a caller that closes the run's output early leaves the producer blocked in Send", missing, extra))
		}
	}

	// ---- a node that is sent a stream copy is never marked skipped (a skipped channel drops what it receives unread)
	r.Rule("C19.selected-never-skipped", "targets selected by any branch are removed from the skipped set after all branches were evaluated", 1)
	branchPruneCheck(w, r, "C19.selected-never-skipped")

	// ---- drain-closes
	r.Rule("C19.branch-conditions-close", "every stream branch condition of the bundled flows (react, host multi-agent) closes its copy of the stream, or hands it to a callee, on every return path", 3)
	if n := streamBranchConditionsClose(w, r, "C19.branch-conditions-close"); n < 3 {
		r.Fail("C19.branch-conditions-close", "stream branch conditions in flow/", w.Fn("compose", "NewStreamGraphBranch").Pos(), fmt.Sprintf("%d condition literals found (floor 3)", n))
	}
	r.Rule("C19.senders-wakeable", "every send of an item onto a stream's channel is a select that also watches the reader's close (no plain `items <- x`): a blocked sender is released when the reader goes away (shared with C08.send-selects-closed)", 1)
	plainSendChecks(w, r, "C19.senders-wakeable")
	r.Rule("C19.drain-closes", "concatStreamReader defers sr.Close() first", 1)
	{
		csr := w.Fn("compose", "concatStreamReader")
		var d *ssa.Defer
		instrs(csr, func(in ssa.Instruction) {
			if x, ok := in.(*ssa.Defer); ok {
				if sc := staticCallee(x); sc != nil && sc.Name() == "Close" {
					d = x
				}
			}
		})
		good := d != nil
		if good {
			instrs(csr, func(in ssa.Instruction) {
				if c, ok := in.(*ssa.Call); ok {
					if _, isB := c.Call.Value.(*ssa.Builtin); !isB && !instrDominates(d, c) {
						good = false
					}
				}
			})
		}
		r.Check(good, "C19.drain-closes", "concatStreamReader closes what it drains", csr.Pos(), "defer sr.Close() before the first call", "a drained stream is not closed on every exit (error while reading leaves the producer blocked)")
	}

	// ---- forwarders / last-close
	r.Rule("C19.forwarders", "forwarding goroutines close source and output on every exit", 6)
	forwarderChecks(w, r, "C19.forwarders")
	r.Rule("C19.last-close", "closing the last copy closes the source", 6)
	copyCellChecks(w, r, "C19.last-close")

	// ---- close-exhaustive
	r.Rule("C19.close-exhaustive", "Close handles all reader kinds; merged Close closes every source; converting Close delegates", 3)
	kindsExhaustive(w, r, "C19.close-exhaustive", "StreamReader.Close")
	mergedCloseAll(w, r, "C19.close-exhaustive")
	{
		cc := w.Fn("schema", "streamReaderWithConvert.close")
		fSr := w.Field("schema", "streamReaderWithConvert", "sr")
		ok := false
		instrs(cc, func(in ssa.Instruction) {
			if invokeName(in) == "Close" && isLoadOfField(in.(ssa.CallInstruction).Common().Value, fSr) {
				ok = true
			}
		})
		r.Check(ok, "C19.close-exhaustive", "streamReaderWithConvert.close delegates to its source", cc.Pos(), "srw.sr.Close()", "closing a converted reader does not close the underlying stream")
		// … on every path: no flag, counter or state of the wrapper decides whether the source is told (the forwarding
		// goroutine of toStream ends through this very method)
		isDeleg := func(in ssa.Instruction) bool {
			return invokeName(in) == "Close" && isLoadOfField(in.(ssa.CallInstruction).Common().Value, fSr)
		}
		skip, wit := pathQuery{fn: cc, goal: func(in ssa.Instruction) bool { _, isRet := in.(*ssa.Return); return isRet }, avoid: isDeleg}.exists()
		r.Check(!skip, "C19.close-exhaustive", "streamReaderWithConvert.close delegates on every path", cc.Pos(), "no return is reachable without srw.sr.Close()", "a path through close() leaves the source open ("+wit+"): when the reader of a merged / converted stream goes away early, the forwarding goroutine's final close is a no-op — nobody reads or closes the source any more and its producer stays blocked in Send for ever")
	}

	// ---- copies match consumers: no surplus copy is created that nobody reads or closes
	r.Rule("C19.copies-match-consumers", "resolveCompletedTasks splits the last reserved copy into exactly as many copies as the branches selected successors need (linear form over len(writeTo), len(writeToBranches), len(successors)) — shared with C01", 1)
	fanoutCountCheck(w, r, "C19.copies-match-consumers")

	// ---- a copy is never silently replaced, and reserved copies that nobody gets are closed
	shareRule(w, r, "C19.skip-reaches-control-only-successors", "a skip is reported to every successor of the skipped node, control-only ones included (getSuccessors lists data and control successors): a node that is never told keeps the stream copy made for it unread and unclosed, and the producer stays blocked once the caller closes early", 1, "C02", "C02.successors-complete")
	r.Rule("C19.no-dropped-copy", "resolveCompletedTasks: a successor reached twice (two branches, or a branch plus a data edge) keeps one copy and the other is closed; copies reserved for branches that selected nothing are closed", 2)
	{
		rct := w.Fn("compose", "runner.resolveCompletedTasks")
		// the write of a copy into writeChannelValues[next][sender]
		var mu *ssa.MapUpdate
		instrs(rct, func(in ssa.Instruction) {
			m, ok := in.(*ssa.MapUpdate)
			if !ok {
				return
			}
			if mt, ok := m.Map.Type().Underlying().(*types.Map); ok {
				if _, isIface := mt.Elem().Underlying().(*types.Interface); isIface {
					mu = m
				}
			}
		})
		if mu == nil {
			undecidedf("C19.no-dropped-copy: the distribution write of resolveCompletedTasks not found")
		}
		miss := hasGuard(mu.Block(), func(g guard) bool {
			e, ok := g.cond.(*ssa.Extract)
			if !ok || e.Index != 1 || g.pol {
				return false
			}
			lk, ok := e.Tuple.(*ssa.Lookup)
			return ok && lk.CommaOk && sameKeyExpr(lk.Index, mu.Key)
		})
		// on the hit arm the surplus copy is closed
		closedOnHit := false
		instrs(rct, func(in ssa.Instruction) {
			if invokeName(in) != "close" {
				return
			}
			if hasGuard(in.Block(), func(g guard) bool {
				e, ok := g.cond.(*ssa.Extract)
				if !ok || e.Index != 1 || !g.pol {
					return false
				}
				lk, ok := e.Tuple.(*ssa.Lookup)
				return ok && lk.CommaOk && sameKeyExpr(lk.Index, mu.Key)
			}) {
				closedOnHit = true
			}
		})
		r.Check(miss && closedOnHit, "C19.no-dropped-copy", "resolveCompletedTasks: a second copy for the same successor is closed, not written over the first", mu.Pos(), "write on the miss arm; close on the hit arm",
			fmt.Sprintf("the copy for a successor is written unconditionally (on the miss arm only=%v, surplus copy closed=%v): when a successor occurs twice — picked by two branches, or picked by a workflow branch AND reading the node through a data-only edge (the documented pattern) — the first copy is overwritten, handed to nobody and never closed; the node's producer stays blocked once the caller closes the output early", miss, closedOnHit))
		// surplus reserved copies: a loop over vs[len(successors):] closing them
		surplus := false
		instrs(rct, func(in ssa.Instruction) {
			sl, ok := in.(*ssa.Slice)
			if !ok || sl.Low == nil {
				return
			}
			if c, ok := sl.Low.(*ssa.Call); !ok || !isBuiltin(c, "len") {
				return
			}
			// ranged and closed
			for _, ref := range *sl.Referrers() {
				if _, ok := ref.(*ssa.Call); ok { // len(slice) of the range loop
					surplus = true
				}
			}
		})
		nClose := 0
		instrs(rct, func(in ssa.Instruction) {
			if invokeName(in) == "close" {
				nClose++
			}
		})
		r.Check(surplus && nClose >= 2, "C19.no-dropped-copy", "resolveCompletedTasks: reserved copies handed to nobody are closed", rct.Pos(), "vs[len(successors):] is ranged and closed", "copies reserved for branches that selected fewer successors than there are branches stay unassigned and unclosed (the copy parent never closes the node's stream)")
	}

	// ---- copies-all-used
	r.Rule("C19.copies-all-used", "copyItem returns every copy it creates", 1)
	{
		ci := w.Fn("compose", "copyItem")
		var cp ssa.Instruction
		instrs(ci, func(in ssa.Instruction) {
			if invokeName(in) == "copy" {
				cp = in
			}
		})
		good := cp != nil
		if good {
			// n passed to copy is the same n used to size ret; every ret[i] = ss[i] with the same index, loop over ret
			c := cp.(ssa.CallInstruction).Common()
			nArg := c.Args[0]
			sameN := false
			instrs(ci, func(in ssa.Instruction) {
				if ms, ok := in.(*ssa.MakeSlice); ok && ms.Len == nArg {
					sameN = true
				}
			})
			idxOK := false
			instrs(ci, func(in ssa.Instruction) {
				st, ok := in.(*ssa.Store)
				if !ok {
					return
				}
				ia, ok := st.Addr.(*ssa.IndexAddr)
				if !ok {
					return
				}
				if u, ok := through(st.Val).(*ssa.UnOp); ok {
					{
						if ia2, ok := u.X.(*ssa.IndexAddr); ok && ia2.X == cp.(ssa.Value) && ia2.Index == ia.Index {
							idxOK = true
						}
					}
				}
			})
			good = sameN && idxOK
		}
		r.Check(good, "C19.copies-all-used", "copyItem hands out all n copies", ci.Pos(), "copy(n), ret sized n, ret[i] = copies[i]", "a created stream copy is dropped without being closed (the source can never be fully closed)")
	}
}

// mergeDispatchCheck: static select (receiveN, up to maxSelectNum sources) vs reflect.Select boundary.
func mergeDispatchCheck(w *World, r *Report, rule string) {
	mr := w.Fn("schema", "multiStreamReader.recv")
	fChosen := w.Field("schema", "multiStreamReader", "chosenList")
	// static select (receiveN, up to maxSelectNum sources) vs reflect.Select: the constructor builds the
	// reflect cases under exactly the condition under which recv uses them
	nmr := w.Fn("schema", "newMultiStreamReader")
	cmpOf := func(fn *ssa.Function, isList func(ssa.Value) bool) (token.Token, int64, bool) {
		var op token.Token
		var c int64
		found := false
		instrs(fn, func(in ssa.Instruction) {
			iff, ok := in.(*ssa.If)
			if !ok {
				return
			}
			o, x, y, ok := asCmp(iff.Cond)
			if !ok || !isLenOf(x, isList) {
				return
			}
			if v, ok := constInt(y); ok && v > 1 {
				op, c, found = o, v, true
			}
		})
		return op, c, found
	}
	op1, c1, ok1 := cmpOf(nmr, func(v ssa.Value) bool { _, isP := v.(*ssa.Parameter); return isP })
	op2, c2, ok2 := cmpOf(mr, func(v ssa.Value) bool { return isLoadOfField(v, fChosen) })
	// receiveN's dispatch table covers 0..c
	tableLen := int64(-1)
	instrs(w.Fn("schema", "receiveN"), func(in ssa.Instruction) {
		if al, ok := in.(*ssa.Alloc); ok {
			if arr, ok := deref(al.Type()).Underlying().(*types.Array); ok {
				tableLen = arr.Len()
			}
		}
	})
	r.Check(ok1 && ok2 && op1 == op2 && c1 == c2 && tableLen == c1+1, rule, "merged recv: static/reflect select boundary agrees with the constructor and the receiveN table", mr.Pos(),
		fmt.Sprintf("both use len %s %d; receiveN has %d entries", op1, c1, tableLen), fmt.Sprintf("constructor builds reflect cases under len %s %d, recv uses them under len %s %d, receiveN table has %d entries: for a merge of exactly %d sources recv selects over cases that were never built (blocks forever) or indexes past the table", op1, c1, op2, c2, tableLen, c1))
}

// arrayCopyCheck: copies of an array-backed reader continue at the parent's position. Every arrayReader constructed
// by StreamReader.Copy or by a schema function it calls (the copy helper, a constructor it was rewritten to use) takes
// BOTH its array and its index from an existing arrayReader.
func arrayCopyCheck(w *World, r *Report, rule string) {
	copyFn := w.Fn("schema", "StreamReader.Copy")
	arT := w.Named("schema", "arrayReader")
	st := arT.Underlying().(*types.Struct)
	seen := map[*ssa.Function]bool{}
	var fns []*ssa.Function
	var add func(fn *ssa.Function, d int)
	add = func(fn *ssa.Function, d int) {
		if fn == nil || seen[origin(fn)] || d > 2 || fn.Blocks == nil {
			return
		}
		seen[origin(fn)] = true
		fns = append(fns, fn)
		instrs(fn, func(in ssa.Instruction) {
			if c, ok := in.(ssa.CallInstruction); ok {
				if sc := staticCallee(c); sc != nil && w.inRepo(sc) && w.relPkg(fnPkg(sc).Path()) == "schema" {
					// only what may build the copies: array helpers and constructors, not the pipe / parent machinery
					nm := origin(sc).Name()
					if strings.Contains(strings.ToLower(nm), "array") || nm == "copy" && sc.Signature.Recv() != nil && namedOf(sc.Signature.Recv().Type()) == arT {
						add(sc, d+1)
					}
				}
			}
		})
	}
	add(copyFn, 0)
	n := 0
	for _, fn := range fns {
		instrs(fn, func(in ssa.Instruction) {
			al, ok := in.(*ssa.Alloc)
			if !ok || namedOf(al.Type()) != arT {
				return
			}
			n++
			set := map[string]bool{}
			for _, ref := range *al.Referrers() {
				if fa, ok := ref.(*ssa.FieldAddr); ok {
					for _, rr := range *fa.Referrers() {
						if s2, ok := rr.(*ssa.Store); ok {
							if f, base := loadedField(s2.Val); f != nil && base != ssa.Value(al) && sameField(f, fieldVarOfAddr(fa)) {
								set[f.Name()] = true
							}
						}
					}
				}
			}
			var missing []string
			for i := 0; i < st.NumFields(); i++ {
				if !set[st.Field(i).Name()] {
					missing = append(missing, st.Field(i).Name())
				}
			}
			r.Check(len(missing) == 0, rule, fmt.Sprintf("%s: array-backed copy #%d continues at the parent's position", w.fname(origin(fn)), n), al.Pos(), "arr and index taken from an existing arrayReader", "a copy of an array-backed reader does not inherit "+strings.Join(missing, ", ")+": a partially consumed reader restarts at element 0 on every fan-out copy — in Stream mode a node that consumed a prefix of its array-backed input and returns the rest has every successor run on chunks that were already consumed")
		})
	}
	if n == 0 {
		r.Fail(rule, "array-backed copies continue at the parent's position", copyFn.Pos(), "no arrayReader is built on the array arm of StreamReader.Copy")
	}
}

// arrayAliasCheck: APPEND-ALIAS with schema.arrayReader as the owner, over package schema.
func arrayAliasCheck(w *World, r *Report, rule string) {
	owners := map[*types.Named]bool{w.Named("schema", "arrayReader"): true}
	n := 0
	for _, fn := range w.RepoFuncs("schema") {
		for _, as := range appendSites(fn) {
			n++
			if as.root.kind != "field" || as.root.owner == nil || !owners[as.root.owner] {
				continue
			}
			construct := fmt.Sprintf("%s append(%s.%s…)", w.fname(origin(fn)), as.root.owner.Obj().Name(), as.root.field.Name())
			if freshBase(as.root.base, 0) {
				r.OK(rule, construct, as.call.Pos(), "the array reader is under construction here")
				continue
			}
			r.Fail(rule, construct, as.call.Pos(), "append on a slice that aliases an array-backed reader's array (first operand derives from arrayReader.arr): with spare capacity it writes behind the reader's items into the array that all Copy siblings share — another copy merged with a different stream then delivers this merge's items")
		}
	}
	// positive control + evidence: MergeStreamReaders' accumulation starts from a fresh slice
	msr := w.Fn("schema", "MergeStreamReaders")
	na := len(appendSites(msr))
	r.Check(na >= 2, rule, "MergeStreamReaders append sites inspected", msr.Pos(), fmt.Sprintf("%d append sites in MergeStreamReaders, %d in package schema; none starts from an array reader's array", na, n), "the append sites of MergeStreamReaders are no longer seen by the rule")
}

// selectTableCheck: schema/select.go keeps one hand-written select per fan-in width. For the table entry of width n:
// n receive cases; case j receives from ss[chosenList[K]].items for a distinct K < n; the arm taken for case j returns
// chosenList[K] of that same K and the item received by that very case. (multiStreamReader.recv uses the returned
// index to decide which source ended: a wrong index drops a live source and keeps a dead one.)
func selectTableCheck(w *World, r *Report, rule string) {
	rn := w.Fn("schema", "receiveN")
	// table entries: stores of function literals into the array literal
	type entry struct {
		width int
		fn    *ssa.Function
	}
	var entries []entry
	instrs(rn, func(in ssa.Instruction) {
		st, ok := in.(*ssa.Store)
		if !ok {
			return
		}
		ia, ok := st.Addr.(*ssa.IndexAddr)
		if !ok {
			return
		}
		idx, ok := constInt(ia.Index)
		if !ok {
			return
		}
		var fn *ssa.Function
		switch v := st.Val.(type) {
		case *ssa.Function:
			fn = v
		case *ssa.MakeClosure:
			fn, _ = v.Fn.(*ssa.Function)
		}
		if fn != nil {
			entries = append(entries, entry{int(idx), fn})
		}
	})
	if len(entries) < 3 {
		r.Fail(rule, "receiveN table", rn.Pos(), fmt.Sprintf("%d function literals found in the dispatch table (floor 3)", len(entries)))
		return
	}
	// the dispatch index is len(chosenList)
	dispatchOK := false
	instrs(rn, func(in ssa.Instruction) {
		if ia, ok := in.(*ssa.IndexAddr); ok {
			if isLenOf(ia.Index, func(v ssa.Value) bool { _, isP := v.(*ssa.Parameter); return isP }) {
				dispatchOK = true
			}
		}
	})
	r.Check(dispatchOK, rule, "receiveN dispatches on len(chosenList)", rn.Pos(), "table[len(chosenList)]", "the select table is not indexed by the number of open sources")
	chosenIdx := func(fn *ssa.Function, v ssa.Value) (int64, bool) { // v == chosenList[K]
		u, ok := v.(*ssa.UnOp)
		if !ok {
			return 0, false
		}
		ia, ok := u.X.(*ssa.IndexAddr)
		if !ok || len(fn.Params) == 0 || ia.X != ssa.Value(fn.Params[0]) {
			return 0, false
		}
		return constInt(ia.Index)
	}
	chanIdx := func(fn *ssa.Function, v ssa.Value) (int64, bool) { // v == ss[chosenList[K]].items
		u, ok := v.(*ssa.UnOp)
		if !ok {
			return 0, false
		}
		fa, ok := u.X.(*ssa.FieldAddr)
		if !ok {
			return 0, false
		}
		u2, ok := fa.X.(*ssa.UnOp)
		if !ok {
			return 0, false
		}
		ia, ok := u2.X.(*ssa.IndexAddr)
		if !ok || len(fn.Params) < 2 || ia.X != ssa.Value(fn.Params[1]) {
			return 0, false
		}
		return chosenIdx(fn, ia.Index)
	}
	for _, e := range entries {
		name := fmt.Sprintf("select table entry for %d sources", e.width)
		var sel *ssa.Select
		var single *ssa.UnOp
		instrs(e.fn, func(in ssa.Instruction) {
			if s, ok := in.(*ssa.Select); ok {
				sel = s
			}
			if u, ok := in.(*ssa.UnOp); ok && u.Op == token.ARROW {
				single = u
			}
		})
		var chans []ssa.Value
		switch {
		case sel != nil:
			for _, st := range sel.States {
				chans = append(chans, st.Chan)
			}
		case single != nil:
			chans = []ssa.Value{single.X}
		}
		if len(chans) != e.width {
			r.Fail(rule, name, e.fn.Pos(), fmt.Sprintf("the entry receives from %d channels", len(chans)))
			continue
		}
		ks := make([]int64, len(chans))
		seen := map[int64]bool{}
		good, why := true, ""
		for j, c := range chans {
			k, ok := chanIdx(e.fn, c)
			if !ok || k < 0 || int(k) >= e.width || seen[k] {
				good, why = false, fmt.Sprintf("case %d does not receive from ss[chosenList[K]].items with a fresh K < %d", j, e.width)
				break
			}
			seen[k] = true
			ks[j] = k
		}
		if good {
			// every return: which case is it in?
			instrs(e.fn, func(in ssa.Instruction) {
				ret, ok := in.(*ssa.Return)
				if !ok || len(ret.Results) != 3 || !good {
					return
				}
				j := int64(0)
				if sel != nil {
					found := false
					for _, g := range guardsOf(ret.Block()) {
						op, x, y, ok := asCmp(g.cond)
						if ok && op == token.EQL && g.pol {
							if ex, ok := x.(*ssa.Extract); ok && ex.Tuple == ssa.Value(sel) && ex.Index == 0 {
								if c, ok := constInt(y); ok {
									j, found = c, true
								}
							}
						}
					}
					if !found {
						good, why = false, "a return is not inside a select case arm"
						return
					}
				}
				k, ok := chosenIdx(e.fn, ret.Results[0])
				if !ok || k != ks[j] {
					good, why = false, fmt.Sprintf("the arm of case %d (receiving from source chosenList[%d]) returns another index", j, ks[j])
					return
				}
				// the item returned is the one this case received
				if sel != nil {
					al, ok := ret.Results[1].(*ssa.Alloc)
					okItem := false
					if ok {
						for _, ref := range *al.Referrers() {
							if st, ok := ref.(*ssa.Store); ok {
								if ex, ok := st.Val.(*ssa.Extract); ok && ex.Tuple == ssa.Value(sel) && int64(ex.Index) == 2+j {
									okItem = true
								}
							}
						}
					}
					if !okItem {
						good, why = false, fmt.Sprintf("the arm of case %d returns an item other than the one it received", j)
					}
				}
			})
		}
		r.Check(good, rule, name, e.fn.Pos(), fmt.Sprintf("%d cases, each returning the index and the item of its own source", e.width), why+": when that source ends the merged reader removes a live source instead (its remaining items are lost, silently) and keeps selecting on the ended one")
	}
}

// streamBranchConditionsClose: a stream branch condition is handed its OWN copy of the node's output stream. Every
// condition literal of the bundled flows gives that copy up on every return path: it closes it, or passes it to a callee
// (the user's tool-call checker, documented to close it). A path that returns without either leaves the copy open: when
// the caller closes the run's output early, the source stays open and the producers behind it stay blocked.
func streamBranchConditionsClose(w *World, r *Report, rule string) int {
	ctors := map[*ssa.Function]bool{}
	for _, n := range []string{"NewStreamGraphBranch", "NewStreamGraphMultiBranch"} {
		if f := w.TryFn("compose", n); f != nil {
			ctors[f] = true
		}
	}
	n := 0
	seen := map[*ssa.Function]bool{}
	for _, fn := range w.RepoFuncs("flow") {
		instrs(fn, func(in ssa.Instruction) {
			c, ok := in.(ssa.CallInstruction)
			if !ok {
				return
			}
			sc := staticCallee(c)
			if sc == nil || !ctors[origin(sc)] || len(c.Common().Args) == 0 {
				return
			}
			var lit *ssa.Function
			v := c.Common().Args[0]
			// through a local variable holding the literal
			for d := 0; d < 4 && lit == nil; d++ {
				switch x := v.(type) {
				case *ssa.MakeClosure:
					lit, _ = x.Fn.(*ssa.Function)
				case *ssa.Function:
					lit = x
				case *ssa.ChangeType:
					v = x.X
				case *ssa.UnOp:
					if al, ok := x.X.(*ssa.Alloc); ok {
						for _, st := range storesToCell(fn, al) {
							v = st.Val
						}
					} else {
						d = 4
					}
				default:
					d = 4
				}
			}
			if lit == nil || seen[lit] {
				return
			}
			seen[lit] = true
			var sp *ssa.Parameter
			for _, p := range lit.Params {
				if pt, ok := p.Type().(*types.Pointer); ok {
					if nm := namedOf(pt.Elem()); nm != nil && nm.Obj().Name() == "StreamReader" {
						sp = p
					}
				}
			}
			if sp == nil {
				return
			}
			n++
			consumes := func(in ssa.Instruction) bool {
				ci, ok := in.(ssa.CallInstruction)
				if !ok {
					return false
				}
				// reading from the stream is not giving it up
				if sc := staticCallee(ci); sc != nil && origin(sc).Name() == "Recv" && len(ci.Common().Args) == 1 {
					return false
				}
				for _, a := range ci.Common().Args {
					if a == ssa.Value(sp) {
						return true
					}
				}
				return false
			}
			leak, wit := pathQuery{fn: lit, goal: isReturn, avoid: consumes}.exists()
			r.Check(!leak, rule, "stream branch condition "+w.fname(lit)+" gives up its stream copy on every path", lit.Pos(), "Close (or hand-over to a callee) before every return", "a return path neither closes the condition's copy of the stream nor hands it on ("+wit+"): when the caller closes the run's output early the merged / copied source is never closed and the producers (per-tool forwarders, the tools' own goroutines) stay blocked on their sends")
		})
	}
	// the checkers those conditions hand their copy to: every function of flow/ shaped like a stream tool-call checker,
	// func(context.Context, *StreamReader[…]) (bool, error) — the bundled defaults of the react and host agents
	for _, fn := range w.RepoFuncs("flow") {
		sig := fn.Signature
		if fn.Parent() != nil || sig.Recv() != nil || sig.Params().Len() != 2 || sig.Results().Len() != 2 || len(fn.Blocks) == 0 {
			continue
		}
		if b, ok := sig.Results().At(0).Type().Underlying().(*types.Basic); !ok || b.Kind() != types.Bool {
			continue
		}
		pt, ok := sig.Params().At(1).Type().(*types.Pointer)
		if !ok {
			continue
		}
		if nm := namedOf(pt.Elem()); nm == nil || nm.Obj().Name() != "StreamReader" {
			continue
		}
		sp := fn.Params[1]
		n++
		consumes := func(in ssa.Instruction) bool {
			ci, ok := in.(ssa.CallInstruction)
			if !ok {
				return false
			}
			if sc := staticCallee(ci); sc != nil && origin(sc).Name() == "Recv" && len(ci.Common().Args) == 1 {
				return false
			}
			for _, a := range ci.Common().Args {
				if a == ssa.Value(sp) {
					return true
				}
			}
			return false
		}
		leak, wit := pathQuery{fn: fn, goal: isReturn, avoid: consumes}.exists()
		r.Check(!leak, rule, "stream checker "+w.fname(fn)+" gives up its stream copy on every path", fn.Pos(), "Close (deferred, or before every return)", "a return path of the bundled tool-call checker leaves the copy it was handed open ("+wit+"): the branch condition passed its copy on to this function, so nobody else closes it — when the host answers directly and the caller stops reading early, the model's stream is never closed and its producer stays blocked in Send")
	}
	return n
}

var bundledHandlerExceptions = map[string]string{
	"(*utils/callbacks.handlerTemplate).OnStartWithStreamInput": "the `default: return ctx` arm is for components the template has no handler for; handlerTemplate.Needed answers false for them, and the callback manager neither copies the stream for nor calls a handler whose Needed is false (C10.stream-copies counts only needed handlers)",
	"(*utils/callbacks.handlerTemplate).OnEndWithStreamOutput":  "same: the default arm is unreachable behind handlerTemplate.Needed",
}

// syncFillBounded: a stream that is filled by the function that creates it — sends in a loop on the creating goroutine,
// before any reader can exist — has the capacity of that loop's bound: otherwise the (n+1)-th send blocks for ever.
func syncFillBounded(w *World, r *Report, rule string) {
	ns := w.Fn("schema", "newStream")
	send := w.Fn("schema", "stream.send")
	n := 0
	for _, fn := range w.RepoFuncs("schema") {
		if fn.Parent() != nil {
			continue // goroutine bodies and other literals are not "the creating goroutine before any reader exists"
		}
		loops := naturalLoops(fn)
		for _, c := range callsTo(fn, ns) {
			sv, ok := c.(ssa.Value)
			if !ok {
				continue
			}
			for _, sc := range callsTo(fn, send) {
				if sc.Common().Args[0] != sv {
					continue
				}
				var inner *loopInfo
				for _, li := range loops {
					li := li
					if li.body[sc.Block()] && (inner == nil || len(li.body) < len(inner.body)) {
						inner = &li
					}
				}
				if inner == nil {
					continue
				}
				n++
				// loop bound: header compares an index with len(Y)
				var bound ssa.Value
				for _, in := range inner.header.Instrs {
					if iff, ok := in.(*ssa.If); ok {
						if op, _, y, ok := asCmp(iff.Cond); ok && op == token.LSS {
							bound = y
						}
					}
				}
				capArg := c.Common().Args[0]
				good := bound != nil && valText(capArg) == valText(bound)
				r.Check(good, rule, fmt.Sprintf("%s: stream filled synchronously in a loop has the loop's bound as capacity", w.fname(fn)), c.Pos(), "newStream("+valText(capArg)+") filled by a loop bounded by the same expression", fmt.Sprintf("the stream is created with capacity %s but filled on the creating goroutine by a loop bounded by %s: once more items are sent than the buffer holds the send blocks for ever — a stream-mode fan-in of array-backed readers holding more chunks than the buffer, merged with a channel-backed one, hangs (Invoke is unaffected)", valText(capArg), func() string {
					if bound == nil {
						return "?"
					}
					return valText(bound)
				}()))
			}
		}
	}
	if n == 0 {
		r.Fail(rule, "synchronously filled streams in package schema", ns.Pos(), "no newStream result that is filled in a loop by its creator found (MergeStreamReaders' array part expected)")
	}
}

// plainSendChecks: shared by C08.send-selects-closed and C19.senders-wakeable.
func plainSendChecks(w *World, r *Report, rule string) {
	fItems := w.Field("schema", "stream", "items")
	n := 0
	for _, fn := range w.RepoFuncs("schema") {
		instrs(fn, func(in ssa.Instruction) {
			sd, ok := in.(*ssa.Send)
			if !ok || !isLoadOfField(sd.Chan, fItems) {
				return
			}
			n++
			r.Fail(rule, fmt.Sprintf("%s sends on stream.items outside a select", w.fname(origin(fn))), sd.Pos(), "a plain channel send on the item channel blocks until a receiver takes the item and is not woken when the reader closes: the sender (a user's StreamWriter.Send, or a forwarding goroutine feeding a merged reader) stays blocked for ever once the reader has gone, and with it the producer behind a blocked forwarder")
		})
	}
	if n == 0 {
		r.OK(rule, "no plain send on stream.items in package schema", w.Fn("schema", "stream.send").Pos(), "every item goes through send's select")
	}
}
