package main

import (
	"fmt"
	"go/token"
	"go/types"

	"golang.org/x/tools/go/ssa"
)

func init() {
	register(&propDef{
		id: "C11",
		explanation: "Static clauses of 'graph state is per run and accessed under mutual exclusion': " +
			"(lock-region) every user of getState (the four handler converters and ProcessState) calls the user-supplied function with the state only after an unconditional Lock of the state's mutex, with the matching Unlock deferred; internalState.state is read only in getState/GetState and the two checkpoint save sites; " +
			"(pre-before-post-after) submit runs a node's pre-handler before launching it and stores its result as the task input; waitOne runs the post-handler after collecting the task, only on success, and stores its result as the task output; " +
			"(per-run) the state generator is invoked only inside the per-run context literal and returns a fresh object; the holder (state + mutex) put into the context is allocated by that very invocation, and the literal writes nothing captured from compile; " +
			"(gate-exact) the pre-/post-handler calls run under exactly the expected conditions (handler present, task successful / not resumed) — any further conjunct is reported; " +
			"(survives) on both restore arms the checkpointed state is placed in the context whenever it is non-nil — no further condition — after the caller's state modifier ran; both save sites record it, and only when the graph owns a state (a stateless graph nested in a stateful one must not save the parent's state as its own); " +
			"(state-required) a node with state handlers on a graph without state is rejected.",
		decided:    []string{"lock-region", "pre-before-post-after", "gate-exact", "per-run", "survives", "state-required", "skip-marks-survive"},
		notDecided: []string{"lost-update freedom inside user handlers", "that user handlers do not leak the state pointer", "fairness/ordering between handlers of parallel nodes"},
		run:        runC11,
	})
}

func runC11(w *World, r *Report) {
	// ---- the marks that keep a pre-handler from running twice survive the byte store
	r.Rule("C11.skip-marks-survive", "every field of the checkpoint struct is exported (the serializer keeps exported fields only): the skip-pre-handler marks are not lost between interrupt and resume", 4)
	{
		st := w.Named("compose", "checkpoint").Underlying().(*types.Struct)
		for i := 0; i < st.NumFields(); i++ {
			f := st.Field(i)
			r.Check(f.Exported(), "C11.skip-marks-survive", "checkpoint."+f.Name()+" is exported", f.Pos(), "kept by the byte store", "an unexported checkpoint field is silently dropped on the store round trip: with the skip-pre-handler marks gone, the state pre-handler of a graph node whose nested graph interrupted runs a second time on the zero placeholder input — the resume itself mutates the state")
		}
	}

	getState := w.Fn("compose", "getState")
	fState := w.Field("compose", "internalState", "state")

	// ---- lock-region
	r.Rule("C11.lock-region", "users of getState call the user function under an unconditional Lock with deferred Unlock", 5)
	users := map[*ssa.Function]ssa.CallInstruction{}
	for _, c := range w.staticCallers(getState) {
		users[c.Parent()] = c
	}
	if len(users) < 5 {
		undecidedf("C11.lock-region: %d users of getState (floor 5)", len(users))
	}
	for fn, gc := range users {
		construct := w.fname(fn) + " calls the handler under the state mutex"
		mu := extractOf(gc, 1)
		st := extractOf(gc, 0)
		if mu == nil || st == nil {
			r.Fail("C11.lock-region", construct, gc.Pos(), "getState results are not both used (state or mutex dropped)")
			continue
		}
		var lock, handler ssa.CallInstruction
		var unlockDeferred bool
		instrs(fn, func(in ssa.Instruction) {
			c, ok := in.(ssa.CallInstruction)
			if !ok {
				return
			}
			name := calleeFullName(in)
			if name == "(*sync.Mutex).Lock" && c.Common().Args[0] == ssa.Value(mu) {
				if _, isCall := in.(*ssa.Call); isCall {
					lock = c
				}
			}
			if name == "(*sync.Mutex).Unlock" && c.Common().Args[0] == ssa.Value(mu) {
				if _, isDefer := in.(*ssa.Defer); isDefer {
					unlockDeferred = true
				}
			}
			// the user function: a dynamic call (free variable / parameter) receiving the state
			if !c.Common().IsInvoke() && staticCallee(c) == nil {
				for _, a := range c.Common().Args {
					if a == ssa.Value(st) {
						handler = c
					}
				}
			}
		})
		if handler == nil {
			r.Fail("C11.lock-region", construct, gc.Pos(), "no call passing the state to the user function found")
			continue
		}
		good := lock != nil && instrDominates(lock, handler) && unlockDeferred
		det := ""
		if lock == nil {
			det = "no unconditional (*sync.Mutex).Lock on the state's mutex (TryLock / no lock)"
		} else if !instrDominates(lock, handler) {
			det = "Lock does not dominate the handler call"
		} else if !unlockDeferred {
			det = "Unlock is not deferred (a panicking handler leaves the state locked)"
		}
		// the deferred unlock must be registered between lock and handler, unconditionally
		if good {
			instrs(fn, func(in ssa.Instruction) {
				if d, ok := in.(*ssa.Defer); ok && calleeFullName(d) == "(*sync.Mutex).Unlock" {
					if !instrDominates(d, handler) {
						good, det = false, "deferred Unlock does not dominate the handler call (conditional unlock)"
					}
					if len(guardsOf(d.Block())) != len(guardsOf(lock.Block())) {
						good, det = false, "Lock and deferred Unlock are under different conditions"
					}
				}
			})
		}
		r.Check(good, "C11.lock-region", construct, handler.Pos(), "Lock; defer Unlock; handler(ctx, ..., state)", "state handler can run without holding the state mutex: "+det)
	}
	// who reads internalState.state
	hInt := w.Fn("compose", "runner.handleInterrupt")
	hSub := w.Fn("compose", "runner.handleInterruptWithSubGraphAndRerunNodes")
	gs := w.Fn("compose", "GetState")
	for _, fn := range w.RepoFuncs("compose", "flow") {
		instrs(fn, func(in ssa.Instruction) {
			fa, ok := in.(*ssa.FieldAddr)
			if !ok || !sameField(fieldVarOfAddr(fa), fState) {
				return
			}
			isRead := false
			for _, ref := range *fa.Referrers() {
				if _, ok := ref.(*ssa.UnOp); ok {
					isRead = true
				}
			}
			if !isRead {
				return
			}
			top := origin(topFunc(fn))
			okr := top == origin(getState) || top == origin(gs) || top == hInt || top == hSub
			r.Check(okr, "C11.lock-region", "internalState.state read in "+w.fname(top), fa.Pos(), "accessor / checkpoint save site (after waitAll)", "the raw state is read outside the locked accessors")
		})
	}

	// ---- pre-before-post-after
	r.Rule("C11.pre-before-post-after", "pre-handler result becomes the task input before launch; post-handler runs after collection on success and its result becomes the task output", 4)
	submit := w.Fn("compose", "taskManager.submit")
	waitOne := w.Fn("compose", "taskManager.waitOne")
	executor := w.Fn("compose", "taskManager.executor")
	fPre := w.Field("compose", "chanCall", "preProcessor")
	fPost := w.Field("compose", "chanCall", "postProcessor")
	fIn := w.Field("compose", "task", "input")
	fOut := w.Field("compose", "task", "output")
	fErr := w.Field("compose", "task", "err")
	findProc := func(fn *ssa.Function, f *types.Var) *ssa.Call {
		var out *ssa.Call
		instrs(fn, func(in ssa.Instruction) {
			if c, ok := in.(*ssa.Call); ok && len(c.Call.Args) >= 2 && isLoadOfField(c.Call.Args[1], f) {
				out = c
			}
		})
		return out
	}
	storesResultTo := func(fn *ssa.Function, c *ssa.Call, f *types.Var) bool {
		e := extractOf(c, 0)
		if e == nil {
			return false
		}
		ok := false
		for _, fw := range fieldWrites(fn) {
			if sameField(fw.field, f) && fw.val == ssa.Value(e) {
				ok = true
			}
		}
		return ok
	}
	if pc := findProc(submit, fPre); pc == nil {
		r.Fail("C11.pre-before-post-after", "submit runs the pre-handler", submit.Pos(), "no pre-processor call in submit")
	} else {
		{
			extra := extraGuards(pc.Block(), guardOnField(fPre), func(g guard) bool {
				f := taskSkipFlag(w)
				return f != nil && guardOnField(f)(g)
			}, guardErrNil, func(g guard) bool {
				// loop headers over the submitted tasks (range / index < len)
				op, _, y, ok := asCmp(g.cond)
				return ok && op == token.LSS && isLenOf(y, func(ssa.Value) bool { return true })
			}, func(g guard) bool {
				// len(tasks) == 0 early return
				_, x, _, ok := asCmp(g.cond)
				return ok && isLenOf(x, func(ssa.Value) bool { return true })
			})
			r.Check(len(extra) == 0, "C11.pre-before-post-after", "submit: pre-handler gate depends only on preProcessor", pc.Pos(), "guards: loop header, preProcessor != nil, !skipPreHandler (resumed task, see C05)", fmt.Sprintf("the state pre-handler is skipped under a further condition %v", extra))
		}
		r.Check(storesResultTo(submit, pc, fIn), "C11.pre-before-post-after", "submit: pre-handler result becomes the task input", pc.Pos(), "task.input = result", "the value returned by the state pre-handler is discarded: the node does not receive it")
		// every launch is after the pre-processing loop: no path from entry to a launch that avoids the pre-loop's range/len header
		var launches []ssa.Instruction
		instrs(submit, func(in ssa.Instruction) {
			if isCallTo(in, executor) {
				launches = append(launches, in)
			}
		})
		okd := len(launches) > 0
		for _, l := range launches {
			// the launch must not be able to precede the pre-processor call of the same pass: the pre call cannot be reached from a launch
			back, _ := pathQuery{fn: submit, from: l, goal: func(in ssa.Instruction) bool { return in == ssa.Instruction(pc) }}.exists()
			if back {
				okd = false
			}
		}
		r.Check(okd, "C11.pre-before-post-after", "submit: all pre-handlers run before any launch", pc.Pos(), "no launch precedes a pre-handler call", "a node can be launched before (another node's) pre-handler ran: pre-handlers would race with running nodes")
		// error of the pre-handler blocks the launches
		e1 := extractOf(pc, 1)
		blocked := false
		if e1 != nil {
			for _, ref := range *e1.Referrers() {
				if b, ok := ref.(*ssa.BinOp); ok && isNilConst(b.Y) {
					for _, rr := range *b.Referrers() {
						if iff, ok := rr.(*ssa.If); ok {
							arm := 0
							if b.Op == token.EQL {
								arm = 1
							}
							reach, _ := pathFromBlock(pathQuery{fn: submit, goal: func(in ssa.Instruction) bool { return isCallTo(in, executor) }}, iff.Block().Succs[arm])
							blocked = !reach
						}
					}
				}
			}
		}
		r.Check(blocked, "C11.pre-before-post-after", "submit: a failing pre-handler stops the submit", pc.Pos(), "error arm returns", "pre-handler errors are ignored")
	}
	if pc := findProc(waitOne, fPost); pc == nil {
		r.Fail("C11.pre-before-post-after", "waitOne runs the post-handler", waitOne.Pos(), "no post-processor call in waitOne")
	} else {
		r.Check(storesResultTo(waitOne, pc, fOut), "C11.pre-before-post-after", "waitOne: post-handler result becomes the task output", pc.Pos(), "task.output = result", "the value returned by the state post-handler is discarded: successors receive the unprocessed output")
		okErr := hasGuard(pc.Block(), func(g guard) bool { return guardIsNil(g, func(v ssa.Value) bool { return isLoadOfField(v, fErr) }) })
		var recv ssa.Instruction
		instrs(waitOne, func(in ssa.Instruction) {
			if u, ok := in.(*ssa.UnOp); ok && u.Op == token.ARROW {
				recv = u
			}
		})
		r.Check(okErr && recv != nil && instrDominates(recv, pc), "C11.pre-before-post-after", "waitOne: post-handler after collection, only on success", pc.Pos(), "after <-done, under task.err == nil", "post-handler runs for failed tasks or before the task is collected")
		// gate exactness: the post-handler of a collected, successful task runs whenever it exists — the only
		// conditions are "there is a running task", task.err == nil and postProcessor != nil
		extra := extraGuards(pc.Block(), guardOnField(fErr), guardOnField(fPost), guardOnField(w.Field("compose", "taskManager", "num")))
		r.Check(len(extra) == 0, "C11.pre-before-post-after", "waitOne: post-handler gate depends only on task.err and postProcessor", pc.Pos(), "guards: num != 0, task.err == nil, postProcessor != nil", fmt.Sprintf("the state post-handler of a successful task is skipped under a further condition %v: its state update and its return value are lost (an interrupting sibling travels through task.err too)", extra))
	}

	// ---- per-run
	r.Rule("C11.per-run", "state generated inside the per-run closure; generators of the bundled flows return fresh objects", 2)
	{
		sg := w.Field("compose", "graph", "stateGenerator")
		runCtx := w.Field("compose", "runner", "runCtx")
		n := 0
		for _, fn := range w.RepoFuncs("compose") {
			instrs(fn, func(in ssa.Instruction) {
				c, ok := in.(ssa.CallInstruction)
				if !ok || c.Common().IsInvoke() || !isLoadOfField(c.Common().Value, sg) {
					return
				}
				n++
				okk := false
				if p := fn.Parent(); p != nil {
					instrs(p, func(pi ssa.Instruction) {
						if st, ok := pi.(*ssa.Store); ok {
							if fa, ok := st.Addr.(*ssa.FieldAddr); ok && sameField(fieldVarOfAddr(fa), runCtx) {
								if mc, ok := st.Val.(*ssa.MakeClosure); ok && mc.Fn == fn {
									okk = true
								}
							}
						}
					})
				}
				// the generated state is wrapped in a fresh internalState: the holder (state + mutex) placed in
				// the context is allocated by this very invocation of the per-run literal
				freshHolder, sawWV := true, false
				instrs(fn, func(pi ssa.Instruction) {
					c, ok := pi.(*ssa.Call)
					if !ok || calleeFullName(c) != "context.WithValue" {
						return
					}
					mi, ok := c.Call.Args[1].(*ssa.MakeInterface)
					if !ok || namedOf(mi.X.Type()) != w.Named("compose", "stateKey") {
						return
					}
					sawWV = true
					vmi, ok := c.Call.Args[2].(*ssa.MakeInterface)
					if !ok {
						freshHolder = false
						return
					}
					if al, ok := vmi.X.(*ssa.Alloc); !ok || al.Parent() != fn {
						freshHolder = false
					}
				})
				r.Check(sawWV && freshHolder, "C11.per-run", "state holder allocated in "+w.fname(fn), in.Pos(), "context.WithValue(stateKey{}, &internalState{…}) with the holder allocated by this invocation", "the state holder (state + its mutex) placed in the run's context is not allocated per run: overlapping runs of one compiled graph share and overwrite each other's state")
				for _, cw := range captureWrites(w, []*ssa.Function{fn}, nil) {
					r.Fail("C11.per-run", "per-run literal writes captured "+cw.varName, cw.store.Pos(), "the per-run context literal writes a variable/object captured from compile: all runs share it")
				}
				r.Check(okk, "C11.per-run", "stateGenerator invoked in "+w.fname(fn), in.Pos(), "inside the per-run context literal", "state generated once per compile instead of once per run")
			})
		}
		if n == 0 {
			undecidedf("C11.per-run: no stateGenerator call")
		}
		ruleStateFresh(w, r, "C11.per-run")
	}

	// ---- survives
	r.Rule("C11.survives", "restore arms: state modifier first, then context.WithValue(stateKey) iff cp.State != nil; save sites record the state", 4)
	run := w.Fn("compose", "runner.run")
	cpState := w.Field("compose", "checkpoint", "State")
	stateKeyT := w.Named("compose", "stateKey")
	isT := w.Named("compose", "internalState")
	var restoreWVs []*ssa.Call
	instrs(run, func(in ssa.Instruction) {
		c, ok := in.(*ssa.Call)
		if !ok || calleeFullName(c) != "context.WithValue" {
			return
		}
		mi, ok := c.Call.Args[1].(*ssa.MakeInterface)
		if !ok || namedOf(mi.X.Type()) != stateKeyT {
			return
		}
		restoreWVs = append(restoreWVs, c)
	})
	if len(restoreWVs) != 2 {
		r.Fail("C11.survives", "runner.run: state re-installed on both restore arms", run.Pos(), fmt.Sprintf("expected 2 context.WithValue(stateKey{}, …) in run, found %d", len(restoreWVs)))
	}
	allowedGuard := func(g guard) bool {
		// error checks, cp != nil, isSubGraph, checkPointID != nil, cp.State != nil
		if e, isExtract := g.cond.(*ssa.Extract); isExtract {
			// isSubGraph: the comma-ok result of getNodeKey(ctx)
			c, ok := e.Tuple.(*ssa.Call)
			return ok && isCallTo(c, w.Fn("compose", "getNodeKey"))
		}
		op, x, y, ok := asCmp(g.cond)
		if !ok || !(isNilConst(y) || isNilConst(x)) || (op != token.EQL && op != token.NEQ) {
			return false
		}
		v := x
		if isNilConst(x) {
			v = y
		}
		if types.Identical(v.Type(), types.Universe.Lookup("error").Type()) {
			return true // err checks
		}
		if isLoadOfField(v, cpState) {
			return true
		}
		// cp / checkPointID pointers
		switch vv := v.(type) {
		case *ssa.Call, *ssa.Extract, *ssa.Phi, *ssa.Parameter:
			_ = vv
			if _, isPtr := v.Type().Underlying().(*types.Pointer); isPtr {
				return true
			}
		}
		return false
	}
	for i, c := range restoreWVs {
		// value is &internalState{state: cp.State}
		okv := false
		if mi, ok := c.Call.Args[2].(*ssa.MakeInterface); ok {
			if al, ok := mi.X.(*ssa.Alloc); ok && namedOf(al.Type()) == isT {
				for _, ref := range *al.Referrers() {
					if fa, ok := ref.(*ssa.FieldAddr); ok && sameField(fieldVarOfAddr(fa), fState) {
						for _, rr := range *fa.Referrers() {
							if st, ok := rr.(*ssa.Store); ok && isLoadOfField(st.Val, cpState) {
								okv = true
							}
						}
					}
				}
			}
		}
		var extra []string
		hasState := false
		for _, g := range guardsOf(c.Block()) {
			if guardNonNil(g, func(v ssa.Value) bool { return isLoadOfField(v, cpState) }) {
				hasState = true
			}
			if !allowedGuard(g) {
				extra = append(extra, g.cond.String())
			}
		}
		r.Check(okv && hasState && len(extra) == 0, "C11.survives", fmt.Sprintf("runner.run restore arm #%d re-installs the checkpointed state", i+1), c.Pos(),
			"ctx gets &internalState{state: cp.State} iff cp.State != nil", fmt.Sprintf("the checkpointed state is not (always) restored into the context: value ok=%v, guarded by cp.State!=nil=%v, extra conditions=%v", okv, hasState, extra))
		// the state modifier call (dynamic call with cp.State as argument) precedes it
		modBefore := false
		instrs(run, func(in ssa.Instruction) {
			cc, ok := in.(*ssa.Call)
			if !ok || cc.Call.IsInvoke() || staticCallee(cc) != nil {
				return
			}
			for _, a := range cc.Call.Args {
				if isLoadOfField(a, cpState) {
					// same arm: the modifier's block and the WithValue share the arm-selecting guards; use reachability
					if ok2, _ := (pathQuery{fn: run, from: cc, goal: func(i ssa.Instruction) bool { return i == ssa.Instruction(c) }}).exists(); ok2 {
						modBefore = true
					}
				}
			}
		})
		r.Check(modBefore, "C11.survives", fmt.Sprintf("runner.run restore arm #%d applies the state modifier first", i+1), c.Pos(), "modifier(cp.State) can reach the re-installation", "the caller-supplied state modifier does not run before the state is handed to the resumed run")
	}
	for _, h := range []*ssa.Function{hInt, hSub} {
		ok := false
		for _, fw := range fieldWrites(h) {
			if sameField(fw.field, cpState) && isLoadOfField(fw.val, fState) {
				ok = true
			}
		}
		r.Check(ok, "C11.survives", h.Name()+" records the state", h.Pos(), "cp.State = state.state", "the state is not saved at this kind of interrupt")
		// … and only its OWN state: a graph without a state generator running inside a stateful parent sees the
		// parent's state in its context; saving that into its own checkpoint makes the resumed nested run work on
		// a deserialised copy, and what its nodes write after the resume never reaches the parent
		fRunCtx := w.Field("compose", "runner", "runCtx")
		for _, fw := range fieldWrites(h) {
			if sameField(fw.field, cpState) && isLoadOfField(fw.val, fState) {
				own := hasGuard(fw.in.Block(), func(g guard) bool {
					return guardNonNil(g, func(v ssa.Value) bool { return isLoadOfField(v, fRunCtx) })
				})
				r.Check(own, "C11.survives", h.Name()+" records only the graph's own state", fw.in.Pos(), "guarded by r.runCtx != nil (the graph has a state generator)",
					"the state found in the context is saved into this graph's checkpoint even when the graph has no state of its own (it is the enclosing graph's): after a resume the nested graph works on a private copy and the parent loses every update made by the nested graph's nodes")
			}
		}
	}

	// ---- state-required
	// what a resume starts from is decoded from the stored bytes in this very call: a decoded checkpoint object is never
	// handed out twice (the run mutates it — the state modifier is applied in place, the state object goes into the run's
	// context, the handlers update it)
	r.Rule("C11.restored-state-fresh", "checkPointer.get returns only the checkpoint it has just decoded from the store's bytes (or nil)", 1)
	{
		get := w.Fn("compose", "checkPointer.get")
		var unm ssa.Value
		instrs(get, func(in ssa.Instruction) {
			if c, ok := in.(*ssa.Call); ok && (invokeName(c) == "Unmarshal" || (staticCallee(c) != nil && staticCallee(c).Name() == "Unmarshal")) {
				unm = c
			}
		})
		var fresh func(v ssa.Value, d int) bool
		fresh = func(v ssa.Value, d int) bool {
			if d > 8 || v == nil {
				return false
			}
			if isNilConst(v) {
				return true
			}
			switch x := v.(type) {
			case *ssa.TypeAssert:
				return fresh(x.X, d+1)
			case *ssa.Extract:
				return x.Tuple == unm || fresh(x.Tuple, d+1)
			case *ssa.Phi:
				for _, e := range x.Edges {
					if !fresh(e, d+1) {
						return false
					}
				}
				return len(x.Edges) > 0
			case *ssa.UnOp: // load of a local cell: every store into it is fresh
				if al, ok := x.X.(*ssa.Alloc); ok {
					n := 0
					for _, st := range storesToCell(get, al) {
						n++
						if !fresh(st.Val, d+1) {
							return false
						}
					}
					return n > 0
				}
			case *ssa.Call:
				return ssa.Value(x) == unm
			}
			return false
		}
		n := 0
		instrs(get, func(in ssa.Instruction) {
			ret, ok := in.(*ssa.Return)
			if !ok || len(ret.Results) != 3 {
				return
			}
			n++
			r.Check(unm != nil && fresh(ret.Results[0], 0), "C11.restored-state-fresh", fmt.Sprintf("checkPointer.get: return #%d", n), ret.Pos(), "nil or the value decoded by Unmarshal in this call", "get can hand out a checkpoint object that was not decoded in this call (a cache / a retained object): a second resume from the same id starts from the state as the first resume mutated it — the state is not 'carried unchanged', and two runs share one state object under two different mutexes")
		})
		if n == 0 {
			r.Fail("C11.restored-state-fresh", "checkPointer.get returns", get.Pos(), "no 3-result return found")
		}
	}

	r.Rule("C11.prehandler-skipped-for-subgraphs-only", "the interrupt handler marks a task to skip its state pre-handler on resume only when the task's node is an interrupted sub-graph (whose pre-handler already ran and whose saved input is the prepared one); pending and rerun tasks are saved with their RAW input and get their pre-handler on resume (shared with C05.skip-prehandler)", 1)
	skipMarkOnlySubGraphs(w, r, "C11.prehandler-skipped-for-subgraphs-only")

	shareRule(w, r, "C11.interrupt-keeps-sibling-updates", "an interrupt in an eager run waits for the running siblings before the state is saved: their ProcessState updates and post-handlers are in the checkpoint", 3, "C05", "C05.wait-all-before-save")
	shareRule(w, r, "C11.node-paths-are-own-slices", "the node path a nested run is given is a slice of its own: sibling graphs deep in a nesting do not share one backing array, or the state modifier is told the same path for both and one graph's modification lands on the other's state", 0, "C16", "C16.alias")
	shareRule(w, r, "C11.fresh-node-fresh-state", "a node scheduled (not restored) in a resumed run starts from a context without the checkpoint the run was resumed from: a nested graph reached a second time generates a fresh state instead of reusing the finished execution's", 1, "C06", "C06.fresh-node-no-checkpoint")
	r.Rule("C11.state-before-the-start-callback", "a fresh run generates its state before the graph's start callback fires: in runner.run no call of the state-generating closure (runner.runCtx) can follow a call of onGraphStart — a graph-level OnStart handler of a stateful graph must find that graph's state (nested in a parent with the same state type it would silently work on the parent's)", 1)
	{
		run := w.Fn("compose", "runner.run")
		ogs := w.Fn("compose", "onGraphStart")
		fRunCtx := w.Field("compose", "runner", "runCtx")
		n := 0
		for _, c := range callsTo(run, ogs) {
			n++
			after, wit := pathQuery{fn: run, from: c, goal: func(x ssa.Instruction) bool {
				cc, ok := x.(*ssa.Call)
				return ok && !cc.Call.IsInvoke() && staticCallee(cc) == nil && isLoadOfField(cc.Call.Value, fRunCtx)
			}}.exists()
			r.Check(!after, "C11.state-before-the-start-callback", fmt.Sprintf("runner.run: onGraphStart call #%d", n), c.Pos(), "no state generation behind it", "the state is generated after the start callback ("+wit+"): at top level ProcessState in a graph OnStart handler fails 'have not set state'; in a nested stateful graph whose parent has the same state type the handler's updates land on the parent's state and are missing from what the nested graph's nodes see")
		}
		if n == 0 {
			r.Deferred = append(r.Deferred, "C11.state-before-the-start-callback: runner.run calls onGraphStart nowhere")
		}
	}
	shareRule(w, r, "C11.state-generated-from-the-runs-context", "the state generator is called with the context of the run it generates the state for, not with a context captured when the graph was compiled: a generator that reads a request-scoped value or the enclosing graph's state must see this run's", 1, "C09", "C09.ctx-not-captured")

	r.Rule("C11.modifier-handed-down", "on a resume from the store the caller's state modifier is put into the context on every path to the restored tasks, whether or not this level has state of its own: a stateful nested graph below a stateful top-level graph gets its turn at the modifier too", 1)
	{
		run := w.Fn("compose", "runner.run")
		gcs := w.Fn("compose", "getCheckPointFromStore")
		rst := w.Fn("compose", "runner.restoreTasks")
		ssm := w.Fn("compose", "setStateModifier")
		n := 0
		for _, c := range callsTo(run, gcs) {
			n++
			skip, wit := pathQuery{fn: run, from: c, goal: func(in ssa.Instruction) bool { return isCallTo(in, rst) }, avoid: func(in ssa.Instruction) bool { return isCallTo(in, ssm) }}.exists()
			r.Check(!skip, "C11.modifier-handed-down", "runner.run: the store-resume arm always puts the state modifier into the context", c.Pos(), "setStateModifier lies on every path from the loaded checkpoint to restoreTasks", "the modifier is handed down only on some paths (e.g. only when this level has no state): a stateful nested graph below a stateful top-level graph resumes with its state unmodified although the caller passed WithStateModifier — no error, the modifier is simply never offered the nested path: "+wit)
		}
		if n == 0 {
			undecidedf("C11.modifier-handed-down: run does not call getCheckPointFromStore")
		}
	}

	r.Rule("C11.state-required", "addNode rejects nodes needing state when the graph has no state generator", 1)
	addNode := w.Fn("compose", "graph.addNode")
	fSG := w.Field("compose", "graph", "stateGenerator")
	okq := false
	instrs(addNode, func(in ssa.Instruction) {
		iff, ok := in.(*ssa.If)
		if !ok {
			return
		}
		op, x, y, ok := asCmp(iff.Cond)
		if ok && isLoadOfField(x, fSG) && isNilConst(y) {
			arm := 0
			if op == token.NEQ {
				arm = 1
			}
			reach, _ := pathFromBlock(pathQuery{fn: addNode, goal: func(i ssa.Instruction) bool { _, ok := i.(*ssa.MapUpdate); return ok }}, iff.Block().Succs[arm])
			if !reach {
				okq = true
			}
		}
	})
	r.Check(okq, "C11.state-required", "addNode: state handlers need graph state", addNode.Pos(), "stateGenerator == nil arm returns an error", "a node with state handlers is accepted on a stateless graph (its handler fails at run time)")
}
