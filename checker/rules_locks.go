package main

import (
	"fmt"
	"go/types"
	"sort"

	"golang.org/x/tools/go/ssa"
)

// GUARDED-BY: for a struct with a sync.Mutex field, a data field that is accessed with the mutex held somewhere is
// accessed with it held everywhere (constructors working on a fresh object excepted). The lock state is the
// forward must-analysis heldAt (Lock/Unlock of that very field; a deferred Unlock keeps the lock to the end).
// A function that is only ever called with the lock held (all its static callers hold it at the call) is
// analysed with the lock held at entry.

type guardedAccess struct {
	fn    *ssa.Function
	in    ssa.Instruction
	field *types.Var
	held  bool
	fresh bool
	write bool
}

func isMutexType(t types.Type) bool {
	n := namedOf(t)
	return n != nil && n.Obj().Pkg() != nil && n.Obj().Pkg().Path() == "sync" && (n.Obj().Name() == "Mutex" || n.Obj().Name() == "RWMutex")
}

// mutexStructs: named struct types of the given packages that have a mutex field (by value).
func mutexStructs(w *World, pkgs ...string) map[*types.Named]*types.Var {
	out := map[*types.Named]*types.Var{}
	for _, pk := range w.Pkgs {
		rel := w.relPkg(pk.PkgPath)
		ok := false
		for _, p := range pkgs {
			if rel == p || (len(rel) > len(p) && rel[:len(p)+1] == p+"/") {
				ok = true
			}
		}
		if !ok || pk.Types == nil {
			continue
		}
		for _, name := range pk.Types.Scope().Names() {
			tn, ok := pk.Types.Scope().Lookup(name).(*types.TypeName)
			if !ok {
				continue
			}
			named, ok := tn.Type().(*types.Named)
			if !ok {
				continue
			}
			st, ok := named.Underlying().(*types.Struct)
			if !ok {
				continue
			}
			for i := 0; i < st.NumFields(); i++ {
				if isMutexType(st.Field(i).Type()) {
					out[named] = st.Field(i)
				}
			}
		}
	}
	return out
}

func guardedAccesses(w *World, owner *types.Named, mu *types.Var, fns []*ssa.Function) []guardedAccess {
	var out []guardedAccess
	// entry state: held iff every static call site of fn (within fns) holds the lock
	entryHeld := map[*ssa.Function]bool{}
	for round := 0; round < 2; round++ {
		for _, fn := range fns {
			callers := 0
			all := true
			for _, caller := range fns {
				h := heldAt(caller, mu, entryHeld[caller])
				for _, c := range callsTo(caller, fn) {
					callers++
					if !h[c] {
						all = false
					}
				}
			}
			entryHeld[fn] = callers > 0 && all
		}
	}
	for _, fn := range fns {
		var h map[ssa.Instruction]bool
		instrs(fn, func(in ssa.Instruction) {
			fa, ok := in.(*ssa.FieldAddr)
			if !ok || ownerOfFieldAddr(fa) != owner {
				return
			}
			f := fieldVarOfAddr(fa)
			if f == nil || sameField(f, mu) {
				return
			}
			if h == nil {
				h = heldAt(fn, mu, entryHeld[fn])
			}
			write := false
			for _, ref := range *fa.Referrers() {
				if st, ok := ref.(*ssa.Store); ok && st.Addr == ssa.Value(fa) {
					write = true
				}
			}
			out = append(out, guardedAccess{fn, in, f, h[in], freshBase(fa.X, 0), write})
		})
	}
	return out
}

// ruleGuardedBy reports, per (type, field), accesses made without the mutex although other accesses hold it.
func ruleGuardedBy(w *World, r *Report, rule string, exceptions map[string]string, pkgs ...string) int {
	n := 0
	ms := mutexStructs(w, pkgs...)
	var owners []*types.Named
	for o := range ms {
		owners = append(owners, o)
	}
	sort.Slice(owners, func(i, j int) bool { return owners[i].Obj().Name() < owners[j].Obj().Name() })
	allFns := w.RepoFuncs(pkgs...)
	for _, owner := range owners {
		mu := ms[owner]
		// functions touching the type
		var fns []*ssa.Function
		for _, fn := range allFns {
			touch := false
			instrs(fn, func(in ssa.Instruction) {
				if fa, ok := in.(*ssa.FieldAddr); ok && ownerOfFieldAddr(fa) == owner {
					touch = true
				}
			})
			if touch {
				fns = append(fns, fn)
			}
		}
		acc := guardedAccesses(w, owner, mu, fns)
		byField := map[*types.Var][]guardedAccess{}
		for _, a := range acc {
			if a.fresh {
				continue
			}
			byField[a.field.Origin()] = append(byField[a.field.Origin()], a)
		}
		var fields []*types.Var
		for f := range byField {
			fields = append(fields, f)
		}
		sort.Slice(fields, func(i, j int) bool { return fields[i].Name() < fields[j].Name() })
		for _, f := range fields {
			as := byField[f]
			heldN, writes := 0, 0
			for _, a := range as {
				if a.held {
					heldN++
				}
				if a.write {
					writes++
				}
			}
			base := fmt.Sprintf("%s.%s guarded by %s", owner.Obj().Name(), f.Name(), mu.Name())
			if heldN == 0 || writes == 0 {
				r.Info(rule, base, as[0].in.Pos(), fmt.Sprintf("%d accesses, %d under the mutex, %d writes: not a mutex-protected mutable field", len(as), heldN, writes))
				continue
			}
			for i, a := range as {
				n++
				construct := fmt.Sprintf("%s: access #%d in %s", base, i+1, w.fname(origin(a.fn)))
				if a.held {
					r.OK(rule, construct, a.in.Pos(), "mutex held")
				} else if reason, ok := exceptions[fmt.Sprintf("%s in %s", base, w.fname(origin(a.fn)))]; ok {
					r.Except(rule, construct, a.in.Pos(), reason)
				} else {
					r.Fail(rule, construct, a.in.Pos(), fmt.Sprintf("the field is accessed here without %s although %d of its %d accesses hold it (and %d are writes): a data race with the protected accesses", mu.Name(), heldN, len(as), writes))
				}
			}
		}
	}
	return n
}

// ATOMIC-CONSISTENT: a field whose address is handed to a sync/atomic function somewhere is only ever accessed
// through sync/atomic (outside constructors working on a fresh object).
func ruleAtomicConsistent(w *World, r *Report, rule string, pkgs ...string) int {
	atomicFields := map[*types.Var]bool{}
	fns := w.RepoFuncs(pkgs...)
	isAtomicCall := func(in ssa.Instruction) bool {
		c, ok := in.(ssa.CallInstruction)
		if !ok {
			return false
		}
		sc := staticCallee(c)
		return sc != nil && sc.Pkg != nil && sc.Pkg.Pkg.Path() == "sync/atomic"
	}
	for _, fn := range fns {
		instrs(fn, func(in ssa.Instruction) {
			if !isAtomicCall(in) {
				return
			}
			for _, a := range in.(ssa.CallInstruction).Common().Args {
				if fa, ok := a.(*ssa.FieldAddr); ok {
					if f := fieldVarOfAddr(fa); f != nil {
						atomicFields[f.Origin()] = true
					}
				}
			}
		})
	}
	n := 0
	for _, fn := range fns {
		k := 0
		instrs(fn, func(in ssa.Instruction) {
			fa, ok := in.(*ssa.FieldAddr)
			if !ok {
				return
			}
			f := fieldVarOfAddr(fa)
			if f == nil || !atomicFields[f.Origin()] || freshBase(fa.X, 0) {
				return
			}
			for _, ref := range *fa.Referrers() {
				if _, isDbg := ref.(*ssa.DebugRef); isDbg {
					continue
				}
				n++
				k++
				owner := "?"
				if o := ownerOfFieldAddr(fa); o != nil {
					owner = o.Obj().Name()
				}
				construct := fmt.Sprintf("%s.%s access #%d in %s", owner, f.Name(), k, w.fname(origin(fn)))
				if isAtomicCall(ref) {
					r.OK(rule, construct, ref.Pos(), "through sync/atomic")
				} else {
					r.Fail(rule, construct, ref.Pos(), "the field is updated with sync/atomic elsewhere but accessed here with a plain load / store: concurrent updates can be lost (e.g. the count of closed stream copies never reaches the number of copies and the source is never closed)")
				}
			}
		})
	}
	return n
}

// LOCK-RELEASED: on every path from a Lock / RLock call to a return of the same function the mutex is unlocked again,
// explicitly or by a deferred Unlock registered on that path. The state is the set of possible (held, deferred) pairs
// (a may-analysis over 4 combinations), so a conditional `if c { mu.Lock(); defer mu.Unlock() }` is exact.
func mutexCallKind(in ssa.Instruction) (op string, key string, ok bool) {
	c, isCall := in.(ssa.CallInstruction)
	if !isCall {
		return "", "", false
	}
	name := calleeFullName(in)
	switch name {
	case "(*sync.Mutex).Lock", "(*sync.RWMutex).Lock", "(*sync.RWMutex).RLock":
		op = "lock"
	case "(*sync.Mutex).Unlock", "(*sync.RWMutex).Unlock", "(*sync.RWMutex).RUnlock":
		op = "unlock"
	default:
		return "", "", false
	}
	if len(c.Common().Args) == 0 {
		return "", "", false
	}
	switch a := c.Common().Args[0].(type) {
	case *ssa.FieldAddr:
		if f := fieldVarOfAddr(a); f != nil {
			return op, "field " + f.Name() + " of " + valText(a.X), true
		}
	case *ssa.Global:
		return op, "global " + a.Name(), true
	}
	return op, valText(c.Common().Args[0]), true
}

func ruleLockReleased(w *World, r *Report, rule string, exceptions map[string]string, pkgs ...string) int {
	n := 0
	for _, fn := range w.RepoFuncs(pkgs...) {
		keys := map[string]ssa.Instruction{}
		instrs(fn, func(in ssa.Instruction) {
			if _, isDefer := in.(*ssa.Defer); isDefer {
				return
			}
			if op, k, ok := mutexCallKind(in); ok && op == "lock" {
				if _, seen := keys[k]; !seen {
					keys[k] = in
				}
			}
		})
		var ks []string
		for k := range keys {
			ks = append(ks, k)
		}
		sort.Strings(ks)
		for _, k := range ks {
			n++
			construct := "mutex " + k + " locked in " + w.fname(origin(fn))
			if why, ok := exceptions[construct]; ok {
				r.Except(rule, construct, keys[k].Pos(), why)
				continue
			}
			// state bit i: (held = i&1, deferred = i&2)
			const (
				sFree      = 1 << 0
				sHeld      = 1 << 1
				sFreeDefer = 1 << 2
				sHeldDefer = 1 << 3
			)
			step := func(st uint8, in ssa.Instruction) uint8 {
				op, kk, ok := mutexCallKind(in)
				if !ok || kk != k {
					return st
				}
				_, isDefer := in.(*ssa.Defer)
				var out uint8
				for _, s := range []uint8{sFree, sHeld, sFreeDefer, sHeldDefer} {
					if st&s == 0 {
						continue
					}
					held := s == sHeld || s == sHeldDefer
					def := s == sFreeDefer || s == sHeldDefer
					switch {
					case isDefer && op == "unlock":
						def = true
					case isDefer:
					case op == "lock":
						held = true
					case op == "unlock":
						held = false
					}
					switch {
					case held && def:
						out |= sHeldDefer
					case held:
						out |= sHeld
					case def:
						out |= sFreeDefer
					default:
						out |= sFree
					}
				}
				return out
			}
			inS := map[*ssa.BasicBlock]uint8{}
			outS := map[*ssa.BasicBlock]uint8{}
			if len(fn.Blocks) == 0 {
				continue
			}
			inS[fn.Blocks[0]] = sFree
			for changed := true; changed; {
				changed = false
				for i, b := range fn.Blocks {
					st := inS[b]
					if i > 0 {
						st = 0
						for _, p := range b.Preds {
							st |= outS[p]
						}
					}
					inS[b] = st
					for _, in := range b.Instrs {
						st = step(st, in)
					}
					if outS[b] != st {
						outS[b] = st
						changed = true
					}
				}
			}
			var leak ssa.Instruction
			for _, b := range fn.Blocks {
				st := inS[b]
				for _, in := range b.Instrs {
					if _, isRet := in.(*ssa.Return); isRet && st&sHeld != 0 && leak == nil {
						leak = in
					}
					st = step(st, in)
				}
			}
			if leak != nil {
				r.Fail(rule, construct, leak.Pos(), "a path from the Lock to this return neither unlocks the mutex nor has a deferred Unlock registered: the next user of the mutex blocks forever")
			} else {
				r.OK(rule, construct, keys[k].Pos(), "every return after the Lock is preceded by an Unlock or covered by a deferred Unlock on that path")
			}
		}
	}
	return n
}

// PANIC-SAFE-LOCK: a mutex held across a call into code the framework does not own (a function value: parameter,
// captured variable, field, interface method of a non-repo type) must be released by a deferred Unlock — an explicit
// Unlock after the call is skipped when the callee panics, the panic is recovered further out (task executor, tool
// goroutine) and everybody else blocks on the mutex forever.
func rulePanicSafeLocks(w *World, r *Report, rule string, pkgs ...string) int {
	n := 0
	for _, fn := range w.RepoFuncs(pkgs...) {
		// explicit (non-deferred) unlocks
		instrs(fn, func(in ssa.Instruction) {
			if _, isDefer := in.(*ssa.Defer); isDefer {
				return
			}
			op, k, ok := mutexCallKind(in)
			if !ok || op != "unlock" {
				return
			}
			// walk backwards from the unlock to the matching lock(s); collect foreign calls on the way
			var foreign *ssa.Call
			seen := map[*ssa.BasicBlock]bool{}
			var walk func(b *ssa.BasicBlock, from int)
			walk = func(b *ssa.BasicBlock, from int) {
				for i := from; i >= 0; i-- {
					x := b.Instrs[i]
					if _, isDefer := x.(*ssa.Defer); isDefer {
						continue
					}
					if op2, k2, ok2 := mutexCallKind(x); ok2 && k2 == k && op2 == "lock" {
						return
					}
					if c, ok := x.(*ssa.Call); ok && foreign == nil && isForeignCall(w, c) {
						foreign = c
					}
				}
				for _, p := range b.Preds {
					if !seen[p] {
						seen[p] = true
						walk(p, len(p.Instrs)-1)
					}
				}
			}
			idx := instrIndex(in)
			walk(in.Block(), idx-1)
			n++
			construct := fmt.Sprintf("explicit Unlock of %s in %s", k, w.fname(origin(fn)))
			if foreign != nil {
				r.Fail(rule, construct, in.Pos(), fmt.Sprintf("the mutex is held across the call %s at %s (a function value / foreign method: it may panic) and released by a plain Unlock after it: when the callee panics the lock stays held — the panic is recovered further out and surfaces as an error, but every other user of the mutex (a sibling node touching the state, the next tool call) blocks forever and the run hangs", valText(foreign), w.pos(foreign.Pos())))
			} else {
				r.OK(rule, construct, in.Pos(), "only framework-owned, non-panicking bookkeeping between Lock and Unlock")
			}
		})
	}
	return n
}

// isForeignCall: the callee is not a statically known function of the module or the standard library: a func value
// (parameter, free variable, loaded field, result of another call) or an interface method.
func isForeignCall(w *World, c *ssa.Call) bool {
	if c.Call.IsInvoke() {
		return true
	}
	switch c.Call.Value.(type) {
	case *ssa.Function, *ssa.Builtin, *ssa.MakeClosure:
		return false
	}
	return true
}

// DONE-AFTER-RECOVER: in a goroutine that both signals a WaitGroup and turns its own panic into an error slot, the
// signal comes last: `defer wg.Done()` is registered BEFORE the recover handler (deferred calls run last-in-first-out), or
// Done is called inside the handler after the error has been stored. Otherwise the waiter can read the slot between
// Done and the store — a panicking task looks successful.
func ruleDoneAfterRecover(w *World, r *Report, rule string, pkgs ...string) int {
	n := 0
	hasRecover := func(f *ssa.Function) bool {
		return funcContains(f, func(i ssa.Instruction) bool { return isBuiltin(i, "recover") })
	}
	for _, fn := range w.RepoFuncs(pkgs...) {
		instrs(fn, func(in ssa.Instruction) {
			g, ok := in.(*ssa.Go)
			if !ok {
				return
			}
			lit := staticCallee(g)
			if lit == nil || len(lit.Blocks) == 0 {
				return
			}
			var dDone, dRec *ssa.Defer
			var recLit *ssa.Function
			instrs(lit, func(x ssa.Instruction) {
				d, ok := x.(*ssa.Defer)
				if !ok {
					return
				}
				if calleeFullName(d) == "(*sync.WaitGroup).Done" {
					dDone = d
					return
				}
				if f := staticCallee(d); f != nil && hasRecover(f) {
					dRec, recLit = d, f
				}
			})
			if dRec == nil {
				return
			}
			doneInHandler := funcContains(recLit, func(i ssa.Instruction) bool { return calleeFullName(i) == "(*sync.WaitGroup).Done" })
			if dDone == nil && !doneInHandler {
				return
			}
			n++
			construct := "goroutine " + w.fname(lit) + ": WaitGroup signalled after the panic has been recorded"
			switch {
			case dDone != nil:
				r.Check(instrDominates(dDone, dRec), rule, construct, lit.Pos(), "defer wg.Done() is registered before the recover handler (it runs after it)", "`defer wg.Done()` is registered after the recover handler, so it runs BEFORE it: the waiter is released before the panic is stored in the task's error — it can see a nil error for a panicking task (the panic is swallowed: the run reports success with the other tasks' results) and the late store races with the reader")
			default:
				// Done inside the handler: it must come after the recover() call's branch (all stores precede it)
				var rec, done ssa.Instruction
				instrs(recLit, func(i ssa.Instruction) {
					if isBuiltin(i, "recover") {
						rec = i
					}
					if calleeFullName(i) == "(*sync.WaitGroup).Done" {
						done = i
					}
				})
				okOrder := rec != nil && done != nil && instrDominates(rec, done)
				if okOrder {
					// no store after Done
					late, _ := pathQuery{fn: recLit, from: done, goal: func(i ssa.Instruction) bool { _, ok := i.(*ssa.Store); return ok }}.exists()
					okOrder = !late
				}
				r.Check(okOrder, rule, construct, lit.Pos(), "Done is the last thing the recover handler does", "the recover handler signals the WaitGroup before it has stored the panic: the waiter can read a nil error for a panicking task")
			}
		})
	}
	return n
}
