package main

import (
	"fmt"
	"go/constant"
	"go/token"
	"go/types"
	"strings"

	"golang.org/x/tools/go/ssa"
)

func init() {
	register(&propDef{
		id: "C07",
		explanation: "Static clauses of 'a graph that compiles cannot hit a type mismatch between concretely typed nodes': " +
			"(three-way) every checkAssignable result is handled three ways: must-not -> error return before any commit, may -> a run-time checker is installed; " +
			"(lattice) checkAssignable answers 'must' only for identical types or when the input implements the interface argument, 'may' only when the input is an interface the argument implements; " +
			"(validate-before-commit) data edges, branches and nodes are committed only after their type validation, whose failure blocks the commit; " +
			"(infer-write-once) an inferred pass-through type is written only while the slot is still nil; " +
			"(infer-helper-direction) a pass-through typed from its predecessor inherits the output-side converters, typed from its successor the input-side ones; " +
			"(unresolved-gate) compile cannot succeed with unresolved pass-through types; " +
			"(converter-is-checker) the handler installed on a may-edge/branch is the consumer's input converter, whose failing arm returns an error (comma-ok assertion); " +
			"(branch-handler-index) the run-time pre-branch handler list is indexed by the position of the branch in the node's branch list.",
		decided:    []string{"three-way", "lattice", "validate-before-commit", "infer-write-once", "infer-helper-direction", "unresolved-gate", "converter-is-checker", "branch-handler-index"},
		notDecided: []string{"soundness/confluence of pass-through inference over all construction orders", "dynamic values flowing through interface-typed edges", "type checks inside user code"},
		run:        runC07,
	})
}

func constValOf(w *World, rel, name string) int64 {
	c, ok := w.Pkg(rel).Types.Scope().Lookup(name).(*types.Const)
	if !ok {
		undecidedf("anchor: const %s.%s not found", rel, name)
	}
	v, _ := constant.Int64Val(c.Val())
	return v
}

func runC07(w *World, r *Report) {
	ca := w.Fn("compose", "checkAssignable")
	mustNot := constValOf(w, "compose", "assignableTypeMustNot")
	must := constValOf(w, "compose", "assignableTypeMust")
	may := constValOf(w, "compose", "assignableTypeMay")

	// ---- three-way
	r.Rule("C07.three-way", "every checkAssignable result: must-not arm returns an error before any commit; may arm installs a run-time checker", 6)
	callers := w.staticCallers(ca)
	if len(callers) < 3 {
		undecidedf("C07.three-way: %d callers of checkAssignable (floor 3)", len(callers))
	}
	for _, c := range callers {
		fn := c.Parent()
		res := c.(ssa.Value)
		construct := "checkAssignable in " + w.fname(fn)
		var ifMustNot, ifMay *ssa.If
		for _, ref := range *res.Referrers() {
			b, ok := ref.(*ssa.BinOp)
			if !ok || b.Op != token.EQL {
				continue
			}
			cv, ok := constInt(b.Y)
			if !ok {
				continue
			}
			for _, rr := range *b.Referrers() {
				if iff, ok := rr.(*ssa.If); ok {
					if cv == mustNot {
						ifMustNot = iff
					} else if cv == may {
						ifMay = iff
					}
				}
			}
		}
		if ifMustNot == nil {
			r.Fail("C07.three-way", construct+" must-not arm", c.Pos(), "result is never compared with assignableTypeMustNot: an impossible connection is accepted")
		} else {
			arm := ifMustNot.Block().Succs[0]
			commit, wit := pathFromBlock(pathQuery{fn: fn, goal: func(in ssa.Instruction) bool {
				switch x := in.(type) {
				case *ssa.MapUpdate:
					return true
				case *ssa.Store:
					_, isF := x.Addr.(*ssa.FieldAddr)
					return isF
				case *ssa.Return:
					return isNilConst(returnedValue(x, len(x.Results)-1)) && x.Block() != fn.Recover
				}
				return false
			}}, arm)
			r.Check(!commit, "C07.three-way", construct+" must-not arm", ifMustNot.Pos(), "returns an error, no commit reachable", "the must-not arm can continue to a commit or a nil-error return: "+wit)
		}
		// the "may" outcome needs an interface-typed SOURCE type; the dynamic type of a value (reflect.TypeOf(v)) never is one
		srcIsDynamic := false
		if tc, ok := c.Common().Args[0].(*ssa.Call); ok && calleeFullName(tc) == "reflect.TypeOf" {
			srcIsDynamic = true
		}
		if ifMay == nil && srcIsDynamic {
			r.OK("C07.three-way", construct+" may arm", c.Pos(), "the source type is the dynamic type of a value known at compile time (reflect.TypeOf): never an interface, the may outcome cannot occur")
		} else if ifMay == nil {
			r.Fail("C07.three-way", construct+" may arm", c.Pos(), "result is never compared with assignableTypeMay: an interface-typed connection gets no run-time check (the consumer's type assertion would panic)")
		} else {
			arm := ifMay.Block().Succs[0]
			// leaving the arm without a MapUpdate (install)
			leave, wit := pathFromBlock(pathQuery{fn: fn, goal: func(in ssa.Instruction) bool {
				b := in.Block()
				return !(b == arm || arm.Dominates(b))
			}, avoid: func(in ssa.Instruction) bool { _, ok := in.(*ssa.MapUpdate); return ok }}, arm)
			r.Check(!leave && len(arm.Preds) == 1, "C07.three-way", construct+" may arm", ifMay.Pos(), "a handler is installed (map update) on every path through the arm", "the may arm can be left without installing a run-time checker: "+wit)
		}
	}

	// ---- lattice
	r.Rule("C07.lattice", "checkAssignable: 'must' only under arg == input or input.Implements(arg); 'may' only under arg.Implements(input)", 3)
	pin, parg := ca.Params[paramIndex(ca, "input")], ca.Params[paramIndex(ca, "arg")]
	implementsOn := func(g guard, recv, arg *ssa.Parameter) bool {
		c, ok := g.cond.(*ssa.Call)
		if !ok || !g.pol || !c.Call.IsInvoke() || c.Call.Method.Name() != "Implements" {
			return false
		}
		return c.Call.Value == ssa.Value(recv) && len(c.Call.Args) == 1 && c.Call.Args[0] == ssa.Value(arg)
	}
	instrs(ca, func(in ssa.Instruction) {
		ret, ok := in.(*ssa.Return)
		if !ok {
			return
		}
		cv, ok := constInt(ret.Results[0])
		if !ok {
			r.Fail("C07.lattice", "checkAssignable return", ret.Pos(), "non-constant result")
			return
		}
		gs := guardsOf(ret.Block())
		switch cv {
		case must:
			good := false
			for _, g := range gs {
				op, x, y, ok := asCmp(g.cond)
				if ok && op == token.EQL && g.pol && ((x == ssa.Value(pin) && y == ssa.Value(parg)) || (x == ssa.Value(parg) && y == ssa.Value(pin))) {
					good = true
				}
				if implementsOn(g, pin, parg) {
					good = true
				}
			}
			r.Check(good, "C07.lattice", "checkAssignable returns must", ret.Pos(), "guarded by type identity or input.Implements(arg)", "'must' is answered for types that are merely assignable/convertible: the consumer's exact type assertion will panic at run time")
		case may:
			good := false
			for _, g := range gs {
				if implementsOn(g, parg, pin) {
					good = true
				}
			}
			r.Check(good, "C07.lattice", "checkAssignable returns may", ret.Pos(), "guarded by arg.Implements(input)", "'may' is answered without the argument type implementing the input interface")
		}
	})
	for _, c := range callsNamedInvoke(ca, "AssignableTo", "ConvertibleTo") {
		r.Fail("C07.lattice", "checkAssignable uses "+c.Common().Method.Name(), c.Pos(), "assignability is wider than the exact-type assertion done by the consumer (named vs unnamed composite types)")
	}

	// ---- validate-before-commit
	r.Rule("C07.validate-before-commit", "edges / branches / nodes are committed only after type validation whose failure blocks the commit", 5)
	graphT := w.Named("compose", "graph")
	addEdge := w.Fn("compose", "graph.addEdgeWithMappings")
	addBranch := w.Fn("compose", "graph.addBranch")
	addNode := w.Fn("compose", "graph.addNode")
	updTV := w.Fn("compose", "graph.updateToValidateMap")
	addTV := w.Fn("compose", "graph.addToValidateMap")
	writesOf := func(fn *ssa.Function, field string) []ssa.Instruction {
		var out []ssa.Instruction
		for _, fw := range fieldWrites(fn) {
			if fw.owner == graphT && fw.field.Name() == field {
				out = append(out, fw.in)
			}
		}
		return out
	}
	isOneOf := func(list []ssa.Instruction) func(ssa.Instruction) bool {
		return func(in ssa.Instruction) bool {
			for _, x := range list {
				if x == in {
					return true
				}
			}
			return false
		}
	}
	// an edge leaves the to-validate list only once one of its two ends is typed: the removal in updateToValidateMap is
	// reached, within one iteration, only past the non-nil side of a test of getNodeOutputType / getNodeInputType
	{
		gOut, gIn := w.Fn("compose", "graph.getNodeOutputType"), w.Fn("compose", "graph.getNodeInputType")
		fromTypeCall := func(v ssa.Value) bool {
			seen := map[ssa.Value]bool{}
			var rec func(v ssa.Value) bool
			rec = func(v ssa.Value) bool {
				if seen[v] {
					return false
				}
				seen[v] = true
				switch x := v.(type) {
				case *ssa.Call:
					sc := staticCallee(x)
					return sc == gOut || sc == gIn
				case *ssa.Phi:
					for _, e := range x.Edges {
						if rec(e) {
							return true
						}
					}
				}
				return false
			}
			return rec(v)
		}
		nonNilEdge := map[[2]*ssa.BasicBlock]bool{}
		ntests := 0
		instrs(updTV, func(in ssa.Instruction) {
			iff, ok := in.(*ssa.If)
			if !ok {
				return
			}
			op, a, b, ok := asCmp(iff.Cond)
			if !ok || !(isNilConst(a) || isNilConst(b)) {
				return
			}
			v := a
			if isNilConst(a) {
				v = b
			}
			if !fromTypeCall(v) {
				return
			}
			ntests++
			blk := iff.Block()
			if op == token.EQL {
				nonNilEdge[[2]*ssa.BasicBlock{blk, blk.Succs[1]}] = true
			} else {
				nonNilEdge[[2]*ssa.BasicBlock{blk, blk.Succs[0]}] = true
			}
		})
		var removals []ssa.Instruction
		for _, in := range writesOf(updTV, "toValidateMap") {
			if _, ok := in.(*ssa.MapUpdate); ok {
				removals = append(removals, in)
			}
		}
		if len(removals) == 0 || ntests < 2 {
			undecidedf("C07.validate-before-commit: updateToValidateMap: %d removals from toValidateMap, %d nil-tests of node types", len(removals), ntests)
		}
		for _, rm := range removals {
			var inner *loopInfo
			for _, li := range naturalLoops(updTV) {
				li := li
				if li.body[rm.Block()] && (inner == nil || len(li.body) < len(inner.body)) {
					inner = &li
				}
			}
			if inner == nil {
				undecidedf("C07.validate-before-commit: the removal from toValidateMap is not in a loop")
			}
			bad, wit := false, ""
			for _, sb := range inner.header.Succs {
				if !inner.body[sb] {
					continue
				}
				q := pathQuery{fn: updTV, goal: func(in ssa.Instruction) bool { return in == rm },
					avoidEdge: func(a, b *ssa.BasicBlock) bool { return nonNilEdge[[2]*ssa.BasicBlock{a, b}] || b == inner.header }}
				if ok, w2 := pathFromBlock(q, sb); ok {
					bad, wit = true, w2
				}
			}
			r.Check(!bad, "C07.validate-before-commit", "updateToValidateMap: an edge is taken off the to-validate list only when one end is typed", rm.Pos(), "every in-iteration path to the removal takes the non-nil side of a node-type test", "an edge between two still-untyped nodes (pass-through to pass-through) is dropped from the list: when the types become known later nobody compares them — a type-incompatible chain through pass-through nodes compiles and the mismatch surfaces (or panics) at run time: "+wit)
		}
	}
	{
		ws := writesOf(addEdge, "dataEdges")
		if len(ws) == 0 {
			undecidedf("C07: no write of graph.dataEdges in addEdgeWithMappings")
		}
		skip, wit := pathQuery{fn: addEdge, goal: isOneOf(ws), avoid: func(in ssa.Instruction) bool { return isCallTo(in, updTV) }}.exists()
		skip2, wit2 := pathQuery{fn: addEdge, goal: isOneOf(ws), avoid: func(in ssa.Instruction) bool { return isCallTo(in, addTV) }}.exists()
		r.Check(!skip && !skip2, "C07.validate-before-commit", "addEdgeWithMappings: data edge committed after validation", ws[0].Pos(), "addToValidateMap and updateToValidateMap lie on every path to the dataEdges write", "a data edge can be committed without type validation: "+wit+wit2)
		// failing validation blocks the commit
		for _, c := range callsTo(addEdge, updTV) {
			blocked := false
			for _, ref := range *c.(ssa.Value).Referrers() {
				if st, ok := ref.(*ssa.Store); ok { // err = ... (named result cell)
					for _, rr := range *st.Addr.Referrers() {
						if u, ok := rr.(*ssa.UnOp); ok {
							for _, r3 := range *u.Referrers() {
								if b, ok := r3.(*ssa.BinOp); ok && isNilConst(b.Y) {
									for _, r4 := range *b.Referrers() {
										if iff, ok := r4.(*ssa.If); ok {
											bad := 0
											if b.Op == token.EQL {
												bad = 1
											}
											reach, _ := pathFromBlock(pathQuery{fn: addEdge, goal: isOneOf(ws)}, iff.Block().Succs[bad])
											if !reach {
												blocked = true
											}
										}
									}
								}
							}
						}
					}
				}
				if b, ok := ref.(*ssa.BinOp); ok && isNilConst(b.Y) {
					for _, r4 := range *b.Referrers() {
						if iff, ok := r4.(*ssa.If); ok {
							bad := 0
							if b.Op == token.EQL {
								bad = 1
							}
							reach, _ := pathFromBlock(pathQuery{fn: addEdge, goal: isOneOf(ws)}, iff.Block().Succs[bad])
							if !reach {
								blocked = true
							}
						}
					}
				}
			}
			r.Check(blocked, "C07.validate-before-commit", "addEdgeWithMappings: validation error blocks the commit", c.Pos(), "err != nil arm cannot reach the dataEdges write", "the result of updateToValidateMap does not block the commit")
		}
	}
	{
		ws := writesOf(addBranch, "branches")
		if len(ws) == 0 {
			undecidedf("C07: no write of graph.branches in addBranch")
		}
		skip, wit := pathQuery{fn: addBranch, goal: isOneOf(ws), avoid: func(in ssa.Instruction) bool { return isCallTo(in, ca) }}.exists()
		r.Check(!skip, "C07.validate-before-commit", "addBranch: branch committed after condition-type check", ws[0].Pos(), "checkAssignable lies on every path to the branches write", "a branch can be committed without checking its condition's input type: "+wit)
		// data-carrying branches validate each end node: updateToValidateMap on the !skipData arm
		sk := addBranch.Params[paramIndex(addBranch, "skipData")]
		ok2 := false
		for _, c := range callsTo(addBranch, updTV) {
			if hasGuard(c.Block(), func(g guard) bool { return g.cond == ssa.Value(sk) && !g.pol }) {
				ok2 = true
			}
		}
		r.Check(ok2, "C07.validate-before-commit", "addBranch: end nodes validated when the branch carries data", addBranch.Pos(), "updateToValidateMap on the !skipData arm", "branch targets are not type-validated")
		// ... EVERY end node: no iteration of the end-node loop moves on to the next target without registering and
		// validating the connection start -> target (END included: it is typed with the graph's output)
		for _, m := range []*ssa.Function{addTV, updTV} {
			for _, c := range callsTo(addBranch, m) {
				skips, wit := iterationSkips(addBranch, c)
				r.Check(!skips, "C07.validate-before-commit", "addBranch: every end node passes "+m.Name(), c.Pos(), "no iteration of the end-node loop bypasses the call", "an iteration of the end-node loop can go on to the next target without "+m.Name()+" ("+wit+"): that connection (e.g. branch -> END) is neither type-checked nor given its run-time converter — int reaches END(string) and the unchecked out.(O) panics out of Invoke")
			}
		}
	}
	{
		ws := writesOf(addNode, "nodes")
		fState := w.Field("compose", "graph", "stateType")
		n := 0
		instrs(addNode, func(in ssa.Instruction) {
			iff, ok := in.(*ssa.If)
			if !ok {
				return
			}
			op, x, y, ok := asCmp(iff.Cond)
			if !ok || (op != token.NEQ && op != token.EQL) {
				return
			}
			fx, _ := loadedField(x)
			fy, _ := loadedField(y)
			isState := (sameField(fx, fState) && fy != nil && (fy.Name() == "preStateType" || fy.Name() == "postStateType")) ||
				(sameField(fy, fState) && fx != nil && (fx.Name() == "preStateType" || fx.Name() == "postStateType"))
			isIO := false
			if cx, ok := x.(*ssa.Call); ok && fy != nil && (fy.Name() == "outputType" || fy.Name() == "inputType") {
				if sc := staticCallee(cx); sc != nil && (sc.Name() == "inputType" || sc.Name() == "outputType") {
					isIO = true
				}
			}
			if !isState && !isIO {
				return
			}
			bad := 0
			if op == token.EQL {
				bad = 1
			}
			n++
			reach, wit := pathFromBlock(pathQuery{fn: addNode, goal: isOneOf(ws)}, iff.Block().Succs[bad])
			kind := "state type"
			if isIO {
				kind = "handler I/O type"
			}
			r.Check(!reach, "C07.validate-before-commit", "addNode: "+kind+" mismatch blocks the node", iff.Pos(), "mismatch arm cannot reach the nodes write", "a node with a mismatching state handler is accepted: "+wit)
		})
		if n < 4 {
			r.Fail("C07.validate-before-commit", "addNode: state handler type checks", addNode.Pos(), fmt.Sprintf("only %d of the pre/post handler state-type and I/O-type comparisons found (need 4)", n))
		}
	}

	// ---- infer-write-once
	r.Rule("C07.infer-write-once", "an inferred pass-through type is stored only while the slot is still nil", 6)
	crT := w.Named("compose", "composableRunnable")
	isTypeQuery := func(v ssa.Value) bool {
		// a value that denotes "the node's current type": a load of cr.inputType/outputType or a call to the accessors
		if f, _ := loadedField(v); f != nil && (f.Name() == "inputType" || f.Name() == "outputType") {
			return true
		}
		seen := map[ssa.Value]bool{}
		var q func(v ssa.Value, d int) bool
		q = func(v ssa.Value, d int) bool {
			if d > 6 || seen[v] {
				return false
			}
			seen[v] = true
			switch x := v.(type) {
			case *ssa.Call:
				sc := staticCallee(x)
				return sc != nil && (sc.Name() == "getNodeInputType" || sc.Name() == "getNodeOutputType" || sc.Name() == "inputType" || sc.Name() == "outputType")
			case *ssa.Phi:
				for _, e := range x.Edges {
					if q(e, d+1) {
						return true
					}
				}
			}
			return false
		}
		return q(v, 0)
	}
	nInf := 0
	for _, fn := range w.RepoFuncs("compose") {
		for _, fw := range fieldWrites(fn) {
			if fw.owner != crT || fw.kind != "store" || freshBase(fw.base, 0) {
				continue
			}
			if _, localCopy := fw.base.(*ssa.Alloc); localCopy {
				continue // a by-value copy under construction (key wrappers): not the node registered in the graph
			}
			switch fw.field.Name() {
			case "inputType", "outputType", "genericHelper":
			default:
				continue
			}
			nInf++
			construct := fmt.Sprintf("%s infers %s", w.fname(origin(fn)), fw.field.Name())
			g := hasGuard(fw.in.Block(), func(g guard) bool { return guardIsNil(g, isTypeQuery) })
			if !g {
				// the store may live in a helper: accept when every call site of the helper is guarded
				cs := w.staticCallers(origin(fn))
				if len(cs) > 0 {
					g = true
					for _, c := range cs {
						if !hasGuard(c.Block(), func(g guard) bool { return guardIsNil(g, isTypeQuery) }) {
							g = false
						}
					}
				}
			}
			r.Check(g, "C07.infer-write-once", construct, fw.in.Pos(), "guarded by a nil test of the node's current type", "an already inferred (and already used for validation) pass-through type can be replaced: earlier edges were validated against the old type")
		}
	}
	if nInf < 6 {
		undecidedf("C07.infer-write-once: %d inference stores found (floor 6)", nInf)
	}

	// ---- infer-helper-direction
	r.Rule("C07.infer-helper-direction", "a pass-through typed from its predecessor takes the predecessor's OUTPUT-side helper (forSuccessorPassthrough); typed from its successor / branch, the INPUT-side helper (forPredecessorPassthrough)", 3)
	{
		fsp := w.Fn("compose", "genericHelper.forSuccessorPassthrough")
		fpp := w.Fn("compose", "genericHelper.forPredecessorPassthrough")
		gnot := w.Fn("compose", "graph.getNodeOutputType")
		gnit := w.Fn("compose", "graph.getNodeInputType")
		isCallOf := func(v ssa.Value, f *ssa.Function) bool {
			seen := map[ssa.Value]bool{}
			var q func(v ssa.Value, d int) bool
			q = func(v ssa.Value, d int) bool {
				if d > 6 || seen[v] {
					return false
				}
				seen[v] = true
				switch x := v.(type) {
				case *ssa.Call:
					return isCallTo(x, f)
				case *ssa.Phi:
					for _, e := range x.Edges {
						if q(e, d+1) {
							return true
						}
					}
				}
				return false
			}
			return q(v, 0)
		}
		// collect helper-derivation calls in the inference code (updateToValidateMap, addBranch and their static callees in package compose)
		scope := map[*ssa.Function]bool{}
		var walk func(f *ssa.Function, d int)
		walk = func(f *ssa.Function, d int) {
			if f == nil || scope[f] || d > 2 || f.Blocks == nil || !w.inRepo(f) || w.relPkg(fnPkg(f).Path()) != "compose" {
				return
			}
			scope[f] = true
			instrs(f, func(in ssa.Instruction) {
				if c, ok := in.(ssa.CallInstruction); ok {
					walk(staticCallee(c), d+1)
				}
			})
		}
		walk(updTV, 0)
		nS, nP := 0, 0
		for f := range scope {
			if f != updTV {
				// helpers: the direction cannot be judged inside a helper that serves both arms
				if len(callsTo(f, fsp))+len(callsTo(f, fpp)) > 0 && f != fsp && f != fpp && f.Name() != "getNodeGenericHelper" {
					r.Fail("C07.infer-helper-direction", "helper derivation in "+w.fname(f), f.Pos(), "the pass-through helper is derived inside a shared helper function: the predecessor/successor direction is no longer tied to the arm that inferred the type")
				}
				continue
			}
			for _, c := range callsTo(f, fsp) {
				nS++
				// arm: start's output known (non-nil), end's input unknown (nil)
				gOut := hasGuard(c.Block(), func(g guard) bool { return guardNonNil(g, func(v ssa.Value) bool { return isCallOf(v, gnot) }) })
				gIn := hasGuard(c.Block(), func(g guard) bool { return guardIsNil(g, func(v ssa.Value) bool { return isCallOf(v, gnit) }) })
				r.Check(gOut && gIn, "C07.infer-helper-direction", "updateToValidateMap: successor pass-through inherits the predecessor's output side", c.Pos(), "forSuccessorPassthrough under (start output known, end input unknown)", "output-side helper used on the wrong arm")
			}
			for _, c := range callsTo(f, fpp) {
				nP++
				gOut := hasGuard(c.Block(), func(g guard) bool { return guardIsNil(g, func(v ssa.Value) bool { return isCallOf(v, gnot) }) })
				r.Check(gOut, "C07.infer-helper-direction", "updateToValidateMap: predecessor pass-through inherits the successor's input side", c.Pos(), "forPredecessorPassthrough under (start output unknown)", "input-side helper used on the wrong arm")
			}
		}
		r.Check(nS >= 1 && nP >= 1, "C07.infer-helper-direction", "updateToValidateMap uses both directions", updTV.Pos(), fmt.Sprintf("%d output-side, %d input-side derivations", nS, nP), "a pass-through typed from its predecessor no longer takes the predecessor's output-side converters: its run-time checker validates against the wrong type (valid values rejected, invalid ones panic downstream)")
		// addBranch: the pass-through is the branch's predecessor
		okb := len(callsTo(addBranch, fpp)) == 1 && len(callsTo(addBranch, fsp)) == 0
		r.Check(okb, "C07.infer-helper-direction", "addBranch: pass-through before a branch inherits the branch's input side", addBranch.Pos(), "forPredecessorPassthrough", "wrong helper direction for a pass-through typed by a branch")
	}

	// ---- unresolved gate
	r.Rule("C07.unresolved-gate", "graph.compile cannot succeed while toValidateMap holds unresolved entries", 1)
	gcompile := w.Fn("compose", "graph.compile")
	tvm := w.Field("compose", "graph", "toValidateMap")
	foundGate := false
	instrs(gcompile, func(in ssa.Instruction) {
		iff, ok := in.(*ssa.If)
		if !ok {
			return
		}
		op, x, y, ok := asCmp(iff.Cond)
		if !ok || !isConstN(y, 0) {
			return
		}
		fromTVM := isLenOf(x, func(v ssa.Value) bool {
			e, ok := v.(*ssa.Extract)
			if !ok {
				return false
			}
			n, ok := e.Tuple.(*ssa.Next)
			if !ok {
				return false
			}
			rg, ok := n.Iter.(*ssa.Range)
			return ok && isLoadOfField(rg.X, tvm)
		})
		if !fromTVM {
			return
		}
		bad := 0
		if op == token.EQL || op == token.LEQ {
			bad = 1
		}
		foundGate = true
		reach, wit := pathFromBlock(pathQuery{fn: gcompile, goal: func(i ssa.Instruction) bool {
			ret, ok := i.(*ssa.Return)
			return ok && ret.Block() != gcompile.Recover && isNilConst(returnedValue(ret, 1))
		}}, iff.Block().Succs[bad])
		r.Check(!reach, "C07.unresolved-gate", "graph.compile rejects unresolved types", iff.Pos(), "non-empty toValidateMap entry blocks success", "compile can succeed with uninferred pass-through types: "+wit)
	})
	if !foundGate {
		r.Fail("C07.unresolved-gate", "graph.compile rejects unresolved types", gcompile.Pos(), "no test of toValidateMap entries in compile")
	}

	// ---- converter-is-checker
	r.Rule("C07.converter-is-checker", "the handler installed on a may connection is the consumer's inputConverter; default checkers fail with an error (comma-ok)", 4)
	for _, c := range callers {
		fn := c.Parent()
		if fn != updTV && fn != addBranch {
			continue
		}
		res := c.(ssa.Value)
		for _, ref := range *res.Referrers() {
			b, ok := ref.(*ssa.BinOp)
			if !ok {
				continue
			}
			cv, _ := constInt(b.Y)
			if cv != may {
				continue
			}
			for _, rr := range *b.Referrers() {
				iff, ok := rr.(*ssa.If)
				if !ok {
					continue
				}
				arm := iff.Block().Succs[0]
				okc := false
				for _, blk := range fn.Blocks {
					if !(blk == arm || arm.Dominates(blk)) {
						continue
					}
					for _, in := range blk.Instrs {
						f, base := loadedFieldOfInstr(in)
						if f == nil || f.Name() != "inputConverter" {
							continue
						}
						// base: getNodeGenericHelper(endNode) result, or branch parameter's embedded helper
						_ = base
						okc = true
					}
				}
				r.Check(okc, "C07.converter-is-checker", "may arm in "+w.fname(fn)+" installs inputConverter", iff.Pos(), "the consumer's inputConverter pair", "the installed handler is not the consumer's input converter")
			}
		}
	}
	for _, n := range []string{"defaultValueChecker", "defaultStreamConverter"} {
		f := w.Fn("compose", n)
		okc := false
		bad := false
		for _, ff := range withAnons(f) {
			instrs(ff, func(in ssa.Instruction) {
				if ta, ok := in.(*ssa.TypeAssert); ok {
					if ta.CommaOk {
						okc = true
					} else {
						bad = true
					}
				}
			})
		}
		r.Check(okc && !bad, "C07.converter-is-checker", n+" uses a comma-ok assertion", f.Pos(), "mismatch returns an error", "run-time type check panics instead of returning an error")
		// … and nothing gets past it: every non-error return is on the ok arm of that assertion (no fast path for nil or
		// anything else — a nil dynamic value is NOT assignable to a non-interface consumer)
		for _, ff := range withAnons(f) {
			nok := 0
			instrs(ff, func(in ssa.Instruction) {
				ret, ok := in.(*ssa.Return)
				if !ok || len(ret.Results) < 2 || !isNilConst(returnedValue(ret, len(ret.Results)-1)) {
					return
				}
				nok++
				guarded := hasGuard(ret.Block(), func(g guard) bool {
					e, ok := g.cond.(*ssa.Extract)
					if !ok || e.Index != 1 || !g.pol {
						return false
					}
					_, isTA := e.Tuple.(*ssa.TypeAssert)
					return isTA
				})
				r.Check(guarded, "C07.converter-is-checker", fmt.Sprintf("%s: success return #%d is on the ok arm of the assertion", w.fname(ff), nok), ret.Pos(), "value returned only after v.(T) succeeded",
					"a value can leave the run-time checker without having been asserted to the consumer's type (e.g. a nil fast path): it reaches a concretely typed node / branch condition and panics there instead of the connection reporting an ordinary 'runtime type check fail' error")
			})
		}
	}
	// the stream half has no way round either: whatever defaultStreamConverter returns is the converting wrapper
	{
		f := w.Fn("compose", "defaultStreamConverter")
		var convs []*ssa.Call
		instrs(f, func(in ssa.Instruction) {
			if c, ok := in.(*ssa.Call); ok {
				if sc := staticCallee(c); sc != nil && origin(sc).Name() == "StreamReaderWithConvert" {
					convs = append(convs, c)
				}
			}
		})
		if len(convs) == 0 {
			undecidedf("C07.converter-is-checker: defaultStreamConverter does not call schema.StreamReaderWithConvert")
		}
		n := 0
		instrs(f, func(in ssa.Instruction) {
			ret, ok := in.(*ssa.Return)
			if !ok || len(ret.Results) != 1 {
				return
			}
			n++
			okd := false
			for _, c := range convs {
				if derivesFrom(returnedValue(ret, 0), c) {
					okd = true
				}
			}
			// … or the reader itself where the consumer's own unpacking is known to take it (and check it chunk by chunk
			// where a check is due): under unpackStreamReader[T](reader) having answered ok
			if p, isP := returnedValue(ret, 0).(*ssa.Parameter); isP && !okd {
				okd = hasGuard(ret.Block(), func(g guard) bool {
					ex, ok := g.cond.(*ssa.Extract)
					if !ok || ex.Index != 1 || !g.pol {
						return false
					}
					c, ok := ex.Tuple.(*ssa.Call)
					if !ok || len(c.Call.Args) != 1 || c.Call.Args[0] != ssa.Value(p) {
						return false
					}
					sc := staticCallee(c)
					return sc != nil && origin(sc).Name() == "unpackStreamReader"
				})
			}
			r.Check(okd, "C07.converter-is-checker", fmt.Sprintf("defaultStreamConverter: return #%d hands back the checking wrapper", n), ret.Pos(), "the returned reader derives from StreamReaderWithConvert(…, v.(T))",
				"a stream can leave the run-time checker as it came (a fast path on the reader's chunk type, nil-ness, …): the chunk type of the OBJECT travelling over an interface-declared edge is whatever the producer made — a pass-through or a sub-graph with an `any` input forwards a StreamReader[string] untouched — so a non-assignable stream reaches the concretely typed consumer and panics there in Stream / Transform mode while Invoke reports the ordinary 'runtime type check fail' error")
		})
	}
	inputKeyNarrowingChecked(w, r, "C07.converter-is-checker")
	unpackRefusalChecks(w, r, "C07.converter-is-checker")
	// the type / helper getters answer from what the node is NOW: they keep nothing (a pass-through node's helper is
	// provisional until its type is inferred; a memoised provisional helper outlives the inference)
	r.Rule("C07.static-values-typed", "a static value set on a node is type-checked against the node's input type at Compile, like a mapping whose source type is the value's (shared with C15): both types are known and concrete when the workflow is declared", 1)
	staticValuesTypeChecked(w, r, "C07.static-values-typed")

	r.Rule("C07.branch-checks-all-handed-over", "the table of run-time checks in front of branch conditions the runner gets is the builder's own table, or a copy made by ranging over that table: every start node that has checks — START included, which is not among the graph's nodes — keeps them", 1)
	{
		gc := w.Fn("compose", "graph.compile")
		fHPB := w.Field("compose", "graph", "handlerPreBranch")
		fH := w.Field("compose", "preBranchHandlerManager", "h")
		n := 0
		for _, fw := range fieldWrites(gc) {
			if !sameField(fw.field, fH) {
				continue
			}
			n++
			good, det := false, "the table is neither the builder's nor a copy ranged over it"
			if isLoadOfField(fw.val, fHPB) {
				good = true
			} else if mk, ok := fw.val.(*ssa.MakeMap); ok {
				all, any := true, false
				for _, ref := range *mk.Referrers() {
					mu, ok := ref.(*ssa.MapUpdate)
					if !ok || mu.Map != ssa.Value(mk) {
						continue
					}
					any = true
					inRange := false
					for _, li := range naturalLoops(gc) {
						if !li.body[mu.Block()] {
							continue
						}
						for _, in := range li.header.Instrs {
							if nx, ok := in.(*ssa.Next); ok {
								if rg, ok := nx.Iter.(*ssa.Range); ok && isLoadOfField(rg.X, fHPB) {
									inRange = true
								}
							}
						}
					}
					if !inRange {
						all = false
					}
				}
				good = any && all
				if !good {
					det = "the copy is filled while ranging over something else than the builder's table (the graph's nodes: START is not one of them)"
				}
			}
			r.Check(good, "C07.branch-checks-all-handed-over", "graph.compile hands the runner every pre-branch check", fw.in.Pos(), "g.handlerPreBranch itself, or a copy ranged over it", det+": a branch attached to START loses its interface-to-concrete check — on NewGraph[any, …] with AddBranch(START, cond[string]) an int input reaches the condition and the panic 'unexpected input type' escapes a top-level Invoke instead of the ordinary 'runtime type check fail' error")
		}
		if n == 0 {
			undecidedf("C07.branch-checks-all-handed-over: graph.compile does not build a preBranchHandlerManager")
		}
	}

	shareRule(w, r, "C07.keyed-helper-sides", "the helper of a node with an output key replaces the output-side slots (converter, pair, zero value) by the map's: a pass-through typed from it checks interface-typed edges against map[string]any, not against the inner output type", 4, "C04", "C04.in-out-wiring")
	shareRule(w, r, "C07.keyed-stream-mismatch-is-an-error", "the stream half of WithInputKey skips a chunk only when the key is missing: a value of the wrong type under the key is the same ordinary type error Invoke reports, not a silently shorter input", 1, "C04", "C04.key-filter-miss-only")
	shareRule(w, r, "C07.checkers-check-their-own-mapping", "the run-time checker built for one mapping of an edge checks against that mapping's own target type: the literal captures per-iteration copies, not variables declared outside the loop", 1, "C15", "C15.checker-capture")

	r.Rule("C07.inference-through-side-accessors", "every place where the graph infers the type of a pass-through node (a store to a node's runnable input type through g.nodes) stands under 'the type seen from the side the inference comes through is still unknown', asked of the side accessor (getNodeInputType / getNodeOutputType, graphNode.inputType / outputType) — which answers map[string]any for a keyed side — never of the raw field: the keyed side of a node is not the value that goes through it", 2)
	{
		fNodes := w.Field("compose", "graph", "nodes")
		fCr := w.Field("compose", "graphNode", "cr")
		fIn := w.Field("compose", "composableRunnable", "inputType")
		accessors := map[*ssa.Function]bool{}
		for _, nm := range []string{"graph.getNodeInputType", "graph.getNodeOutputType", "graphNode.inputType", "graphNode.outputType"} {
			accessors[w.Fn("compose", nm)] = true
		}
		throughNodes := func(v ssa.Value) bool {
			u, ok := v.(*ssa.UnOp)
			if !ok || u.Op != token.MUL {
				return false
			}
			fa, ok := u.X.(*ssa.FieldAddr)
			if !ok || !sameField(fieldVarOfAddr(fa), fCr) {
				return false
			}
			x := fa.X
			if e, ok := x.(*ssa.Extract); ok {
				x = e.Tuple
			}
			lk, ok := x.(*ssa.Lookup)
			return ok && isLoadOfField(lk.X, fNodes)
		}
		var fromAccessor func(v ssa.Value, d int) bool
		fromAccessor = func(v ssa.Value, d int) bool {
			if d > 6 {
				return false
			}
			switch x := v.(type) {
			case *ssa.Call:
				sc := staticCallee(x)
				return sc != nil && accessors[sc]
			case *ssa.Phi:
				// a variable declared outside a loop and assigned from the accessor inside it: some edge is the call
				for _, e := range x.Edges {
					if fromAccessor(e, d+1) {
						return true
					}
				}
			case *ssa.UnOp:
				if a, ok := x.X.(*ssa.Alloc); ok && x.Op == token.MUL {
					for _, st := range storesToCell(a.Parent(), a) {
						if fromAccessor(st.Val, d+1) {
							return true
						}
					}
				}
			}
			return false
		}
		n := 0
		for _, fn := range w.RepoFuncs("compose") {
			for _, fw := range fieldWrites(fn) {
				if !sameField(fw.field, fIn) || !throughNodes(fw.base) {
					continue
				}
				n++
				asked := false
				for d := fw.in.Block(); d != nil && !asked; d = d.Idom() {
					gs := compoundEntryGuards(d)
					if d == fw.in.Block() {
						gs = append(gs, guardsOf(d)...)
					}
					for _, g := range gs {
						if guardIsNil(g, func(v ssa.Value) bool { return fromAccessor(v, 0) }) {
							asked = true
						}
					}
				}
				r.Check(asked, "C07.inference-through-side-accessors", fmt.Sprintf("%s: inference #%d of a node's input type", w.fname(fn), n), fw.in.Pos(), "under <side accessor>(node) == nil", "the inference tests the raw field (or nothing) instead of the side accessor: a pass-through node with WithOutputKey that gets its branch before its incoming edge is typed map[string]any INSIDE from the branch condition's input — which reads the node's keyed output, not the value that goes through it — so x(any) -> p(WithOutputKey) -> branch(cond[map[string]any]) compiles and every run fails 'runtime type check fail, expected type: map[string]interface {}, actual type: string' for an assignable value (behind a concretely typed predecessor the valid graph is refused), in the branch-first order only; a Workflow always attaches branches first")
			}
		}
		if n < 2 {
			r.Deferred = append(r.Deferred, fmt.Sprintf("C07.inference-through-side-accessors: only %d inference stores found", n))
		}
	}
	r.Rule("C07.nested-table-initialised-on-its-own-absence", "where package compose initialises a nested table (m[k] = make(map…)) under a comma-ok test, the test looks the SAME table up with the same key: a test of an entry one level further down (m[k][j]) replaces the whole inner table whenever a new j arrives — for the table of run-time edge checks that discards the checks on a node's other outgoing edges, and a wrongly typed value reaches the concretely typed node and panics instead of failing the ordinary check", 3)
	{
		n := 0
		for _, fn := range w.RepoFuncs("compose") {
			k := 0
			instrs(fn, func(in ssa.Instruction) {
				mu, ok := in.(*ssa.MapUpdate)
				if !ok {
					return
				}
				if _, isMk := mu.Value.(*ssa.MakeMap); !isMk {
					return
				}
				// the comma-ok guards of the block
				var lookups []*ssa.Lookup
				for _, g := range guardsOf(mu.Block()) {
					c := g.cond
					if u, isU := c.(*ssa.UnOp); isU && u.Op == token.NOT {
						c = u.X
					}
					if e, isE := c.(*ssa.Extract); isE && e.Index == 1 {
						if lk, isLk := e.Tuple.(*ssa.Lookup); isLk && lk.CommaOk {
							lookups = append(lookups, lk)
						}
					}
				}
				if len(lookups) == 0 {
					return
				}
				k++
				n++
				same := false
				for _, lk := range lookups {
					if types.Identical(lk.X.Type(), mu.Map.Type()) && (lk.Index == mu.Key || valText(lk.Index) == valText(mu.Key)) {
						same = true
					}
				}
				r.Check(same, "C07.nested-table-initialised-on-its-own-absence", fmt.Sprintf("%s: nested table #%d", w.fname(fn), k), mu.Pos(), "tested with the same table and key", "the table is (re)initialised under a test of another table or key ("+valText(lookups[0].X)+"["+valText(lookups[0].Index)+"]): every new inner key throws away the entries already there — each new run-time-checked edge of a node discards the checks on its other edges, only the last one registered keeps its check")
			})
		}
		if n < 3 {
			r.Deferred = append(r.Deferred, fmt.Sprintf("C07.nested-table-initialised-on-its-own-absence: only %d guarded nested-table initialisations found in package compose", n))
		}
	}
	r.Rule("C07.boundary-helpers-are-sided", "what getNodeGenericHelper answers for START and END is the graph's helper turned to the side a neighbour sees (forPredecessorPassthrough / forSuccessorPassthrough), never the helper as it is: a pass-through node typed from START takes its converters from that answer, and the graph's own output side belongs to another type whenever I != O", 1)
	{
		gh := w.Fn("compose", "graph.getNodeGenericHelper")
		k := 0
		instrs(gh, func(in ssa.Instruction) {
			ret, ok := in.(*ssa.Return)
			if !ok || len(ret.Results) != 1 {
				return
			}
			k++
			lf, _ := loadedField(ret.Results[0])
			r.Check(lf == nil, "C07.boundary-helpers-are-sided", fmt.Sprintf("getNodeGenericHelper: return #%d", k), ret.Pos(), "the result of a call (a sided copy, or the node's own helper)", "the graph's helper is handed out as it is: in Graph[string,int] with START -> P(pass-through) -> A(string->int) and an interface-typed edge X -> P, a string from X is refused 'expected type: int, actual type: string' and an int passes the check and makes A panic 'unexpected input type' — in a graph that compiled")
		})
		if k == 0 {
			undecidedf("C07.boundary-helpers-are-sided: no return in getNodeGenericHelper")
		}
	}
	r.Rule("C07.getters-pure", "no get… / is… / input… / output… method of the builder types (graph, graphNode, composableRunnable, genericHelper, Chain, Workflow) stores into its receiver: what they answer follows later type inference", 5)
	{
		n := 0
		for _, fn := range w.RepoFuncs("compose") {
			if fn.Signature.Recv() == nil || fn.Parent() != nil {
				continue
			}
			nm := fn.Name()
			if !(strings.HasPrefix(nm, "get") || strings.HasPrefix(nm, "Get") || strings.HasPrefix(nm, "is") || strings.HasPrefix(nm, "Is") || strings.HasPrefix(nm, "input") || strings.HasPrefix(nm, "output") || strings.HasPrefix(nm, "component")) {
				continue
			}
			n++
			ws := receiverWrites(fn)
			for _, rw := range ws {
				r.Fail("C07.getters-pure", fmt.Sprintf("%s stores receiver field %s", w.fname(fn), rw.field.Name()), rw.in.Pos(), "a getter memoises its answer in the object: a pass-through node asked for its helper before its type is inferred keeps the provisional any-typed helper, hands it on to the next pass-through typed through it, and the run-time check installed on an any -> string edge then accepts everything — an int reaches the string-typed node (order-dependent: typed-then-connected works, connected-then-typed does not)")
			}
			if len(ws) == 0 {
				r.OK("C07.getters-pure", w.fname(fn), fn.Pos(), "no store into the receiver")
			}
		}
		if n < 5 {
			r.Deferred = append(r.Deferred, fmt.Sprintf("C07.getters-pure: only %d getter methods found", n))
		}
	}
	// pass-through nodes: a state handler on a node whose own type is only inferred later must be typed `any` exactly
	// (the handler is never re-checked against the inferred type)
	{
		isAnyType := func(v ssa.Value) bool {
			// reflect.TypeOf((*any)(nil)).Elem()
			c, ok := v.(*ssa.Call)
			if !ok || !c.Call.IsInvoke() || c.Call.Method.Name() != "Elem" {
				return false
			}
			tc, ok := c.Call.Value.(*ssa.Call)
			if !ok || calleeFullName(tc) != "reflect.TypeOf" {
				return false
			}
			mi, ok := tc.Call.Args[0].(*ssa.MakeInterface)
			if !ok {
				return false
			}
			pt, ok := mi.X.Type().Underlying().(*types.Pointer)
			if !ok {
				return false
			}
			it, ok := pt.Elem().Underlying().(*types.Interface)
			return ok && it.Empty()
		}
		addNode := w.Fn("compose", "graph.addNode")
		n := 0
		instrs(addNode, func(in ssa.Instruction) {
			iff, ok := in.(*ssa.If)
			if !ok {
				return
			}
			op, x, y, ok := asCmp(iff.Cond)
			if !ok || op != token.NEQ || !(isAnyType(x) || isAnyType(y)) {
				return
			}
			// the != any arm is an error return
			if blockEndsInError(iff.Block().Succs[0]) {
				n++
			}
		})
		r.Check(n >= 2, "C07.validate-before-commit", "addNode: pass-through state handlers are typed any exactly", addNode.Pos(), fmt.Sprintf("%d identity tests against the empty interface type, each rejecting", n),
			fmt.Sprintf("only %d of the 2 pass-through handler checks (pre, post) compare the handler type with `any` itself: a handler typed on another interface (fmt.Stringer …) is accepted on a pass-through node, is never re-checked against the type inferred later, and its wrapper panics at run time (unrecovered)", n))
	}

	// ---- a keyed node is typed by its key wrapper whatever is behind it: graphNode.inputType / outputType look at the
	// input / output key before they ask the sub graph or the runnable for its own type
	r.Rule("C07.keyed-node-type", "graphNode.inputType / outputType answer with a component's or sub graph's own type only after the key test (nodeInfo / inputKey / outputKey) has been evaluated", 2)
	for _, side := range []struct{ fn, key string }{{"graphNode.inputType", "inputKey"}, {"graphNode.outputType", "outputKey"}} {
		f := w.Fn("compose", side.fn)
		fKey := w.Field("compose", "nodeInfo", side.key)
		fNI := w.Field("compose", "graphNode", "nodeInfo")
		isKeyTest := func(in ssa.Instruction) bool {
			iff, ok := in.(*ssa.If)
			if !ok {
				return false
			}
			fs := map[*types.Var]bool{}
			fieldsReadBy(iff.Cond, 0, fs)
			return fs[fKey.Origin()] || fs[fNI.Origin()]
		}
		ownType := func(in ssa.Instruction) bool {
			ret, ok := in.(*ssa.Return)
			if !ok || len(ret.Results) != 1 || isNilConst(ret.Results[0]) {
				return false
			}
			if c, ok := ret.Results[0].(*ssa.Call); ok {
				if sc := staticCallee(c); sc != nil && sc.Name() == "TypeOf" {
					return false // the map[string]any answer of the key wrapper
				}
			}
			return true
		}
		skip, wit := pathQuery{fn: f, goal: ownType, avoid: isKeyTest}.exists()
		r.Check(!skip, "C07.keyed-node-type", side.fn+": the key decides before the node's own type is reported", f.Pos(), "no return of the node's own type bypasses the "+side.key+" test", "the node's own type can be reported without looking at "+side.key+" ("+wit+"): a Graph / Chain / Workflow added as a node with the key option declares the sub graph's type instead of map[string]any — a wrongly typed predecessor is accepted (and dies in the key wrapper at run time with an interface conversion error), the correctly typed map[string]any predecessor is rejected")
	}

	r.Rule("C07.state-handlers-validated", "the state-type / value-type validation of a pre-handler and of a post-handler in addNode are each reached however the handlers were declared and whether or not the other one is present (shared with C20.state-handler-validated)", 6)
	stateHandlerValidationReached(w, r, "C07.state-handlers-validated")

	// ---- branch handler index
	r.Rule("C07.branch-handler-index", "calculateBranch passes the loop index over writeToBranches (the same index as the branch's input copy) to the pre-branch handler", 1)
	branchSlotIsLoopIndex(w, r, "C07.branch-handler-index")
	_ = must
}

func callsNamedInvoke(fn *ssa.Function, names ...string) []ssa.CallInstruction {
	var out []ssa.CallInstruction
	instrs(fn, func(in ssa.Instruction) {
		n := invokeName(in)
		for _, x := range names {
			if n == x {
				out = append(out, in.(ssa.CallInstruction))
			}
		}
	})
	return out
}

func loadedFieldOfInstr(in ssa.Instruction) (*types.Var, ssa.Value) {
	v, ok := in.(ssa.Value)
	if !ok {
		return nil, nil
	}
	return loadedField(v)
}

// branchSlotIsLoopIndex: shared by C07.branch-handler-index and C01.branch-slot (a branch reads ITS copy of the node's
// output and goes through ITS handler list: both are selected by the branch's position among the node's branches).
func branchSlotIsLoopIndex(w *World, r *Report, rule string) {
	cb := w.Fn("compose", "runner.calculateBranch")
	h := w.Fn("compose", "preBranchHandlerManager.handle")
	wtb := w.Field("compose", "chanCall", "writeToBranches")
	for _, c := range callsTo(cb, h) {
		a := c.Common().Args
		idx := a[2]
		// the value argument is input[idx]
		sameIdx := false
		if u, ok := a[3].(*ssa.UnOp); ok {
			if ia, ok := u.X.(*ssa.IndexAddr); ok && ia.Index == idx {
				sameIdx = true
			}
		}
		// idx is the index of a range over startChan.writeToBranches: it also indexes that slice
		rangeIdx := false
		if refs := idx.Referrers(); refs != nil {
			for _, ref := range *refs {
				if ia, ok := ref.(*ssa.IndexAddr); ok && isLoadOfField(ia.X, wtb) {
					rangeIdx = true
				}
			}
		}
		// the position recorded in the branch at attach time is as good as the loop index PROVIDED the graph owns the
		// branch object it recorded it in (addBranch works on a copy and never writes through the caller's value —
		// C20.branch-value-not-mutated): only then no other attachment can overwrite it
		if !rangeIdx {
			if f, _ := loadedField(idx); f != nil && f.Name() == "idx" {
				ab := w.Fn("compose", "graph.addBranch")
				owns := true
				for _, fw := range fieldWrites(ab) {
					if p := paramRoot(fw.base, 0); p != nil && p.Name() == "branch" {
						owns = false
					}
				}
				rangeIdx = owns
			}
		}
		r.Check(sameIdx && rangeIdx, rule, "calculateBranch -> preBranchHandlerManager.handle index", c.Pos(), "handler list, input copy and branch are selected by the same slot: the loop index, or the position recorded in the graph's own copy of the branch", "the pre-branch handler list is selected by something other than the branch's position (e.g. a mutable idx field of a *GraphBranch shared between attachments)")
	}
}
