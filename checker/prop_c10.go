package main

import (
	"fmt"
	"go/token"
	"go/types"
	"strings"

	"golang.org/x/tools/go/ssa"
)

func init() {
	register(&propDef{
		id: "C10",
		explanation: "Static clauses of 'callbacks fire exactly once per execution, paired, for the right node': " +
			"(pairing-node) in the wrapper returned by runWithCallbacks the start hook dominates the wrapped call and every return passes exactly one of end/error on the matching arm; " +
			"(pairing-graph) runner.run's deferred literal fires start iff it has not fired and exactly one of error/end; each explicit start sets the flag; " +
			"(handler-isolation) no in-place append on the handler slice shared through the context nor on the Option.handler slice of the caller; (stream-copy-isolation) a handler closing its copy (even twice) cannot close the stream flowing through the graph; " +
			"(inject-iff-not-self) every enableCallback argument is false or the negation of the executor's own callbacks-enabled flag; " +
			"(stream-copies) len(handlers)+1 copies, handler i gets copy i, the flow keeps the last, zero handlers copy nothing; " +
			"(tool-runinfo) both tool-call runners derive run info from the task and set the tool-call id; " +
			"(designation) graph-level handlers are options without path, node handlers have a one-element path equal to the node key.",
		decided:    []string{"pairing-node", "pairing-graph", "handler-isolation", "stream-copy-isolation", "inject-iff-not-self", "stream-copies", "tool-runinfo", "designation", "init-detaches"},
		notDecided: []string{"payload contents", "per-handler timing filter semantics", "behaviour of user handlers"},
		run:        runC10,
	})
}

// callsThrough: call instructions in fn whose callee value is v (a parameter / free variable holding a func).
func callsThrough(fn *ssa.Function, pred func(ssa.Value) bool) []ssa.CallInstruction {
	var out []ssa.CallInstruction
	instrs(fn, func(in ssa.Instruction) {
		c, ok := in.(ssa.CallInstruction)
		if !ok || c.Common().IsInvoke() {
			return
		}
		v := c.Common().Value
		// load from a captured cell?
		if u, ok := v.(*ssa.UnOp); ok && u.Op == token.MUL {
			v = u.X
		}
		if pred(v) {
			out = append(out, c)
		}
	})
	return out
}

func freeVarNamed(name string) func(ssa.Value) bool {
	return func(v ssa.Value) bool {
		fv, ok := v.(*ssa.FreeVar)
		return ok && fv.Name() == name
	}
}

func anyOf(in ssa.Instruction, cs ...[]ssa.CallInstruction) bool {
	for _, l := range cs {
		for _, c := range l {
			if ssa.Instruction(c) == in {
				return true
			}
		}
	}
	return false
}

func runC10(w *World, r *Report) {
	// ---- pairing-node
	r.Rule("C10.pairing-node", "runWithCallbacks wrapper: start dominates the call; every return passes exactly one of end (err==nil arm) / error (err!=nil arm)", 5)
	rwc := w.Fn("compose", "runWithCallbacks")
	if len(rwc.AnonFuncs) != 1 || len(rwc.Params) != 4 {
		undecidedf("C10.pairing-node: runWithCallbacks no longer has the shape (r, onStart, onEnd, onError) -> one literal")
	}
	lit := rwc.AnonFuncs[0]
	pn := func(i int) string { return rwc.Params[i].Name() }
	inner := callsThrough(lit, freeVarNamed(pn(0)))
	starts := callsThrough(lit, freeVarNamed(pn(1)))
	ends := callsThrough(lit, freeVarNamed(pn(2)))
	errs := callsThrough(lit, freeVarNamed(pn(3)))
	if len(inner) != 1 {
		undecidedf("C10.pairing-node: expected exactly one call of the wrapped function, found %d", len(inner))
	}
	cons := "runWithCallbacks wrapper"
	r.Check(len(starts) == 1 && instrDominates(starts[0], inner[0]), "C10.pairing-node", cons+": start before call", lit.Pos(), "onStart dominates the wrapped call", "onStart does not dominate the wrapped call (missing or conditional start callback)")
	// every return after the call passes end or error
	ok, wit := pathQuery{fn: lit, from: inner[0], goal: isReturn, avoid: func(in ssa.Instruction) bool { return anyOf(in, ends, errs) }}.exists()
	r.Check(!ok, "C10.pairing-node", cons+": end/error on every return", lit.Pos(), "no return path skips both onEnd and onError", "a path returns without onEnd/onError: "+wit)
	// never both / twice
	twice := false
	for _, c := range append(append([]ssa.CallInstruction{}, ends...), errs...) {
		if ok, _ := (pathQuery{fn: lit, from: c, goal: func(in ssa.Instruction) bool { return anyOf(in, ends, errs) }}).exists(); ok {
			twice = true
		}
	}
	r.Check(!twice, "C10.pairing-node", cons+": at most one end/error", lit.Pos(), "no path fires two end-type callbacks", "a path fires two of onEnd/onError")
	// polarity: onError guarded by err != nil of the call's error result; onEnd not
	isErrOfCall := func(v ssa.Value) bool {
		// named result err is spilled? handle both Extract and load of the named-result cell
		if e, ok := v.(*ssa.Extract); ok && e.Tuple == inner[0].(ssa.Value) && e.Index == 1 {
			return true
		}
		if u, ok := v.(*ssa.UnOp); ok && u.Op == token.MUL {
			if a, ok := u.X.(*ssa.Alloc); ok {
				for _, st := range storesToCell(lit, a) {
					if e, ok := st.Val.(*ssa.Extract); ok && e.Tuple == inner[0].(ssa.Value) && e.Index == 1 {
						return true
					}
				}
			}
		}
		return false
	}
	for _, c := range errs {
		r.Check(hasGuard(c.Block(), func(g guard) bool { return guardNonNil(g, isErrOfCall) }), "C10.pairing-node", cons+": onError only when err != nil", c.Pos(), "guarded by err != nil", "onError is not guarded by the wrapped call's err != nil")
	}
	for _, c := range ends {
		r.Check(hasGuard(c.Block(), func(g guard) bool { return guardIsNil(g, isErrOfCall) }), "C10.pairing-node", cons+": onEnd only when err == nil", c.Pos(), "guarded by err == nil", "onEnd is not restricted to the err == nil arm")
	}
	// a unit that has started is ended also when the wrapped function panics: the wrapper defers — before the call — a
	// literal that recovers, reports the panic through onError and lets the panic travel on
	{
		var dlit *ssa.Function
		var dfr *ssa.Defer
		for d, l := range deferredFuncs(lit) {
			if l != nil {
				dlit, dfr = l, d
			}
		}
		okp, det := false, "the wrapper defers nothing"
		if dlit != nil {
			hasRecover, hasRepanic := false, false
			callsOnError := len(callsThrough(dlit, freeVarNamed(pn(3)))) > 0
			instrs(dlit, func(in ssa.Instruction) {
				if isBuiltin(in, "recover") {
					hasRecover = true
				}
				if isPanicI(in) {
					hasRepanic = true
				}
			})
			okp = hasRecover && callsOnError && hasRepanic && instrDominates(dfr, inner[0])
			det = fmt.Sprintf("recover=%v, onError=%v, re-panic=%v, registered before the call=%v", hasRecover, callsOnError, hasRepanic, instrDominates(dfr, inner[0]))
		}
		r.Check(okp, "C10.pairing-node", cons+": a panic of the wrapped function is reported as the unit's error", lit.Pos(), "deferred recover -> onError -> panic again", "a node / tool call that panics gets OnStart but neither OnEnd nor OnError ("+det+"): the panic is turned into the unit's error further out (executor, tool goroutine), but this unit's handlers never see an end")
	}
	// … and only for those: once the wrapped function has returned, the unit's end is reported on the normal path; a
	// panic raised later (by a handler inside onEnd / onError) must not be reported to the handlers as a second end
	{
		var dlit *ssa.Function
		for _, l := range deferredFuncs(lit) {
			if l != nil {
				dlit = l
			}
		}
		good, det := false, "no deferred literal"
		if dlit != nil {
			det = "the deferred onError is not guarded by a 'wrapped function has returned' flag of the wrapper"
			var cell ssa.Value
			for _, ce := range callsThrough(dlit, freeVarNamed(pn(3))) {
				for _, g := range guardsOf(ce.Block()) {
					u, ok := g.cond.(*ssa.UnOp)
					if !ok || g.pol {
						continue
					}
					fv, ok := u.X.(*ssa.FreeVar)
					if !ok {
						continue
					}
					// the binding in the wrapper
					instrs(lit, func(in ssa.Instruction) {
						mc, ok := in.(*ssa.MakeClosure)
						if !ok || mc.Fn != ssa.Value(dlit) {
							return
						}
						for i, f := range dlit.FreeVars {
							if f == fv {
								cell = mc.Bindings[i]
							}
						}
					})
				}
			}
			if cell != nil {
				setTrue := func(in ssa.Instruction) bool {
					st, ok := in.(*ssa.Store)
					if !ok || st.Addr != cell {
						return false
					}
					c, ok := st.Val.(*ssa.Const)
					return ok && c.Value != nil && c.Value.String() == "true"
				}
				late, wit := pathQuery{fn: lit, from: inner[0], goal: func(in ssa.Instruction) bool { return anyOf(in, ends, errs) }, avoid: setTrue}.exists()
				good = !late
				det = "the flag is not set between the wrapped call's return and the end callbacks: " + wit
			}
		}
		r.Check(good, "C10.pairing-node", cons+": the deferred error report is limited to panics of the wrapped function", lit.Pos(), "deferred onError guarded by !returned; returned = true right after the wrapped call", "a panic raised by a handler inside onEnd / onError is caught by the wrapper's own recover and reported through onError again ("+det+"): the handlers registered before the faulty one get OnEnd and then OnError (or OnError twice) for one execution")
	}
	// the four paradigm wrappers pass the matching hooks
	for _, wnm := range []struct{ fn, start, end string }{
		{"invokeWithCallbacks", "onStart", "onEnd"},
		{"streamWithCallbacks", "onStart", "onEndWithStreamOutput"},
		{"collectWithCallbacks", "onStartWithStreamInput", "onEnd"},
		{"transformWithCallbacks", "onStartWithStreamInput", "onEndWithStreamOutput"},
	} {
		f := w.Fn("compose", wnm.fn)
		cs := callsTo(f, rwc)
		good := len(cs) == 1
		if good {
			a := cs[0].Common().Args
			good = funcArgIs(a[1], w.Fn("compose", wnm.start)) && funcArgIs(a[2], w.Fn("compose", wnm.end)) && funcArgIs(a[3], w.Fn("compose", "onError"))
		}
		r.Check(good, "C10.pairing-node", wnm.fn+" hook wiring", f.Pos(), "start="+wnm.start+" end="+wnm.end+" error=onError", "paradigm wrapper passes the wrong start/end hook (value hook on a stream or vice versa)")
	}

	// ---- pairing-graph
	r.Rule("C10.pairing-graph", "runner.run: deferred literal fires start iff !haveOnStart and exactly one of error/end; explicit starts set the flag; defer precedes every return", 6)
	run := w.Fn("compose", "runner.run")
	ogs, oge, ogerr := w.Fn("compose", "onGraphStart"), w.Fn("compose", "onGraphEnd"), w.Fn("compose", "onGraphError")
	var dlit *ssa.Function
	var dinstr *ssa.Defer
	var flagFV *ssa.FreeVar
	for d, f := range deferredFuncs(run) {
		if f != nil && len(callsTo(f, oge)) > 0 {
			dlit, dinstr = f, d
		}
	}
	if dlit == nil {
		r.Fail("C10.pairing-graph", "runner.run deferred end/error", run.Pos(), "no deferred literal in runner.run calls onGraphEnd: graph end/error callbacks are not fired on every exit")
	} else {
		// defer before any return
		okp, wit := pathQuery{fn: run, goal: isReturn, avoid: func(in ssa.Instruction) bool { return in == ssa.Instruction(dinstr) }}.exists()
		r.Check(!okp, "C10.pairing-graph", "runner.run defer dominates returns", dinstr.Pos(), "every return runs the deferred callbacks", "a return precedes the defer: "+wit)
		de, derr, ds := callsTo(dlit, oge), callsTo(dlit, ogerr), callsTo(dlit, ogs)
		okp, wit = pathQuery{fn: dlit, goal: isReturn, avoid: func(in ssa.Instruction) bool { return anyOf(in, de, derr) }}.exists()
		r.Check(!okp, "C10.pairing-graph", "deferred literal fires end or error", dlit.Pos(), "every path fires onGraphEnd or onGraphError", "a path of the deferred literal fires neither: "+wit)
		both := false
		for _, c := range append(append([]ssa.CallInstruction{}, de...), derr...) {
			if ok, _ := (pathQuery{fn: dlit, from: c, goal: func(in ssa.Instruction) bool { return anyOf(in, de, derr) }}).exists(); ok {
				both = true
			}
		}
		r.Check(!both, "C10.pairing-graph", "deferred literal fires at most one end/error", dlit.Pos(), "never both", "a path fires both onGraphEnd and onGraphError")
		isErrVar := func(v ssa.Value) bool {
			u, ok := v.(*ssa.UnOp)
			if !ok {
				return false
			}
			fv, ok := u.X.(*ssa.FreeVar)
			return ok && types.Identical(deref(fv.Type()), types.Universe.Lookup("error").Type())
		}
		for _, c := range derr {
			r.Check(hasGuard(c.Block(), func(g guard) bool { return guardNonNil(g, isErrVar) }), "C10.pairing-graph", "onGraphError iff err != nil", c.Pos(), "guarded by err != nil", "onGraphError not guarded by err != nil")
		}
		for _, c := range de {
			r.Check(hasGuard(c.Block(), func(g guard) bool { return guardIsNil(g, isErrVar) }), "C10.pairing-graph", "onGraphEnd iff err == nil", c.Pos(), "guarded by err == nil", "onGraphEnd not restricted to err == nil")
		}
		// start in the deferred literal guarded by !haveOnStart
		isFlag := func(v ssa.Value) bool {
			u, ok := v.(*ssa.UnOp)
			if !ok {
				return false
			}
			fv, ok := u.X.(*ssa.FreeVar)
			return ok && types.Identical(deref(fv.Type()), types.Typ[types.Bool])
		}
		if len(ds) != 1 {
			r.Fail("C10.pairing-graph", "deferred literal start-if-missing", dlit.Pos(), fmt.Sprintf("expected one guarded onGraphStart in the deferred literal, found %d", len(ds)))
		} else {
			g := hasGuard(ds[0].Block(), func(g guard) bool {
				if isFlag(g.cond) && !g.pol {
					flagFV = g.cond.(*ssa.UnOp).X.(*ssa.FreeVar)
					return true
				}
				return false
			})
			r.Check(g, "C10.pairing-graph", "deferred literal start-if-missing", ds[0].Pos(), "onGraphStart fired iff the flag is still false", "deferred onGraphStart is not guarded by !haveOnStart (start fired twice or never)")
		}
	}
	// explicit starts: followed by flag = true, no path from one start to another
	es := callsTo(run, ogs)
	var flagCell ssa.Value
	if dlit != nil {
		for i, fv := range dlit.FreeVars {
			if fv == flagFV {
				instrs(run, func(in ssa.Instruction) {
					if mc, ok := in.(*ssa.MakeClosure); ok && mc.Fn == dlit {
						flagCell = mc.Bindings[i]
					}
				})
			}
		}
	}
	if flagCell == nil {
		undecidedf("C10.pairing-graph: haveOnStart flag cell not found")
	}
	for _, c := range es {
		setsFlag := func(in ssa.Instruction) bool {
			st, ok := in.(*ssa.Store)
			if !ok || st.Addr != flagCell {
				return false
			}
			b, ok := constBool(st.Val)
			return ok && b
		}
		// no path from the start call to a return / call / back edge that avoids the flag store
		okp, wit := pathQuery{fn: run, from: c, goal: func(in ssa.Instruction) bool {
			if isReturn(in) {
				return true
			}
			_, isCall := in.(*ssa.Call)
			return isCall
		}, avoid: setsFlag}.exists()
		r.Check(!okp, "C10.pairing-graph", "explicit onGraphStart sets haveOnStart", c.Pos(), "flag set before anything else can happen", "onGraphStart is not immediately followed by haveOnStart = true (the deferred literal would fire start again): "+wit)
		again, _ := pathQuery{fn: run, from: c, goal: func(in ssa.Instruction) bool { return anyOf(in, es) }}.exists()
		r.Check(!again, "C10.pairing-graph", "explicit onGraphStart at most once per path", c.Pos(), "no second start reachable", "two onGraphStart calls on one path")
	}
	if len(es) == 0 {
		r.Info("C10.pairing-graph", "explicit onGraphStart", run.Pos(), "no explicit start (only the deferred one)")
	}

	// ---- handler isolation
	// ---- InitCallbacks starts a unit of its own: it never lets the enclosing unit's manager shine through
	r.Rule("C10.deferred-hook-sees-result", "a deferred closure that reads or sets an error variable of its function (the chat template's own OnError, runner.run's graph end/error, the builders' sticky-error hooks) captures the function's RESULT: every return reads its error from that cell, so what the hook sees is what the caller gets", 3)
	{
		n := 0
		for _, fn := range w.RepoFuncs("schema", "internal", "flow", "callbacks", "components", "utils", "compose") {
			for _, d := range deferredErrorCells(fn) {
				n++
				det := ""
				if d.bad != nil {
					det = w.pos(d.bad.Pos())
				}
				r.Check(d.okAll, "C10.deferred-hook-sees-result", fmt.Sprintf("%s: deferred closure captures error cell %q", w.fname(fn), d.cell.Comment), d.def.Pos(), "every return of the function loads its error from the captured cell (a named result)",
					"the return at "+det+" does not go through the captured variable (a shadowing `x, err := …; return nil, err`, or a local that replaced the named result): the deferred hook tests a variable that stays nil — a component that fires its own callbacks delivers OnStart and then neither OnEnd nor OnError when it fails, a builder's error does not stick")
			}
		}
		_ = n
	}

	r.Rule("C10.build-snapshots", "HandlerBuilder.Build hands out a copy of the registered functions: the builder pointer is only read through, never stored in / wrapped by / returned as the handler — registering on the builder after Build (a builder reused for the next node's handler) must not change a handler already attached", 1)
	{
		build := w.Fn("callbacks", "HandlerBuilder.Build")
		esc := builderPointerKept(build.Params[0])
		for i, e := range esc {
			r.Fail("C10.build-snapshots", fmt.Sprintf("HandlerBuilder.Build keeps the builder pointer #%d", i+1), e.Pos(), "the built handler aliases the builder ("+e.String()+"): functions registered afterwards are invoked by — and change the Needed() answer of — a handler that was already designated to another node")
		}
		if len(esc) == 0 {
			r.OK("C10.build-snapshots", "HandlerBuilder.Build reads through its receiver only", build.Pos(), "the result holds a copy of *hb")
		}
	}

	r.Rule("C10.self-reporting-ends-on-panic", "a component of the module that fires its own callbacks (IsCallbacksEnabled() == true, so the graph does not wrap it in runWithCallbacks) ends a unit it has started also when the work in between panics: every method of it that calls callbacks.OnStart defers a closure that recovers, reports through callbacks.OnError and panics again — what runWithCallbacks does for every other node", 1)
	{
		n := 0
		for _, fn := range w.RepoFuncs("components", "flow", "schema") {
			if fn.Signature.Recv() == nil || fn.Parent() != nil {
				continue
			}
			recvT := namedOf(fn.Signature.Recv().Type())
			if recvT == nil {
				continue
			}
			obj, _, _ := types.LookupFieldOrMethod(types.NewPointer(recvT), true, recvT.Obj().Pkg(), "IsCallbacksEnabled")
			mf, isF := obj.(*types.Func)
			if !isF {
				continue
			}
			ice := w.Prog.FuncValue(mf)
			if ice == nil || ice.Blocks == nil {
				continue
			}
			alwaysTrue := true
			instrs(ice, func(in ssa.Instruction) {
				if ret, ok := in.(*ssa.Return); ok {
					if b, isC := constBool(ret.Results[0]); !isC || !b {
						alwaysTrue = false
					}
				}
			})
			if !alwaysTrue {
				continue
			}
			starts := false
			instrs(fn, func(in ssa.Instruction) {
				if calleeFullName(in) == modPath+"/callbacks.OnStart" || strings.HasPrefix(calleeFullName(in), modPath+"/callbacks.OnStart[") {
					starts = true
				}
			})
			if !starts {
				continue
			}
			n++
			good := false
			instrs(fn, func(in ssa.Instruction) {
				d, ok := in.(*ssa.Defer)
				if !ok {
					return
				}
				mc, ok := d.Call.Value.(*ssa.MakeClosure)
				if !ok {
					return
				}
				lit := mc.Fn.(*ssa.Function)
				var rec ssa.Value
				instrs(lit, func(x ssa.Instruction) {
					if c, ok := x.(*ssa.Call); ok && isBuiltin(c, "recover") {
						rec = c
					}
				})
				if rec == nil {
					return
				}
				// OnError and a re-panic on the recovered != nil side
				onErr, repanic := false, false
				instrs(lit, func(x ssa.Instruction) {
					nonNil := hasGuard(x.Block(), func(g guard) bool { return guardNonNil(g, func(v ssa.Value) bool { return v == rec }) })
					if !nonNil {
						return
					}
					if strings.HasPrefix(calleeFullName(x), modPath+"/callbacks.OnError") {
						onErr = true
					}
					if _, ok := x.(*ssa.Panic); ok {
						repanic = true
					}
				})
				if onErr && repanic {
					good = true
				}
			})
			r.Check(good, "C10.self-reporting-ends-on-panic", w.fname(fn)+" ends its unit when the work panics", fn.Pos(), "deferred recover -> callbacks.OnError -> panic again",
				"a self-reporting component delivers OnStart, then a panic of the work in between (a template engine dividing by zero on the caller's variables, a user MessagesTemplate) unwinds through it: the handlers of the node see start and never end / error — a leaked span on every such failure — while a lambda node panicking at the same spot gets start + error from runWithCallbacks")
		}
		if n == 0 {
			r.Deferred = append(r.Deferred, fmt.Sprintf("C10.self-reporting-ends-on-panic: no self-reporting component method calling callbacks.OnStart found"))
		}
	}

	r.Rule("C10.manager-derivations-complete", "every callback manager built in internal/callbacks (newManager, the per-unit copy of ReuseHandlers / withRunInfo, the copy taken out of a context) carries all three parts — global handlers, the run's handlers, the run info: a derived manager that forgets one silences those handlers for every tool call and inner unit", 3)
	{
		mT := w.Named("internal/callbacks", "manager")
		st := mT.Underlying().(*types.Struct)
		n := 0
		for _, fn := range w.RepoFuncs("internal/callbacks") {
			instrs(fn, func(in ssa.Instruction) {
				al, ok := in.(*ssa.Alloc)
				if !ok || !al.Heap || namedOf(al.Type()) != mT {
					return
				}
				ws := fieldsWrittenOn(fn, al, mT)
				n++
				var missing []string
				for i := 0; i < st.NumFields(); i++ {
					if !ws[st.Field(i).Name()] {
						missing = append(missing, st.Field(i).Name())
					}
				}
				r.Check(len(missing) == 0, "C10.manager-derivations-complete", fmt.Sprintf("%s: manager literal #%d", w.fname(fn), n), al.Pos(), "all fields set", "the manager built here lacks "+strings.Join(missing, ", ")+": handlers registered that way (e.g. with AppendGlobalHandlers) still see the graph and its nodes but get no start / end / error for any tool call or inner unit, whose managers are derived through this function")
			})
		}
		if n < 3 {
			r.Deferred = append(r.Deferred, fmt.Sprintf("C10.manager-derivations-complete: only %d manager literals found", n))
		}
	}

	shareRule(w, r, "C10.unit-context-not-shared", "no escaping function literal (the per-task goroutines of the retriever flows, the tool-call goroutines) writes a context or other variable captured from its creator: each unit's run info travels in its own context", 5, "C09", "C09.capture-write")

	shareRule(w, r, "C10.no-dead-default", "no default prepared for a nil configuration entry is forgotten: the router retriever's 'RouterLambda' unit is started and then calls the router function — a nil one leaves the unit started and never ended", 0, "C13", "C13.no-dead-default")

	r.Rule("C10.flow-units-iff-not-self", "where a bundled flow reports a unit on behalf of a component it calls through an interface (ConcurrentRetrieveWithCallback around Retriever.Retrieve), each callbacks.OnStart / OnEnd / OnError call is under a test of components.IsCallbacksEnabled of that component: a component that fires its own callbacks is reported once, as it is when it is a graph node (the compose side of the same rule is C10.inject-iff-not-self)", 3)
	{
		n := 0
		for _, fn := range w.RepoFuncs("flow/retriever/utils") {
			// does this function (or its parent) call an interface method of a components value?
			callsComponent := false
			for _, f := range withAnons(topFunc(fn)) {
				instrs(f, func(in ssa.Instruction) {
					if c, ok := in.(ssa.CallInstruction); ok && c.Common().IsInvoke() && c.Common().Method.Name() == "Retrieve" {
						callsComponent = true
					}
				})
			}
			if !callsComponent {
				continue
			}
			// the flag: a value computed from components.IsCallbacksEnabled(…), possibly through a cell / free variable
			fromICE := func(v ssa.Value) bool {
				seen := map[ssa.Value]bool{}
				var walk func(v ssa.Value, d int) bool
				walk = func(v ssa.Value, d int) bool {
					if v == nil || d > 8 || seen[v] {
						return false
					}
					seen[v] = true
					switch x := v.(type) {
					case *ssa.Call:
						return strings.HasSuffix(calleeFullName(x), "components.IsCallbacksEnabled")
					case *ssa.UnOp:
						if x.Op == token.NOT {
							return walk(x.X, d+1)
						}
						switch a := x.X.(type) {
						case *ssa.Alloc:
							for _, ref := range *a.Referrers() {
								if st, ok := ref.(*ssa.Store); ok && st.Addr == ssa.Value(a) && walk(st.Val, d+1) {
									return true
								}
							}
						case *ssa.FreeVar:
							lit := a.Parent()
							for i, fv := range lit.FreeVars {
								if fv != a || lit.Parent() == nil {
									continue
								}
								ok := false
								instrs(lit.Parent(), func(in ssa.Instruction) {
									if mc, isMC := in.(*ssa.MakeClosure); isMC && mc.Fn == lit {
										if al, isAl := mc.Bindings[i].(*ssa.Alloc); isAl {
											for _, ref := range *al.Referrers() {
												if st, isSt := ref.(*ssa.Store); isSt && st.Addr == ssa.Value(al) && walk(st.Val, d+1) {
													ok = true
												}
											}
										} else if walk(mc.Bindings[i], d+1) {
											ok = true
										}
									}
								})
								return ok
							}
						}
					}
					return false
				}
				return walk(v, 0)
			}
			instrs(fn, func(in ssa.Instruction) {
				name := calleeFullName(in)
				if !(strings.HasPrefix(name, modPath+"/callbacks.OnStart") || strings.HasPrefix(name, modPath+"/callbacks.OnEnd") || strings.HasPrefix(name, modPath+"/callbacks.OnError")) {
					return
				}
				n++
				guarded := hasGuard(in.Block(), func(g guard) bool { return fromICE(g.cond) })
				r.Check(guarded, "C10.flow-units-iff-not-self", fmt.Sprintf("%s: callback call #%d is conditional on the component not firing its own", w.fname(fn), n), in.Pos(), "under a test of components.IsCallbacksEnabled(retriever)", "the flow fires start / end / error around the inner retriever unconditionally: a retriever that fires its own callbacks (IsCallbacksEnabled() == true) is reported twice per retrieval — two starts and two ends for one unit — while the same retriever as a plain graph node is reported once")
			})
		}
		if n < 3 {
			r.Deferred = append(r.Deferred, fmt.Sprintf("C10.flow-units-iff-not-self: only %d callback calls found around Retriever.Retrieve", n))
		}
	}

	r.Rule("C10.timing-matches-handle", "every call of internal/callbacks.On in the module passes the timing constant that belongs to the handle function it passes (OnStartHandle ↔ TimingOnStart, OnStartWithStreamInputHandle ↔ TimingOnStartWithStreamInput, …): handlers are filtered through TimingChecker.Needed with that timing, so a mismatch skips a handler that wants the event and hands it to one that said it does not", 5)
	{
		on := w.Fn("internal/callbacks", "On")
		pk := w.ByPath[modPath+"/internal/callbacks"]
		n := 0
		for _, fn := range w.RepoFuncs("callbacks", "compose", "internal/callbacks", "flow", "components", "utils", "schema") {
			for _, c := range callsTo(fn, on) {
				args := c.Common().Args
				if len(args) != 4 {
					continue
				}
				var hname string
				hv := args[2]
				if ct, ok := hv.(*ssa.ChangeType); ok {
					hv = ct.X
				}
				switch h := hv.(type) {
				case *ssa.Function:
					hname = origin(h).Name()
				case *ssa.MakeClosure:
					hname = origin(h.Fn.(*ssa.Function)).Name()
				}
				k, isC := args[3].(*ssa.Const)
				if hname == "" || !isC || !strings.HasSuffix(hname, "Handle") {
					continue // a forwarded parameter: checked at the caller that supplies the pair
				}
				n++
				base := strings.TrimSuffix(hname, "Handle")
				if i := strings.Index(base, "On"); i >= 0 {
					base = base[i:] // genericOnStartWithStreamInputHandle → OnStartWithStreamInput
				}
				want := "Timing" + base
				obj, _ := pk.Types.Scope().Lookup(want).(*types.Const)
				if obj == nil {
					if pub := w.ByPath[modPath+"/callbacks"]; pub != nil {
						obj, _ = pub.Types.Scope().Lookup(want).(*types.Const)
					}
				}
				if obj == nil {
					undecidedf("C10.timing-matches-handle: constant %s not found", want)
				}
				good := obj != nil && k.Value != nil && obj.Val().ExactString() == k.Value.ExactString()
				r.Check(good, "C10.timing-matches-handle", fmt.Sprintf("%s: On(…, %s, timing)", w.fname(fn), hname), c.Pos(), "timing == "+want, fmt.Sprintf("the handle %s is filtered with timing %v, not %s: a handler that registered only the stream-start function is skipped (it sees an end without a start), one that registered only the plain start function is handed a stream start it declared it does not want — its nil function panics and fails the node; only units that fire their own callbacks through this entry point are affected", hname, k.Value, want))
			}
		}
		if n < 5 {
			r.Deferred = append(r.Deferred, fmt.Sprintf("C10.timing-matches-handle: only %d On(…) calls with a literal handle/timing pair found", n))
		}
	}

	shareRule(w, r, "C10.designated-handlers-reach-nested-runs", "every wrapper between a graph node and its runnable passes the call options on in both of its forms (value and stream): a handler designated by path into a nested graph travels in them", 40, "C16", "C16.opts-forwarded")
	shareRule(w, r, "C10.run-info-per-node-not-per-executor", "compiling a node writes the node's meta and run info into a per-node copy of the executor's runnable, never into the runnable a user's Lambda owns: one Lambda used for two nodes (or in two graphs) would otherwise report every execution under the run info of whichever node compiled last", 1, "C09", "C09.node-compile-no-shared-write")

	r.Rule("C10.init-detaches", "InitCallbacks installs a manager (or nil) into the context on every path: it never returns the incoming context unchanged", 1)
	{
		ic := w.Fn("internal/callbacks", "InitCallbacks")
		cwm := w.Fn("internal/callbacks", "ctxWithManager")
		nret, bad := 0, ""
		instrs(ic, func(in ssa.Instruction) {
			ret, ok := in.(*ssa.Return)
			if !ok {
				return
			}
			nret++
			v := returnedValue(ret, 0)
			if c, ok := v.(*ssa.Call); ok && isCallTo(c, cwm) {
				return
			}
			if ph, ok := v.(*ssa.Phi); ok {
				all := true
				for _, e := range ph.Edges {
					if c, ok := e.(*ssa.Call); !ok || !isCallTo(c, cwm) {
						all = false
					}
				}
				if all {
					return
				}
			}
			bad = w.pos(ret.Pos())
		})
		r.Check(nret > 0 && bad == "", "C10.init-detaches", "InitCallbacks returns ctxWithManager(…) on every path", ic.Pos(), fmt.Sprintf("%d returns, each the result of ctxWithManager", nret),
			"InitCallbacks can return a context that still carries the enclosing unit's manager (return at "+bad+"): a helper component started inside a node with no handlers of its own reports its start/end to the enclosing node's handlers, under the enclosing node's RunInfo — those handlers fire twice per timing")
	}

	r.Rule("C10.handler-isolation", "no in-place append on callbacks.manager handler slices (shared through the context by all nodes of a run)", 0)
	owners := map[*types.Named]bool{w.Named("internal/callbacks", "manager"): true, w.Named("compose", "Option"): true}
	ruleAppendAlias(w, r, "C10.handler-isolation", owners, w.RepoFuncs("internal/callbacks", "callbacks", "compose"), map[*ssa.Function]bool{})
	// manager.handlers is written only while constructing a manager
	hf := w.Field("internal/callbacks", "manager", "handlers")
	for _, fn := range w.RepoFuncs("") {
		for _, fw := range fieldWrites(fn) {
			if sameField(fw.field, hf) {
				r.Check(freshBase(fw.base, 0) && fw.kind == "store", "C10.handler-isolation", w.fname(origin(fn))+" writes manager.handlers", fw.in.Pos(), "only while constructing a new manager", "an existing callbacks manager (shared through ctx) is mutated")
			}
		}
	}

	// ---- stream-copy-isolation: closing / double-closing a handler copy cannot close the stream of the flow
	r.Rule("C10.stream-copy-isolation", "stream copies handed to handlers: shared cells under sync.Once, idempotent per-child close, source closed by the last child only", 6)
	copyCellChecks(w, r, "C10.stream-copy-isolation")

	// ---- inject-iff-not-self
	r.Rule("C10.graph-reads-its-own-copy", "the graph's first nodes are fed the stream onGraphStart returned (the copy left for the data flow), not the stream the handlers' copies were cut from — a handler reading its copy must not drain the graph's input (shared with C04)", 1)
	startConsumesCopy(w, r, "C10.graph-reads-its-own-copy")

	r.Rule("C10.inject-iff-not-self", "enableCallback argument = false | !<callbacks-enabled flag> | forwarded parameter", 8)
	nrp, rl := w.Fn("compose", "newRunnablePacker"), w.Fn("compose", "runnableLambda")
	for _, fn := range w.RepoFuncs("compose", "flow", "components") {
		for _, c := range callsTo(fn, nrp, rl) {
			args := c.Common().Args
			a := args[len(args)-1]
			construct := fmt.Sprintf("%s -> %s(enableCallback)", w.fname(origin(fn)), staticCallee(c).Name())
			good, how := false, ""
			if b, ok := constBool(a); ok && !b {
				good, how = true, "constant false"
			} else if b, ok := constBool(a); ok && b {
				// constant true: right exactly where the same function declares that the component does not fire
				// callbacks itself (meta.isComponentCallbackEnabled = false)
				for _, fw := range fieldWrites(fn) {
					if fw.field.Name() == "isComponentCallbackEnabled" {
						if fb, ok := constBool(fw.val); ok && !fb {
							good, how = true, "constant true, complementing meta.isComponentCallbackEnabled = false"
						}
					}
				}
			} else if _, ok := a.(*ssa.Parameter); ok {
				good, how = true, "forwarded parameter"
			} else if u, ok := a.(*ssa.UnOp); ok && u.Op == token.NOT {
				if f, _ := loadedField(u.X); f != nil && (f.Name() == "isComponentCallbackEnabled" || f.Name() == "enableComponentCallback") {
					good, how = true, "!"+f.Name()
				}
			}
			r.Check(good, "C10.inject-iff-not-self", construct, c.Pos(), how, "enableCallback is neither false nor the negation of the executor's callbacks-enabled flag: callbacks would fire twice or not at all")
			// a constant false is only right when somebody else fires the callbacks: where the same function builds
			// the executor's meta with isComponentCallbackEnabled = false (the component does NOT fire them itself),
			// the packer must — enableCallback has to be true
			if b, ok := constBool(a); ok && !b {
				for _, fw := range fieldWrites(fn) {
					if fw.field.Name() != "isComponentCallbackEnabled" {
						continue
					}
					if fb, ok := constBool(fw.val); ok && !fb {
						r.Fail("C10.inject-iff-not-self", construct+" vs meta.isComponentCallbackEnabled=false", c.Pos(), "the executor meta built in this function says the component does not fire callbacks itself, and the packer is told not to fire them either: this unit (an UnknownToolsHandler call) reports neither OnStart nor OnEnd/OnError to any handler")
					}
				}
			}
		}
	}
	// newRunnablePacker wraps exactly under the flag
	{
		var flag *ssa.Parameter = nrp.Params[len(nrp.Params)-1]
		for _, wrapName := range []string{"invokeWithCallbacks", "streamWithCallbacks", "collectWithCallbacks", "transformWithCallbacks"} {
			cs := callsTo(nrp, w.Fn("compose", wrapName))
			good := len(cs) == 1 && hasGuard(cs[0].Block(), func(g guard) bool { return g.cond == ssa.Value(flag) && g.pol })
			r.Check(good, "C10.inject-iff-not-self", "newRunnablePacker wraps with "+wrapName+" iff enableCallback", nrp.Pos(), "guarded by enableCallback", "callback wrapper applied unconditionally or missing")
		}
	}

	// ---- stream copies
	r.Rule("C10.stream-copies", "OnWithStreamHandle: zero handlers -> input untouched; else len(handlers)+1 copies, handler i gets copy i, result is the last copy", 4)
	osh := w.Fn("internal/callbacks", "OnWithStreamHandle")
	var hp, cpyP, handleP *ssa.Parameter
	for _, p := range osh.Params {
		switch t := p.Type().Underlying().(type) {
		case *types.Slice:
			hp = p
		case *types.Signature:
			if t.Params().Len() == 1 {
				cpyP = p
			} else {
				handleP = p
			}
		}
	}
	if hp == nil || cpyP == nil || handleP == nil {
		undecidedf("C10.stream-copies: OnWithStreamHandle parameters not recognised")
	}
	cpyCalls := callsThrough(osh, func(v ssa.Value) bool { return v == ssa.Value(cpyP) })
	hCalls := callsThrough(osh, func(v ssa.Value) bool { return v == ssa.Value(handleP) })
	isLenH := func(v ssa.Value) bool { return isLenOf(v, func(x ssa.Value) bool { return x == ssa.Value(hp) }) }
	if len(cpyCalls) != 1 || len(hCalls) != 1 {
		r.Fail("C10.stream-copies", "OnWithStreamHandle shape", osh.Pos(), fmt.Sprintf("expected one cpy call and one handle call, found %d/%d", len(cpyCalls), len(hCalls)))
	} else {
		a := cpyCalls[0].Common().Args[0]
		b, ok := a.(*ssa.BinOp)
		n1 := ok && b.Op == token.ADD && ((isLenH(b.X) && isConstN(b.Y, 1)) || (isLenH(b.Y) && isConstN(b.X, 1)))
		r.Check(n1, "C10.stream-copies", "copies = len(handlers)+1", cpyCalls[0].Pos(), "cpy(len(handlers)+1)", "copy count is not len(handlers)+1: a handler or the flow is left without its own copy")
		// zero handlers: cpy guarded by len(handlers) != 0
		g := hasGuard(cpyCalls[0].Block(), func(g guard) bool {
			op, x, y, ok := asCmp(g.cond)
			if !ok || !isLenH(x) || !isConstN(y, 0) {
				return false
			}
			return (op == token.EQL && !g.pol) || (op == token.NEQ && g.pol) || (op == token.GTR && g.pol)
		})
		r.Check(g, "C10.stream-copies", "no copy without handlers", cpyCalls[0].Pos(), "cpy only when len(handlers) != 0", "stream is copied even without handlers")
		// handler i gets copy i: third arg is load of IndexAddr(inOuts, idx) where idx is the range index also indexing handlers
		hc := hCalls[0].Common()
		idxOf := func(v ssa.Value) ssa.Value {
			if u, ok := v.(*ssa.UnOp); ok && u.Op == token.MUL {
				if ia, ok := u.X.(*ssa.IndexAddr); ok {
					return ia.Index
				}
			}
			return nil
		}
		ih, ic := idxOf(hc.Args[1]), idxOf(hc.Args[2])
		sameIdx := ih != nil && ih == ic
		copySrc := false
		if u, ok := hc.Args[2].(*ssa.UnOp); ok {
			if ia, ok := u.X.(*ssa.IndexAddr); ok && ia.X == cpyCalls[0].(ssa.Value) {
				copySrc = true
			}
		}
		r.Check(sameIdx && copySrc, "C10.stream-copies", "handler i receives copy i", hCalls[0].Pos(), "handle(ctx, handlers[i], copies[i])", "handler and copy are not indexed by the same loop variable")
		// result is the last copy
		last := true
		instrs(osh, func(in ssa.Instruction) {
			ret, ok := in.(*ssa.Return)
			if !ok {
				return
			}
			v := ret.Results[1]
			if _, isParam := v.(*ssa.Parameter); isParam {
				return // zero-handler arm returns the input
			}
			u, ok := v.(*ssa.UnOp)
			if !ok {
				last = false
				return
			}
			ia, ok := u.X.(*ssa.IndexAddr)
			if !ok || ia.X != cpyCalls[0].(ssa.Value) {
				last = false
				return
			}
			bo, ok := ia.Index.(*ssa.BinOp)
			if !ok || bo.Op != token.SUB || !isConstN(bo.Y, 1) || !isLenOf(bo.X, func(x ssa.Value) bool { return x == cpyCalls[0].(ssa.Value) }) {
				last = false
			}
		})
		r.Check(last, "C10.stream-copies", "flow continues with the last copy", osh.Pos(), "returns copies[len(copies)-1]", "the returned stream is not the surplus copy")
	}

	// ---- tool run info
	r.Rule("C10.tool-runinfo", "runToolCallTaskByInvoke/ByStream: ReuseHandlers(RunInfo{Name: task.name, Type: meta.componentImplType, Component: meta.component}) then setToolCallInfo(callID), on every path", 4)
	reuse := w.Fn("callbacks", "ReuseHandlers")
	stci := w.Fn("compose", "setToolCallInfo")
	for _, n := range []string{"runToolCallTaskByInvoke", "runToolCallTaskByStream"} {
		f := w.Fn("compose", n)
		rc, sc := callsTo(f, reuse), callsTo(f, stci)
		good := len(rc) == 1 && len(sc) == 1
		det := ""
		if good {
			// RunInfo literal fields
			want := map[string]string{"Name": "name", "Type": "componentImplType", "Component": "component"}
			got := map[string]string{}
			if al, ok := rc[0].Common().Args[1].(*ssa.Alloc); ok {
				for _, ref := range *al.Referrers() {
					if fa, ok := ref.(*ssa.FieldAddr); ok {
						for _, rr := range *fa.Referrers() {
							if st, ok := rr.(*ssa.Store); ok {
								if lf, _ := loadedField(st.Val); lf != nil {
									got[fieldVarOfAddr(fa).Name()] = lf.Name()
								}
							}
						}
					}
				}
			}
			for k, v := range want {
				if got[k] != v {
					good = false
					det += fmt.Sprintf(" RunInfo.%s <- %q (want task.%s)", k, got[k], v)
				}
			}
			// call id
			if al, ok := sc[0].Common().Args[1].(*ssa.Alloc); ok {
				okid := false
				for _, ref := range *al.Referrers() {
					if fa, ok := ref.(*ssa.FieldAddr); ok {
						for _, rr := range *fa.Referrers() {
							if st, ok := rr.(*ssa.Store); ok {
								if lf, _ := loadedField(st.Val); lf != nil && lf.Name() == "callID" {
									okid = true
								}
							}
						}
					}
				}
				if !okid {
					good = false
					det += " toolCallID not taken from task.callID"
				}
			}
		}
		r.Check(good, "C10.tool-runinfo", n, f.Pos(), "run info and call id derived from the task", "tool call does not get its own run info / call id:"+det)
		// … on every path: whatever the tool (wrapped by the framework or firing its own callbacks), it runs under a context
		// that went through ReuseHandlers — a self-reporting tool takes its run info from the context like every component
		skip, wit := pathQuery{fn: f, goal: isReturn, avoid: func(in ssa.Instruction) bool { return isCallTo(in, reuse) }}.exists()
		r.Check(!skip, "C10.tool-runinfo", n+": the run info is switched on every path", f.Pos(), "no path to the return avoids ReuseHandlers", "the switch to the tool call's own run info is conditional ("+wit+"): a tool that fires its own callbacks (IsCallbacksEnabled) then reports under the enclosing ToolsNode's run info — every handler sees the ToolsNode unit start and end twice with mixed payloads and the tool-call unit is never reported")
	}

	r.Rule("C10.flow-inner-units-own-run-info", "a flow component that runs the component it wraps (the retriever / indexer flows calling Retrieve, Transform, Store of a components/* interface) does so under a context that went through a run-info switch (callbacks.ReuseHandlers, or a helper that calls it) on every path: handed the node's own context, a wrapped component that fires its own callbacks reports under the NODE's run info — the node unit starts and ends twice with mixed payloads and the wrapped unit is never reported", 3)
	{
		switches := map[*ssa.Function]bool{}
		for _, f := range []*ssa.Function{w.Fn("callbacks", "ReuseHandlers"), w.Fn("internal/callbacks", "ReuseHandlers")} {
			switches[f] = true
		}
		for _, f := range w.RepoFuncs("flow") {
			for _, c := range callsTo(f, w.Fn("callbacks", "ReuseHandlers"), w.Fn("internal/callbacks", "ReuseHandlers")) {
				_ = c
				switches[f] = true
			}
		}
		n := 0
		for _, fn := range w.RepoFuncs("flow/retriever", "flow/indexer") {
			k := 0
			instrs(fn, func(in ssa.Instruction) {
				c, ok := in.(*ssa.Call)
				if !ok || !c.Call.IsInvoke() || len(c.Call.Args) == 0 {
					return
				}
				m := c.Call.Method
				if m.Pkg() == nil || !strings.HasPrefix(m.Pkg().Path(), modPath+"/components/") {
					return
				}
				if nt := namedOf(c.Call.Args[0].Type()); nt == nil || nt.Obj().Name() != "Context" {
					return
				}
				k++
				n++
				skip, wit := pathQuery{fn: fn, goal: func(x ssa.Instruction) bool { return x == ssa.Instruction(c) }, avoid: func(x ssa.Instruction) bool {
					ci, isC := x.(ssa.CallInstruction)
					if !isC {
						return false
					}
					sc := staticCallee(ci)
					return sc != nil && switches[origin(sc)]
				}}.exists()
				// … and the context handed over is one that came out of a switch (not the switch made for another component of
				// the same flow, with the node's context handed to this one)
				fromSwitch := false
				seenV := map[ssa.Value]bool{}
				var visit func(v ssa.Value, d int)
				visit = func(v ssa.Value, d int) {
					if v == nil || d > 10 || seenV[v] || fromSwitch {
						return
					}
					seenV[v] = true
					switch x := v.(type) {
					case *ssa.Call:
						if sc := staticCallee(x); sc != nil && switches[origin(sc)] {
							fromSwitch = true
							return
						}
						for _, a := range x.Call.Args {
							if nt := namedOf(a.Type()); nt != nil && nt.Obj().Name() == "Context" {
								visit(a, d+1)
							}
						}
					case *ssa.Phi:
						for _, e := range x.Edges {
							visit(e, d+1)
						}
					case *ssa.UnOp:
						if a, isA := x.X.(*ssa.Alloc); isA && x.Op == token.MUL {
							for _, st := range storesToCell(fn, a) {
								visit(st.Val, d+1)
							}
						}
					case *ssa.Extract:
						visit(x.Tuple, d+1)
					}
				}
				visit(c.Call.Args[0], 0)
				if !skip && !fromSwitch {
					skip, wit = true, "the context argument does not come out of a run-info switch"
				}
				r.Check(!skip, "C10.flow-inner-units-own-run-info", fmt.Sprintf("%s: inner %s call #%d", w.fname(fn), m.Name(), k), c.Pos(), "behind a run-info switch on every path", "the wrapped component is called with the context the flow component was given ("+wit+"): as a graph node that context carries the node's run info, so a wrapped retriever / transformer / indexer that fires its own callbacks makes every handler see the parent node start and end 2 (indexer: 3) times with the payloads of different units, and the wrapped units are never reported as units of their own — the multi-query and router flows and the ToolsNode switch to the inner component's run info first")
			})
		}
		if n < 3 {
			r.Deferred = append(r.Deferred, fmt.Sprintf("C10.flow-inner-units-own-run-info: only %d inner component calls found in the retriever / indexer flows", n))
		}
	}

	r.Rule("C10.one-reporter-per-unit", "a unit's error is reported by the wrapper that reported its start (runWithCallbacks, which fires OnError for a returned error and for a panic before it re-panics) and by the graph's own run; nothing else in package compose calls the error aspect (the wrappers receive it as a value) — an executor that 'also tells the handlers about the crash' gives a panicking node start, error, error", 1)
	{
		oe := w.Fn("compose", "onError")
		n := 0
		for _, c := range w.staticCallers(oe) {
			top := topFunc(c.Parent())
			nm := origin(top).Name()
			n++
			r.Check(nm == "runWithCallbacks" || nm == "onGraphError", "C10.one-reporter-per-unit", fmt.Sprintf("onError called from %s", w.fname(origin(top))), c.Pos(), "the wrapper that reported the start / the graph's run", "a second reporter: runWithCallbacks (and a self-reporting component) already report a panic to the handlers and re-panic, so a node execution that panics gets OnStart, OnError, OnError — two ends for one start, for run-wide, designated and global handlers alike")
		}
		if n < 1 {
			r.Deferred = append(r.Deferred, fmt.Sprintf("C10.one-reporter-per-unit: no caller of onError found"))
		}
	}

	r.Rule("C10.timing-checker-optional", "TimingChecker is an optional interface: wherever a handler is asked through it, a handler that does not implement it is treated like one that answered 'needed' — the not-ok edge of the assertion and the true edge of Needed lead to the same place (the dispatch point of internal/callbacks and the handler helper of utils/callbacks must agree, or a plain callbacks.Handler behind the helper is never called)", 2)
	{
		n := 0
		for _, fn := range w.RepoFuncs("") {
			k := 0
			instrs(fn, func(in ssa.Instruction) {
				ta, ok := in.(*ssa.TypeAssert)
				if !ok || !ta.CommaOk {
					return
				}
				nt := namedOf(ta.AssertedType)
				if nt == nil || nt.Obj().Name() != "TimingChecker" {
					return
				}
				k++
				var okV, val ssa.Value
				for _, ref := range *ta.Referrers() {
					if e, isE := ref.(*ssa.Extract); isE {
						if e.Index == 1 {
							okV = e
						} else {
							val = e
						}
					}
				}
				if okV == nil || val == nil {
					return
				}
				n++
				// where the run goes when the handler is not a TimingChecker
				var notOK *ssa.BasicBlock
				for _, ref := range *okV.Referrers() {
					switch x := ref.(type) {
					case *ssa.If:
						notOK = x.Block().Succs[1]
					case *ssa.UnOp:
						if x.Op == token.NOT {
							for _, r2 := range *x.Referrers() {
								if iff, isIf := r2.(*ssa.If); isIf {
									notOK = iff.Block().Succs[0]
								}
							}
						}
					}
				}
				// where it goes when Needed answers true
				var needed *ssa.BasicBlock
				for _, ref := range *val.Referrers() {
					c, isC := ref.(*ssa.Call)
					if !isC || !c.Call.IsInvoke() || c.Call.Method.Name() != "Needed" {
						continue
					}
					for _, r2 := range *c.Referrers() {
						if iff, isIf := r2.(*ssa.If); isIf {
							needed = iff.Block().Succs[0]
						}
					}
				}
				good := notOK != nil && needed != nil && notOK == needed
				r.Check(good, "C10.timing-checker-optional", fmt.Sprintf("%s: TimingChecker assertion #%d", w.fname(fn), k), ta.Pos(), "not a TimingChecker = needed", "a handler that does not implement TimingChecker is treated as 'not needed' here (or the two outcomes cannot be matched): a hand-written callbacks.Handler registered with NewHandlerHelper().Graph / Chain / Lambda is never invoked for any graph, chain or lambda unit, while the same handler passed directly to WithCallbacks fires")
			})
		}
		if n < 2 {
			r.Deferred = append(r.Deferred, fmt.Sprintf("C10.timing-checker-optional: only %d TimingChecker assertions found", n))
		}
	}

	r.Rule("C10.designated-paths-all-forwarded", "extractOption visits every designated path of every option (a callbacks option designating several nodes reaches all of them, nested ones included) — the loops are left only when exhausted or with an error (shared with C16.visits-all)", 3)
	ruleLoopsTotal(w, r, "C10.designated-paths-all-forwarded", []*ssa.Function{w.Fn("compose", "extractOption")}, map[string]string{}, "a handler designated through a later path of the same option fires neither at the start nor at the end of that node")
	r.Rule("C10.copies-from-current-position", "the copies of an array-backed stream made for callback handlers start where the original stands (shared with C04 / C08): attaching a handler must not replay chunks the graph has already consumed", 1)
	arrayCopyCheck(w, r, "C10.copies-from-current-position")

	// ---- designation
	r.Rule("C10.designation", "graph-level handlers = options without path; node handlers = options whose path has exactly one element equal to the node key", 2)
	designationChecks(w, r, "C10.designation")
}

// designationChecks: shared by C10 (handlers fire for the right node) and C16 (callbacks designated to a node apply only
// there — and all of them do).
func designationChecks(w *World, r *Report, rule string) {
	optPaths := w.Field("compose", "Option", "paths")
	optHandler := w.Field("compose", "Option", "handler")
	npPath := w.Field("compose", "NodePath", "path")
	isLenPaths := func(v ssa.Value) bool {
		return isLenOf(v, func(x ssa.Value) bool { return isLoadOfField(x, optPaths) })
	}
	isLenPath := func(v ssa.Value) bool { return isLenOf(v, func(x ssa.Value) bool { return isLoadOfField(x, npPath) }) }
	handlerAppends := func(f *ssa.Function) []*ssa.Call {
		var out []*ssa.Call
		instrs(f, func(in ssa.Instruction) {
			c, ok := in.(*ssa.Call)
			if ok && isBuiltin(c, "append") && len(c.Call.Args) == 2 && isLoadOfField(c.Call.Args[1], optHandler) {
				out = append(out, c)
			}
		})
		return out
	}
	{
		f := w.Fn("compose", "initGraphCallbacks")
		aps := handlerAppends(f)
		good := len(aps) == 1
		if good {
			good = hasGuard(aps[0].Block(), func(g guard) bool {
				op, x, y, ok := asCmp(g.cond)
				return ok && isLenPaths(x) && isConstN(y, 0) && ((op == token.EQL && g.pol) || (op == token.NEQ && !g.pol))
			})
		}
		r.Check(good, rule, "initGraphCallbacks takes only undesignated handlers", f.Pos(), "append guarded by len(opt.paths) == 0", "graph-level callbacks include node-designated handlers (or none)")
	}
	{
		f := w.Fn("compose", "initNodeCallbacks")
		keyParam := f.Params[1]
		aps := handlerAppends(f)
		good := len(aps) == 1
		if good {
			g1 := hasGuard(aps[0].Block(), func(g guard) bool {
				op, x, y, ok := asCmp(g.cond)
				return ok && isLenPath(x) && isConstN(y, 1) && op == token.EQL && g.pol
			})
			g2 := hasGuard(aps[0].Block(), func(g guard) bool {
				op, x, y, ok := asCmp(g.cond)
				if !ok || op != token.EQL || !g.pol {
					return false
				}
				isElem0 := func(v ssa.Value) bool {
					u, ok := v.(*ssa.UnOp)
					if !ok {
						return false
					}
					ia, ok := u.X.(*ssa.IndexAddr)
					return ok && isLoadOfField(ia.X, npPath) && isConstN(ia.Index, 0)
				}
				return (isElem0(x) && y == ssa.Value(keyParam)) || (isElem0(y) && x == ssa.Value(keyParam))
			})
			good = g1 && g2
			// the scan over the option's paths is exhaustive: the loop is left early only after a match
			if good {
				exh := false
				instrs(f, func(in ssa.Instruction) {
					iff, ok := in.(*ssa.If)
					if !ok {
						return
					}
					op, _, y, ok := asCmp(iff.Cond)
					if !ok || op != token.LSS {
						return
					}
					lv, ok := y.(*ssa.Call)
					if !ok || !isBuiltin(lv, "len") || !isLoadOfField(lv.Call.Args[0], optPaths) {
						return
					}
					h := iff.Block()
					body := h.Succs[0]
					exh = true
					for _, b := range f.Blocks {
						if !(b == body || body.Dominates(b)) {
							continue
						}
						for _, s := range b.Succs {
							inBody := s == body || body.Dominates(s)
							if inBody || s == h {
								continue
							}
							// early exit edge: must come after the match (dominated by the append)
							if !(b == aps[0].Block() || aps[0].Block().Dominates(b)) {
								exh = false
							}
						}
					}
				})
				if !exh {
					good = false
				}
			}
		}
		r.Check(good, rule, "initNodeCallbacks takes handlers designated to exactly this node", f.Pos(), "append guarded by len(path)==1 && path[0]==key; all designated paths are scanned", "node callbacks are not exactly the options one of whose paths is [key] (guard changed, or the scan over the paths stops before a match)")
	}
}

func isConstN(v ssa.Value, n int64) bool {
	c, ok := constInt(v)
	return ok && c == n
}

// funcArgIs: v denotes function f (possibly an instantiation / conversion of it).
func funcArgIs(v ssa.Value, f *ssa.Function) bool {
	v = through(v)
	switch x := v.(type) {
	case *ssa.Function:
		return origin(x) == origin(f)
	case *ssa.MakeClosure:
		return origin(x.Fn.(*ssa.Function)) == origin(f)
	}
	return false
}
