package main

import (
	"fmt"
	"go/ast"
	"go/constant"
	"go/token"
	"go/types"
	"strings"

	"golang.org/x/tools/go/ssa"
)

var errorIface = types.Universe.Lookup("error").Type().Underlying().(*types.Interface)

func implementsError(t types.Type) bool {
	return types.Implements(t, errorIface) || types.Implements(types.NewPointer(t), errorIface)
}

// ruleErrUnwrap (ERR-WRAP a): every struct type declared in the scope packages that implements error
// and carries a field of type error must have an Unwrap() error method returning that field.
func ruleErrUnwrap(w *World, r *Report, rule string, relPkgs ...string) {
	for _, rel := range relPkgs {
		pk := w.ByPath[modPath+"/"+rel]
		if pk == nil {
			continue
		}
		sc := pk.Types.Scope()
		for _, name := range sc.Names() {
			tn, ok := sc.Lookup(name).(*types.TypeName)
			if !ok || tn.IsAlias() {
				continue
			}
			st, ok := tn.Type().Underlying().(*types.Struct)
			if !ok || !implementsError(tn.Type()) {
				continue
			}
			var errFields []*types.Var
			for i := 0; i < st.NumFields(); i++ {
				if types.Identical(st.Field(i).Type(), types.Universe.Lookup("error").Type()) {
					errFields = append(errFields, st.Field(i))
				}
			}
			construct := rel + "." + name
			if len(errFields) == 0 {
				r.Info(rule, construct, tn.Pos(), "error type without a cause field")
				continue
			}
			obj, _, _ := types.LookupFieldOrMethod(types.NewPointer(tn.Type()), true, pk.Types, "Unwrap")
			m, ok := obj.(*types.Func)
			if !ok {
				r.Fail(rule, construct, tn.Pos(), fmt.Sprintf("type implements error and carries cause field %q but has no Unwrap method: errors.Is/As cannot reach the cause", errFields[0].Name()))
				continue
			}
			fn := w.Prog.FuncValue(m)
			good := false
			if fn != nil {
				good = true
				nret := 0
				instrs(fn, func(in ssa.Instruction) {
					if ret, ok := in.(*ssa.Return); ok && len(ret.Results) == 1 {
						nret++
						f, _ := loadedField(ret.Results[0])
						match := false
						for _, ef := range errFields {
							if sameField(f, ef) {
								match = true
							}
						}
						if !match {
							good = false
						}
					}
				})
				if nret == 0 {
					good = false
				}
			}
			r.Check(good, rule, construct, tn.Pos(), "Unwrap returns the cause field", "Unwrap exists but does not return the cause field on every path")
		}
	}
}

// ruleErrorfW (ERR-WRAP b): every fmt.Errorf in the given functions that has an argument whose static
// type implements error must use a constant format whose verb for that argument is %w.
func ruleErrorfW(w *World, r *Report, rule string, fns []*ssa.Function, armed func(fn *ssa.Function) bool) {
	seen := map[token.Pos]bool{}
	for _, fn := range fns {
		body := syntaxBody(fn)
		info := w.infoOf(fn)
		if body == nil || info == nil {
			continue
		}
		ast.Inspect(body, func(n ast.Node) bool {
			if _, ok := n.(*ast.FuncLit); ok && n != fn.Syntax() {
				return false // literals are separate SSA functions
			}
			call, ok := n.(*ast.CallExpr)
			if !ok || seen[call.Pos()] {
				return true
			}
			sel, ok := call.Fun.(*ast.SelectorExpr)
			if !ok {
				return true
			}
			obj, ok := info.Uses[sel.Sel].(*types.Func)
			if !ok || obj.Pkg() == nil || obj.Pkg().Path() != "fmt" || obj.Name() != "Errorf" {
				return true
			}
			seen[call.Pos()] = true
			var errArgs []int
			for i, a := range call.Args[1:] {
				t := info.TypeOf(a)
				if t != nil && types.Implements(t, errorIface) {
					errArgs = append(errArgs, i)
				}
			}
			if len(errArgs) == 0 || call.Ellipsis.IsValid() {
				return true
			}
			construct := fmt.Sprintf("%s fmt.Errorf(%s)", w.fname(fn), strings.Join(exprStrings(call.Args[1:]), ","))
			tv := info.Types[call.Args[0]]
			if tv.Value == nil || tv.Value.Kind() != constant.String {
				if armed(fn) {
					r.Fail(rule, construct, call.Pos(), "format is not a constant: cannot establish %w for the error argument")
				} else {
					r.Info(rule, construct, call.Pos(), "non-constant format (outside armed scope)")
				}
				return true
			}
			format := constant.StringVal(tv.Value)
			verbs := parseVerbs(format)
			bad := ""
			for _, ai := range errArgs {
				if ai >= len(verbs) {
					bad = fmt.Sprintf("argument %d has no verb", ai)
				} else if verbs[ai] != 'w' {
					bad = fmt.Sprintf("error argument %s is formatted with %%%c in %q: the cause is lost to errors.Is/As", types.ExprString(call.Args[1+ai]), verbs[ai], format)
				}
			}
			// construct key: function + format string (stable across line moves)
			construct = fmt.Sprintf("%s fmt.Errorf(%q)", w.fname(fn), format)
			if bad == "" {
				if armed(fn) {
					r.OK(rule, construct, call.Pos(), "error argument wrapped with %w")
				} else {
					r.Info(rule, construct, call.Pos(), "%w (outside armed scope)")
				}
			} else if armed(fn) {
				r.Fail(rule, construct, call.Pos(), bad)
			} else {
				r.Info(rule, construct, call.Pos(), "not-%w outside armed scope: "+bad)
			}
			return true
		})
	}
}

func exprStrings(es []ast.Expr) []string {
	var out []string
	for _, e := range es {
		out = append(out, types.ExprString(e))
	}
	return out
}

// parseVerbs returns the verb letters consuming successive operands (no explicit indexes supported;
// '*' width/precision consume an operand and are recorded as '*').
func parseVerbs(f string) []rune {
	var out []rune
	rs := []rune(f)
	for i := 0; i < len(rs); i++ {
		if rs[i] != '%' {
			continue
		}
		i++
		for i < len(rs) && strings.ContainsRune("+-# 0123456789.[]*", rs[i]) {
			if rs[i] == '*' {
				out = append(out, '*')
			}
			i++
		}
		if i >= len(rs) {
			break
		}
		if rs[i] == '%' {
			continue
		}
		out = append(out, rs[i])
	}
	return out
}

// ---------------------------------------------------------------------------------------------
// GO-RECOVER

type goSite struct {
	in      *ssa.Go
	fn      *ssa.Function // enclosing
	spawned *ssa.Function
}

func goSites(w *World, prefixes ...string) []goSite {
	var out []goSite
	for _, fn := range w.RepoFuncs(prefixes...) {
		instrs(fn, func(in ssa.Instruction) {
			if g, ok := in.(*ssa.Go); ok {
				out = append(out, goSite{g, fn, staticCallee(g)})
			}
		})
	}
	return out
}

// recoverDefer finds, in fn, a deferred literal that calls recover(); returns the Defer and the literal.
func recoverDefer(fn *ssa.Function) (*ssa.Defer, *ssa.Function, ssa.Value) {
	for d, lit := range deferredFuncs(fn) {
		if lit == nil {
			continue
		}
		var rv ssa.Value
		instrs(lit, func(in ssa.Instruction) {
			if isBuiltin(in, "recover") {
				rv = in.(ssa.Value)
			}
		})
		if rv != nil {
			return d, lit, rv
		}
	}
	return nil, nil, nil
}

// taintReachesSink: starting from v, follow uses (call arguments -> call result, conversions, phis,
// stores into local cells and loads from them); report whether a sink is reached: a Store to a
// field / free variable / pointer parameter, a channel send, or an argument to a function for which
// isSinkCall holds.
func taintReachesSink(fn *ssa.Function, v ssa.Value, isSinkCall func(ssa.CallInstruction) bool) (bool, string) {
	seen := map[ssa.Value]bool{}
	work := []ssa.Value{v}
	for len(work) > 0 {
		x := work[len(work)-1]
		work = work[:len(work)-1]
		if seen[x] {
			continue
		}
		seen[x] = true
		refs := x.Referrers()
		if refs == nil {
			continue
		}
		for _, ref := range *refs {
			switch u := ref.(type) {
			case *ssa.Store:
				if u.Val != x {
					continue
				}
				switch a := u.Addr.(type) {
				case *ssa.FieldAddr:
					return true, "stored to field " + fieldVarOfAddr(a).Name()
				case *ssa.FreeVar:
					return true, "stored to captured variable " + a.Name()
				case *ssa.Alloc:
					// local cell: continue from its loads
					if ar := a.Referrers(); ar != nil {
						for _, l := range *ar {
							if lo, ok := l.(*ssa.UnOp); ok && lo.Op == token.MUL {
								work = append(work, lo)
							}
						}
					}
				default:
					return true, "stored through pointer"
				}
			case *ssa.Send:
				return true, "sent on channel"
			case ssa.CallInstruction:
				if _, isDefer := u.(*ssa.Defer); isDefer {
					continue
				}
				if isSinkCall != nil && isSinkCall(u) {
					return true, "passed to " + calleeFullName(u)
				}
				if val, ok := u.(ssa.Value); ok {
					work = append(work, val)
				}
			case *ssa.MakeInterface, *ssa.ChangeType, *ssa.ChangeInterface, *ssa.Phi, *ssa.Extract, *ssa.TypeAssert, *ssa.Convert:
				work = append(work, u.(ssa.Value))
			case *ssa.Return:
				return true, "returned"
			}
		}
	}
	return false, ""
}

// ruleGoRecover: every `go` in scope spawns a function whose first action is to defer a literal that
// recovers and records the panic value as an error.
func ruleGoRecover(w *World, r *Report, rule string, sites []goSite, sinkCall func(ssa.CallInstruction) bool) {
	for _, s := range sites {
		construct := "go in " + w.fname(s.fn)
		if s.spawned == nil {
			r.Fail(rule, construct, s.in.Pos(), "spawned function is not statically resolvable")
			continue
		}
		construct += " spawns " + w.fname(s.spawned)
		d, lit, rv := recoverDefer(s.spawned)
		if d == nil {
			r.Fail(rule, construct, s.in.Pos(), "spawned function does not defer a literal calling recover(): a panic in it kills the process")
			continue
		}
		// every non-deferred call in the spawned function must be dominated by the defer
		bad := ""
		instrs(s.spawned, func(in ssa.Instruction) {
			c, ok := in.(*ssa.Call)
			if !ok {
				return
			}
			if _, isB := c.Call.Value.(*ssa.Builtin); isB {
				return
			}
			if !instrDominates(d, c) {
				bad = fmt.Sprintf("call %s at %s is not protected by the recover defer", calleeFullName(c), w.pos(c.Pos()))
			}
		})
		if bad != "" {
			r.Fail(rule, construct, s.in.Pos(), bad)
			continue
		}
		// recovered value must be compared with nil and recorded
		ok, how := taintReachesSink(lit, rv, sinkCall)
		if !ok {
			r.Fail(rule, construct, s.in.Pos(), "the recovered panic value is not recorded (no store to an error slot / send): the panic is swallowed")
			continue
		}
		r.OK(rule, construct, s.in.Pos(), "defer+recover dominates all calls; recovered value "+how)
	}
}

// ERR-NOT-DROPPED: after a call that yields an error, a `return …, nil` (constant nil in the function's error result)
// is reached only where that error was tested nil — a success return on a path that never looked at the error, or that
// sits on the error's non-nil side, swallows the failure. Reports the offending returns; calls whose error is never
// extracted at all are reported with a nil Return.
type droppedErr struct {
	call ssa.CallInstruction
	ret  *ssa.Return
	why  string
}

func errDroppedReturns(fn *ssa.Function) []droppedErr {
	var out []droppedErr
	res := fn.Signature.Results()
	if res.Len() == 0 || !types.Identical(res.At(res.Len()-1).Type(), types.Universe.Lookup("error").Type()) {
		return nil
	}
	ei := res.Len() - 1
	instrs(fn, func(in ssa.Instruction) {
		c, ok := in.(*ssa.Call)
		if !ok {
			return
		}
		var errv ssa.Value
		switch t := c.Type().(type) {
		case *types.Tuple:
			if t.Len() == 0 || !types.Identical(t.At(t.Len()-1).Type(), types.Universe.Lookup("error").Type()) {
				return
			}
			for _, ref := range *c.Referrers() {
				if ex, ok := ref.(*ssa.Extract); ok && ex.Index == t.Len()-1 {
					errv = ex
				}
			}
		default:
			if !types.Identical(c.Type(), types.Universe.Lookup("error").Type()) {
				return
			}
			errv = c
		}
		if errv == nil {
			return
		}
		// the error and the phis it flows into (`if … { x, err = a() } else { x, err = b() }; if err != nil`)
		errs := map[ssa.Value]bool{errv: true}
		for changed := true; changed; {
			changed = false
			instrs(fn, func(x ssa.Instruction) {
				if phi, ok := x.(*ssa.Phi); ok && !errs[phi] {
					for _, e := range phi.Edges {
						if errs[e] {
							errs[phi] = true
							changed = true
						}
					}
				}
			})
		}
		isErr := func(v ssa.Value) bool { return errs[v] }
		// a sentinel test of the error (err == io.EOF, errors.Is(err, X)) on its true side: a deliberate translation
		sentinelSide := func(g guard) bool {
			if !g.pol {
				return false
			}
			if op, a, b, ok := asCmp(g.cond); ok && op == token.EQL {
				return (errs[a] && !isNilConst(b)) || (errs[b] && !isNilConst(a))
			}
			if c, ok := g.cond.(*ssa.Call); ok {
				if n := calleeFullName(c); (n == "errors.Is" || n == "errors.As") && len(c.Call.Args) > 0 && errs[c.Call.Args[0]] {
					return true
				}
			}
			return false
		}
		// (c) from the NON-NIL side of a nil-test of the error, no success return is reachable except through the true
		// side of a sentinel test (errors.Is / == io.EOF: a deliberate translation) or past a use of the error (stored,
		// sent, passed on: handled by other means)
		sentinelEdge := map[[2]*ssa.BasicBlock]bool{}
		instrs(fn, func(x ssa.Instruction) {
			iff, ok := x.(*ssa.If)
			if !ok {
				return
			}
			if sentinelSide(guard{iff.Cond, true, iff}) {
				sentinelEdge[[2]*ssa.BasicBlock{iff.Block(), iff.Block().Succs[0]}] = true
			}
		})
		usesErr := func(x ssa.Instruction) bool {
			switch y := x.(type) {
			case *ssa.If, *ssa.BinOp, *ssa.Phi, *ssa.DebugRef:
				return false
			case *ssa.Return:
				return false
			case *ssa.Call:
				if n := calleeFullName(y); n == "errors.Is" || n == "errors.As" {
					return false
				}
			}
			for _, op := range x.Operands(nil) {
				if *op != nil && errs[*op] {
					return true
				}
			}
			return false
		}
		instrs(fn, func(x ssa.Instruction) {
			iff, ok := x.(*ssa.If)
			if !ok {
				return
			}
			op, a, b, ok := asCmp(iff.Cond)
			if !ok || !((errs[a] && isNilConst(b)) || (errs[b] && isNilConst(a))) {
				return
			}
			nn := iff.Block().Succs[0]
			if op == token.EQL {
				nn = iff.Block().Succs[1]
			}
			var hit *ssa.Return
			q := pathQuery{fn: fn, goal: func(y ssa.Instruction) bool {
				ret, ok := y.(*ssa.Return)
				if ok && len(ret.Results) > ei && isNilConst(ret.Results[ei]) {
					hit = ret
					return true
				}
				return false
			}, avoid: usesErr, avoidEdge: func(p, q *ssa.BasicBlock) bool { return sentinelEdge[[2]*ssa.BasicBlock{p, q}] }}
			if reach, wit := pathFromBlock(q, nn); reach {
				out = append(out, droppedErr{c, hit, "a success return is reachable from the non-nil side of the test of the callee's error without that error being used: " + wit})
			}
		})
		instrs(fn, func(in2 ssa.Instruction) {
			ret, ok := in2.(*ssa.Return)
			if !ok || len(ret.Results) <= ei || !isNilConst(ret.Results[ei]) {
				return
			}
			if reach, _ := (pathQuery{fn: fn, from: c, goal: func(x ssa.Instruction) bool { return x == ret }}).exists(); !reach {
				return
			}
			// dominated by "err == nil"?
			nilSide, nonNilSide := false, false
			for _, g := range guardsOf(ret.Block()) {
				if sentinelSide(g) {
					return
				}
				if guardNonNil(g, isErr) {
					nonNilSide = true
				}
				if guardNonNil(guard{g.cond, !g.pol, g.at}, isErr) {
					nilSide = true
				}
			}
			switch {
			case nonNilSide:
				out = append(out, droppedErr{c, ret, "returns a nil error on the side where the callee's error is non-nil"})
			case !nilSide:
				// a path from the call to this return that does not pass a test of the error
				tested := func(x ssa.Instruction) bool {
					iff, ok := x.(*ssa.If)
					if !ok {
						return false
					}
					_, a, b, ok := asCmp(iff.Cond)
					return ok && (errs[a] || errs[b])
				}
				if reach, wit := (pathQuery{fn: fn, from: c, goal: func(x ssa.Instruction) bool { return x == ret }, avoid: tested}).exists(); reach {
					out = append(out, droppedErr{c, ret, "returns a nil error on a path that never tested the callee's error: " + wit})
				}
			}
		})
	})
	return out
}

// DEFER-SEES-RESULT: a deferred closure that captures an error variable of the enclosing function (to report it —
// callbacks.OnError — or to set it — a recover handler) must capture the function's RESULT: every return of the
// function then reads its error from that very cell (`return nil, e` stores e into it before the defers run). A
// captured plain local that returns do not go through is never what the caller gets: the hook sees nil for ever, or
// the recovered error is dropped.
type deferCell struct {
	fn    *ssa.Function
	def   *ssa.Defer
	cell  *ssa.Alloc
	okAll bool
	bad   *ssa.Return
}

func deferredErrorCells(fn *ssa.Function) []deferCell {
	var out []deferCell
	errT := types.Universe.Lookup("error").Type()
	res := fn.Signature.Results()
	if res.Len() == 0 || !types.Identical(res.At(res.Len()-1).Type(), errT) {
		return nil
	}
	ei := res.Len() - 1
	instrs(fn, func(in ssa.Instruction) {
		d, ok := in.(*ssa.Defer)
		if !ok {
			return
		}
		mc, ok := d.Call.Value.(*ssa.MakeClosure)
		if !ok {
			return
		}
		for _, b := range mc.Bindings {
			al, ok := b.(*ssa.Alloc)
			if !ok {
				continue
			}
			pt, ok := al.Type().Underlying().(*types.Pointer)
			if !ok || !types.Identical(pt.Elem(), errT) {
				continue
			}
			dc := deferCell{fn: fn, def: d, cell: al, okAll: true}
			instrs(fn, func(in2 ssa.Instruction) {
				ret, ok := in2.(*ssa.Return)
				if !ok || len(ret.Results) <= ei {
					return
				}
				ld, ok := ret.Results[ei].(*ssa.UnOp)
				if !ok || ld.Op != token.MUL || ld.X != ssa.Value(al) {
					dc.okAll = false
					dc.bad = ret
				}
			})
			out = append(out, dc)
		}
	})
	return out
}
