package main

import (
	"encoding/json"
	"fmt"
	"go/ast"
	"go/token"
	"go/types"
	"os"
	"path/filepath"
	"sort"
	"strings"
	"time"

	"golang.org/x/tools/go/callgraph"
	"golang.org/x/tools/go/callgraph/cha"
	"golang.org/x/tools/go/callgraph/vta"
	"golang.org/x/tools/go/packages"
	"golang.org/x/tools/go/ssa"
	"golang.org/x/tools/go/ssa/ssautil"
)

const modPath = "github.com/cloudwego/eino"

// undecided is panicked by anchor resolution / shape recognition; caught at the top level and
// turned into "UNDECIDED" (exit 2). It is never used for a property violation.
type undecided struct{ msg string }

func undecidedf(format string, a ...any) { panic(undecided{fmt.Sprintf(format, a...)}) }

// World is the resolved program: type-checked packages, SSA, call graph.
type World struct {
	RepoDir      string
	Fset         *token.FileSet
	Pkgs         []*packages.Package          // packages of the eino module (mock packages included)
	ByPath       map[string]*packages.Package // import path -> package
	Prog         *ssa.Program
	all          map[*ssa.Function]bool
	cg           *callgraph.Graph
	fnByObj      map[*types.Func]*ssa.Function
	LoadS        float64
	strictChains bool
	GoVer        string
}

func loadWorld(repo string, extraEnv ...string) *World {
	t0 := time.Now()
	env := os.Environ()
	// deterministic, offline, no workspace
	env = append(env, "GOFLAGS=-mod=mod", "GOPROXY=off", "GOSUMDB=off", "GOTOOLCHAIN=local", "GOWORK=off")
	env = append(env, extraEnv...)
	cfg := &packages.Config{Mode: packages.LoadAllSyntax, Dir: repo, Tests: false, Env: env}
	pkgs, err := packages.Load(cfg, "./...")
	if err != nil {
		undecidedf("packages.Load: %v", err)
	}
	nerr := 0
	packages.Visit(pkgs, nil, func(p *packages.Package) {
		for _, e := range p.Errors {
			if nerr < 10 {
				fmt.Fprintf(os.Stderr, "load error: %v\n", e)
			}
			nerr++
		}
	})
	if nerr > 0 {
		undecidedf("%d load/type errors in %s (the tree does not build)", nerr, repo)
	}
	w := &World{RepoDir: repo, ByPath: map[string]*packages.Package{}, fnByObj: map[*types.Func]*ssa.Function{}}
	for _, p := range pkgs {
		if strings.HasPrefix(p.PkgPath, modPath) {
			w.Pkgs = append(w.Pkgs, p)
			w.ByPath[p.PkgPath] = p
		}
	}
	if len(w.Pkgs) < 30 {
		undecidedf("only %d packages of %s loaded (floor 30)", len(w.Pkgs), modPath)
	}
	prog, _ := ssautil.AllPackages(pkgs, ssa.BareInits)
	prog.Build()
	w.Prog = prog
	w.Fset = prog.Fset
	w.LoadS = time.Since(t0).Seconds()
	return w
}

func isMock(path string) bool { return strings.Contains(path, "/internal/mock") }

// inRepo reports whether fn belongs to the eino module (mocks excluded).
func (w *World) inRepo(fn *ssa.Function) bool {
	p := fnPkg(fn)
	return p != nil && strings.HasPrefix(p.Path(), modPath) && !isMock(p.Path())
}

func fnPkg(fn *ssa.Function) *types.Package {
	if fn == nil {
		return nil
	}
	if fn.Pkg != nil {
		return fn.Pkg.Pkg
	}
	if o := fn.Origin(); o != nil && o != fn && o.Pkg != nil {
		return o.Pkg.Pkg
	}
	if fn.Parent() != nil {
		return fnPkg(fn.Parent())
	}
	if fn.Object() != nil {
		return fn.Object().Pkg()
	}
	return nil
}

func (w *World) AllFuncs() map[*ssa.Function]bool {
	if w.all == nil {
		w.all = ssautil.AllFunctions(w.Prog)
		// AllFunctions only sees methods through method sets of types that are used somewhere; the bodies of
		// methods of GENERIC types (Workflow[I,O], Graph[I,O], Chain[I,O] …) are reachable from it only if some
		// package code happens to instantiate them. Add every declared function and method of the module's
		// packages at its origin, with all nested literals.
		var add func(f *ssa.Function)
		add = func(f *ssa.Function) {
			if f == nil || w.all[f] {
				return
			}
			w.all[f] = true
			for _, a := range f.AnonFuncs {
				add(a)
			}
		}
		for _, pk := range w.Pkgs {
			if pk.Types == nil {
				continue
			}
			scope := pk.Types.Scope()
			for _, name := range scope.Names() {
				switch o := scope.Lookup(name).(type) {
				case *types.Func:
					add(w.Prog.FuncValue(o))
				case *types.TypeName:
					if n, ok := o.Type().(*types.Named); ok {
						for i := 0; i < n.NumMethods(); i++ {
							add(w.Prog.FuncValue(n.Method(i)))
						}
					}
				}
			}
		}
		// literals of functions already present
		for f := range w.all {
			for _, a := range f.AnonFuncs {
				add(a)
			}
		}
	}
	return w.all
}

// RepoFuncs returns all source functions (incl. anonymous ones) of the module whose package path
// (relative to the module) has one of the given prefixes ("" = all). Sorted by position.
func (w *World) RepoFuncs(prefixes ...string) []*ssa.Function {
	var out []*ssa.Function
	for fn := range w.AllFuncs() {
		if fn.Blocks == nil || !w.inRepo(fn) || fn.Synthetic != "" {
			continue
		}
		// analyse generic bodies once at their origin
		if fn.Origin() != nil && fn.Origin() != fn {
			continue
		}
		if p := fn.Parent(); p != nil {
			top := p
			for top.Parent() != nil {
				top = top.Parent()
			}
			if top.Origin() != nil && top.Origin() != top {
				continue
			}
		}
		rel := w.relPkg(fnPkg(fn).Path())
		ok := len(prefixes) == 0
		for _, pre := range prefixes {
			if pre == "" || rel == pre || strings.HasPrefix(rel, pre+"/") {
				ok = true
			}
		}
		if ok {
			out = append(out, fn)
		}
	}
	sort.Slice(out, func(i, j int) bool {
		pi, pj := w.Fset.Position(out[i].Pos()), w.Fset.Position(out[j].Pos())
		if pi.Filename != pj.Filename {
			return pi.Filename < pj.Filename
		}
		if pi.Offset != pj.Offset {
			return pi.Offset < pj.Offset
		}
		return out[i].String() < out[j].String()
	})
	return out
}

func (w *World) relPkg(path string) string {
	return strings.TrimPrefix(strings.TrimPrefix(path, modPath), "/")
}

func (w *World) CG() *callgraph.Graph {
	if w.cg == nil {
		w.cg = vta.CallGraph(w.AllFuncs(), cha.CallGraph(w.Prog))
	}
	return w.cg
}

// Pkg resolves a module-relative package path ("compose", "internal/callbacks").
func (w *World) Pkg(rel string) *packages.Package {
	p := w.ByPath[modPath+"/"+rel]
	if rel == "" {
		p = w.ByPath[modPath]
	}
	if p == nil {
		undecidedf("anchor: package %q not found", rel)
	}
	return p
}

func (w *World) SSAPkg(rel string) *ssa.Package {
	sp := w.Prog.Package(w.Pkg(rel).Types)
	if sp == nil {
		undecidedf("anchor: no SSA package for %q", rel)
	}
	return sp
}

// Named resolves a package-level named type.
func (w *World) Named(rel, name string) *types.Named {
	o := w.Pkg(rel).Types.Scope().Lookup(name)
	tn, ok := o.(*types.TypeName)
	if !ok {
		undecidedf("anchor: type %s.%s not found", rel, name)
	}
	n, ok := tn.Type().(*types.Named)
	if !ok {
		undecidedf("anchor: %s.%s is not a named type", rel, name)
	}
	return n
}

// TryNamed is Named without failing.
func (w *World) TryNamed(rel, name string) *types.Named {
	p := w.ByPath[modPath+"/"+rel]
	if p == nil {
		return nil
	}
	tn, ok := p.Types.Scope().Lookup(name).(*types.TypeName)
	if !ok {
		return nil
	}
	n, _ := tn.Type().(*types.Named)
	return n
}

// Fn resolves "name" (package-level function) or "T.m" (method of T or *T) to its SSA function.
func (w *World) Fn(rel, name string) *ssa.Function {
	fn := w.TryFn(rel, name)
	if fn == nil {
		undecidedf("anchor: function %s.%s not found", rel, name)
	}
	return fn
}

func (w *World) TryFn(rel, name string) *ssa.Function {
	pk := w.ByPath[modPath+"/"+rel]
	if pk == nil {
		return nil
	}
	if i := strings.Index(name, "."); i >= 0 {
		tn, ok := pk.Types.Scope().Lookup(name[:i]).(*types.TypeName)
		if !ok {
			return nil
		}
		obj, _, _ := types.LookupFieldOrMethod(types.NewPointer(tn.Type()), true, pk.Types, name[i+1:])
		f, ok := obj.(*types.Func)
		if !ok {
			return nil
		}
		return w.Prog.FuncValue(f)
	}
	f, ok := pk.Types.Scope().Lookup(name).(*types.Func)
	if !ok {
		return nil
	}
	return w.Prog.FuncValue(f)
}

// Global resolves a package-level variable.
func (w *World) GlobalVar(rel, name string) *types.Var {
	v, ok := w.Pkg(rel).Types.Scope().Lookup(name).(*types.Var)
	if !ok {
		undecidedf("anchor: var %s.%s not found", rel, name)
	}
	return v
}

// Field resolves a struct field object.
func (w *World) Field(rel, typ, field string) *types.Var {
	n := w.Named(rel, typ)
	st, ok := n.Underlying().(*types.Struct)
	if !ok {
		undecidedf("anchor: %s.%s is not a struct", rel, typ)
	}
	for i := 0; i < st.NumFields(); i++ {
		if st.Field(i).Name() == field {
			return st.Field(i)
		}
	}
	undecidedf("anchor: field %s.%s.%s not found", rel, typ, field)
	return nil
}

func (w *World) pos(p token.Pos) string {
	if !p.IsValid() {
		return "?"
	}
	q := w.Fset.Position(p)
	f := q.Filename
	if r, err := filepath.Rel(w.RepoDir, f); err == nil && !strings.HasPrefix(r, "..") {
		f = r
	}
	return fmt.Sprintf("%s:%d", f, q.Line)
}

// fname is a stable, readable name of a function: pkg.(*T).m, pkg.f, pkg.f$1 ...
func (w *World) fname(fn *ssa.Function) string {
	if fn == nil {
		return "<nil>"
	}
	s := fn.String()
	s = strings.ReplaceAll(s, modPath+"/", "")
	return s
}

// withAnons returns fn followed by all function literals nested in it (recursively).
func withAnons(fn *ssa.Function) []*ssa.Function {
	out := []*ssa.Function{fn}
	for _, a := range fn.AnonFuncs {
		out = append(out, withAnons(a)...)
	}
	return out
}

func topFunc(fn *ssa.Function) *ssa.Function {
	for fn.Parent() != nil {
		fn = fn.Parent()
	}
	return fn
}

// instrs iterates all instructions of fn.
func instrs(fn *ssa.Function, f func(ssa.Instruction)) {
	for _, b := range fn.Blocks {
		for _, in := range b.Instrs {
			f(in)
		}
	}
}

// ---------------------------------------------------------------------------------------------
// Obligations, report, evidence

type Ob struct {
	Rule      string `json:"rule"`
	Construct string `json:"construct"`
	Pos       string `json:"pos"`
	Status    string `json:"status"` // discharged | violation | excepted | known-finding | info
	Detail    string `json:"detail,omitempty"`
}

type Report struct {
	Prop    string
	Tier    string
	w       *World
	Obs     []Ob
	Rules   map[string]*RuleStat
	Notes   []string
	Decided []string
	NotDec  []string
	// Deferred: reasons for an UNDECIDED verdict that do not stop the run (a donor property that could not be evaluated to
	// the end): reported at the end, after the violations, which take precedence
	Deferred []string
	aborted  string
}

type RuleStat struct {
	Statement  string `json:"statement"`
	Floor      int    `json:"floor"`
	Instances  int    `json:"instances"`
	Discharged int    `json:"discharged"`
	Violations int    `json:"violations"`
	Excepted   int    `json:"excepted"`
	Info       int    `json:"info"`
}

func newReport(w *World, prop, tier string) *Report {
	return &Report{Prop: prop, Tier: tier, w: w, Rules: map[string]*RuleStat{}}
}

// Rule declares a rule with the minimum number of instances it must find.
func (r *Report) Rule(id, statement string, floor int) {
	if _, ok := r.Rules[id]; !ok {
		r.Rules[id] = &RuleStat{Statement: statement, Floor: floor}
	}
}

func (r *Report) add(rule, construct string, p token.Pos, status, detail string) {
	if _, ok := r.Rules[rule]; !ok {
		panic("rule not declared: " + rule)
	}
	r.Obs = append(r.Obs, Ob{Rule: rule, Construct: construct, Pos: r.w.pos(p), Status: status, Detail: detail})
}

func (r *Report) OK(rule, construct string, p token.Pos, detail string) {
	r.add(rule, construct, p, "discharged", detail)
}
func (r *Report) Fail(rule, construct string, p token.Pos, detail string) {
	r.add(rule, construct, p, "violation", detail)
}
func (r *Report) Except(rule, construct string, p token.Pos, reason string) {
	r.add(rule, construct, p, "excepted", reason)
}
func (r *Report) Info(rule, construct string, p token.Pos, detail string) {
	r.add(rule, construct, p, "info", detail)
}

// Check adds a discharged obligation when cond holds, a violation otherwise.
func (r *Report) Check(cond bool, rule, construct string, p token.Pos, okDetail, failDetail string) bool {
	if cond {
		r.OK(rule, construct, p, okDetail)
	} else {
		r.Fail(rule, construct, p, failDetail)
	}
	return cond
}

type KnownFinding struct {
	Property  string `json:"property"`
	Rule      string `json:"rule"`
	Construct string `json:"construct"`
	WhatFails string `json:"what_fails"`
	Status    string `json:"status"` // "open" or "fixed"
	Commit    string `json:"commit,omitempty"`
	Line      string `json:"line,omitempty"`
}

func loadKnown(path string) []KnownFinding {
	b, err := os.ReadFile(path)
	if err != nil {
		return nil
	}
	var f struct {
		Findings []KnownFinding `json:"findings"`
	}
	if err := json.Unmarshal(b, &f); err != nil {
		undecidedf("known-findings file unreadable: %v", err)
	}
	return f.Findings
}

// finish: apply known findings, check floors, write evidence, print verdict lines; returns exit code.
func (r *Report) finish(verifDir string, wall float64, seed int, explanation string, assumptions []string) int {
	known := loadKnown(filepath.Join(verifDir, "known-findings.json"))
	for i := range r.Obs {
		o := &r.Obs[i]
		if o.Status != "violation" {
			continue
		}
		for _, k := range known {
			if k.Status == "open" && k.Property == r.Prop && k.Rule == o.Rule && k.Construct == o.Construct {
				o.Status = "known-finding"
				o.Detail = o.Detail + " [known: " + k.WhatFails + "]"
			}
		}
	}
	// stats
	for i := range r.Obs {
		o := r.Obs[i]
		st := r.Rules[o.Rule]
		switch o.Status {
		case "discharged":
			st.Instances++
			st.Discharged++
		case "violation", "known-finding":
			st.Instances++
			st.Violations++
		case "excepted":
			st.Instances++
			st.Excepted++
		case "info":
			st.Info++
		}
	}
	var undec []string
	var ruleIDs []string
	for id := range r.Rules {
		ruleIDs = append(ruleIDs, id)
	}
	sort.Strings(ruleIDs)
	for _, id := range ruleIDs {
		st := r.Rules[id]
		if st.Instances < st.Floor {
			undec = append(undec, fmt.Sprintf("rule %s matched %d instances, floor is %d (anchor drift: the rule would pass vacuously)", id, st.Instances, st.Floor))
		}
	}
	for _, m := range r.Deferred {
		dup := false
		for _, u := range undec {
			if u == m {
				dup = true
			}
		}
		if !dup {
			undec = append(undec, m)
		}
	}
	// thorough: fold in the mutation self-test result written by scripts/mutants.py
	var mutation any
	if r.Tier == "thorough" {
		mb, err := os.ReadFile(filepath.Join(verifDir, "evidence", "mutants-"+r.Prop+".json"))
		if err != nil {
			undec = append(undec, "thorough tier: mutation self-test result missing")
		} else {
			var mr struct {
				Summary map[string]int `json:"summary"`
				Results []any          `json:"results"`
			}
			json.Unmarshal(mb, &mr)
			mutation = map[string]any{"summary": mr.Summary, "results": mr.Results}
			if mr.Summary["MISSED"] > 0 || mr.Summary["invalid"] > 0 {
				undec = append(undec, fmt.Sprintf("mutation self-test: %d mutants missed, %d invalid (a rule has gone blind on this tree)", mr.Summary["MISSED"], mr.Summary["invalid"]))
			}
		}
	}
	// evidence
	obligations, discharged, nviol, nknown := 0, 0, 0, 0
	distinct := map[string]bool{}
	var samples []any
	perRuleSample := map[string]int{}
	for _, o := range r.Obs {
		if o.Status == "info" {
			continue
		}
		obligations++
		switch o.Status {
		case "discharged", "excepted":
			discharged++
		case "violation":
			nviol++
		case "known-finding":
			nknown++
		}
		distinct[o.Rule+"|"+o.Construct] = true
		if perRuleSample[o.Rule] < 3 || o.Status == "violation" || o.Status == "known-finding" {
			perRuleSample[o.Rule]++
			samples = append(samples, o)
		}
	}
	var violFiles []string
	vdir := filepath.Join(verifDir, "evidence", "violations")
	if nviol > 0 {
		os.MkdirAll(vdir, 0o755)
	}
	n := 0
	for _, o := range r.Obs {
		if o.Status != "violation" {
			continue
		}
		n++
		p := filepath.Join(vdir, fmt.Sprintf("%s-%s-%d.json", r.Prop, sanitize(o.Rule), n))
		b, _ := json.MarshalIndent(map[string]any{"property": r.Prop, "rule": o.Rule, "statement": r.Rules[o.Rule].Statement,
			"construct": o.Construct, "pos": o.Pos, "detail": o.Detail, "repo": r.w.RepoDir}, "", " ")
		os.WriteFile(p, b, 0o644)
		violFiles = append(violFiles, p)
	}
	ev := map[string]any{
		"property_id": r.Prop,
		"tier":        r.Tier,
		"seed":        seed,
		"level":       "other",
		"wall_s":      wall,
		"violations":  nviol,
		"assumptions": assumptions,
		"coverage": map[string]any{
			"explanation":         explanation,
			"obligations":         obligations,
			"discharged":          discharged,
			"known_findings":      nknown,
			"evaluations":         len(r.Obs),
			"distinct_nontrivial": len(distinct),
			"rule":                "one obligation per (rule, construct) found in /repo's current source by the SSA/AST analyses; distinct = distinct (rule, construct) keys; info rows are not counted as obligations",
			"samples":             samples,
			"rules":               r.Rules,
			"decided_clauses":     r.Decided,
			"not_decided":         r.NotDec,
			"notes":               r.Notes,
			"undecided":           undec,
			"packages_loaded":     len(r.w.Pkgs),
			"functions_in_module": len(r.w.RepoFuncs()),
			"load_s":              r.w.LoadS,
			"repo":                r.w.RepoDir,
			"checker_cmd":         "bin/einocheck -prop " + r.Prop + " -tier " + r.Tier,
			"mutation_selftest":   mutation,
		},
	}
	b, _ := json.MarshalIndent(ev, "", " ")
	os.MkdirAll(filepath.Join(verifDir, "evidence"), 0o755)
	if err := os.WriteFile(filepath.Join(verifDir, "evidence", r.Prop+".json"), b, 0o644); err != nil {
		fmt.Fprintf(os.Stderr, "cannot write evidence: %v\n", err)
	}
	// output
	for _, id := range ruleIDs {
		st := r.Rules[id]
		fmt.Printf("rule %-34s instances=%-3d discharged=%-3d excepted=%-2d violations=%-2d info=%d (floor %d)\n", id, st.Instances, st.Discharged, st.Excepted, st.Violations, st.Info, st.Floor)
	}
	if os.Getenv("EINO_VERBOSE") != "" {
		for _, o := range r.Obs {
			fmt.Printf("  [%s] %s | %s | %s | %s\n", o.Status, o.Rule, o.Construct, o.Pos, o.Detail)
		}
	}
	for _, o := range r.Obs {
		if o.Status == "known-finding" {
			fmt.Printf("KNOWN-FINDING: property=%s rule=%s construct=%q at %s: %s\n", r.Prop, o.Rule, o.Construct, o.Pos, o.Detail)
		}
	}
	i := 0
	for _, o := range r.Obs {
		if o.Status == "violation" {
			fmt.Printf("violation: rule=%s construct=%q at %s: %s\n", o.Rule, o.Construct, o.Pos, o.Detail)
			fmt.Printf("VIOLATION property=%s replay=%s\n", r.Prop, violFiles[i])
			i++
		}
	}
	if nviol > 0 {
		return 1
	}
	if len(undec) > 0 {
		for _, u := range undec {
			fmt.Printf("UNDECIDED property=%s reason=%s\n", r.Prop, u)
		}
		return 2
	}
	fmt.Printf("OK property=%s tier=%s obligations=%d discharged=%d known-findings=%d wall=%.1fs\n", r.Prop, r.Tier, obligations, discharged, nknown, wall)
	return 0
}

func sanitize(s string) string {
	return strings.Map(func(r rune) rune {
		if r >= 'a' && r <= 'z' || r >= 'A' && r <= 'Z' || r >= '0' && r <= '9' || r == '-' || r == '.' {
			return r
		}
		return '_'
	}, s)
}

// ---------------------------------------------------------------------------------------------
// AST helpers

// declOf returns the *ast.FuncDecl / *ast.FuncLit syntax of fn.
func syntaxBody(fn *ssa.Function) *ast.BlockStmt {
	switch s := fn.Syntax().(type) {
	case *ast.FuncDecl:
		return s.Body
	case *ast.FuncLit:
		return s.Body
	}
	return nil
}

func (w *World) infoOf(fn *ssa.Function) *types.Info {
	p := fnPkg(fn)
	if p == nil {
		return nil
	}
	if pk := w.ByPath[p.Path()]; pk != nil {
		return pk.TypesInfo
	}
	return nil
}

// shareRule re-emits, under this property's own rule id, the obligations another property's run produced for one of
// its rules (the donor's rule set is evaluated once per process on a scratch report and cached). A clause that is a
// necessary condition of two properties is decided once and registered under both; the statement says where it lives.
var donorCache = map[string]*Report{}
var donorBuilding = map[string]bool{}

func shareRule(w *World, r *Report, own, statement string, floor int, donorProp, donorRule string) {
	if donorProp == r.Prop {
		panic("shareRule: donor is the property itself")
	}
	d := donorCache[donorProp]
	if d == nil && donorBuilding[donorProp] {
		// a share requested from inside the donor's own scratch evaluation (two properties sharing from each other): the
		// scratch report does not need it
		r.Rule(own, statement+" (shared: decided by "+donorRule+")", 0)
		return
	}
	if d == nil {
		donorBuilding[donorProp] = true
		defer func() { donorBuilding[donorProp] = false }()
		d = newReport(w, donorProp, r.Tier)
		func() {
			defer func() {
				if e := recover(); e != nil {
					// the donor could not be evaluated to the end (one of ITS rules lost its anchor, or crashed): what it decided
					// up to there is kept, and the borrower's verdict is UNDECIDED unless a violation is found — an anchor lost in
					// a neighbouring property must not hide what this property's own rules report
					if u, ok := e.(undecided); ok {
						d.aborted = u.msg
					} else {
						d.aborted = fmt.Sprintf("checker panic in %s: %v", donorProp, e)
					}
				}
			}()
			props[donorProp].run(w, d)
		}()
		donorCache[donorProp] = d
	}
	r.Rule(own, statement+" (shared: decided by "+donorRule+")", floor)
	if d.aborted != "" {
		r.Deferred = append(r.Deferred, fmt.Sprintf("%s (shared from %s): %s", own, donorRule, d.aborted))
		if st := r.Rules[own]; st != nil {
			st.Floor = 0
		}
	}
	r.Deferred = append(r.Deferred, d.Deferred...)
	for _, ob := range d.Obs {
		if ob.Rule != donorRule {
			continue
		}
		r.Obs = append(r.Obs, Ob{Rule: own, Construct: ob.Construct, Pos: ob.Pos, Status: ob.Status, Detail: ob.Detail})
	}
}
