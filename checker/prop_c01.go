package main

import (
	"fmt"
	"go/token"
	"go/types"
	"strings"

	"golang.org/x/tools/go/ssa"
)

func init() {
	register(&propDef{
		id: "C01",
		explanation: "Static clauses of 'Pregel runs follow lock-step superstep semantics and terminate': " +
			"(step-bound) in runner.run's loop the counter is phi(0, step+1), the test step >= maxSteps (under !r.dag only) lies on every path to the single submit of the iteration and its exceeding arm returns; maxSteps < 1 is rejected; hence #submits <= maxSteps for every graph and input; " +
			"(clear-on-read) every channel implementation resets its value store (and readiness bookkeeping) on every path of get that reports ready; " +
			"(end-short-circuit) calculateNextTasks returns END's value before creating tasks and run returns it before the next submit; " +
			"(one-task-per-key) tasks are built only in createTasks/restoreTasks/the START bootstrap, one per map key; executors are launched only by submit; " +
			"(chain-lowering) every chain stage advances preNodeKeys on success and END is wired from every last stage before hasEnd is set; " +
			"(termination-handoff) a started node execution is always handed back to the run loop, also when it panics; (copy-partition) the copies of a node output handed to branch conditions are disjoint from those delivered to successors (linear-form match of the index expressions, no solver); " +
			"(merge-pure) fan-in merge never writes into its operands (a node's output map is shared by all its successors).",
		decided:    []string{"step-bound", "clear-on-read", "end-short-circuit", "one-task-per-key", "chain-lowering", "termination-handoff", "copy-partition", "merge-pure", "fan-in-terminates", "successors-not-mutated"},
		notDecided: []string{"that each node's input is the merge of exactly the values sent in the previous step (value-level)", "branch routing results", "equivalence of a nested graph with the same graph compiled alone"},
		run:        runC01,
	})
}

// channelImpls: named struct types of package compose whose pointer implements interface channel.
func channelImpls(w *World) []*types.Named {
	iface, ok := w.Named("compose", "channel").Underlying().(*types.Interface)
	if !ok {
		undecidedf("anchor: compose.channel is not an interface")
	}
	var out []*types.Named
	sc := w.Pkg("compose").Types.Scope()
	for _, n := range sc.Names() {
		tn, ok := sc.Lookup(n).(*types.TypeName)
		if !ok || tn.IsAlias() {
			continue
		}
		nt, ok := tn.Type().(*types.Named)
		if !ok {
			continue
		}
		if _, isStruct := nt.Underlying().(*types.Struct); !isStruct {
			continue
		}
		if types.Implements(types.NewPointer(nt), iface) {
			out = append(out, nt)
		}
	}
	if len(out) < 2 {
		undecidedf("only %d channel implementations found (floor 2)", len(out))
	}
	return out
}

func methodOf(w *World, n *types.Named, name string) *ssa.Function {
	obj, _, _ := types.LookupFieldOrMethod(types.NewPointer(n), true, n.Obj().Pkg(), name)
	f, ok := obj.(*types.Func)
	if !ok {
		undecidedf("anchor: method %s.%s not found", n.Obj().Name(), name)
	}
	fn := w.Prog.FuncValue(f)
	if fn == nil {
		undecidedf("anchor: no SSA for %s.%s", n.Obj().Name(), name)
	}
	return fn
}

// mapStateFields: map-typed fields of channel type n written (MapUpdate/Store) by its report* methods.
func channelStateFields(w *World, n *types.Named) map[string]*types.Var {
	out := map[string]*types.Var{}
	for _, m := range []string{"reportValues", "reportDependencies", "reportSkip"} {
		fn := methodOf(w, n, m)
		for _, fw := range fieldWrites(fn) {
			if fw.owner == n {
				out[fw.field.Name()] = fw.field
			}
		}
	}
	return out
}

// resetsField: instruction resets map field f of the receiver: a Store of a fresh map, or a MapUpdate
// with a constant value inside a range over the same field.
func resetsField(in ssa.Instruction, f *types.Var) bool {
	switch x := in.(type) {
	case *ssa.Store:
		if fa, ok := x.Addr.(*ssa.FieldAddr); ok && sameField(fieldVarOfAddr(fa), f) {
			if _, ok := x.Val.(*ssa.MakeMap); ok {
				return true
			}
		}
	case *ssa.MapUpdate:
		if isLoadOfField(x.Map, f) {
			if _, ok := x.Value.(*ssa.Const); ok {
				if e, ok := x.Key.(*ssa.Extract); ok {
					if n, ok := e.Tuple.(*ssa.Next); ok {
						if rg, ok := n.Iter.(*ssa.Range); ok && isLoadOfField(rg.X, f) {
							return true
						}
					}
				}
			}
		}
	}
	return false
}

// ruleClearOnRead: for every channel implementation, every ready==true return of get is preceded (on
// every path) by the reset of each map-typed state field — directly, or by registering a deferred
// literal that performs the reset.
func ruleClearOnRead(w *World, r *Report, rule string) {
	for _, n := range channelImpls(w) {
		get := methodOf(w, n, "get")
		state := channelStateFields(w, n)
		var ready []*ssa.Return
		instrs(get, func(in ssa.Instruction) {
			if ret, ok := in.(*ssa.Return); ok && len(ret.Results) == 3 {
				if ret.Block() == get.Recover {
					return
				}
				if b, ok := constBool(returnedValue(ret, 1)); !ok || b {
					ready = append(ready, ret)
				}
			}
		})
		if len(ready) == 0 {
			r.Fail(rule, n.Obj().Name()+".get ready returns", get.Pos(), "get never reports ready")
			continue
		}
		for name, f := range state {
			if _, isMap := f.Type().Underlying().(*types.Map); !isMap {
				continue
			}
			// instructions that establish the reset: direct, or a Defer of a literal that resets on all its paths
			isReset := func(in ssa.Instruction) bool {
				if resetsField(in, f) {
					return true
				}
				if d, ok := in.(*ssa.Defer); ok {
					if lit := staticCallee(d); lit != nil {
						skip, _ := pathQuery{fn: lit, goal: isReturn, avoid: func(i ssa.Instruction) bool { return resetsField(i, f) }}.exists()
						has := funcContains(lit, func(i ssa.Instruction) bool { return resetsField(i, f) })
						// a range-reset is skipped when the map is empty (nothing to reset): accept literals that contain the reset loop
						if has && (!skip || resetIsLoop(lit, f)) {
							return true
						}
					}
				}
				return false
			}
			for i, ret := range ready {
				skip, wit := pathQuery{fn: get, goal: func(in ssa.Instruction) bool { return in == ssa.Instruction(ret) }, avoid: isReset}.exists()
				r.Check(!skip, rule, fmt.Sprintf("%s.get ready-return#%d resets %s", n.Obj().Name(), i+1, name), ret.Pos(),
					"reset (direct or deferred) lies on every path to this ready return",
					"a ready return is reachable without clearing "+name+": the node is handed the same values / fires again in the next step: "+wit)
			}
		}
	}
}

func resetIsLoop(lit *ssa.Function, f *types.Var) bool {
	return funcContains(lit, func(i ssa.Instruction) bool {
		mu, ok := i.(*ssa.MapUpdate)
		return ok && resetsField(mu, f)
	})
}

func runC01(w *World, r *Report) {
	// ---- shared with the stream substrate / isolation properties: facts the run result depends on
	r.Rule("C01.fan-in-terminates", "merged stream dispatch: the static select and the reflect select agree on the boundary (a fan-in of exactly maxSelectNum streams must not take the reflect path without a case table) — shared with C08", 1)
	mergeDispatchCheck(w, r, "C01.fan-in-terminates")
	r.Rule("C01.run-state-per-run", "nothing on the run path writes a field of the runner or of another compiled object (shared with C09.read-only-at-runtime): channels, their contents and the step bookkeeping belong to one run — a channel manager cached on the runner would hand one run's undelivered values to the next", 0)
	{
		roots := runRoots(w)
		ruleReadOnlyAtRuntime(w, r, "C01.run-state-per-run", w.reachableFrom(roots...), compiledTypeSet(w), roots)
	}

	r.Rule("C01.successors-not-mutated", "the successor lists of the compiled graph (chanCall.writeTo …) are never the first operand of an append on the run path: a run's branch choice must not be written into storage other runs read", 1)
	{
		owners := map[*types.Named]bool{w.Named("compose", "chanCall"): true}
		reach := runReach(w)
		var fns []*ssa.Function
		for _, fn := range w.RepoFuncs("compose") {
			if reach[fn] || reach[topFunc(fn)] {
				fns = append(fns, fn)
			}
		}
		n0 := len(r.Obs)
		ruleAppendAlias(w, r, "C01.successors-not-mutated", owners, fns, reach)
		if len(r.Obs) == n0 {
			r.OK("C01.successors-not-mutated", "run-path appends", w.Fn("compose", "runner.resolveCompletedTasks").Pos(), fmt.Sprintf("%d run-path functions: no append starts from a chanCall slice", len(fns)))
		}
	}

	run := w.Fn("compose", "runner.run")
	submit := w.Fn("compose", "taskManager.submit")
	fDag := w.Field("compose", "runner", "dag")

	// ---- step-bound
	r.Rule("C01.step-bound", "step counter phi(0, step+1); `step >= maxSteps` (bypassed only by r.dag) on every path to the iteration's single submit; exceeding arm returns; maxSteps < 1 rejected", 5)
	submits := callsTo(run, submit)
	r.Check(len(submits) == 1, "C01.step-bound", "runner.run: one submit per iteration", run.Pos(), "exactly one submit call site", fmt.Sprintf("%d submit call sites in run: the per-iteration bound does not bound the number of submits", len(submits)))
	if len(submits) == 0 {
		undecidedf("C01: no submit in run")
	}
	S := submits[0]
	// the loop: the phi feeding the comparison
	var stepIf *ssa.If
	var stepPhi *ssa.Phi
	exceedSucc := -1
	instrs(run, func(in ssa.Instruction) {
		iff, ok := in.(*ssa.If)
		if !ok {
			return
		}
		op, x, y, ok := asCmp(iff.Cond)
		if !ok {
			return
		}
		px, okx := x.(*ssa.Phi)
		py, oky := y.(*ssa.Phi)
		isCounter := func(p *ssa.Phi) bool {
			if p == nil || len(p.Edges) != 2 {
				return false
			}
			var inc *ssa.BinOp
			zero := false
			for _, e := range p.Edges {
				if isConstN(e, 0) {
					zero = true
				}
				if b, ok := e.(*ssa.BinOp); ok && b.Op == token.ADD && b.X == ssa.Value(p) && isConstN(b.Y, 1) {
					inc = b
				}
			}
			return zero && inc != nil
		}
		switch {
		case okx && isCounter(px) && (op == token.GEQ || op == token.GTR || op == token.LSS || op == token.LEQ):
			// step OP max
			if op == token.GEQ {
				stepIf, stepPhi, exceedSucc = iff, px, 0
			} else if op == token.LSS {
				stepIf, stepPhi, exceedSucc = iff, px, 1
			} else {
				stepIf, stepPhi, exceedSucc = iff, px, -2 // > or <= : off by one
			}
		case oky && isCounter(py):
			if op == token.LEQ { // max <= step
				stepIf, stepPhi, exceedSucc = iff, py, 0
			} else if op == token.GTR { // max > step
				stepIf, stepPhi, exceedSucc = iff, py, 1
			} else {
				stepIf, stepPhi, exceedSucc = iff, py, -2
			}
		}
	})
	if stepIf == nil {
		r.Fail("C01.step-bound", "runner.run: step limit test", run.Pos(), "no comparison of the loop counter with the step limit: cyclic graphs can run forever")
	} else if exceedSucc == -2 {
		r.Fail("C01.step-bound", "runner.run: step limit test", stepIf.Pos(), "the comparison admits step == maxSteps (off by one): one superstep more than configured is executed")
	} else {
		r.OK("C01.step-bound", "runner.run: counter is phi(0, step+1)", stepPhi.Pos(), "single definition, incremented once per iteration")
		b := stepIf.Block()
		notExceeded := [2]*ssa.BasicBlock{b, b.Succs[1-exceedSucc]}
		// allowed bypass: the true edge of `if r.dag`
		bypass := map[[2]*ssa.BasicBlock]bool{notExceeded: true}
		instrs(run, func(in ssa.Instruction) {
			if iff, ok := in.(*ssa.If); ok && isLoadOfField(iff.Cond, fDag) {
				bypass[[2]*ssa.BasicBlock{iff.Block(), iff.Block().Succs[0]}] = true
			}
		})
		// from the loop header (block of the phi) to submit, avoiding the allowed edges
		skip, wit := pathFromBlock(pathQuery{fn: run, goal: func(in ssa.Instruction) bool { return in == ssa.Instruction(S) },
			avoidEdge: func(a, c *ssa.BasicBlock) bool { return bypass[[2]*ssa.BasicBlock{a, c}] }}, stepPhi.Block())
		r.Check(!skip, "C01.step-bound", "runner.run: bound test on every path to submit", stepIf.Pos(), "submit is reachable from the loop header only through `step < maxSteps` or the r.dag bypass", "submit can be reached without passing the step-limit test (an extra escape condition, a moved or removed test): "+wit)
		// exceeding arm returns without submitting
		reach, wit := pathFromBlock(pathQuery{fn: run, goal: func(in ssa.Instruction) bool { return in == ssa.Instruction(S) }}, b.Succs[exceedSucc])
		r.Check(!reach, "C01.step-bound", "runner.run: exceeding arm stops the run", stepIf.Pos(), "no submit reachable once step >= maxSteps", "the run continues after the limit was reached: "+wit)
		// the limit operand is not the counter itself and there is a `maxSteps < 1` rejection
		var limit ssa.Value
		_, x, y, _ := asCmp(stepIf.Cond)
		if x == ssa.Value(stepPhi) {
			limit = y
		} else {
			limit = x
		}
		rejected := false
		instrs(run, func(in ssa.Instruction) {
			iff, ok := in.(*ssa.If)
			if !ok {
				return
			}
			op, a, c, ok := asCmp(iff.Cond)
			if ok && op == token.LSS && isConstN(c, 1) && (a == limit || flowsTo(a, limit) || flowsTo(limit, a) || sameLimit(a, limit)) {
				if reach, _ := pathFromBlock(pathQuery{fn: run, goal: func(i ssa.Instruction) bool { return i == ssa.Instruction(S) }}, iff.Block().Succs[0]); !reach {
					rejected = true
				}
			}
		})
		r.Check(rejected, "C01.step-bound", "runner.run: limit below 1 rejected", run.Pos(), "maxSteps < 1 returns an error before the loop", "a non-positive step limit is not rejected")
	}

	// ---- clear-on-read
	// the limit a call asks for is the limit of that call: WithRuntimeMaxSteps(n) replaces the compile-time limit whenever
	// n > 0 — raising it included (a cyclic graph that needs more steps than nodes+10 is run with a larger budget)
	r.Rule("C01.runtime-limit-replaces", "runner.run takes opts[i].maxRunSteps as the run's step limit under the one condition maxRunSteps > 0 (no comparison with the compile-time limit)", 1)
	{
		run := w.Fn("compose", "runner.run")
		fMax := w.Field("compose", "Option", "maxRunSteps")
		fDag := w.Field("compose", "runner", "dag")
		loopCond := guardIsLoopCond(run)
		n := 0
		instrs(run, func(in ssa.Instruction) {
			phi, ok := in.(*ssa.Phi)
			if !ok {
				return
			}
			for i, e := range phi.Edges {
				if !isLoadOfField(e, fMax) {
					continue
				}
				n++
				pred := phi.Block().Preds[i]
				positive := func(g guard) bool {
					op, x, y, ok := asCmp(g.cond)
					if !ok {
						return false
					}
					return isLoadOfField(x, fMax) && isConstN(y, 0) && ((op == token.GTR && g.pol) || (op == token.LEQ && !g.pol))
				}
				extra := extraGuards(pred, loopCond, positive, guardOnField(fDag))
				// the edge's own branch: pred may end in the `if maxRunSteps > 0` test itself
				r.Check(len(extra) == 0, "C01.runtime-limit-replaces", fmt.Sprintf("runner.run: step limit taken from the call option #%d", n), e.Pos(), "under maxRunSteps > 0 only", "the call's step limit is adopted only when "+strings.Join(extra, " && ")+": a run-time limit above the compile-time one is ignored — a run that needs more supersteps than the compiled default but fits WithRuntimeMaxSteps(n) fails with the max-steps error instead of returning the value delivered to END")
			}
		})
		if n == 0 {
			r.Fail("C01.runtime-limit-replaces", "runner.run: step limit taken from the call option", run.Pos(), "no assignment of Option.maxRunSteps to the run's step limit found")
		}
	}

	r.Rule("C01.chain-stage-values-not-mutated", "Chain.Append* complete a stage (key translation around a branch condition …) in a copy, never in the value the caller handed in: the same *ChainBranch appended to two chains is the same function composition in both (shared with C20)", 3)
	chainAppendArgsNotMutated(w, r, "C01.chain-stage-values-not-mutated")

	r.Rule("C01.branch-slot", "calculateBranch selects a branch's copy of the node output and its handler list by the branch's position in the node's own branch list (the range index), not by a field of the shared *GraphBranch object (shared with C07)", 1)
	branchSlotIsLoopIndex(w, r, "C01.branch-slot")

	r.Rule("C01.nested-limit-own", "the run-time step limit of a call (an undesignated Option without component options) is not handed on to nested graph nodes: a graph used as a node keeps the limit it was compiled with, like the same graph compiled alone", 2)
	undesignatedCarrierCheck(w, r, "C01.nested-limit-own", "WithRuntimeMaxSteps of the outer call replaces the nested graph's own step limit (a nested loop compiled with 3 steps runs 40; a nested graph needing 8 of its 11 steps fails under an outer limit of 5)")

	r.Rule("C01.nested-options-own", "a graph used as a node is compiled with the options it was declared with: nothing but the option functions (and constructors / per-compile copies) writes a graphCompileOptions field — a parent's Compile does not hand its trigger mode, step limit or name down into a node's stored options (shared with C20)", 6)
	compileOptionsOwned(w, r, "C01.nested-options-own")

	r.Rule("C01.fanout-copies-continue", "the copies made when a node's stream output fans out continue where the stream stands (shared with C04 / C08 / C10): every successor receives what a single successor would have received", 1)
	arrayCopyCheck(w, r, "C01.fanout-copies-continue")

	r.Rule("C01.visits-all", "resolveCompletedTasks / calculateBranch / createTasks: the loops over completed tasks, their successors and branch targets are left only when exhausted or with an error (shared with C03)", 4)
	ruleLoopsTotal(w, r, "C01.visits-all", []*ssa.Function{
		w.Fn("compose", "runner.resolveCompletedTasks"), w.Fn("compose", "runner.calculateBranch"), w.Fn("compose", "runner.createTasks"), w.Fn("compose", "runner.calculateNextTasks"),
	}, map[string]string{
		"(*compose.runner).calculateBranch: range ws": "membership search (is this end node among the selected ones?): leaving at the first match is the point of the loop",
	}, "a successor of a completed node is not sent its value and does not run in the next superstep")

	r.Rule("C01.clear-on-read", "every channel implementation clears its stored values on every ready path of get", 2)
	ruleClearOnRead(w, r, "C01.clear-on-read")

	// ---- end-short-circuit
	r.Rule("C01.empty-selection-allowed", "the wrappers NewGraphMultiBranch / NewStreamGraphMultiBranch put around a condition fail only when the condition failed or named a node that is not among the branch's end nodes: selecting nothing is an outcome (the node's plain edges and other branches still deliver), not an error of the run", 2)
	{
		n := 0
		for _, name := range []string{"NewGraphMultiBranch", "NewStreamGraphMultiBranch"} {
			outer := w.Fn("compose", name)
			for _, lit := range withAnons(outer) {
				if lit == outer {
					continue
				}
				instrs(lit, func(in ssa.Instruction) {
					ret, ok := in.(*ssa.Return)
					if !ok || len(ret.Results) != 2 || isNilConst(ret.Results[1]) {
						return
					}
					n++
					okGuard := false
					for _, g := range guardsOf(ret.Block()) {
						// err != nil of the condition
						if guardNonNil(g, func(v ssa.Value) bool {
							return implementsError(v.Type()) || types.Identical(v.Type(), types.Universe.Lookup("error").Type())
						}) {
							okGuard = true
						}
						// miss arm of the end-node lookup: `!endNodes[end]` (a bool-valued map) or the comma-ok form
						if lk, isLk := g.cond.(*ssa.Lookup); isLk && !lk.CommaOk && !g.pol {
							okGuard = true
						}
						if u, isU := g.cond.(*ssa.UnOp); isU && u.Op == token.NOT && g.pol {
							if lk, isLk := u.X.(*ssa.Lookup); isLk && !lk.CommaOk {
								okGuard = true
							}
						}
						if ex, isEx := g.cond.(*ssa.Extract); isEx && ex.Index == 1 && !g.pol {
							if lk, isLk := ex.Tuple.(*ssa.Lookup); isLk && lk.CommaOk {
								okGuard = true
							}
						}
					}
					// the error returned is the condition's own
					if _, isExtract := ret.Results[1].(*ssa.Extract); isExtract {
						okGuard = true
					}
					r.Check(okGuard, "C01.empty-selection-allowed", fmt.Sprintf("%s: error return #%d", w.fname(lit), n), ret.Pos(), "the condition's own error, or an unintended end node", "the branch wrapper fails the run for a reason of its own (e.g. an empty selection): a multi-way branch that picks none of its targets in some step — an optional side path in a loop — makes the whole run fail with a branch error instead of continuing along the node's other successors")
				})
			}
		}
		if n < 2 {
			r.Deferred = append(r.Deferred, fmt.Sprintf("C01.empty-selection-allowed: only %d error returns found in the multi-branch wrappers", n))
		}
	}

	r.Rule("C01.chunks-are-values", "the per-chunk converters package compose hands to StreamReaderWithConvert (keyed form, any form, checkers) update no container captured from outside the call: every chunk is a value of its own — consumers keep earlier chunks while asking for the next one (concatenation for a non-streaming successor, fan-in forwarding, copies)", 3)
	{
		n := 0
		for _, fn := range w.RepoFuncs("compose") {
			instrs(fn, func(in ssa.Instruction) {
				c, ok := in.(ssa.CallInstruction)
				if !ok {
					return
				}
				sc := staticCallee(c)
				if sc == nil || origin(sc).Name() != "StreamReaderWithConvert" || len(c.Common().Args) < 2 {
					return
				}
				mc, ok := c.Common().Args[1].(*ssa.MakeClosure)
				if !ok {
					return
				}
				lit := mc.Fn.(*ssa.Function)
				n++
				bad := ""
				instrs(lit, func(x ssa.Instruction) {
					var target ssa.Value
					switch y := x.(type) {
					case *ssa.MapUpdate:
						target = y.Map
					case *ssa.Store:
						if ia, ok := y.Addr.(*ssa.IndexAddr); ok {
							target = ia.X
						}
					}
					for d := 0; d < 4 && target != nil; d++ {
						switch z := target.(type) {
						case *ssa.FreeVar:
							bad = z.Name()
							target = nil
						case *ssa.UnOp:
							target = z.X
						default:
							target = nil
						}
					}
				})
				r.Check(bad == "", "C01.chunks-are-values", fmt.Sprintf("%s: converter %s", w.fname(fn), lit.Name()), lit.Pos(), "no update of a captured map / slice", "the converter refills a container captured from outside ("+bad+") and hands it out again for every chunk: all chunks of the stream are one object, so whoever keeps an earlier chunk while reading the next sees only the last value — Parallel{a streams x,y,z} followed by a plain function gives \"in-x-y-z\" under Invoke and \"-z-z-z\" under Stream")
			})
		}
		if n < 3 {
			r.Deferred = append(r.Deferred, fmt.Sprintf("C01.chunks-are-values: only %d converter literals handed to StreamReaderWithConvert in package compose", n))
		}
	}

	r.Rule("C01.option-copies-complete", "a value of one of package compose's option carriers (struct types named …Options / …Opts) that is rebuilt by copying fields from another value of the same type (options handed down to a nested graph, per-compile copies) sets every field of the type: a forgotten maxRunSteps gives the nested graph the default limit, a forgotten trigger mode another execution model", 0)
	if k := fieldCopiesComplete(w, r, "C01.option-copies-complete", "with compile callbacks on the parent, a nested cyclic graph added with WithGraphCompileOptions(WithMaxRunSteps(n)) loses its limit — a loop limited to 3 steps counts to 8, one allowed 40 fails after nodes+10", func(n *types.Named) bool {
		nm := n.Obj().Name()
		return strings.HasSuffix(nm, "Options") || strings.HasSuffix(nm, "Opts")
	}, "compose"); k == 0 {
		r.Info("C01.option-copies-complete", "no option carrier of package compose is rebuilt field by field from another value of its type", token.NoPos, "nothing to decide (a whole-struct copy `c := *p` copies every field)")
	}

	shareRule(w, r, "C01.fan-in-keeps-errors", "a stream handed to a fan-in forwards the error item of its source: a predecessor whose stream fails in the middle must not reach the successor as a clean, shorter stream (the node would run on a truncated merge and the run report success)", 1, "C04", "C04.stream-errors-forwarded")
	shareRule(w, r, "C01.checkpointer-per-compile", "every Compile builds the runner it returns (tables, checkpointer, options): nothing a previous Compile of the same graph object produced is handed out again, so the step limit and the other options of THIS Compile are the ones in force", 1, "C06", "C06.checkpointer-always-built")
	shareRule(w, r, "C01.fan-in-merge-owns-its-array", "merging array-backed readers at a fan-in starts from a slice of its own: a fan-out hands every successor the same backing array, and two fan-in merges appending into its spare capacity overwrite each other's partner chunk (Stream only)", 1, "C08", "C08.array-alias")
	r.Rule("C01.end-short-circuit", "END's value is returned before tasks are created and before the next submit", 4)
	calc := w.Fn("compose", "runner.calculateNextTasks")
	create := w.Fn("compose", "runner.createTasks")
	uag := w.Fn("compose", "channelManager.updateAndGet")
	{
		var lk *ssa.Lookup
		instrs(calc, func(in ssa.Instruction) {
			if l, ok := in.(*ssa.Lookup); ok && l.CommaOk {
				if s, ok := constString(l.Index); ok && s == constStringOf(w, "compose", "END") {
					if e, ok := l.X.(*ssa.Extract); ok && isCallTo(e.Tuple.(ssa.Instruction), uag) {
						lk = l
					}
				}
			}
		})
		if lk == nil {
			r.Fail("C01.end-short-circuit", "calculateNextTasks: END lookup", calc.Pos(), "no lookup of END in the map returned by updateAndGet")
		} else {
			okv := extractOfValue(lk, 1)
			v0 := extractOfValue(lk, 0)
			good := false
			if okv != nil {
				for _, ref := range *okv.Referrers() {
					if iff, ok := ref.(*ssa.If); ok {
						// found arm: returns v0 and never reaches createTasks
						reach, _ := pathFromBlock(pathQuery{fn: calc, goal: func(i ssa.Instruction) bool { return isCallTo(i, create) }}, iff.Block().Succs[0])
						retsV := false
						for _, in := range iff.Block().Succs[0].Instrs {
							if ret, ok := in.(*ssa.Return); ok && v0 != nil && ret.Results[1] == ssa.Value(v0) {
								retsV = true
							}
						}
						// and the lookup precedes createTasks on every path
						skip, _ := pathQuery{fn: calc, goal: func(i ssa.Instruction) bool { return isCallTo(i, create) }, avoid: func(i ssa.Instruction) bool { return i == ssa.Instruction(lk) }}.exists()
						good = !reach && retsV && !skip
					}
				}
			}
			r.Check(good, "C01.end-short-circuit", "calculateNextTasks: END short-circuits task creation", lk.Pos(), "END found => return its value, no tasks", "END's value is not returned immediately (other nodes of the same step would still be scheduled, or END is ignored)")
		}
		for i, c := range callsTo(run, calc) {
			e1 := extractOf(c, 1)
			good := false
			if e1 != nil {
				var refs []ssa.Instruction
				for _, v := range aliasesThroughCells(e1) {
					refs = append(refs, *v.Referrers()...)
				}
				for _, ref := range refs {
					b, ok := ref.(*ssa.BinOp)
					if !ok || !isNilConst(b.Y) {
						continue
					}
					for _, rr := range *b.Referrers() {
						iff, ok := rr.(*ssa.If)
						if !ok {
							continue
						}
						arm := 0
						if b.Op == token.EQL {
							arm = 1
						}
						reach, _ := pathFromBlock(pathQuery{fn: run, goal: func(in ssa.Instruction) bool { return isCallTo(in, submit) }}, iff.Block().Succs[arm])
						// test lies on every path from the call to the next submit
						skip, _ := pathQuery{fn: run, from: c, goal: func(in ssa.Instruction) bool { return isCallTo(in, submit) }, avoid: func(in ssa.Instruction) bool { return in == ssa.Instruction(iff) }}.exists()
						if !reach && !skip {
							good = true
						}
					}
				}
			}
			r.Check(good, "C01.end-short-circuit", fmt.Sprintf("runner.run: result of calculateNextTasks#%d returned before the next submit", i+1), c.Pos(), "result != nil => return", "a result delivered to END does not end the run before the next superstep")
		}
	}

	// ---- one-task-per-key
	r.Rule("C01.one-task-per-key", "task objects are built only in createTasks/restoreTasks/run; createTasks appends exactly one task per map key", 3)
	taskT := w.Named("compose", "task")
	restore := w.Fn("compose", "runner.restoreTasks")
	for _, fn := range w.RepoFuncs("compose") {
		instrs(fn, func(in ssa.Instruction) {
			al, ok := in.(*ssa.Alloc)
			if !ok || !al.Heap || namedOf(al.Type()) != taskT {
				return
			}
			top := topFunc(fn)
			r.Check(top == create || top == restore || top == run, "C01.one-task-per-key", "task built in "+w.fname(top), al.Pos(), "allowed constructor", "tasks are created outside the scheduler's task constructors")
		})
	}
	{
		// createTasks: range over parameter nodeMap; the append is reached exactly once per iteration
		var next *ssa.Next
		instrs(create, func(in ssa.Instruction) {
			if n, ok := in.(*ssa.Next); ok {
				if rg, ok := n.Iter.(*ssa.Range); ok {
					if _, isP := rg.X.(*ssa.Parameter); isP {
						next = n
					}
				}
			}
		})
		var apps []ssa.Instruction
		instrs(create, func(in ssa.Instruction) {
			if isBuiltin(in, "append") {
				apps = append(apps, in)
			}
		})
		good := next != nil && len(apps) == 1
		if good {
			body := next.Block().Succs[0]
			skip, _ := pathFromBlock(pathQuery{fn: create, goal: func(in ssa.Instruction) bool { return in == ssa.Instruction(next) }, avoid: func(in ssa.Instruction) bool { return in == apps[0] }}, body)
			twice, _ := pathQuery{fn: create, from: apps[0], goal: func(in ssa.Instruction) bool { return in == apps[0] }, avoid: func(in ssa.Instruction) bool { return in == ssa.Instruction(next) }}.exists()
			good = !skip && !twice
		}
		r.Check(good, "C01.one-task-per-key", "createTasks: one task per ready node", create.Pos(), "one append per iteration over the ready-node map", "a ready node can be dropped or scheduled twice in one step")
	}

	// ---- chain lowering
	r.Rule("C01.chain-lowering", "every chain stage advances preNodeKeys on success; END wired from every last stage before hasEnd", 15)
	chainT := w.Named("compose", "Chain")
	chAdd := w.Fn("compose", "Chain.addNode")
	appBranch := w.Fn("compose", "Chain.AppendBranch")
	appPar := w.Fn("compose", "Chain.AppendParallel")
	rep := w.Fn("compose", "Chain.reportError")
	fPre := w.Field("compose", "Chain", "preNodeKeys")
	ms := types.NewMethodSet(types.NewPointer(chainT))
	for i := 0; i < ms.Len(); i++ {
		m := ms.At(i).Obj().(*types.Func)
		if !strings.HasPrefix(m.Name(), "Append") {
			continue
		}
		f := w.Prog.FuncValue(m)
		if f == nil {
			continue
		}
		f = origin(f)
		ok := f == origin(appBranch) || f == origin(appPar) || len(callsTo(f, chAdd)) == 1
		r.Check(ok, "C01.chain-lowering", "Chain."+m.Name()+" lowers through addNode", m.Pos(), "delegates to Chain.addNode (or is a branch/parallel stage)", "a stage is appended without going through the shared lowering (edges from the previous stage may be missing)")
	}
	storesPre := func(in ssa.Instruction) bool {
		st, ok := in.(*ssa.Store)
		if !ok {
			return false
		}
		fa, ok := st.Addr.(*ssa.FieldAddr)
		return ok && sameField(fieldVarOfAddr(fa), fPre)
	}
	gAddNode := w.Fn("compose", "graph.addNode")
	for _, f := range []*ssa.Function{chAdd, appBranch, appPar} {
		cs := callsTo(f, gAddNode)
		if len(cs) == 0 {
			r.Fail("C01.chain-lowering", w.fname(f)+" adds its node(s)", f.Pos(), "no call of graph.addNode")
			continue
		}
		skip, wit := pathQuery{fn: f, from: cs[0], goal: isReturn, avoid: func(in ssa.Instruction) bool { return storesPre(in) || isCallTo(in, rep) }}.exists()
		r.Check(!skip, "C01.chain-lowering", w.fname(f)+" advances preNodeKeys on success", cs[0].Pos(), "every return after adding the node either reports an error or stores the new last-stage keys", "a stage can be added without updating preNodeKeys: the next stage is wired to a stale predecessor: "+wit)
	}
	{
		aein := w.Fn("compose", "Chain.addEndIfNeeded")
		// the once-flag is located by shape (a bool field of Chain set to true here), not by name; its existence and
		// exactness are C20.chain-end-once's business — here it only marks "wiring finished"
		_, hasEndStore := chainEndOnceFlag(w)
		addEdgeM := w.Fn("compose", "Graph.AddEdge")
		good := true
		{
			// END edge from every element of preNodeKeys
			edgeOK := false
			for _, c := range callsTo(aein, addEdgeM) {
				a := c.Common().Args
				if s, ok := constString(a[2]); ok && s == constStringOf(w, "compose", "END") {
					if u, ok := a[1].(*ssa.UnOp); ok {
						if ia, ok := u.X.(*ssa.IndexAddr); ok && isLoadOfField(ia.X, fPre) {
							// the index is a loop index bounded by len(preNodeKeys), not a constant element
							if _, isConst := ia.Index.(*ssa.Const); !isConst && hasGuard(c.Block(), func(g guard) bool {
								op, x, y, ok := asCmp(g.cond)
								return ok && op == token.LSS && g.pol && x == ia.Index && isLenOf(y, func(v ssa.Value) bool { return isLoadOfField(v, fPre) })
							}) {
								edgeOK = true
							}
						}
					}
				}
			}
			// the loop header (len(preNodeKeys) compare) precedes hasEnd on every path
			skip := false
			if hasEndStore != nil {
				skip, _ = pathQuery{fn: aein, goal: func(in ssa.Instruction) bool { return in == hasEndStore }, avoid: func(in ssa.Instruction) bool {
					c, ok := in.(*ssa.Call)
					return ok && isBuiltin(c, "len") && isLoadOfField(c.Call.Args[0], fPre)
				}}.exists()
			}
			good = edgeOK && !skip
		}
		r.Check(good, "C01.chain-lowering", "addEndIfNeeded wires END from every last-stage node", aein.Pos(), "range over preNodeKeys adding (key, END) before hasEnd = true", "END is not connected from every node of the last stage")
	}

	// ---- termination-handoff (a started node execution is always handed back to the run loop, also when it panics)
	r.Rule("C01.termination-handoff", "executor: recover + push + refill on every exit (a panicking node cannot strand the run loop)", 4)
	executorHandoffChecks(w, r, "C01.termination-handoff")

	// ---- copy-partition: the copies of a node's output are partitioned between edge successors and branch conditions
	r.Rule("C01.copy-partition", "resolveCompletedTasks: len(writeTo)+2*len(branches) copies; branch conditions read the copies from index len(writeTo)+len(branches) on", 2)
	copyPartitionCheck(w, r, "C01.copy-partition")

	// ---- merge-pure
	r.Rule("C01.merge-pure", "mergeValues / mergeMap never write through their operands", 2)
	for _, n := range []string{"mergeValues", "mergeMap"} {
		if f := w.TryFn("compose", n); f != nil {
			ruleNoMutateParams(w, r, "C01.merge-pure", f, nil)
			// the merged map must be a fresh map: the returned value's root is a MakeMap / reflect.MakeMap result
			if n == "mergeMap" {
				usesParamAsDst := false
				instrs(f, func(in ssa.Instruction) {
					if c, ok := in.(*ssa.Call); ok && calleeFullName(c) == "(reflect.Value).SetMapIndex" {
						// receiver must derive from reflect.MakeMap*, not from reflect.ValueOf(param element)
						if derivesFromValueOfParam(c.Call.Args[0], f, 0) {
							usesParamAsDst = true
						}
					}
				})
				r.Check(!usesParamAsDst, "C01.merge-pure", "mergeMap writes into a fresh map", f.Pos(), "SetMapIndex target is created by reflect.MakeMap", "merge reuses an operand as destination: a predecessor's output map (shared with its other successors) is mutated")
			}
		}
	}
}

func sameLimit(a, b ssa.Value) bool {
	// both are phis over the same underlying loads (maxSteps updated from options)
	pa, ok1 := a.(*ssa.Phi)
	pb, ok2 := b.(*ssa.Phi)
	if ok1 && ok2 {
		for _, e := range pa.Edges {
			for _, g := range pb.Edges {
				if e == g {
					return true
				}
			}
		}
	}
	return false
}

func constStringOf(w *World, rel, name string) string {
	c, ok := w.Pkg(rel).Types.Scope().Lookup(name).(*types.Const)
	if !ok {
		undecidedf("anchor: const %s.%s", rel, name)
	}
	s, _ := constString(ssa.NewConst(c.Val(), c.Type()))
	return s
}

func extractOfValue(v ssa.Value, idx int) *ssa.Extract {
	for _, ref := range *v.Referrers() {
		if e, ok := ref.(*ssa.Extract); ok && e.Index == idx {
			return e
		}
	}
	return nil
}

// derivesFromValueOfParam: a reflect.Value derived (through method calls / phis) from reflect.ValueOf(x)
// where x is rooted in a parameter of fn.
func derivesFromValueOfParam(v ssa.Value, fn *ssa.Function, d int) bool {
	if d > 10 {
		return false
	}
	switch x := v.(type) {
	case *ssa.Call:
		name := calleeFullName(x)
		if name == "reflect.ValueOf" {
			return paramRoot(through(x.Call.Args[0]), 0) != nil
		}
		if name == "reflect.MakeMap" || name == "reflect.MakeMapWithSize" || name == "reflect.New" {
			return false
		}
		if strings.HasPrefix(name, "(reflect.Value).") && len(x.Call.Args) > 0 {
			return derivesFromValueOfParam(x.Call.Args[0], fn, d+1)
		}
	case *ssa.Phi:
		for _, e := range x.Edges {
			if derivesFromValueOfParam(e, fn, d+1) {
				return true
			}
		}
	case *ssa.UnOp:
		if a, ok := x.X.(*ssa.Alloc); ok {
			for _, ref := range *a.Referrers() {
				if st, ok := ref.(*ssa.Store); ok && st.Addr == ssa.Value(a) && derivesFromValueOfParam(st.Val, fn, d+1) {
					return true
				}
			}
		}
	}
	return false
}

// aliasesThroughCells: v plus every load of a local cell v is stored into (named results / captured vars).
func aliasesThroughCells(v ssa.Value) []ssa.Value {
	out := []ssa.Value{v}
	for _, ref := range *v.Referrers() {
		if st, ok := ref.(*ssa.Store); ok && st.Val == v {
			if cell, ok := st.Addr.(*ssa.Alloc); ok {
				for _, r2 := range *cell.Referrers() {
					if u, ok := r2.(*ssa.UnOp); ok && u.Op == token.MUL {
						out = append(out, u)
					}
				}
			}
		}
	}
	return out
}

// fanoutCountCheck: see C01.copy-partition (second fan-out); shared with C19.
func fanoutCountCheck(w *World, r *Report, rule string) {
	rct := w.Fn("compose", "runner.resolveCompletedTasks")
	ci := w.Fn("compose", "copyItem")
	fWT := w.Field("compose", "chanCall", "writeTo")
	fWB := w.Field("compose", "chanCall", "writeToBranches")
	var first ssa.CallInstruction
	for _, c := range callsTo(rct, ci) {
		if first == nil || instrDominates(c, first) {
			first = c
		}
	}
	var second ssa.CallInstruction
	for _, c := range callsTo(rct, ci) {
		if c != first && (second == nil || instrDominates(second, c)) {
			second = c
		}
	}
	if second == nil {
		r.Fail(rule, "resolveCompletedTasks splits the last reserved copy", rct.Pos(), "no second copyItem call")
	} else {
		// linear form over W, B and N = len(<the successor key list>)
		var nSym ssa.Value
		var lin4 func(v ssa.Value, d int) (a, b, n, c int64, ok bool)
		lin4 = func(v ssa.Value, d int) (int64, int64, int64, int64, bool) {
			if d > 8 {
				return 0, 0, 0, 0, false
			}
			if k, ok := constInt(v); ok {
				return 0, 0, 0, k, true
			}
			switch x := v.(type) {
			case *ssa.Call:
				if isBuiltin(x, "len") {
					arg := x.Call.Args[0]
					if isLoadOfField(arg, fWT) {
						return 1, 0, 0, 0, true
					}
					if isLoadOfField(arg, fWB) {
						return 0, 1, 0, 0, true
					}
					if nSym == nil || nSym == arg {
						nSym = arg
						return 0, 0, 1, 0, true
					}
				}
			case *ssa.BinOp:
				a1, b1, n1, c1, ok1 := lin4(x.X, d+1)
				a2, b2, n2, c2, ok2 := lin4(x.Y, d+1)
				if !ok1 || !ok2 {
					return 0, 0, 0, 0, false
				}
				switch x.Op {
				case token.ADD:
					return a1 + a2, b1 + b2, n1 + n2, c1 + c2, true
				case token.SUB:
					return a1 - a2, b1 - b2, n1 - n2, c1 - c2, true
				}
			}
			return 0, 0, 0, 0, false
		}
		a, b, n, c, ok := lin4(second.Common().Args[1], 0)
		// the key list N must be what the distribution loop ranges over
		ranged := false
		if nSym != nil {
			instrs(rct, func(in ssa.Instruction) {
				if cl, ok := in.(*ssa.Call); ok && isBuiltin(cl, "len") && cl.Call.Args[0] == nSym {
					for _, ref := range *cl.Referrers() {
						if bo, ok := ref.(*ssa.BinOp); ok && bo.Op == token.LSS {
							ranged = true
						}
					}
				}
			})
		}
		r.Check(ok && a == -1 && b == -1 && n == 1 && c == 1 && ranged, rule, "second fan-out count = len(successors) - len(writeTo) - len(writeToBranches) + 1", second.Pos(), "copies and selected successors match one to one",
			fmt.Sprintf("the last reserved copy is split into %d*len(writeTo)%+d*len(branches)%+d*len(successors)%+d copies (recognised=%v, successor list is the ranged one=%v): with two or more branches on one node the surplus copies are handed to nobody and never closed — the copy parent never closes the node's stream and its producer stays blocked once the caller stops reading early", a, b, n, c, ok, ranged))
	}
}

// chainEndOnceFlag finds, in Chain.addEndIfNeeded, the bool field of Chain that the function sets to true (the
// "END edges are in" flag) and the store instruction; nil when there is none.
func chainEndOnceFlag(w *World) (*types.Var, ssa.Instruction) {
	aein := w.Fn("compose", "Chain.addEndIfNeeded")
	chain := w.Named("compose", "Chain")
	for _, fw := range fieldWrites(aein) {
		if b, ok := fw.field.Type().Underlying().(*types.Basic); !ok || b.Kind() != types.Bool {
			continue
		}
		if c, ok := fw.val.(*ssa.Const); !ok || c.Value == nil || c.Value.String() != "true" {
			continue
		}
		if fw.owner != nil && fw.owner.Origin().Obj() == chain.Obj() && fw.kind == "store" {
			return fw.field, fw.in
		}
	}
	return nil, nil
}

// copyPartitionCheck: shared by C01.copy-partition and C04.copy-partition (stream paradigms only: a branch condition that
// reads the copy meant for an edge successor drains it — Invoke never shows it, all copies are one value there).
func copyPartitionCheck(w *World, r *Report, rule string) {
	rct := w.Fn("compose", "runner.resolveCompletedTasks")
	cbr := w.Fn("compose", "runner.calculateBranch")
	ci := w.Fn("compose", "copyItem")
	fWT := w.Field("compose", "chanCall", "writeTo")
	fWB := w.Field("compose", "chanCall", "writeToBranches")
	// linear form: coefficient of len(writeTo), len(writeToBranches), constant
	var lin func(v ssa.Value, d int) (a, b, c int64, ok bool)
	lin = func(v ssa.Value, d int) (int64, int64, int64, bool) {
		if d > 8 {
			return 0, 0, 0, false
		}
		if k, ok := constInt(v); ok {
			return 0, 0, k, true
		}
		switch x := v.(type) {
		case *ssa.Call:
			if isBuiltin(x, "len") {
				if isLoadOfField(x.Call.Args[0], fWT) {
					return 1, 0, 0, true
				}
				if isLoadOfField(x.Call.Args[0], fWB) {
					return 0, 1, 0, true
				}
			}
		case *ssa.BinOp:
			a1, b1, c1, ok1 := lin(x.X, d+1)
			a2, b2, c2, ok2 := lin(x.Y, d+1)
			if !ok1 || !ok2 {
				return 0, 0, 0, false
			}
			switch x.Op {
			case token.ADD:
				return a1 + a2, b1 + b2, c1 + c2, true
			case token.SUB:
				return a1 - a2, b1 - b2, c1 - c2, true
			case token.MUL:
				if a1 == 0 && b1 == 0 {
					return a2 * c1, b2 * c1, c2 * c1, true
				}
				if a2 == 0 && b2 == 0 {
					return a1 * c2, b1 * c2, c1 * c2, true
				}
			}
		}
		return 0, 0, 0, false
	}
	var first ssa.CallInstruction
	for _, c := range callsTo(rct, ci) {
		if first == nil || instrDominates(c, first) {
			first = c
		}
	}
	if first == nil {
		r.Fail(rule, "resolveCompletedTasks copies the output", rct.Pos(), "no copyItem call")
	} else {
		a, b, c, ok := lin(first.Common().Args[1], 0)
		r.Check(ok && a == 1 && b == 2 && c == 0, rule, "copy count = len(writeTo) + 2*len(writeToBranches)", first.Pos(), "one copy per edge successor, one per branch condition, one per branch result", fmt.Sprintf("copy count is %d*len(writeTo)+%d*len(branches)+%d (recognised=%v)", a, b, c, ok))
	}
	fanoutCountCheck(w, r, rule)
	for _, c := range callsTo(rct, cbr) {
		good := false
		det := ""
		for _, arg := range c.Common().Args {
			sl, ok := arg.(*ssa.Slice)
			if !ok || sl.Low == nil {
				continue
			}
			a, b, k, ok := lin(sl.Low, 0)
			det = fmt.Sprintf("%d*len(writeTo)+%d*len(branches)+%d", a, b, k)
			if ok && a == 1 && b == 1 && k == 0 && sl.High == nil {
				good = true
			}
		}
		r.Check(good, rule, "branch conditions read copies [len(writeTo)+len(branches):]", c.Pos(), "disjoint from the copies delivered to successors", "branch conditions are handed copies starting at "+det+": a branch condition consumes the very stream copy that is also delivered to an edge successor (stream mode only)")
	}
}
