package main

import (
	"fmt"
	"go/token"
	"go/types"
	"sort"
	"strings"

	"golang.org/x/tools/go/ssa"
)

// LOOP-TOTAL: a "for every element" loop visits every element. In the flow graph: a natural loop whose only
// exits are (a) its header (the sequence is exhausted) and (b) exits that return a non-nil error / panic.
// Any other exit from inside the body — a `break`, a `return x, nil`, a jump past the loop — leaves the
// remaining elements unprocessed and is reported.

type loopInfo struct {
	header *ssa.BasicBlock
	body   map[*ssa.BasicBlock]bool
	what   string // what is ranged over, for messages
	pos    token.Pos
}

type loopExit struct {
	loop     loopInfo
	from, to *ssa.BasicBlock
	errExit  bool
}

func naturalLoops(fn *ssa.Function) []loopInfo {
	var out []loopInfo
	byHeader := map[*ssa.BasicBlock]*loopInfo{}
	for _, b := range fn.Blocks {
		for _, s := range b.Succs {
			if s.Dominates(b) || s == b { // back edge b -> s
				li := byHeader[s]
				if li == nil {
					li = &loopInfo{header: s, body: map[*ssa.BasicBlock]bool{s: true}}
					byHeader[s] = li
				}
				// blocks reaching b without passing through s
				stack := []*ssa.BasicBlock{b}
				for len(stack) > 0 {
					x := stack[len(stack)-1]
					stack = stack[:len(stack)-1]
					if li.body[x] {
						continue
					}
					li.body[x] = true
					stack = append(stack, x.Preds...)
				}
			}
		}
	}
	for _, b := range fn.Blocks {
		if li := byHeader[b]; li != nil {
			li.what, li.pos = loopSubject(li)
			if li.pos == token.NoPos {
				// range loops carry no position on their synthetic header: use the first positioned instruction of the body
				for _, bb := range fn.Blocks {
					if li.body[bb] && li.pos == token.NoPos {
						li.pos = blockPos(bb)
					}
				}
			}
			out = append(out, *li)
		}
	}
	return out
}

// loopSubject describes the ranged expression: header compares an index with len(x), or calls Next on a
// range iterator over x.
func loopSubject(li *loopInfo) (string, token.Pos) {
	for _, in := range li.header.Instrs {
		switch x := in.(type) {
		case *ssa.Next:
			if r, ok := x.Iter.(*ssa.Range); ok {
				return "range " + valText(r.X), r.Pos()
			}
		case *ssa.If:
			if _, l, r, ok := asCmp(x.Cond); ok {
				for _, side := range []ssa.Value{r, l} {
					if c, ok := side.(*ssa.Call); ok && isBuiltin(c, "len") {
						return "range " + valText(c.Call.Args[0]), c.Pos()
					}
				}
				return "loop while " + valText(x.Cond), x.Cond.Pos()
			}
		}
	}
	return "loop", token.NoPos
}

// blockEndsInError: following jumps only, b leads to a return whose last result is a non-nil error, or to a panic.
func blockEndsInError(b *ssa.BasicBlock) bool {
	for hop := 0; hop < 4; hop++ {
		last := b.Instrs[len(b.Instrs)-1]
		switch x := last.(type) {
		case *ssa.Return:
			if n := len(x.Results); n > 0 {
				res := x.Results[n-1]
				if types.Identical(res.Type(), types.Universe.Lookup("error").Type()) && !isNilConst(res) {
					return true
				}
			}
			return false
		case *ssa.Panic:
			return true
		case *ssa.Jump:
			b = b.Succs[0]
		default:
			return false
		}
	}
	return false
}

// earlyExits lists the exits of every natural loop of fn that leave from a block other than the header.
func earlyExits(fn *ssa.Function) []loopExit {
	var out []loopExit
	for _, li := range naturalLoops(fn) {
		for b := range li.body {
			if b == li.header {
				continue
			}
			for _, s := range b.Succs {
				if !li.body[s] {
					out = append(out, loopExit{li, b, s, blockEndsInError(s)})
				}
			}
		}
	}
	return out
}

func blockPos(b *ssa.BasicBlock) token.Pos {
	for _, in := range b.Instrs {
		if in.Pos() != token.NoPos {
			return in.Pos()
		}
		if v, ok := in.(*ssa.If); ok && v.Cond.Pos() != token.NoPos {
			return v.Cond.Pos()
		}
	}
	return token.NoPos
}

// LOOPVAR-ADDRESS: under pre-1.22 semantics a loop variable is one variable for all iterations. Taking its
// address (or the address of one of its fields / elements) inside the loop and letting that pointer outlive
// the iteration — storing it, capturing it, sending it, or passing it to a callee that does — makes every
// retained pointer see the last element.

// loopCarriedCells: Allocs of fn allocated outside a cycle but stored to inside it.
func loopCarriedCells(fn *ssa.Function) []*ssa.Alloc {
	var out []*ssa.Alloc
	for _, b := range fn.Blocks {
		for _, in := range b.Instrs {
			cell, ok := in.(*ssa.Alloc)
			if !ok {
				continue
			}
			for _, ref := range *cell.Referrers() {
				st, ok := ref.(*ssa.Store)
				if !ok || st.Addr != ssa.Value(cell) {
					continue
				}
				sb := st.Block()
				if !blockReaches(sb, sb) {
					continue // store not in a cycle
				}
				// the allocation is not part of that cycle
				if blockReaches(sb, cell.Block()) && blockReaches(cell.Block(), sb) {
					continue
				}
				out = append(out, cell)
				break
			}
		}
	}
	return out
}

// retainsParam: does callee keep a pointer passed as parameter idx beyond its own execution?
func retainsParam(w *World, callee *ssa.Function, idx int, depth int) (bool, string) {
	if callee == nil || callee.Blocks == nil || depth > 3 {
		return true, "callee body unknown"
	}
	if idx >= len(callee.Params) {
		return true, "variadic / unknown parameter"
	}
	return pointerEscapes(w, callee.Params[idx], depth)
}

// pointerEscapes follows a pointer value (and pointers derived from it by field/element addressing) to the
// places that retain it.
func pointerEscapes(w *World, p ssa.Value, depth int) (bool, string) {
	seen := map[ssa.Value]bool{}
	var visit func(v ssa.Value) (bool, string)
	visit = func(v ssa.Value) (bool, string) {
		if seen[v] {
			return false, ""
		}
		seen[v] = true
		refs := v.Referrers()
		if refs == nil {
			return false, ""
		}
		for _, ref := range *refs {
			switch u := ref.(type) {
			case *ssa.FieldAddr:
				if u.X == v {
					if e, why := visit(u); e {
						return true, why
					}
				}
			case *ssa.IndexAddr:
				if u.X == v {
					if e, why := visit(u); e {
						return true, why
					}
				}
			case *ssa.Phi, *ssa.ChangeType, *ssa.MakeInterface, *ssa.Convert:
				if e, why := visit(u.(ssa.Value)); e {
					return true, why
				}
			case *ssa.UnOp:
				// a load through the pointer copies the value: the pointer itself goes nowhere
			case *ssa.Store:
				if u.Val == v {
					if al, ok := u.Addr.(*ssa.Alloc); ok && !al.Heap {
						// stored in a stack local: follow its loads
						for _, l := range *al.Referrers() {
							if lo, ok := l.(*ssa.UnOp); ok {
								if e, why := visit(lo); e {
									return true, why
								}
							}
						}
						continue
					}
					return true, "stored to " + valText(u.Addr)
				}
			case *ssa.MakeClosure:
				return true, "captured by " + u.Fn.Name()
			case *ssa.MapUpdate:
				if u.Value == v || u.Key == v {
					return true, "stored in a map"
				}
			case *ssa.Send:
				if u.X == v {
					return true, "sent on a channel"
				}
			case *ssa.Return:
				return true, "returned"
			case *ssa.Go:
				return true, "passed to a goroutine"
			case *ssa.Defer:
				// runs before the function returns
			case *ssa.Call:
				com := u.Common()
				if _, isB := com.Value.(*ssa.Builtin); isB {
					continue
				}
				sc := staticCallee(u)
				for ai, a := range com.Args {
					if a != v {
						continue
					}
					if sc == nil || com.IsInvoke() {
						return true, "passed to a dynamically bound callee " + calleeText(u)
					}
					if !w.inRepoOrMock(sc) {
						continue // standard library / dependencies: assumed not to retain (fmt, reflect, json …)
					}
					if e, why := retainsParam(w, sc, ai, depth+1); e {
						return true, "passed to " + sc.Name() + ", which keeps it (" + why + ")"
					}
				}
			}
		}
		return false, ""
	}
	return visit(p)
}

// loopVarAddrEscapes lists loop-carried variables of fn whose address outlives an iteration.
func loopVarAddrEscapes(w *World, fn *ssa.Function) []string {
	var out []string
	for _, cell := range loopCarriedCells(fn) {
		if !cell.Heap {
			continue // address never taken in a way that forces the heap: plain loads/stores
		}
		// only uses inside the cycle matter; pointerEscapes is flow-insensitive, which is conservative here
		seenCapture := false
		for _, ref := range *cell.Referrers() {
			if _, ok := ref.(*ssa.MakeClosure); ok {
				seenCapture = true // reported by LOOPVAR-CAPTURE
			}
		}
		if seenCapture {
			continue
		}
		if esc, why := pointerEscapes(w, cell, 0); esc {
			out = append(out, fmt.Sprintf("&%s %s", cell.Comment, why))
		}
	}
	return out
}

// ruleLoopsTotal applies LOOP-TOTAL to every natural loop of the given functions: one obligation per loop,
// keyed by function and ranged subject; exceptions (search loops etc.) are frozen per key with a reason.
func ruleLoopsTotal(w *World, r *Report, rule string, fns []*ssa.Function, exceptions map[string]string, consequence string) int {
	n := 0
	for _, fn := range fns {
		if fn == nil {
			continue
		}
		for _, f := range withAnons(fn) {
			loops := naturalLoops(f)
			bad := map[*ssa.BasicBlock]loopExit{}
			for _, ex := range earlyExits(f) {
				if !ex.errExit {
					bad[ex.loop.header] = ex
				}
			}
			seen := map[string]int{}
			for _, li := range loops {
				base := w.fname(origin(f)) + ": " + li.what
				seen[base]++
				construct := base
				if seen[base] > 1 {
					construct = fmt.Sprintf("%s #%d", base, seen[base])
				}
				if loopIsUnconditional(li) {
					// `for { … }`: there is no exhaustion test in the header; how it ends (EOF, nothing running any more)
					// is decided by the rules that know the loop's protocol
					r.Info(rule, construct, li.pos, "unconditional loop: its exit protocol is decided by other rules")
					continue
				}
				n++
				ex, isBad := bad[li.header]
				if !isBad {
					r.OK(rule, construct, li.pos, "left only when exhausted or with an error")
					continue
				}
				if reason, ok := exceptions[base]; ok {
					r.Except(rule, construct, exitPos(ex), reason)
					continue
				}
				r.Fail(rule, construct, exitPos(ex), "the loop can be left early without an error (break / return / jump past it): the remaining elements are not processed — "+consequence)
			}
		}
	}
	return n
}

func exitPos(ex loopExit) token.Pos {
	if p := blockPos(ex.from); p != token.NoPos {
		return p
	}
	return ex.loop.pos
}

// loopIsUnconditional: the header block does work (calls other than len/cap, stores, sends) before it branches:
// a `for { x := next(); if done {break} … }` loop rather than a range / `for cond` loop.
func loopIsUnconditional(li loopInfo) bool {
	for _, in := range li.header.Instrs {
		switch x := in.(type) {
		case *ssa.Next:
			return false
		case *ssa.Call:
			if b, ok := x.Call.Value.(*ssa.Builtin); ok && (b.Name() == "len" || b.Name() == "cap") {
				continue
			}
			if strings.HasPrefix(calleeFullName(x), "(reflect.") || strings.HasPrefix(calleeFullName(x), "(*reflect.MapIter).Next") || strings.HasPrefix(calleeFullName(x), "(*container/list") {
				continue // pure accessors used in loop conditions: v.Len(), t.Kind(), l.Len()
			}
			return true
		case *ssa.Store, *ssa.Send, *ssa.MapUpdate, *ssa.Go, *ssa.Defer:
			return true
		}
	}
	_, endsInIf := li.header.Instrs[len(li.header.Instrs)-1].(*ssa.If)
	return !endsInIf
}

// MAP-ORDER-CARRIED: a value carried from one iteration of a range-over-map loop to the next (a phi in the loop
// header, or in the header of a loop nested in it that merges a value defined outside the map loop's iteration)
// makes the result depend on Go's randomised iteration order unless the update is order-insensitive.
type carriedPhi struct {
	loop loopInfo
	phi  *ssa.Phi
}

func mapRangeLoops(fn *ssa.Function) []loopInfo {
	var out []loopInfo
	for _, li := range naturalLoops(fn) {
		for _, in := range li.header.Instrs {
			if nx, ok := in.(*ssa.Next); ok && !nx.IsString {
				if r, ok := nx.Iter.(*ssa.Range); ok {
					if _, isMap := r.X.Type().Underlying().(*types.Map); isMap {
						out = append(out, li)
					}
				}
			}
		}
	}
	return out
}

func mapRangeCarried(fn *ssa.Function) []carriedPhi {
	var out []carriedPhi
	for _, li := range mapRangeLoops(fn) {
		for _, in := range li.header.Instrs {
			if p, ok := in.(*ssa.Phi); ok {
				out = append(out, carriedPhi{li, p})
			}
		}
	}
	return out
}

// carriedKind classifies how the header phi is updated inside the loop.
//   - "append": every in-loop edge value is append(phi-derived, ...) (order matters unless sorted afterwards)
//   - "count": integer phi updated by + / - constants or lengths
//   - "flag": boolean phi
//   - "other": anything else (a plain value overwritten in some iterations: the last / first writer wins)
func carriedKind(c carriedPhi) string {
	t := c.phi.Type().Underlying()
	if b, ok := t.(*types.Basic); ok {
		if b.Info()&types.IsBoolean != 0 {
			return "flag"
		}
		if b.Info()&types.IsInteger != 0 {
			return "count"
		}
	}
	if _, ok := t.(*types.Slice); ok {
		return "append"
	}
	return "other"
}

// carriedCells: address-taken variables (Allocs) defined outside a range-over-map loop and used inside it. They carry
// state across iterations just like a header phi, unless the first thing every iteration does with them is Reset().
type carriedCell struct {
	loop    loopInfo
	cell    *ssa.Alloc
	resetOK bool
}

func mapRangeCarriedCells(fn *ssa.Function) []carriedCell {
	var out []carriedCell
	for _, li := range mapRangeLoops(fn) {
		for _, b := range fn.Blocks {
			if li.body[b] {
				continue
			}
			for _, in := range b.Instrs {
				al, ok := in.(*ssa.Alloc)
				if !ok {
					continue
				}
				switch al.Type().(*types.Pointer).Elem().Underlying().(type) {
				case *types.Slice, *types.Map, *types.Chan, *types.Signature, *types.Interface, *types.Pointer:
					continue // accumulating containers / handles: element order is decided elsewhere
				}
				var uses []ssa.Instruction
				for _, ref := range *al.Referrers() {
					if li.body[ref.Block()] {
						if _, dbg := ref.(*ssa.DebugRef); !dbg {
							uses = append(uses, ref)
						}
					}
				}
				if len(uses) == 0 {
					continue
				}
				var reset ssa.Instruction
				for _, u := range uses {
					if c, ok := u.(ssa.CallInstruction); ok {
						if sc := staticCallee(c); sc != nil && sc.Name() == "Reset" && len(c.Common().Args) > 0 && c.Common().Args[0] == ssa.Value(al) {
							reset = u
						}
					}
					if st, ok := u.(*ssa.Store); ok && st.Addr == ssa.Value(al) { // plain re-initialisation `x = zero`
						if _, isConst := st.Val.(*ssa.Const); isConst && reset == nil {
							reset = u
						}
					}
				}
				ok2 := reset != nil
				if ok2 {
					for _, u := range uses {
						if u == reset {
							continue
						}
						if u.Block() == reset.Block() {
							if instrIndex(u) < instrIndex(reset) {
								ok2 = false
							}
						} else if !reset.Block().Dominates(u.Block()) {
							ok2 = false
						}
					}
				}
				out = append(out, carriedCell{li, al, ok2})
			}
		}
	}
	return out
}

func instrIndex(in ssa.Instruction) int {
	for i, x := range in.Block().Instrs {
		if x == in {
			return i
		}
	}
	return -1
}

// guardIsLoopCond: the guard is the continuation test of a natural loop (range index < len, iterator ok, for-cond).
func guardIsLoopCond(fn *ssa.Function) func(guard) bool {
	headers := map[*ssa.BasicBlock]bool{}
	for _, li := range naturalLoops(fn) {
		headers[li.header] = true
	}
	return func(g guard) bool { return g.at != nil && headers[g.at.Block()] }
}

// iterationSkips: is there a way through one iteration of the innermost loop around `must` (from the loop's body entry
// back to its header, i.e. on to the next element) that does not execute `must`? Error exits leave the loop and are
// not iterations that "continue".
func iterationSkips(fn *ssa.Function, must ssa.Instruction) (bool, string) {
	return iterationSkipsExcept(fn, must, nil)
}

// iterationSkipsExcept: as iterationSkips, but edges accepted by `legit` (the declared filter of the loop, e.g. the
// unexported-field arm) do not count as a way round the instruction.
func iterationSkipsExcept(fn *ssa.Function, must ssa.Instruction, legit func(from, to *ssa.BasicBlock) bool) (bool, string) {
	var inner *loopInfo
	for _, li := range naturalLoops(fn) {
		li := li
		if li.body[must.Block()] && (inner == nil || len(li.body) < len(inner.body)) {
			inner = &li
		}
	}
	if inner == nil {
		return false, ""
	}
	for _, s := range inner.header.Succs {
		if !inner.body[s] || s == inner.header {
			continue
		}
		q := pathQuery{fn: fn, goal: func(in ssa.Instruction) bool { return in.Block() == inner.header }, avoid: func(in ssa.Instruction) bool { return in == must },
			avoidEdge: func(from, to *ssa.BasicBlock) bool { return !inner.body[to] || (legit != nil && legit(from, to)) }}
		if reach, wit := pathFromBlock(q, s); reach {
			return true, wit
		}
	}
	return false, ""
}

// iterationSkips2: like iterationSkips, for the loop that ENCLOSES the loop headed at / containing `must` (must is an
// instruction of an inner loop's preheader, e.g. the Range instruction of `for x := range …` nested in the outer loop).
func iterationSkips2(fn *ssa.Function, must ssa.Instruction) (bool, string) {
	// the Range instruction sits in the block just before the inner loop's header, which belongs to the outer loop only
	return iterationSkips(fn, must)
}

// STICKY-FLAG: a boolean carried round a loop that is only ever set (in-loop values: itself or `true`) and is TESTED
// inside the loop body decides something about the current element from what an EARLIER element did — unless that is
// the point ("seen one already"), it is a per-element flag whose reset was lost. Reported for the caller to judge:
// the armed rules list the functions where per-element classification happens.
type stickyFlag struct {
	fn   *ssa.Function
	phi  *ssa.Phi
	loop loopInfo
	test *ssa.If
}

func stickyFlagsTestedInLoop(fn *ssa.Function) []stickyFlag {
	var out []stickyFlag
	for _, li := range naturalLoops(fn) {
		for _, in := range li.header.Instrs {
			phi, ok := in.(*ssa.Phi)
			if !ok {
				continue
			}
			if b, ok := phi.Type().Underlying().(*types.Basic); !ok || b.Kind() != types.Bool {
				continue
			}
			// in-loop edges: only the phi itself (possibly through inner phis) or constant true
			sticky, setsTrue := true, false
			seen := map[ssa.Value]bool{}
			var walk func(v ssa.Value)
			walk = func(v ssa.Value) {
				if seen[v] {
					return
				}
				seen[v] = true
				switch x := v.(type) {
				case *ssa.Phi:
					if x == phi {
						return
					}
					if li.body[x.Block()] {
						for _, e := range x.Edges {
							walk(e)
						}
						return
					}
					sticky = false
				case *ssa.Const:
					if x.Value != nil && x.Value.String() == "true" {
						setsTrue = true
					} else {
						sticky = false
					}
				default:
					sticky = false
				}
			}
			for i, e := range phi.Edges {
				if !li.body[li.header.Preds[i]] {
					continue // entry edge
				}
				walk(e)
			}
			if !sticky || !setsTrue {
				continue
			}
			// tested inside the body (directly or through an inner phi that merges it)?
			var test *ssa.If
			users := []ssa.Value{phi}
			seen = map[ssa.Value]bool{}
			for len(users) > 0 {
				u := users[0]
				users = users[1:]
				for _, ref := range *u.Referrers() {
					switch x := ref.(type) {
					case *ssa.If:
						// "found one: stop" (an arm leaves the loop) is the legitimate use of a sticky flag
						if li.body[x.Block()] && x.Block() != li.header && li.body[x.Block().Succs[0]] && li.body[x.Block().Succs[1]] {
							test = x
						}
					case *ssa.Phi:
						if li.body[x.Block()] && x != phi && !seen[x] {
							seen[x] = true
							users = append(users, x)
						}
					case *ssa.UnOp:
						if x.Op == token.NOT {
							users = append(users, x)
						}
					}
				}
			}
			if test != nil {
				out = append(out, stickyFlag{fn, phi, li, test})
			}
		}
	}
	return out
}

// dataDependsOn: v is computed (by any chain of operands inside its function, through local cells) from src.
func dataDependsOn(v, src ssa.Value) bool {
	seen := map[ssa.Value]bool{}
	var visit func(v ssa.Value, d int) bool
	visit = func(v ssa.Value, d int) bool {
		if v == src {
			return true
		}
		if v == nil || d > 40 || seen[v] {
			return false
		}
		seen[v] = true
		if al, ok := v.(*ssa.Alloc); ok {
			for _, ref := range *al.Referrers() {
				if st, ok := ref.(*ssa.Store); ok && st.Addr == ssa.Value(al) && visit(st.Val, d+1) {
					return true
				}
				// elements / fields of a local composite (the array behind a slice literal or a variadic list)
				switch a := ref.(type) {
				case *ssa.IndexAddr:
					for _, r2 := range *a.Referrers() {
						if st, ok := r2.(*ssa.Store); ok && st.Addr == ssa.Value(a) && visit(st.Val, d+1) {
							return true
						}
					}
				case *ssa.FieldAddr:
					for _, r2 := range *a.Referrers() {
						if st, ok := r2.(*ssa.Store); ok && st.Addr == ssa.Value(a) && visit(st.Val, d+1) {
							return true
						}
					}
				}
			}
			return false
		}
		in, ok := v.(ssa.Instruction)
		if !ok {
			return false
		}
		for _, op := range in.Operands(nil) {
			if *op != nil && visit(*op, d+1) {
				return true
			}
		}
		return false
	}
	return visit(v, 0)
}

// ELEMENT-STATE-NOT-CARRIED: in a `for _, x := range slice` loop, what is carried to the next iteration (the header
// phis other than the index) is not computed from the current element x — a cursor / scratch variable that belongs
// to one element and was hoisted out of the loop makes element k's result depend on elements 0..k-1, i.e. on the
// declaration order.
type elemCarried struct {
	loop loopInfo
	phi  *ssa.Phi
	edge ssa.Value
	elem ssa.Value
}

func sliceRangeElemCarried(fn *ssa.Function, overSlice func(ssa.Value) bool) (nloops int, out []elemCarried) {
	for _, li := range naturalLoops(fn) {
		var idx *ssa.Phi
		for _, in := range li.header.Instrs {
			if p, ok := in.(*ssa.Phi); ok && p.Comment == "rangeindex" {
				idx = p
			}
		}
		if idx == nil {
			continue
		}
		var incr ssa.Value
		for _, ref := range *idx.Referrers() {
			if b, ok := ref.(*ssa.BinOp); ok && b.Op == token.ADD && b.X == ssa.Value(idx) {
				incr = b
			}
		}
		if incr == nil {
			continue
		}
		var elems []ssa.Value
		for _, ref := range *incr.Referrers() {
			if ia, ok := ref.(*ssa.IndexAddr); ok && ia.Index == incr && overSlice(ia.X) {
				for _, r2 := range *ia.Referrers() {
					if ld, ok := r2.(*ssa.UnOp); ok && ld.Op == token.MUL {
						elems = append(elems, ld)
					}
				}
			}
		}
		if len(elems) == 0 {
			continue
		}
		nloops++
		for _, in := range li.header.Instrs {
			p, ok := in.(*ssa.Phi)
			if !ok || p == idx {
				continue
			}
			for i, e := range p.Edges {
				if !li.body[li.header.Preds[i]] || e == ssa.Value(p) {
					continue
				}
				// an accumulator: acc = append(acc, f(x)) collects per-element results, it is not a cursor
				if c, ok := e.(*ssa.Call); ok && isBuiltin(c, "append") && len(c.Call.Args) > 0 && (c.Call.Args[0] == ssa.Value(p) || derivesFrom(c.Call.Args[0], p)) {
					continue
				}
				for _, el := range elems {
					if dataDependsOn(e, el) {
						out = append(out, elemCarried{li, p, e, el})
					}
				}
			}
		}
	}
	return
}

// PARTS-INDEPENDENT: in a loop that collects several parts of each element into separate accumulators
// (`acc = append(acc, elem.F…)`), what decides whether part F of the element is collected is a test of F only — never
// a test of another part (an if/else or switch chain over the parts makes one part shadow the other).
type partGuard struct {
	app    *ssa.Call
	field  *types.Var
	guard  guard
	others []string
}

func partsGuardedByOtherParts(fn *ssa.Function, owner *types.Named) (napp int, out []partGuard) {
	fieldsIn := func(v ssa.Value) map[*types.Var]bool {
		set := map[*types.Var]bool{}
		seen := map[ssa.Value]bool{}
		var visit func(v ssa.Value, d int)
		visit = func(v ssa.Value, d int) {
			if v == nil || d > 12 || seen[v] {
				return
			}
			seen[v] = true
			if fa, ok := v.(*ssa.FieldAddr); ok {
				if ownerOfFieldAddr(fa) == owner {
					set[fieldVarOfAddr(fa)] = true
					return
				}
			}
			if _, ok := v.(*ssa.Phi); ok {
				return
			}
			if al, ok := v.(*ssa.Alloc); ok { // the array behind a variadic argument list
				for _, ref := range *al.Referrers() {
					if ia, ok := ref.(*ssa.IndexAddr); ok {
						for _, r2 := range *ia.Referrers() {
							if st, ok := r2.(*ssa.Store); ok {
								visit(st.Val, d+1)
							}
						}
					}
				}
				return
			}
			if in, ok := v.(ssa.Instruction); ok {
				for _, op := range in.Operands(nil) {
					if *op != nil {
						visit(*op, d+1)
					}
				}
			}
		}
		visit(v, 0)
		return set
	}
	loops := naturalLoops(fn)
	instrs(fn, func(in ssa.Instruction) {
		c, ok := in.(*ssa.Call)
		if !ok || !isBuiltin(c, "append") || len(c.Call.Args) < 2 {
			return
		}
		fs := fieldsIn(c.Call.Args[1])
		if len(fs) != 1 {
			return
		}
		var f *types.Var
		for k := range fs {
			f = k
		}
		var inner *loopInfo
		for _, li := range loops {
			li := li
			if li.body[c.Block()] && (inner == nil || len(li.body) < len(inner.body)) {
				inner = &li
			}
		}
		if inner == nil {
			return
		}
		napp++
		for _, g := range guardsOf(c.Block()) {
			if g.at == nil || !inner.body[g.at.Block()] || g.at.Block() == inner.header {
				continue
			}
			var others []string
			for of := range fieldsIn(g.cond) {
				if of != f {
					others = append(others, of.Name())
				}
			}
			if len(others) > 0 {
				sort.Strings(others)
				out = append(out, partGuard{c, f, g, others})
			}
		}
	})
	return
}
