package main

import (
	"fmt"
	"go/token"
	"go/types"
	"sort"
	"strings"

	"golang.org/x/tools/go/ssa"
)

func init() {
	register(&propDef{
		id: "C20",
		explanation: "Static clauses of 'ill-formed graphs are rejected deterministically; compiled graphs are immutable': " +
			"(guards-dominate-writes) builder state of compose.graph is written only by the three guarded entry functions and their helpers; in each, the sticky-error guard and the compiled guard dominate every write; every error return made after the guards flows through the deferred sticky setter; " +
			"(compile-pure) no compile function writes a graph field whose storage the compiled runner aliases; " +
			"(gates) start/end presence, unresolved types, duplicate mapping targets, DAG validation and the step-limit rules each block the success return of compile; the step-limit rejection tests the runner's own DAG mode (however it was selected) on every path to success; " +
			"(presence) reserved keys, duplicate node, unknown endpoints, single-target branch, state handler without state are error arms that block the corresponding write; each edge list is scanned for the end node under exactly the conditions under which it is extended (duplicate edges rejected for every combination of control/data flags); " +
			"(no-panic) no explicit panic is reachable (VTA) from the Add*/Append*/Compile entry points; (nil-miss-deref) no unchecked map-miss dereference in builder/compile code; " +
			"(chain-sticky) Chain.addNode checks the sticky error and the compiled flag first and reportError keeps the first error.",
		decided:    []string{"guards-dominate-writes", "compile-pure", "gates", "presence", "no-panic", "nil-miss-deref", "chain-sticky", "workflow-compile-once"},
		notDecided: []string{"outcome determinism under map iteration order (which of several errors is reported first)", "correctness of each validation over all construction sequences", "run-time panics raised by the Go runtime (index out of range etc.) other than nil-map-miss dereferences"},
		run:        runC20,
	})
}

// graphFieldOf: if the write's owner is compose.graph return the field name.
func isGraphOwner(w *World, n *types.Named) bool {
	return n != nil && n == w.Named("compose", "graph")
}

func runC20(w *World, r *Report) {
	graphT := w.Named("compose", "graph")
	fBuildErr := w.Field("compose", "graph", "buildError")
	fCompiled := w.Field("compose", "graph", "compiled")
	addNode := w.Fn("compose", "graph.addNode")
	addEdge := w.Fn("compose", "graph.addEdgeWithMappings")
	addBranch := w.Fn("compose", "graph.addBranch")
	addTV := w.Fn("compose", "graph.addToValidateMap")
	updTV := w.Fn("compose", "graph.updateToValidateMap")
	gcompile := w.Fn("compose", "graph.compile")
	wfcompile := w.Fn("compose", "Workflow.compile")
	chcompile := w.Fn("compose", "Chain.compile")
	entries := []*ssa.Function{addNode, addEdge, addBranch}

	// ---- guards-dominate-writes (a): who may write graph fields
	r.Rule("C20.guards-dominate-writes", "graph builder state is written only in guarded entry functions; both guards dominate every write; post-guard error returns are sticky", 20)
	allowedWriters := map[*ssa.Function]string{
		addNode: "entry", addEdge: "entry", addBranch: "entry", addTV: "helper of entries", updTV: "helper of entries",
		w.Fn("compose", "NewChain"): "constructor: marks the freshly created inner graph as a chain before it is handed out",
		gcompile:                    "sets compiled", wfcompile: "installs static-value handlers before graph.compile (runner gets a copy, see compile-pure)",
	}
	for _, fn := range w.RepoFuncs("compose") {
		for _, fw := range fieldWrites(fn) {
			if fw.owner != graphT || freshBase(fw.base, 0) {
				continue
			}
			top := topFunc(fn)
			_, ok := allowedWriters[top]
			construct := fmt.Sprintf("%s writes graph.%s", w.fname(top), fw.field.Name())
			if top == gcompile && !sameField(fw.field, fCompiled) {
				ok = false
				// the re-entrancy flag of compile (see C20.gates): set on entry, cleared by the deferred reset, read by nobody else
				if rf := compileReentrancyFlag(w); rf != nil && sameField(fw.field, rf) {
					ok = true
				}
			}
			if top == wfcompile && fw.field.Name() != "handlerPreNode" {
				ok = false
				// … or registers a static-values-only node among the mapped nodes: an insert of an EMPTY record under a key
				// that has none yet (idempotent, changes no existing record)
				if mu, isMU := fw.in.(*ssa.MapUpdate); isMU && fw.field.Name() == "fieldMappingRecords" && isNilConst(mu.Value) {
					ok = hasGuard(mu.Block(), func(g guard) bool {
						ex, isEx := g.cond.(*ssa.Extract)
						if !isEx || ex.Index != 1 || g.pol {
							return false
						}
						lk, isLk := ex.Tuple.(*ssa.Lookup)
						return isLk && lk.CommaOk && isLoadOfField(lk.X, fw.field) && sameFieldLoad(lk.Index, mu.Key)
					})
				}
			}
			if top.Name() == "NewChain" && fw.field.Name() != "cmp" {
				ok = false
			}
			// the Workflow layer's sticky-error recorder: writes buildError, and only while it is still nil
			if !ok && sameField(fw.field, fBuildErr) && namedOfRecv(top) == w.Named("compose", "Workflow") {
				ok = hasGuard(fw.in.Block(), func(g guard) bool {
					return guardIsNil(g, func(v ssa.Value) bool { return isLoadOfField(v, fBuildErr) })
				})
				if ok {
					allowedWriters[top] = "records a build error of the Workflow layer while none is recorded yet"
				}
			}
			r.Check(ok, "C20.guards-dominate-writes", construct, fw.in.Pos(), "allowed writer ("+allowedWriters[top]+")", "graph builder state written outside the guarded builder functions")
			if sameField(fw.field, fCompiled) {
				b, isC := constBool(fw.val)
				r.Check(isC && b, "C20.guards-dominate-writes", construct+" (monotone)", fw.in.Pos(), "the compiled flag is only ever set to true", "the compiled flag can be cleared again: a compiled graph becomes modifiable after a later (failed) Compile")
			}
		}
	}
	// helpers are called only from the entries
	for _, h := range []*ssa.Function{addTV, updTV} {
		for _, c := range w.staticCallers(h) {
			top := topFunc(c.Parent())
			ok := top == addEdge || top == addBranch
			r.Check(ok, "C20.guards-dominate-writes", fmt.Sprintf("%s called from %s", h.Name(), w.fname(top)), c.Pos(), "called from a guarded entry", "builder helper called from an unguarded function")
		}
	}
	// (b) guards dominate writes in the entries
	isBuildErrNonNil := func(g guard) bool { // guard meaning buildError == nil holds
		return guardIsNil(g, func(v ssa.Value) bool { return isLoadOfField(v, fBuildErr) })
	}
	isNotCompiled := func(g guard) bool {
		return !g.pol && isLoadOfField(g.cond, fCompiled)
	}
	for _, e := range entries {
		nw := 0
		var bad []string
		check := func(in ssa.Instruction, what string) {
			nw++
			b := in.Block()
			if !hasGuard(b, isBuildErrNonNil) || !hasGuard(b, isNotCompiled) {
				bad = append(bad, fmt.Sprintf("%s at %s", what, w.pos(in.Pos())))
			}
		}
		instrs(e, func(in ssa.Instruction) {
			switch x := in.(type) {
			case *ssa.Store:
				if _, local := x.Addr.(*ssa.Alloc); local {
					return
				}
				check(in, "store "+x.Addr.String())
			case *ssa.MapUpdate:
				check(in, "map update")
			case *ssa.Call:
				if isCallTo(x, addTV, updTV) {
					check(in, "call "+staticCallee(x).Name())
				}
			}
		})
		r.Check(len(bad) == 0 && nw > 0, "C20.guards-dominate-writes", w.fname(e)+": guards dominate all writes", e.Pos(),
			fmt.Sprintf("%d writes, all after `buildError != nil -> return` and `compiled -> ErrGraphCompiled`", nw), "write(s) not dominated by both guards: "+strings.Join(bad, "; "))
		// the compiled guard returns ErrGraphCompiled
		egc := w.GlobalVar("compose", "ErrGraphCompiled")
		retGC := false
		instrs(e, func(in ssa.Instruction) {
			if ret, ok := in.(*ssa.Return); ok && len(ret.Results) > 0 {
				if u, ok := returnedValue(ret, len(ret.Results)-1).(*ssa.UnOp); ok {
					if g, ok := u.X.(*ssa.Global); ok && g.Object() == types.Object(egc) {
						retGC = true
					}
				}
			}
		})
		r.Check(retGC, "C20.guards-dominate-writes", w.fname(e)+": compiled graph rejects with ErrGraphCompiled", e.Pos(), "returns ErrGraphCompiled", "no ErrGraphCompiled return")
		// (c) sticky: the defer stores err into buildError; every return not dominated by the defer returns one of the guard values
		var d *ssa.Defer
		for dd, lit := range deferredFuncs(e) {
			if lit == nil {
				continue
			}
			for _, fw := range fieldWrites(lit) {
				if sameField(fw.field, fBuildErr) {
					d = dd
				}
			}
		}
		if d == nil {
			r.Fail("C20.guards-dominate-writes", w.fname(e)+": sticky error setter", e.Pos(), "no deferred literal stores the returned error into graph.buildError: the first error does not stick")
			continue
		}
		var unsticky []string
		instrs(e, func(in ssa.Instruction) {
			ret, ok := in.(*ssa.Return)
			if !ok || instrDominates(d, ret) || ret.Block() == e.Recover {
				return
			}
			v := returnedValue(ret, len(ret.Results)-1)
			if isNilConst(v) || isLoadOfField(v, fBuildErr) {
				return
			}
			if u, ok := v.(*ssa.UnOp); ok {
				if g, ok := u.X.(*ssa.Global); ok && g.Object() == types.Object(egc) {
					return
				}
			}
			// frozen exception: addEdgeWithMappings' noControl && noData argument check (no caller passes (true,true))
			if e == addEdge {
				gs := guardsOf(ret.Block())
				np := 0
				for _, g := range gs {
					if p, ok := g.cond.(*ssa.Parameter); ok && g.pol && types.Identical(p.Type(), types.Typ[types.Bool]) {
						np++
					}
				}
				if np == 2 {
					return
				}
			}
			unsticky = append(unsticky, w.pos(ret.Pos()))
		})
		r.Check(len(unsticky) == 0, "C20.guards-dominate-writes", w.fname(e)+": error returns are sticky", d.Pos(), "every error return after the guards runs the deferred buildError setter", "error return(s) before the sticky setter is installed (the error is reported once and forgotten): "+strings.Join(unsticky, ", "))
	}
	// the frozen exception's side condition: no caller passes (noControl=true, noData=true)
	for _, c := range w.staticCallers(addEdge) {
		a := c.Common().Args
		b1, ok1 := constBool(a[3])
		b2, ok2 := constBool(a[4])
		r.Check(ok1 && ok2 && !(b1 && b2), "C20.guards-dominate-writes", "caller of addEdgeWithMappings in "+w.fname(topFunc(c.Parent())), c.Pos(), fmt.Sprintf("constant flags (%v,%v)", b1, b2), "addEdgeWithMappings called with non-constant or (true,true) flags: the un-sticky argument error becomes reachable")
	}

	// ---- compile-pure
	r.Rule("C20.compile-pure", "no compile function writes a graph field whose storage the compiled runner aliases", 3)
	aliased := map[string]token.Pos{}
	var graphFieldRoot func(v ssa.Value, d int) *types.Var
	graphFieldRoot = func(v ssa.Value, d int) *types.Var {
		if d > 8 {
			return nil
		}
		if f, base := loadedField(v); f != nil && namedOf(base.Type()) == graphT {
			return f
		}
		switch x := v.(type) {
		case *ssa.Lookup:
			return graphFieldRoot(x.X, d+1)
		case *ssa.Slice:
			return graphFieldRoot(x.X, d+1)
		case *ssa.Extract:
			return graphFieldRoot(x.Tuple, d+1)
		case *ssa.ChangeType:
			return graphFieldRoot(x.X, d+1)
		}
		return nil
	}
	instrs(gcompile, func(in ssa.Instruction) {
		st, ok := in.(*ssa.Store)
		if !ok {
			return
		}
		fa, ok := st.Addr.(*ssa.FieldAddr)
		if !ok || !freshBase(fa.X, 0) {
			return
		}
		if f := graphFieldRoot(st.Val, 0); f != nil {
			switch f.Type().Underlying().(type) {
			case *types.Map, *types.Slice:
				aliased[f.Name()] = st.Pos()
			}
		}
	})
	var an []string
	for k := range aliased {
		an = append(an, k)
	}
	sort.Strings(an)
	r.Notes = append(r.Notes, "graph fields aliased by the compiled runner (computed from graph.compile): "+strings.Join(an, ", "))
	if len(aliased) < 3 {
		undecidedf("C20.compile-pure: only %d aliased graph fields found in graph.compile (floor 3)", len(aliased))
	}
	// compile family: static callees of the three compile functions inside compose, not entering the guarded entries
	family := map[*ssa.Function]bool{}
	var walk func(f *ssa.Function)
	walk = func(f *ssa.Function) {
		if f == nil || family[f] || f.Blocks == nil || !w.inRepo(f) {
			return
		}
		if f == addNode || f == addEdge || f == addBranch {
			return
		}
		family[f] = true
		for _, a := range f.AnonFuncs {
			walk(a)
		}
		instrs(f, func(in ssa.Instruction) {
			if c, ok := in.(ssa.CallInstruction); ok {
				walk(staticCallee(c))
			}
		})
	}
	walk(gcompile)
	walk(wfcompile)
	walk(chcompile)
	nfam := 0
	for f := range family {
		nfam++
		for _, fw := range fieldWrites(f) {
			if fw.owner != graphT || freshBase(fw.base, 0) {
				continue
			}
			_, isAl := aliased[fw.field.Name()]
			construct := fmt.Sprintf("%s writes graph.%s", w.fname(topFunc(f)), fw.field.Name())
			r.Check(!isAl, "C20.compile-pure", construct, fw.in.Pos(), "field is not aliased by a compiled runner", "compile mutates storage that a previously compiled runner aliases: a later Compile attempt changes an already compiled runnable")
		}
	}
	r.Notes = append(r.Notes, fmt.Sprintf("compile family: %d functions", nfam))

	// ---- gates
	r.Rule("C20.node-options-not-rewritten", "Compile leaves the compile options stored with a node alone (shared with C01.nested-options-own): the same construction compiled twice, or the same nested graph in two parents, gives the same nested runnable", 6)
	compileOptionsOwned(w, r, "C20.node-options-not-rewritten")

	r.Rule("C20.gates", "each compile-time validation blocks the success return of graph.compile", 6)
	var success []*ssa.Return
	instrs(gcompile, func(in ssa.Instruction) {
		if ret, ok := in.(*ssa.Return); ok && ret.Block() != gcompile.Recover && isNilConst(returnedValue(ret, 1)) {
			success = append(success, ret)
		}
	})
	if len(success) != 1 {
		undecidedf("C20.gates: expected one success return in graph.compile, found %d", len(success))
	}
	isSuccess := func(in ssa.Instruction) bool { return in == ssa.Instruction(success[0]) }
	// helper: an If on cond satisfying pred whose "bad" arm cannot reach success, and which lies on every path to success
	gate := func(name string, pred func(iff *ssa.If) (badSucc int, ok bool)) {
		found := false
		var gateIfs []*ssa.If
		instrs(gcompile, func(in ssa.Instruction) {
			iff, ok := in.(*ssa.If)
			if !ok {
				return
			}
			bad, ok := pred(iff)
			if !ok {
				return
			}
			found = true
			gateIfs = append(gateIfs, iff)
			reach, wit := pathFromBlock(pathQuery{fn: gcompile, goal: isSuccess}, iff.Block().Succs[bad])
			r.Check(!reach, "C20.gates", "graph.compile gate: "+name, iff.Pos(), "failing arm cannot reach the success return", "compile can succeed although the check failed: "+wit)
		})
		if !found {
			r.Fail("C20.gates", "graph.compile gate: "+name, gcompile.Pos(), "validation not found in compile")
			return
		}
	}
	lenFieldIsZero := func(fieldName string) func(iff *ssa.If) (int, bool) {
		f := w.Field("compose", "graph", fieldName)
		return func(iff *ssa.If) (int, bool) {
			op, x, y, ok := asCmp(iff.Cond)
			if !ok || !isConstN(y, 0) || !isLenOf(x, func(v ssa.Value) bool { return isLoadOfField(v, f) }) {
				return 0, false
			}
			if op == token.EQL {
				return 0, true
			}
			if op == token.NEQ || op == token.GTR {
				return 1, true
			}
			return 0, false
		}
	}
	gate("sticky build error", func(iff *ssa.If) (int, bool) {
		op, x, y, ok := asCmp(iff.Cond)
		if ok && isLoadOfField(x, fBuildErr) && isNilConst(y) {
			if op == token.NEQ {
				return 0, true
			}
			return 1, true
		}
		return 0, false
	})
	gate("start node set", lenFieldIsZero("startNodes"))
	gate("end node set", lenFieldIsZero("endNodes"))
	// unresolved types: range over toValidateMap, len(v) > 0 -> error
	tvm := w.Field("compose", "graph", "toValidateMap")
	gate("unresolved passthrough types", func(iff *ssa.If) (int, bool) {
		op, x, y, ok := asCmp(iff.Cond)
		if !ok || !isConstN(y, 0) {
			return 0, false
		}
		fromTVM := isLenOf(x, func(v ssa.Value) bool {
			e, ok := v.(*ssa.Extract)
			if !ok {
				return false
			}
			n, ok := e.Tuple.(*ssa.Next)
			if !ok {
				return false
			}
			rg, ok := n.Iter.(*ssa.Range)
			return ok && isLoadOfField(rg.X, tvm)
		})
		if !fromTVM {
			return 0, false
		}
		if op == token.GTR || op == token.NEQ {
			return 0, true
		}
		return 1, true
	})
	// duplicate mapping targets: comma-ok lookup in a local map keyed by mapping.to
	fmTo := w.Field("compose", "FieldMapping", "to")
	gate("duplicate mapping target", func(iff *ssa.If) (int, bool) {
		e, ok := iff.Cond.(*ssa.Extract)
		if !ok || e.Index != 1 {
			return 0, false
		}
		lk, ok := e.Tuple.(*ssa.Lookup)
		if !ok || !lk.CommaOk || !isLoadOfField(lk.Index, fmTo) {
			return 0, false
		}
		return 0, true
	})
	// DAG validation: the store r.dag = true is preceded by validateDAG whose error blocks success
	vdag := w.Fn("compose", "validateDAG")
	fdag := w.Field("compose", "runner", "dag")
	{
		vcalls := callsTo(gcompile, vdag)
		var dagStores []*ssa.Store
		instrs(gcompile, func(in ssa.Instruction) {
			if st, ok := in.(*ssa.Store); ok {
				if fa, ok := st.Addr.(*ssa.FieldAddr); ok && sameField(fieldVarOfAddr(fa), fdag) {
					dagStores = append(dagStores, st)
				}
			}
		})
		okd := len(vcalls) == 1 && len(dagStores) == 1
		if okd {
			reach, _ := pathQuery{fn: gcompile, goal: func(in ssa.Instruction) bool { return in == ssa.Instruction(dagStores[0]) }, avoid: func(in ssa.Instruction) bool { return in == ssa.Instruction(vcalls[0]) }}.exists()
			okd = !reach
		}
		r.Check(okd, "C20.gates", "graph.compile gate: DAG mode only after validateDAG", gcompile.Pos(), "r.dag = true is reachable only through validateDAG", "all-predecessor mode is enabled without cycle validation")
		// a graph met again while it is being compiled is nested in itself: an error, not an endless descent
		{
			rf := compileReentrancyFlag(w)
			r.Check(rf != nil, "C20.gates", "graph.compile gate: a graph nested in itself is rejected", gcompile.Pos(), "compile holds a flag on the graph while it runs (set before the nested graphs are compiled, cleared by a deferred reset) and returns an error when it finds it set",
				"graph.compile descends into the graphs nested in it without noticing that it has come back to itself: g.AddGraphNode(\"self\", g) (or g in h in g) is accepted and Compile dies with 'fatal error: stack overflow', which no caller can recover")
			if rf != nil {
				gateIdx := func(iff *ssa.If) (int, bool) {
					if isLoadOfField(iff.Cond, rf) {
						return 0, true
					}
					return 0, false
				}
				gate("graph nested in itself", gateIdx)
			}
		}
		// an unknown trigger mode is refused (a Chain / Workflow refuses any mode, a Graph must refuse what it does not know)
		{
			fMode := w.Field("compose", "graphCompileOptions", "nodeTriggerMode")
			okm := false
			instrs(gcompile, func(in ssa.Instruction) {
				ret, ok := in.(*ssa.Return)
				if !ok || len(ret.Results) != 2 || isNilConst(returnedValue(ret, 1)) {
					return
				}
				seenConst := map[string]bool{}
				for _, g := range guardsOf(ret.Block()) {
					op, x, y, ok := asCmp(g.cond)
					if !ok || !((op == token.NEQ && g.pol) || (op == token.EQL && !g.pol)) || !isLoadOfField(x, fMode) {
						continue
					}
					if c, ok := y.(*ssa.Const); ok && c.Value != nil {
						seenConst[c.Value.ExactString()] = true
					}
				}
				if seenConst[`"any_predecessor"`] && seenConst[`"all_predecessor"`] {
					okm = true
				}
			})
			r.Check(okm, "C20.gates", "graph.compile gate: unknown node trigger mode rejected", gcompile.Pos(), "an error return under mode != AnyPredecessor && mode != AllPredecessor (&& mode != \"\")", "WithNodeTriggerMode(\"no_such_mode\") compiles and silently runs as AnyPredecessor: a mistyped AllPredecessor gives a graph with different join semantics instead of an error")
		}
		// … and validateDAG follows data edges too: a node of an all-predecessor graph waits for its data predecessors as
		// well, so a loop closed by a data-only edge (WithNoDirectDependency) is a dead graph that must not compile
		{
			fWriteTo := w.Field("compose", "chanCall", "writeTo")
			fDataEdges := w.Field("compose", "graph", "dataEdges")
			followsData := false
			for _, li := range naturalLoops(vdag) {
				overWriteTo, decr := false, false
				for b := range li.body {
					for _, in := range b.Instrs {
						switch x := in.(type) {
						case *ssa.IndexAddr:
							if isLoadOfField(x.X, fWriteTo) {
								overWriteTo = true
							}
						case *ssa.MapUpdate:
							if bo, ok := x.Value.(*ssa.BinOp); ok && bo.Op == token.SUB {
								decr = true
							}
						}
					}
				}
				if overWriteTo && decr {
					followsData = true
				}
			}
			passesData := false
			if len(vcalls) == 1 {
				for _, a := range vcalls[0].Common().Args {
					mk, ok := a.(*ssa.MakeMap)
					if !ok {
						continue
					}
					for _, ref := range *mk.Referrers() {
						mu, ok := ref.(*ssa.MapUpdate)
						if !ok {
							continue
						}
						for _, li := range naturalLoops(gcompile) {
							if !li.body[mu.Block()] {
								continue
							}
							for _, in := range li.header.Instrs {
								if nx, ok := in.(*ssa.Next); ok {
									if rg, ok := nx.Iter.(*ssa.Range); ok && isLoadOfField(rg.X, fDataEdges) {
										passesData = true
									}
								}
							}
						}
					}
				}
			}
			r.Check(followsData && passesData, "C20.gates", "validateDAG follows data edges as well as control edges", vdag.Pos(), "called with the data-predecessor table built from g.dataEdges; takes a finished node off its writeTo successors",
				fmt.Sprintf("cycle validation looks at control edges and branches only (data table passed: %v, writeTo followed: %v): a Workflow whose loop is closed by a data-only edge (AddInputWithOptions(…, WithNoDirectDependency()) against the direction of the control edges) compiles and every Invoke fails at once with 'no tasks to execute' — an ill-formed construction the documentation of WithNoDirectDependency itself calls invalid", passesData, followsData))
		}
		if len(vcalls) == 1 {
			gate("validateDAG error", func(iff *ssa.If) (int, bool) {
				op, x, y, ok := asCmp(iff.Cond)
				if ok && x == vcalls[0].(ssa.Value) && isNilConst(y) {
					if op == token.NEQ {
						return 0, true
					}
					return 1, true
				}
				return 0, false
			})
		}
		// a step limit is rejected whenever the runner is in DAG mode — whichever way that mode was selected
		// (AllPredecessor option or Workflow): the rejecting gate must test the runner's mode itself
		if len(dagStores) == 1 {
			var modeConds []ssa.Value
			for _, g := range guardsOf(dagStores[0].Block()) {
				if g.pol {
					modeConds = append(modeConds, g.cond)
				}
			}
			isMode := func(g guard) bool {
				if !g.pol {
					return false
				}
				if isLoadOfField(g.cond, fdag) {
					return true
				}
				for _, mc := range modeConds {
					if g.cond == mc {
						return true
					}
					op1, x1, y1, ok1 := asCmp(g.cond)
					op2, x2, y2, ok2 := asCmp(mc)
					if ok1 && ok2 && op1 == op2 && x1 == x2 && sameKeyExpr(y1, y2) {
						return true
					}
				}
				return false
			}
			fMax := w.Field("compose", "graphCompileOptions", "maxRunSteps")
			nGate := 0
			var gateIf *ssa.If
			instrs(gcompile, func(in ssa.Instruction) {
				iff, ok := in.(*ssa.If)
				if !ok {
					return
				}
				op, x, y, ok := asCmp(iff.Cond)
				if !ok || !isLoadOfField(x, fMax) || !isConstN(y, 0) || !(op == token.GTR || op == token.NEQ) {
					return
				}
				if !hasGuard(iff.Block(), isMode) {
					return
				}
				reach, _ := pathFromBlock(pathQuery{fn: gcompile, goal: isSuccess}, iff.Block().Succs[0])
				if !reach {
					nGate++
					gateIf = iff
				}
			})
			okg := nGate >= 1
			det := "no gate `runner in DAG mode && maxRunSteps > 0 -> error` found: the rejection does not test the runner's own mode"
			if okg {
				// every path to success passes the mode test that guards the gate
				var modeIf *ssa.If
				for _, g := range guardsOf(gateIf.Block()) {
					if isMode(g) {
						modeIf = g.at
					}
				}
				if modeIf == nil || !instrDominates(modeIf, success[0]) {
					okg, det = false, "the DAG-mode step-limit gate can be bypassed on some path to the success return"
				}
			}
			r.Check(okg, "C20.gates", "graph.compile gate: step limit rejected in DAG mode", gcompile.Pos(), "if r.dag && maxRunSteps > 0 -> error, on every path to success", det+": a Workflow (always DAG) compiled with WithMaxRunSteps is accepted and the limit silently ignored")
			// a limit the run loop refuses on every call (maxSteps < 1) is refused when it is given: a negative compile-time
			// limit is an error of Compile, not of each run
			negGate := false
			instrs(gcompile, func(in ssa.Instruction) {
				iff, ok := in.(*ssa.If)
				if !ok {
					return
				}
				op, x, y, ok := asCmp(iff.Cond)
				if !ok || !isLoadOfField(x, fMax) || !isConstN(y, 0) || op != token.LSS {
					return
				}
				if reach, _ := pathFromBlock(pathQuery{fn: gcompile, goal: isSuccess}, iff.Block().Succs[0]); !reach {
					negGate = true
				}
			})
			r.Check(negGate, "C20.gates", "graph.compile gate: a negative step limit is rejected", gcompile.Pos(), "if maxRunSteps < 0 -> error", "Compile(ctx, WithMaxRunSteps(-3)) succeeds and returns a runnable every run of which fails 'max run steps limit must be at least 1': an invalid option value is accepted at Compile")
		}
		// validateDAG counts len(predecessors) and decrements once per edge / branch target: the predecessor tables must
		// hold one entry per edge (a multiset) — each loop over the edge tables appends unconditionally
		{
			nUpd, bad := 0, ""
			var mustUpdate func(f *ssa.Function, isTarget func(*ssa.MapUpdate) bool) bool
			mustUpdate = func(f *ssa.Function, isTarget func(*ssa.MapUpdate) bool) bool {
				skip, _ := pathQuery{fn: f, from: f.Blocks[0].Instrs[0], goal: isReturn, avoid: func(in ssa.Instruction) bool {
					mu, ok := in.(*ssa.MapUpdate)
					return ok && isTarget(mu)
				}}.exists()
				return !skip
			}
			for _, f := range withAnons(gcompile) {
				instrs(f, func(in ssa.Instruction) {
					mu, ok := in.(*ssa.MapUpdate)
					if !ok {
						return
					}
					mt, ok := mu.Map.Type().Underlying().(*types.Map)
					if !ok {
						return
					}
					if sl, ok := mt.Elem().Underlying().(*types.Slice); !ok || !types.Identical(sl.Elem(), types.Typ[types.String]) {
						return
					}
					// the value is an append / a fresh one-element slice: a predecessor-table style update
					if f == gcompile {
						if _, isMk := mu.Map.(*ssa.MakeMap); !isMk {
							return
						}
						nUpd++
						return
					}
					// inside a literal of compile: the literal must update on every path (no dedup / early return)
					nUpd++
					if !mustUpdate(f, func(m2 *ssa.MapUpdate) bool { return m2.Map == mu.Map }) {
						bad = w.fname(f) + " can return without recording the predecessor"
					}
				})
			}
			// in compile itself: a dominating equality scan over the existing entries (dedup) guards no append
			instrs(gcompile, func(in ssa.Instruction) {
				mu, ok := in.(*ssa.MapUpdate)
				if !ok {
					return
				}
				if _, isMk := mu.Map.(*ssa.MakeMap); !isMk {
					return
				}
				for _, g := range guardsOf(mu.Block()) {
					if op, x, y, ok := asCmp(g.cond); ok && (op == token.EQL || op == token.NEQ) {
						if _, isStr := x.Type().Underlying().(*types.Basic); isStr && types.Identical(x.Type(), types.Typ[types.String]) && types.Identical(y.Type(), types.Typ[types.String]) {
							if _, c1 := x.(*ssa.Const); !c1 {
								if _, c2 := y.(*ssa.Const); !c2 {
									bad = "a predecessor-table append in compile is guarded by a comparison of two keys (de-duplication)"
								}
							}
						}
					}
				}
			})
			r.Check(nUpd >= 4 && bad == "", "C20.gates", "graph.compile: predecessor tables hold one entry per edge", gcompile.Pos(), fmt.Sprintf("%d unconditional table updates", nUpd),
				fmt.Sprintf("the predecessor tables are not a per-edge multiset any more (%s; %d updates): validateDAG still decrements once per edge and per branch target, so a node reached both by an edge and as a branch target is decremented below its count — a cycle behind it is accepted in all-predecessor mode (or an acyclic graph rejected)", bad, nUpd))
		}
		// DAG channel builder chosen => r.dag set: both controlled by the same runType value
		r.Check(len(dagStores) == 1, "C20.gates", "graph.compile: single site sets runner.dag", gcompile.Pos(), "one store", "runner.dag set at several places")
	}

	// every node has a resolved type by the time compile reads its helper: a pass-through node that never got a data
	// edge has a nil *genericHelper, and compile reads promoted fields through it
	gate("pass-through node without a data edge", func(iff *ssa.If) (int, bool) {
		op, x, y, ok := asCmp(iff.Cond)
		if !ok || !isNilConst(y) {
			return 0, false
		}
		f, _ := loadedField(x)
		if f == nil || f.Name() != "genericHelper" {
			return 0, false
		}
		if op == token.EQL {
			return 0, true
		}
		return 1, true
	})

	// ---- Workflow.compile applies the deferred declarations exactly once
	r.Rule("C20.workflow-error-sticks", "Workflow.compile: an error returned after it has started to apply deferred declarations (a replayed input, a registered path) is first recorded in the inner graph's buildError — the applied part stays applied, so only a sticky error makes the next Compile report the same reason instead of tripping over the leftovers", 2)
	{
		wfc := w.Fn("compose", "Workflow.compile")
		fBE := w.Field("compose", "graph", "buildError")
		gcomp := w.Fn("compose", "graph.compile")
		capm := w.Fn("compose", "WorkflowNode.checkAndAddMappedPath")
		var applying []ssa.Instruction
		instrs(wfc, func(in ssa.Instruction) {
			c, ok := in.(*ssa.Call)
			if !ok {
				return
			}
			if isCallTo(c, capm) {
				applying = append(applying, c)
				return
			}
			// a deferred input being replayed: a dynamic call of a func() error value
			if c.Call.IsInvoke() || staticCallee(c) != nil {
				return
			}
			if _, isB := c.Call.Value.(*ssa.Builtin); isB {
				return
			}
			if sig, ok := c.Call.Value.Type().Underlying().(*types.Signature); ok && sig.Params().Len() == 0 && sig.Results().Len() == 1 {
				applying = append(applying, c)
			}
		})
		if len(applying) < 2 {
			undecidedf("C20.workflow-error-sticks: %d applying calls found in Workflow.compile (replayed inputs, checkAndAddMappedPath)", len(applying))
		}
		isBEStore := func(in ssa.Instruction) bool {
			st, ok := in.(*ssa.Store)
			if !ok {
				return false
			}
			fa, ok := st.Addr.(*ssa.FieldAddr)
			return ok && sameField(fieldVarOfAddr(fa), fBE)
		}
		// … directly or through a recorder: a module function that stores into buildError under buildError == nil
		directBEStore := isBEStore
		isRecorder := func(fn *ssa.Function) bool {
			if fn == nil || fn.Blocks == nil {
				return false
			}
			ok := false
			instrs(fn, func(x ssa.Instruction) {
				if directBEStore(x) && hasGuard(x.Block(), func(g guard) bool {
					return guardIsNil(g, func(v ssa.Value) bool { return isLoadOfField(v, fBE) })
				}) {
					ok = true
				}
			})
			return ok
		}
		isBEStore = func(in ssa.Instruction) bool {
			if directBEStore(in) {
				return true
			}
			if c, ok := in.(ssa.CallInstruction); ok {
				return isRecorder(staticCallee(c))
			}
			return false
		}
		nret := 0
		instrs(wfc, func(in ssa.Instruction) {
			ret, ok := in.(*ssa.Return)
			if !ok || len(ret.Results) != 2 || isNilConst(ret.Results[1]) {
				return
			}
			e := ret.Results[1]
			if ex, ok := e.(*ssa.Extract); ok {
				if c, ok := ex.Tuple.(*ssa.Call); ok && isCallTo(c, gcomp) {
					return // graph.compile's own verdict
				}
			}
			if isLoadOfField(e, fBE) {
				return
			}
			for _, a := range applying {
				if reach, _ := (pathQuery{fn: wfc, from: a, goal: func(x ssa.Instruction) bool { return x == ssa.Instruction(ret) }}).exists(); !reach {
					continue
				}
				nret++
				skip, wit := pathQuery{fn: wfc, from: a, goal: func(x ssa.Instruction) bool { return x == ssa.Instruction(ret) }, avoid: isBEStore}.exists()
				r.Check(!skip, "C20.workflow-error-sticks", fmt.Sprintf("Workflow.compile: error return at %s after %s is sticky", w.pos(ret.Pos()), w.pos(a.Pos())), ret.Pos(), "g.buildError is written on every path from the applying call to the return",
					"Compile returns an error after part of the node's deferred inputs were applied, without recording it: the next Compile (nothing changed in between) replays the inputs against their own leftovers and reports a different reason ('two terminal field paths conflict', 'control edge … have been added yet') — the first error is lost and the same construction sequence gives different outcomes: "+wit)
				return
			}
		})
		if nret == 0 {
			r.Deferred = append(r.Deferred, fmt.Sprintf("C20.workflow-error-sticks: no error return of Workflow.compile lies behind an applying call"))
		}
	}

	r.Rule("C20.inference-runs-to-a-fixpoint", "updateToValidateMap repeats its scan while a scan changed something: the flag its outer loop is left on can become true inside the scan (a scan that types a pass-through node may make edges scanned earlier decidable — with the flag stuck at false how far types propagate depends on Go's map iteration order, and the same construction sometimes compiles and sometimes fails with 'types cannot be inferred')", 1)
	{
		utv := w.Fn("compose", "graph.updateToValidateMap")
		var outer *loopInfo
		for _, li := range naturalLoops(utv) {
			li := li
			if outer == nil || len(li.body) > len(outer.body) {
				outer = &li
			}
		}
		if outer == nil {
			undecidedf("C20.inference-runs-to-a-fixpoint: updateToValidateMap has no loop")
		}
		// the exit test of the outer loop: an If on a bool (or its negation) one of whose arms leaves the loop
		found, canBeTrue := false, false
		for b := range outer.body {
			if len(b.Instrs) == 0 {
				continue
			}
			iff, ok := b.Instrs[len(b.Instrs)-1].(*ssa.If)
			if !ok || (outer.body[b.Succs[0]] && outer.body[b.Succs[1]]) {
				continue
			}
			v := iff.Cond
			if u, ok := v.(*ssa.UnOp); ok && u.Op == token.NOT {
				v = u.X
			}
			if bt, ok := v.Type().Underlying().(*types.Basic); !ok || bt.Kind() != types.Bool {
				continue
			}
			_, isPhi := v.(*ssa.Phi)
			_, isConst := v.(*ssa.Const)
			if !isPhi && !isConst {
				continue
			}
			found = true
			seen := map[ssa.Value]bool{}
			var walk func(v ssa.Value)
			walk = func(v ssa.Value) {
				if seen[v] {
					return
				}
				seen[v] = true
				switch x := v.(type) {
				case *ssa.Phi:
					for _, e := range x.Edges {
						walk(e)
					}
				case *ssa.Const:
					if bv, ok := constBool(x); ok && bv {
						canBeTrue = true
					}
				default:
					canBeTrue = true // computed: not stuck at a constant
				}
			}
			walk(v)
		}
		if !found {
			undecidedf("C20.inference-runs-to-a-fixpoint: no boolean exit test found on the outer loop of updateToValidateMap")
		}
		r.Check(canBeTrue, "C20.inference-runs-to-a-fixpoint", "updateToValidateMap: the repeat flag can be set", utv.Pos(), "the value the outer loop is left on takes `true` on some edge", "the flag the outer loop tests is false on every edge: the repeat-until-stable loop always stops after one scan of toValidateMap, so three pass-through nodes linked to each other before any of them touches a typed node are typed or not depending on map iteration order — AddEdge(p1,p2), AddEdge(p2,p3), AddEdge(p3,END), AddEdge(START,p1), Compile fails about six times in ten")
	}

	r.Rule("C20.workflow-nil-branch", "Workflow.compile reads through a deferred branch (its end nodes, promoted through the embedded *GraphBranch) only behind a nil test of that pointer: AddBranch(from, nil) is an error of Compile like Graph.AddBranch(nil) is an error, never a nil dereference", 1)
	{
		wfc := w.Fn("compose", "Workflow.compile")
		fGB := w.Field("compose", "WorkflowBranch", "GraphBranch")
		n, bad := 0, 0
		var at token.Pos
		instrs(wfc, func(in ssa.Instruction) {
			fa, ok := in.(*ssa.FieldAddr)
			if !ok || !isLoadOfField(fa.X, fGB) {
				return
			}
			n++
			if hasGuard(fa.Block(), func(g guard) bool { return guardNonNil(g, func(v ssa.Value) bool { return isLoadOfField(v, fGB) }) }) {
				return
			}
			// … or behind a completed validation pass: a loop over the deferred branches that returns an error on a nil
			// one has been left through its header (exhausted) before this block is reached
			for _, li := range naturalLoops(wfc) {
				validates := false
				for b := range li.body {
					if len(b.Instrs) == 0 {
						continue
					}
					iff, ok := b.Instrs[len(b.Instrs)-1].(*ssa.If)
					if !ok {
						continue
					}
					op, x, y, ok := asCmp(iff.Cond)
					if !ok || !isNilConst(y) || !isLoadOfField(x, fGB) {
						continue
					}
					nilSucc := b.Succs[0]
					if op == token.NEQ {
						nilSucc = b.Succs[1]
					}
					if reach, _ := pathFromBlock(pathQuery{fn: wfc, goal: func(x ssa.Instruction) bool {
						ret, ok := x.(*ssa.Return)
						return ok && len(ret.Results) == 2 && !isNilConst(ret.Results[1])
					}, avoidEdge: func(_, to *ssa.BasicBlock) bool { return li.body[to] }}, nilSucc); reach {
						validates = true
					}
				}
				if !validates || li.body[fa.Block()] {
					continue
				}
				for _, ex := range li.header.Succs {
					if !li.body[ex] && (ex == fa.Block() || ex.Dominates(fa.Block())) {
						return
					}
				}
			}
			bad++
			at = fa.Pos()
		})
		if n == 0 {
			undecidedf("C20.workflow-nil-branch: Workflow.compile does not read through WorkflowBranch.GraphBranch")
		}
		r.Check(bad == 0, "C20.workflow-nil-branch", "Workflow.compile: deferred branches are read behind a nil test", wfc.Pos(), fmt.Sprintf("%d reads through the embedded *GraphBranch, all under != nil", n), fmt.Sprintf("%d of %d reads through the embedded *GraphBranch (first at %s) are not dominated by a nil test: Workflow.AddBranch(from, nil) makes Compile panic with a nil pointer dereference in its own validation loop, before the inner graph — which refuses a nil branch with an error — ever sees it", bad, n, w.pos(at)))
	}

	r.Rule("C20.workflow-compile-once", "Workflow.compile: branch end nodes are validated before any branch is pushed into the inner graph; every container of deferred declarations (inputs, branches, static values) is reset once applied; pending declarations on an already compiled workflow are ErrGraphCompiled", 5)
	{
		wfc := w.Fn("compose", "Workflow.compile")
		// (a) no path from an addBranch call to the unknown-end-node error return
		var unknownRet []ssa.Instruction
		instrs(wfc, func(in ssa.Instruction) {
			ret, ok := in.(*ssa.Return)
			if !ok || isNilConst(ret.Results[1]) {
				return
			}
			// the error built by fmt.Errorf on the miss arm of workflowNodes[endNode]
			if hasGuard(ret.Block(), func(g guard) bool {
				e, ok := g.cond.(*ssa.Extract)
				if !ok || e.Index != 1 || g.pol {
					return false
				}
				lk, ok := e.Tuple.(*ssa.Lookup)
				if !ok || !lk.CommaOk {
					return false
				}
				f, _ := loadedField(lk.X)
				return f != nil && f.Name() == "workflowNodes"
			}) {
				unknownRet = append(unknownRet, ret)
			}
		})
		abs := callsTo(wfc, addBranch)
		okFirst := len(unknownRet) > 0 && len(abs) > 0
		for _, ab := range abs {
			for _, ur := range unknownRet {
				if again, _ := (pathQuery{fn: wfc, from: ab, goal: func(in ssa.Instruction) bool { return in == ur }}).exists(); again {
					okFirst = false
				}
			}
		}
		r.Check(okFirst, "C20.workflow-compile-once", "Workflow.compile validates all branch end nodes before pushing a branch", wfc.Pos(), "the unknown-end-node error cannot follow an addBranch call", "a Compile that fails on a later branch's unknown end node has already pushed the earlier branches into the inner graph, and the error is not sticky: after the missing node is added, Compile succeeds with each earlier branch present once per attempt (its condition runs several times per run)")
		// (b) containers reset
		wfT := w.Named("compose", "Workflow")
		wnT := w.Named("compose", "WorkflowNode")
		reset := map[string]bool{}
		for _, fw := range fieldWrites(wfc) {
			if (fw.owner == wfT && fw.field.Name() == "workflowBranches") || (fw.owner == wnT && (fw.field.Name() == "addInputs" || fw.field.Name() == "staticValues")) {
				reset[fw.field.Name()] = true
			}
		}
		for _, f := range []string{"addInputs", "workflowBranches", "staticValues"} {
			r.Check(reset[f], "C20.workflow-compile-once", "Workflow.compile resets "+f+" after applying it", wfc.Pos(), "the container is cleared in compile", "the deferred "+f+" are applied again by every Compile: a second Compile of the unchanged workflow fails ('two terminal field paths conflict') or doubles branches / handlers — repeated compilation does not give the same outcome")
		}
		// (b') used to demand that the reset FOLLOWS the loop that applies the elements: a reset in front of it forgot, on an
		// error return from that loop, the declarations not reached yet, and the next Compile succeeded without them. Since
		// fix 3f13e47 every such error is sticky (C20.workflow-error-sticks decides that), so no later Compile gets past it
		// and where the reset stands is immaterial; the clause was retired (seed C20-k: seeded/_superseded).
		// (b'') the replay order is fixed: the inner graph infers pass-through types from the first edge it is shown and
		// keeps the first error, so replaying deferred declarations while ranging over a Go map makes the outcome of Compile
		// depend on the iteration order. No range-over-map loop in Workflow.compile calls a deferred declaration (a func
		// value) or one of the inner graph's Add* functions.
		{
			orderSensitive := map[*ssa.Function]bool{}
			for _, n := range []string{"graph.addEdgeWithMappings", "graph.addBranch", "graph.addNode"} {
				orderSensitive[w.Fn("compose", n)] = true
			}
			nl := 0
			for _, li := range mapRangeLoops(wfc) {
				nl++
				bad := ""
				for b := range li.body {
					for _, in := range b.Instrs {
						c, ok := in.(*ssa.Call)
						if !ok {
							continue
						}
						if _, isB := c.Call.Value.(*ssa.Builtin); isB {
							continue
						}
						sc := staticCallee(c)
						if sc == nil && !c.Call.IsInvoke() {
							// a deferred declaration: func() error (setters like dependencySetter write a map by key: order-free)
							if sig, ok := c.Call.Value.Type().Underlying().(*types.Signature); ok && sig.Params().Len() == 0 && sig.Results().Len() == 1 && isErrorType(sig.Results().At(0).Type()) {
								bad = "a deferred declaration (func() error) is called at " + w.pos(c.Pos())
							}
						}
						if sc != nil && orderSensitive[origin(sc)] {
							bad = sc.Name() + " is called at " + w.pos(c.Pos())
						}
					}
				}
				r.Check(bad == "", "C20.workflow-compile-once", "Workflow.compile: "+li.what+" does not replay declarations in map order", li.pos, "no order-sensitive call inside a range over a map", bad+" while ranging over a map: whether the same declarations compile depends on Go's random iteration order (a pass-through node fed through a field mapping is typed from whichever edge is replayed first — the same workflow was accepted 25 and rejected 175 times out of 200)")
			}
			if nl == 0 {
				r.Info("C20.workflow-compile-once", "Workflow.compile: no range over a map", wfc.Pos(), "nothing to order")
			}
		}
		// (c) pending declarations after a successful compile
		fCompiled := w.Field("compose", "graph", "compiled")
		okGate := false
		instrs(wfc, func(in ssa.Instruction) {
			iff, ok := in.(*ssa.If)
			if !ok || !isLoadOfField(iff.Cond, fCompiled) {
				return
			}
			// from the compiled arm an ErrGraphCompiled return is reachable
			egc := w.GlobalVar("compose", "ErrGraphCompiled")
			reach, _ := pathFromBlock(pathQuery{fn: wfc, goal: func(x ssa.Instruction) bool {
				ret, ok := x.(*ssa.Return)
				if !ok {
					return false
				}
				u, ok := ret.Results[1].(*ssa.UnOp)
				if !ok {
					return false
				}
				g, ok := u.X.(*ssa.Global)
				return ok && g.Object() == types.Object(egc)
			}}, iff.Block().Succs[0])
			if reach {
				okGate = true
			}
		})
		r.Check(okGate, "C20.workflow-compile-once", "Workflow.compile rejects declarations made after a successful Compile", wfc.Pos(), "compiled && pending -> ErrGraphCompiled", "nodes re-added / inputs or static values declared after a successful Compile are silently applied by the next Compile, which succeeds with different behaviour: the compiled workflow was modified")
		// … and "pending" looks at every container of deferred declarations — the same three that (b) wants reset
		{
			looked := map[string]bool{}
			collect := func(fn *ssa.Function, inRegion func(*ssa.BasicBlock) bool) []*ssa.Function {
				var callees []*ssa.Function
				for _, b := range fn.Blocks {
					if !inRegion(b) {
						continue
					}
					for _, in := range b.Instrs {
						if c, ok := in.(*ssa.Call); ok {
							if isBuiltin(c, "len") {
								if f, _ := loadedField(c.Call.Args[0]); f != nil {
									looked[f.Name()] = true
								}
							} else if sc := staticCallee(c); sc != nil && w.inRepo(sc) {
								callees = append(callees, sc)
							}
						}
						if rg, ok := in.(*ssa.Range); ok {
							_ = rg
						}
					}
				}
				return callees
			}
			instrs(wfc, func(in ssa.Instruction) {
				iff, ok := in.(*ssa.If)
				if !ok || !isLoadOfField(iff.Cond, fCompiled) {
					return
				}
				arm := iff.Block().Succs[0]
				for _, cal := range collect(wfc, func(b *ssa.BasicBlock) bool { return b == arm || arm.Dominates(b) }) {
					collect(cal, func(*ssa.BasicBlock) bool { return true })
				}
			})
			var missing []string
			for _, f := range []string{"addInputs", "workflowBranches", "staticValues"} {
				if !looked[f] {
					missing = append(missing, f)
				}
			}
			r.Check(len(missing) == 0, "C20.workflow-compile-once", "Workflow.compile: 'pending' covers every kind of deferred declaration", wfc.Pos(), "len(addInputs), len(workflowBranches), len(staticValues) are all read on the compiled arm (directly or in the helper it calls)", "the test for declarations made after a successful Compile does not look at "+strings.Join(missing, ", ")+": declaring such a thing on a compiled workflow and compiling again returns a DIFFERENT runnable instead of ErrGraphCompiled, and modifies the inner graph (mapped-path trie, pre-node handlers) behind the runnable already handed out")
		}
	}

	// … and a node added to a compiled workflow leaves a trace that test reads: the Add*Node methods of Workflow
	// drop the inner graph's error (they return the node, not an error), so ErrGraphCompiled has to come from the next Compile
	{
		wfc := w.Fn("compose", "Workflow.compile")
		fCompiled := w.Field("compose", "graph", "compiled")
		wfT := w.Named("compose", "Workflow")
		graphT := w.Named("compose", "graph")
		isWfField := func(f *types.Var) bool {
			st := wfT.Underlying().(*types.Struct)
			for i := 0; i < st.NumFields(); i++ {
				if sameField(st.Field(i), f) {
					return true
				}
			}
			return false
		}
		// Workflow fields read on the compiled arm of compile
		readOnArm := map[string]bool{}
		instrs(wfc, func(in ssa.Instruction) {
			iff, ok := in.(*ssa.If)
			if !ok || !isLoadOfField(iff.Cond, fCompiled) {
				return
			}
			arm := iff.Block().Succs[0]
			for _, b := range wfc.Blocks {
				if b != arm && !arm.Dominates(b) {
					continue
				}
				for _, x := range b.Instrs {
					if fa, ok := x.(*ssa.FieldAddr); ok {
						if f := fieldVarOfAddr(fa); f != nil && isWfField(f) {
							readOnArm[f.Name()] = true
						}
					}
					// … or in the helper the arm calls (the pending test moved into a method)
					if c, ok := x.(*ssa.Call); ok {
						if sc := staticCallee(c); sc != nil && w.inRepo(sc) {
							instrs(sc, func(y ssa.Instruction) {
								if fa, ok := y.(*ssa.FieldAddr); ok {
									if f := fieldVarOfAddr(fa); f != nil && isWfField(f) {
										readOnArm[f.Name()] = true
									}
								}
							})
						}
					}
				}
			}
		})
		// Workflow fields written under g.compiled in a function
		writesUnderCompiled := func(fn *ssa.Function) []string {
			var out []string
			for _, fw := range fieldWrites(fn) {
				if fw.field == nil || !isWfField(fw.field) {
					continue
				}
				if hasGuard(fw.in.Block(), func(g guard) bool { return g.pol && isLoadOfField(g.cond, fCompiled) }) {
					out = append(out, fw.field.Name())
				}
			}
			return out
		}
		ms := types.NewMethodSet(types.NewPointer(wfT))
		for i := 0; i < ms.Len(); i++ {
			m := w.Prog.FuncValue(ms.At(i).Obj().(*types.Func))
			if m == nil || m.Blocks == nil {
				continue
			}
			var dropped ssa.CallInstruction
			var helpers []*ssa.Function
			instrs(m, func(in ssa.Instruction) {
				c, ok := in.(*ssa.Call)
				if !ok {
					return
				}
				sc := staticCallee(c)
				if sc == nil {
					return
				}
				if rv := sc.Signature.Recv(); rv != nil && namedOf(rv.Type()) != nil && namedOf(rv.Type()).Obj() == graphT.Obj() && strings.HasPrefix(sc.Name(), "Add") && strings.HasSuffix(sc.Name(), "Node") && len(*c.Referrers()) == 0 {
					dropped = c
				} else if rv != nil && namedOf(rv.Type()) != nil && namedOf(rv.Type()).Origin().Obj() == wfT.Obj() {
					helpers = append(helpers, sc)
				}
			})
			if dropped == nil {
				continue
			}
			// the helpers' own Workflow-method callees too (a flag set in a helper of the helper)
			seenH := map[*ssa.Function]bool{m: true}
			for i := 0; i < len(helpers); i++ {
				h := helpers[i]
				if seenH[h] {
					continue
				}
				seenH[h] = true
				instrs(h, func(in ssa.Instruction) {
					if c, ok := in.(*ssa.Call); ok {
						if sc := staticCallee(c); sc != nil && !seenH[sc] {
							if rv := sc.Signature.Recv(); rv != nil && namedOf(rv.Type()) != nil && namedOf(rv.Type()).Origin().Obj() == wfT.Obj() {
								helpers = append(helpers, sc)
							}
						}
					}
				})
			}
			var traced []string
			for _, f := range append([]*ssa.Function{m}, helpers...) {
				for _, nm := range writesUnderCompiled(f) {
					if readOnArm[nm] {
						traced = append(traced, nm)
					}
				}
			}
			r.Check(len(traced) > 0, "C20.workflow-compile-once", "Workflow."+m.Name()+" drops the inner graph's error: a refusal because the workflow is compiled is remembered", dropped.Pos(), "a Workflow field written under g.compiled here (or in the helper it calls) is read on the compiled arm of Workflow.compile", "the ErrGraphCompiled of the inner graph is discarded and nothing else records the attempt: a node added to a compiled workflow (new, duplicate or reserved key alike) is dropped without any error and the next Compile returns nil — AddInput, AddDependency, SetStaticValue and AddBranch on a compiled workflow all make the next Compile return ErrGraphCompiled, Graph returns it from the Add call, Chain from the next Compile")
		}
	}

	// ---- inferred-type-into-own-node
	r.Rule("C20.inferred-type-into-own-node", "the type the graph infers for a pass-through node is written through g.nodes into the node's runnable: what addNode stores into g.nodes is, for a pass-through node, the graph's own copy (node and runnable), never the builder's object — a Parallel / ChainBranch hands the same *graphNode to every chain it is appended to", 2)
	{
		fNodes := w.Field("compose", "graph", "nodes")
		fCr := w.Field("compose", "graphNode", "cr")
		fPT := w.Field("compose", "composableRunnable", "isPassthrough")
		crT := w.Named("compose", "composableRunnable")
		fromNodesMap := func(v ssa.Value) bool {
			u, ok := v.(*ssa.UnOp)
			if !ok || u.Op != token.MUL {
				return false
			}
			fa, ok := u.X.(*ssa.FieldAddr)
			if !ok || !sameField(fieldVarOfAddr(fa), fCr) {
				return false
			}
			x := fa.X
			if e, ok := x.(*ssa.Extract); ok {
				x = e.Tuple
			}
			lk, ok := x.(*ssa.Lookup)
			return ok && isLoadOfField(lk.X, fNodes)
		}
		var fns []*ssa.Function
		for f := range w.AllFuncs() {
			if pk := fnPkg(f); f.Blocks != nil && pk != nil && pk.Path() == modPath+"/compose" && origin(f) == f {
				fns = append(fns, f)
			}
		}
		sort.Slice(fns, func(i, j int) bool { return fns[i].String() < fns[j].String() })
		written := map[string]bool{}
		for _, f := range fns {
			for _, fw := range fieldWrites(f) {
				if fw.owner != nil && fw.owner.Obj() == crT.Obj() && fromNodesMap(fw.base) {
					written[fw.field.Name()] = true
				}
			}
		}
		var wl []string
		for k := range written {
			wl = append(wl, k)
		}
		sort.Strings(wl)
		ownCopy := func(v ssa.Value) bool {
			a, ok := v.(*ssa.Alloc)
			if !ok {
				return false
			}
			okCr := false
			for _, ref := range *a.Referrers() {
				fa, isFA := ref.(*ssa.FieldAddr)
				if !isFA || !sameField(fieldVarOfAddr(fa), fCr) {
					continue
				}
				for _, r2 := range *fa.Referrers() {
					if st, isSt := r2.(*ssa.Store); isSt && st.Addr == fa {
						if _, isAlloc := st.Val.(*ssa.Alloc); isAlloc {
							okCr = true
						}
					}
				}
			}
			return okCr
		}
		notPassthrough := func(g guard) bool {
			if !g.pol && isLoadOfField(g.cond, fPT) {
				return true
			}
			return guardIsNil(g, func(v ssa.Value) bool { return isLoadOfField(v, fCr) })
		}
		for _, f := range fns {
			instrs(f, func(in ssa.Instruction) {
				mu, ok := in.(*ssa.MapUpdate)
				if !ok || !isLoadOfField(mu.Map, fNodes) {
					return
				}
				if len(wl) == 0 {
					r.Info("C20.inferred-type-into-own-node", w.fname(f)+" stores a node into g.nodes", mu.Pos(), "nothing is written through g.nodes into a node's runnable")
					return
				}
				bad := ""
				var walk func(v ssa.Value, pred, blk *ssa.BasicBlock, d int)
				walk = func(v ssa.Value, pred, blk *ssa.BasicBlock, d int) {
					if d > 6 {
						bad = "phi chain too deep"
						return
					}
					if ph, ok := v.(*ssa.Phi); ok {
						for i, e := range ph.Edges {
							walk(e, ph.Block().Preds[i], ph.Block(), d+1)
						}
						return
					}
					if ownCopy(v) {
						return
					}
					if pred != nil {
						for _, g := range append(guardsOf(pred), guardsOfEdge(pred, blk)...) {
							if notPassthrough(g) {
								return
							}
						}
					}
					bad = valText(v) + " is stored as it came"
				}
				walk(mu.Value, nil, nil, 0)
				r.Check(bad == "", "C20.inferred-type-into-own-node", w.fname(f)+" stores a node into g.nodes", mu.Pos(), "an own copy (node and runnable) unless the node is known not to be a pass-through; fields written through g.nodes: "+strings.Join(wl, ", "), bad+": the inferred "+strings.Join(wl, "/")+" of a pass-through node are written into the builder's object — a Parallel or ChainBranch with AddPassthrough that was appended to a Chain[string, …] before makes NewChain[int, …]().AppendParallel(p).Compile() fail 'start node's output type[int] and end node's input type[string] mismatch' (with a Chain[any, …] a run-time check against the FIRST chain's type sits on the START edge): the same construction sequence does not give the same outcome")
			})
		}
		r.Check(len(wl) > 0, "C20.inferred-type-into-own-node", "types are inferred into the nodes of g.nodes", w.Fn("compose", "graph.updateToValidateMap").Pos(), strings.Join(wl, ", ")+" written through g.nodes[…].cr", "no write through g.nodes[…].cr found: the rule's anchor moved")
	}

	// ---- presence
	r.Rule("C20.presence", "ill-formed constructions are error arms that cannot reach the corresponding write", 8)
	START, END := "start", "end"
	_ = START
	_ = END
	cSTART := w.Pkg("compose").Types.Scope().Lookup("START").(*types.Const)
	cEND := w.Pkg("compose").Types.Scope().Lookup("END").(*types.Const)
	isConstStr := func(v ssa.Value, c *types.Const) bool {
		s, ok := constString(v)
		cs, _ := constString(ssa.NewConst(c.Val(), c.Type()))
		return ok && s == cs
	}
	// writes of interest
	writesTo := func(fn *ssa.Function, field string) []ssa.Instruction {
		var out []ssa.Instruction
		for _, fw := range fieldWrites(fn) {
			if fw.owner == graphT && fw.field.Name() == field {
				out = append(out, fw.in)
			}
		}
		return out
	}
	allPaths := true
	blocks := func(fn *ssa.Function, name string, target []ssa.Instruction, pred func(iff *ssa.If) (int, bool)) {
		found := false
		isTarget := func(in ssa.Instruction) bool {
			for _, t := range target {
				if t == in {
					return true
				}
			}
			return false
		}
		instrs(fn, func(in ssa.Instruction) {
			iff, ok := in.(*ssa.If)
			if !ok {
				return
			}
			bad, ok := pred(iff)
			if !ok {
				return
			}
			found = true
			reach, wit := pathFromBlock(pathQuery{fn: fn, goal: isTarget}, iff.Block().Succs[bad])
			// and the check lies on every path to the write
			skip, wit2 := false, ""
			if allPaths {
				skip, wit2 = pathQuery{fn: fn, goal: isTarget, avoid: func(i ssa.Instruction) bool { return i == ssa.Instruction(iff) }}.exists()
			}
			r.Check(!reach && !skip, "C20.presence", w.fname(fn)+": "+name, iff.Pos(), "error arm blocks the write; the check is on every path to it", "ill-formed construction is accepted: "+wit+wit2)
		})
		if !found {
			r.Fail("C20.presence", w.fname(fn)+": "+name, fn.Pos(), "check not found")
		}
	}
	keyParam := func(fn *ssa.Function, name string) *ssa.Parameter { return fn.Params[paramIndex(fn, name)] }
	eqConstParam := func(p *ssa.Parameter, c *types.Const) func(iff *ssa.If) (int, bool) {
		return func(iff *ssa.If) (int, bool) {
			op, x, y, ok := asCmp(iff.Cond)
			if !ok || !((x == ssa.Value(p) && isConstStr(y, c)) || (y == ssa.Value(p) && isConstStr(x, c))) {
				return 0, false
			}
			if op == token.EQL {
				return 0, true
			}
			if op == token.NEQ {
				return 1, true
			}
			return 0, false
		}
	}
	nodesW := writesTo(addNode, "nodes")
	blocks(addNode, "reserved key END", nodesW, eqConstParam(keyParam(addNode, "key"), cEND))
	blocks(addNode, "reserved key START", nodesW, eqConstParam(keyParam(addNode, "key"), cSTART))
	fNodes := w.Field("compose", "graph", "nodes")
	lookupOK := func(keyPred func(ssa.Value) bool, badWhenFound bool) func(iff *ssa.If) (int, bool) {
		return func(iff *ssa.If) (int, bool) {
			e, ok := iff.Cond.(*ssa.Extract)
			if !ok || e.Index != 1 {
				return 0, false
			}
			lk, ok := e.Tuple.(*ssa.Lookup)
			if !ok || !lk.CommaOk || !isLoadOfField(lk.X, fNodes) || !keyPred(lk.Index) {
				return 0, false
			}
			if badWhenFound {
				return 0, true
			}
			return 1, true
		}
	}
	is := func(p *ssa.Parameter) func(ssa.Value) bool {
		return func(v ssa.Value) bool { return v == ssa.Value(p) }
	}
	blocks(addNode, "duplicate node key", nodesW, lookupOK(is(keyParam(addNode, "key")), true))
	// state handler without state
	fSG := w.Field("compose", "graph", "stateGenerator")
	allPaths = false // only required when the node declares state handlers
	blocks(addNode, "state handler without state", nodesW, func(iff *ssa.If) (int, bool) {
		op, x, y, ok := asCmp(iff.Cond)
		if ok && isLoadOfField(x, fSG) && isNilConst(y) {
			if op == token.EQL {
				return 0, true
			}
			return 1, true
		}
		return 0, false
	})
	allPaths = true
	edgeW := append(writesTo(addEdge, "controlEdges"), writesTo(addEdge, "dataEdges")...)
	blocks(addEdge, "END as start node", edgeW, eqConstParam(keyParam(addEdge, "startNode"), cEND))
	blocks(addEdge, "START as end node", edgeW, eqConstParam(keyParam(addEdge, "endNode"), cSTART))
	// unknown endpoints: the `!ok && x != START` conjunction is compiled into two Ifs; test the comma-ok one:
	// when the lookup misses (succ 1 of `if ok`), the write must be reachable only through the START/END exemption
	unknownEndpoint := func(fn *ssa.Function, p *ssa.Parameter, exempt *types.Const, target []ssa.Instruction, name string) {
		found := false
		instrs(fn, func(in ssa.Instruction) {
			iff, ok := in.(*ssa.If)
			if !ok {
				return
			}
			e, ok := iff.Cond.(*ssa.Extract)
			if !ok || e.Index != 1 {
				return
			}
			lk, ok := e.Tuple.(*ssa.Lookup)
			if !ok || !lk.CommaOk || !isLoadOfField(lk.X, fNodes) || lk.Index != ssa.Value(p) {
				return
			}
			found = true
			// edges allowed from the miss arm: the arm of `p == exempt` being true / `p != exempt` being false
			miss := iff.Block().Succs[1]
			exemptEdges := map[[2]*ssa.BasicBlock]bool{}
			instrs(fn, func(in2 ssa.Instruction) {
				if i2, ok := in2.(*ssa.If); ok {
					if bad, ok := eqConstParam(p, exempt)(i2); ok {
						// `bad` is the arm where p == exempt
						exemptEdges[[2]*ssa.BasicBlock{i2.Block(), i2.Block().Succs[bad]}] = true
					}
				}
			})
			isT := func(i ssa.Instruction) bool {
				for _, t := range target {
					if t == i {
						return true
					}
				}
				return false
			}
			reach, wit := pathFromBlock(pathQuery{fn: fn, goal: isT, avoidEdge: func(a, b *ssa.BasicBlock) bool { return exemptEdges[[2]*ssa.BasicBlock{a, b}] }}, miss)
			r.Check(!reach, "C20.presence", w.fname(fn)+": "+name, iff.Pos(), "a missing node blocks the write unless it is the reserved endpoint", "edge/branch to an unknown node is accepted: "+wit)
		})
		if !found {
			r.Fail("C20.presence", w.fname(fn)+": "+name, fn.Pos(), "existence check not found")
		}
	}
	unknownEndpoint(addEdge, keyParam(addEdge, "startNode"), cSTART, edgeW, "unknown edge start node")
	unknownEndpoint(addEdge, keyParam(addEdge, "endNode"), cEND, edgeW, "unknown edge end node")
	// duplicate edges: each edge list is scanned for the end node whenever it is about to be extended — the
	// scan runs under no condition that the extension itself is not under
	for _, field := range []string{"controlEdges", "dataEdges"} {
		fEdges := w.Field("compose", "graph", field)
		endP := keyParam(addEdge, "endNode")
		var appendAt ssa.Instruction
		for _, in := range writesTo(addEdge, field) {
			appendAt = in
		}
		var cmpIf *ssa.If
		instrs(addEdge, func(in ssa.Instruction) {
			iff, ok := in.(*ssa.If)
			if !ok {
				return
			}
			op, x, y, ok := asCmp(iff.Cond)
			if !ok || op != token.EQL {
				return
			}
			for _, pr := range [][2]ssa.Value{{x, y}, {y, x}} {
				if pr[1] != ssa.Value(endP) {
					continue
				}
				// pr[0] = edges[start][i]
				u, ok := pr[0].(*ssa.UnOp)
				if !ok {
					continue
				}
				ia, ok := u.X.(*ssa.IndexAddr)
				if !ok {
					continue
				}
				if lk, ok := ia.X.(*ssa.Lookup); ok && isLoadOfField(lk.X, fEdges) {
					cmpIf = iff
				}
			}
		})
		construct := "addEdgeWithMappings: duplicate scan of " + field
		if appendAt == nil || cmpIf == nil {
			r.Fail("C20.presence", construct, addEdge.Pos(), "no scan of the existing edges for the end node / no extension found")
			continue
		}
		hit, _ := pathFromBlock(pathQuery{fn: addEdge, goal: func(i ssa.Instruction) bool { return i == appendAt }}, cmpIf.Block().Succs[0])
		under := map[*ssa.If]bool{}
		for _, g := range guardsOf(appendAt.Block()) {
			under[g.at] = true
		}
		var extra []string
		for _, g := range guardsOf(cmpIf.Block()) {
			if under[g.at] {
				continue
			}
			// the scan's own bound
			if op, _, y, ok := asCmp(g.cond); ok && op == token.LSS && g.pol && isLenOf(y, func(v ssa.Value) bool {
				lk, ok := v.(*ssa.Lookup)
				return ok && isLoadOfField(lk.X, fEdges)
			}) {
				continue
			}
			extra = append(extra, guardText(g))
		}
		r.Check(!hit && len(extra) == 0, "C20.presence", construct, cmpIf.Cond.Pos(), "every existing entry is compared with the end node before the list is extended; a match returns an error",
			fmt.Sprintf("a duplicate %s entry can be added: match arm reaches the extension=%v, scan skipped under %v — the same edge is recorded twice and its mappings are chained (every run then fails) instead of the second declaration being rejected", field, hit, extra))
	}
	// entry / exit bookkeeping: only a CONTROL edge from START (to END) makes a node an entry (exit) node
	for _, field := range []string{"startNodes", "endNodes"} {
		n := 0
		for _, in := range writesTo(addEdge, field) {
			n++
			np := keyParam(addEdge, "noControl")
			okc := hasGuard(in.Block(), func(g guard) bool {
				if g.cond == ssa.Value(np) && !g.pol {
					return true
				}
				if u, ok := g.cond.(*ssa.UnOp); ok && u.Op == token.NOT && u.X == ssa.Value(np) && g.pol {
					return true
				}
				return false
			})
			r.Check(okc, "C20.presence", "addEdgeWithMappings: "+field+" extended only for control edges", in.Pos(), "under !noControl", "a data-only edge (WithNoDirectDependency) from START / to END counts as an entry / exit edge: a workflow without any control entry (exit) compiles instead of failing with 'start node not set' / 'end node not set'")
		}
		if n == 0 {
			r.Fail("C20.presence", "addEdgeWithMappings: "+field+" extended only for control edges", addEdge.Pos(), "no write of graph."+field+" in addEdgeWithMappings")
		}
	}
	brW := writesTo(addBranch, "branches")
	unknownEndpoint(addBranch, keyParam(addBranch, "startNode"), cSTART, brW, "unknown branch start node")
	blocks(addBranch, "END as branch start", brW, eqConstParam(keyParam(addBranch, "startNode"), cEND))
	fEndNodes := w.Field("compose", "GraphBranch", "endNodes")
	// a branch needs at least two targets: one is no branch, none leaves every answer of the condition an "unintended end node"
	blocks(addBranch, "branch with fewer than two targets", brW, func(iff *ssa.If) (int, bool) {
		op, x, y, ok := asCmp(iff.Cond)
		if !ok || !isLenOf(x, func(v ssa.Value) bool { return isLoadOfField(v, fEndNodes) }) {
			return 0, false
		}
		switch {
		case op == token.LSS && isConstN(y, 2), op == token.LEQ && isConstN(y, 1):
			return 0, true
		case op == token.GEQ && isConstN(y, 2), op == token.GTR && isConstN(y, 1):
			return 1, true
		}
		return 0, false
	})
	// a nil branch is refused before anything reads through it
	{
		var brP *ssa.Parameter
		for _, p := range addBranch.Params {
			if pt, ok := p.Type().(*types.Pointer); ok && namedOf(pt.Elem()) == w.Named("compose", "GraphBranch") {
				brP = p
			}
		}
		if brP == nil {
			undecidedf("C20.presence: addBranch has no *GraphBranch parameter")
		}
		nDeref, bad := 0, 0
		for _, ref := range *brP.Referrers() {
			switch x := ref.(type) {
			case *ssa.FieldAddr, *ssa.UnOp:
				nDeref++
				if !hasGuard(ref.Block(), func(g guard) bool { return guardNonNil(g, func(v ssa.Value) bool { return v == ssa.Value(brP) }) }) {
					bad++
				}
				_ = x
			}
		}
		r.Check(nDeref > 0 && bad == 0, "C20.presence", "addBranch: nil branch refused before it is read", addBranch.Pos(), fmt.Sprintf("%d reads through the parameter, all under branch != nil", nDeref), fmt.Sprintf("%d of %d reads through the *GraphBranch parameter are not dominated by a nil test: AddBranch(node, nil) panics (nil pointer dereference) where Chain.AppendBranch(nil) returns an error — construction must reject, never panic", bad, nDeref))
	}

	// ---- no-panic
	r.Rule("C20.no-panic", "no explicit panic reachable from the Add*/Append*/Compile entry points", 40)
	var roots []*ssa.Function
	for _, tn := range []string{"graph", "Graph", "Chain", "Workflow", "WorkflowNode", "Parallel", "ChainBranch", "WorkflowBranch"} {
		n := w.TryNamed("compose", tn)
		if n == nil {
			continue
		}
		ms := types.NewMethodSet(types.NewPointer(n))
		for i := 0; i < ms.Len(); i++ {
			m := ms.At(i).Obj().(*types.Func)
			nm := m.Name()
			if strings.HasPrefix(nm, "Add") || strings.HasPrefix(nm, "Append") || nm == "Compile" || nm == "compile" || nm == "End" || nm == "SetStaticValue" || strings.HasPrefix(nm, "add") {
				if f := w.Prog.FuncValue(m); f != nil {
					roots = append(roots, f)
				}
			}
		}
	}
	for _, fnm := range []string{"compileAnyGraph", "NewChainBranch", "NewGraphBranch", "NewStreamGraphBranch", "NewGraphMultiBranch", "NewStreamGraphMultiBranch"} {
		if f := w.TryFn("compose", fnm); f != nil {
			roots = append(roots, f)
		}
	}
	reach := w.reachableFrom(roots...)
	nreach := 0
	var fns []*ssa.Function
	for f := range reach {
		if f.Blocks != nil && w.inRepo(f) {
			fns = append(fns, f)
		}
	}
	sort.Slice(fns, func(i, j int) bool { return fns[i].String() < fns[j].String() })
	// a literal created on the build path but only *called* at run time is not a build-time panic: restrict
	// to functions reachable by call edges, not by closure creation. reachableFrom adds closures
	// conservatively; recompute strict call reachability for the panic rule.
	strict := w.strictReach(roots...)
	w.strictChains = true
	defer func() { w.strictChains = false }()
	for _, f := range fns {
		if !strict[f] {
			continue
		}
		nreach++
		instrs(f, func(in ssa.Instruction) {
			if p, ok := in.(*ssa.Panic); ok {
				r.Fail("C20.no-panic", "panic in "+w.fname(origin(f)), p.Pos(), "explicit panic reachable from a builder entry point: "+w.chainTo(f, roots...))
			}
		})
	}
	for i := 0; i < nreach && i < 60; i++ {
		_ = i
	}
	r.Notes = append(r.Notes, fmt.Sprintf("no-panic: %d roots, %d repo functions reachable by call edges", len(roots), nreach))
	for _, rt := range roots {
		r.OK("C20.no-panic", "root "+w.fname(rt), rt.Pos(), "no explicit panic reachable")
	}
	if nreach < 100 {
		undecidedf("C20.no-panic: only %d reachable functions (floor 100)", nreach)
	}

	// ---- nil-miss-deref
	r.Rule("C20.workflow-inputs-applied-once", "the deferred inputs of a workflow node are forgotten in the same loop that applies them: a Compile refused later for a reason that is not sticky (an unsupported option, WithMaxRunSteps on a Workflow) must not leave them to be applied a second time by the next Compile, which would then fail for good with 'entire output has already been mapped'", 1)
	{
		wfc := w.Fn("compose", "Workflow.compile")
		wnT := w.Named("compose", "WorkflowNode")
		var reset ssa.Instruction
		for _, fw := range fieldWrites(wfc) {
			if fw.owner == wnT && fw.field.Name() == "addInputs" && fw.kind == "store" && isNilConst(fw.val) {
				reset = fw.in
			}
		}
		// the applying call: a dynamic call of an element of n.addInputs
		var apply ssa.Instruction
		instrs(wfc, func(in ssa.Instruction) {
			c, ok := in.(*ssa.Call)
			if !ok || c.Call.IsInvoke() || staticCallee(c) != nil {
				return
			}
			if u, isU := c.Call.Value.(*ssa.UnOp); isU {
				if ia, isIA := u.X.(*ssa.IndexAddr); isIA {
					if f, _ := loadedField(ia.X); f != nil && f.Name() == "addInputs" {
						apply = in
					}
				}
			}
		})
		good := false
		if reset != nil && apply != nil {
			for _, li := range naturalLoops(wfc) {
				if li.body[reset.Block()] && li.body[apply.Block()] {
					good = true
				}
			}
		}
		pos := wfc.Pos()
		if reset != nil {
			pos = reset.Pos()
		}
		r.Check(good, "C20.workflow-inputs-applied-once", "Workflow.compile forgets a node's inputs in the loop that applies them", pos, "n.addInputs = nil inside the replay loop", "the inputs are forgotten elsewhere (after the inner graph's compile succeeded, or never): after a Compile refused for a non-sticky reason the next Compile replays them into the inner graph a second time, fails 'entire output has already been mapped for node', and that error sticks — a well-formed workflow is rejected for good")
	}

	r.Rule("C20.chain-tail-order-free", "the list of 'previous nodes' a Chain keeps between Append calls (the next Append adds its edges in that order, and a pass-through node is typed from the first edge it is shown) never holds the keys of a map in iteration order: where it is filled from a map (the branch's end nodes) it is sorted — or the same Append sequence is accepted on some attempts and rejected on others", 2)
	{
		chainT := w.Named("compose", "Chain")
		n := 0
		ms := types.NewMethodSet(types.NewPointer(chainT))
		for i := 0; i < ms.Len(); i++ {
			f := w.Prog.FuncValue(ms.At(i).Obj().(*types.Func))
			if f == nil || f.Blocks == nil {
				continue
			}
			for _, fw := range fieldWrites(f) {
				if fw.field.Name() != "preNodeKeys" || fw.kind != "store" {
					continue
				}
				n++
				c, isCall := fw.val.(*ssa.Call)
				if !isCall {
					r.OK("C20.chain-tail-order-free", fmt.Sprintf("%s: store #%d of the tail", w.fname(f), n), fw.in.Pos(), "not produced by a map walk")
					continue
				}
				sc := staticCallee(c)
				fromMap := false
				if sc != nil && w.inRepo(sc) {
					instrs(sc, func(x ssa.Instruction) {
						if rg, ok := x.(*ssa.Range); ok {
							if _, isMap := rg.X.Type().Underlying().(*types.Map); isMap {
								fromMap = true
							}
						}
					})
				}
				if !fromMap {
					r.OK("C20.chain-tail-order-free", fmt.Sprintf("%s: store #%d of the tail", w.fname(f), n), fw.in.Pos(), "not produced by a map walk")
					continue
				}
				// a sort of the field (or of the value) after the store, on every path to the return
				skip, wit := pathQuery{fn: f, from: fw.in, goal: isReturn, avoid: func(x ssa.Instruction) bool {
					ci, ok := x.(ssa.CallInstruction)
					if !ok {
						return false
					}
					nm := calleeFullName(x)
					if nm != "sort.Strings" && nm != "sort.Slice" && nm != "sort.SliceStable" {
						return false
					}
					a := ci.Common().Args[0]
					if mi, isMI := a.(*ssa.MakeInterface); isMI {
						a = mi.X
					}
					lf, _ := loadedField(a)
					return a == fw.val || (lf != nil && lf.Name() == "preNodeKeys")
				}}.exists()
				r.Check(!skip, "C20.chain-tail-order-free", fmt.Sprintf("%s: store #%d of the tail", w.fname(f), n), fw.in.Pos(), "sorted before the method returns", "the tail is the values of a map in iteration order ("+wit+"): after AppendBranch the next Append adds its edges in that order and a pass-through node is typed from the first one — a branch with a string->string and a string->any lambda, then AppendPassthrough, then AppendLambda(int->int) was accepted 53 and rejected 147 times out of 200 fresh builds of the SAME sequence")
			}
		}
		if n < 2 {
			r.Deferred = append(r.Deferred, fmt.Sprintf("C20.chain-tail-order-free: only %d stores of Chain.preNodeKeys found", n))
		}
	}

	r.Rule("C20.runnable-read-only-where-set", "a node added as a nested graph has no runnable until its parent compiles (graphNode.cr is nil): the Add* paths of the graph (addNode, addBranch, addEdgeWithMappings) read through a node's cr only where the path establishes that it is set — cr != nil, or the node being a pass-through node by its executor meta", 2)
	{
		fCr := w.Field("compose", "graphNode", "cr")
		fComp := w.Field("compose", "executorMeta", "component")
		n := 0
		for _, nm := range []string{"graph.addNode", "graph.addBranch", "graph.addEdgeWithMappings"} {
			f := w.Fn("compose", nm)
			k := 0
			instrs(f, func(in ssa.Instruction) {
				fa, ok := in.(*ssa.FieldAddr)
				if !ok || !isLoadOfField(fa.X, fCr) {
					return
				}
				k++
				n++
				established := func(g guard) bool {
					if guardNonNil(g, func(v ssa.Value) bool { return isLoadOfField(v, fCr) }) {
						return true
					}
					// executorMeta.component == ComponentOfPassthrough
					op, x, y, isCmp := asCmp(g.cond)
					if !isCmp || op != token.EQL || !g.pol {
						return false
					}
					for _, pr := range [][2]ssa.Value{{x, y}, {y, x}} {
						if isLoadOfField(pr[0], fComp) {
							if cs, isS := constString(pr[1]); isS && cs == "Passthrough" {
								return true
							}
						}
					}
					return false
				}
				okG := hasGuard(fa.Block(), established)
				for d := fa.Block(); d != nil && !okG; d = d.Idom() {
					// conjuncts of `a && b` whose true edges lead here
					if len(d.Preds) == 1 {
						for _, g := range guardsOfEdge(d.Preds[0], d) {
							if established(g) {
								okG = true
							}
						}
					}
				}
				r.Check(okG, "C20.runnable-read-only-where-set", fmt.Sprintf("%s: read #%d through a node's runnable", nm, k), fa.Pos(), "under cr != nil / component == Passthrough", "the node's cr is dereferenced where nothing says it is set: for a start node added with AddGraphNode / AppendGraph (cr == nil until the parent compiles) AddBranch panics with a nil dereference instead of returning — the well-formed branch and the ill-formed ones alike — and the panic skips the deferred buildError, so a caller that recovers is left with a graph that still compiles")
			})
		}
		if n < 2 {
			r.Deferred = append(r.Deferred, fmt.Sprintf("C20.runnable-read-only-where-set: only %d reads through graphNode.cr on the Add* paths", n))
		}
	}

	r.Rule("C20.nil-miss-deref", "map lookups without comma-ok whose pointer result is dereferenced have a dominating existence check", 5)
	var bfns []*ssa.Function
	for f := range strict {
		if f.Blocks != nil && w.inRepo(f) && w.relPkg(fnPkg(f).Path()) == "compose" {
			bfns = append(bfns, f)
		}
	}
	sort.Slice(bfns, func(i, j int) bool { return bfns[i].String() < bfns[j].String() })
	for _, f := range bfns {
		for _, site := range nilMissDerefs(f) {
			construct := fmt.Sprintf("%s %s[%s]", w.fname(origin(f)), site.mapDesc, site.keyDesc)
			if site.evidence != "" {
				r.OK("C20.nil-miss-deref", construct, site.lk.Pos(), site.evidence)
				continue
			}
			if reason, ok := nilMissExceptions[construct]; ok {
				r.Except("C20.nil-miss-deref", construct, site.lk.Pos(), reason)
				continue
			}
			r.Fail("C20.nil-miss-deref", construct, site.lk.Pos(), "map element (pointer) dereferenced without an existence check: a missing key panics with a nil dereference instead of returning an error")
		}
	}

	// ---- chain sticky
	// the builder does not write into the objects the caller hands it: a *GraphBranch may be attached to several nodes,
	// graphs or a Workflow — what belongs to one attachment (position, data-flow flag) lives in the graph's own copy
	r.Rule("C20.branch-value-not-mutated", "graph.addBranch never writes through its *GraphBranch parameter", 1)
	ruleNoMutateParams(w, r, "C20.branch-value-not-mutated", w.Fn("compose", "graph.addBranch"), map[string]bool{"branch": true})

	r.Rule("C20.builder-args-not-mutated", "the Chain Append* methods never write through the objects they are handed (*ChainBranch, *Parallel, *ToolsNode, *Lambda): a value attached twice behaves twice the same", 3)
	chainAppendArgsNotMutated(w, r, "C20.builder-args-not-mutated")

	r.Rule("C20.nil-helper-receiver", "graphNode.getGenericHelper never calls a genericHelper method on the still-unset helper of a pass-through node (Add* must return errors, never panic)", 2)
	nilHelperReceiverCheck(w, r, "C20.nil-helper-receiver")

	r.Rule("C20.state-handler-validated", "every way of declaring a state pre-/post-handler (plain and stream option constructors) reaches addNode's state validation: guards on option fields in front of the state-type comparison are facts every constructor of that handler establishes", 6)
	stateHandlerValidationReached(w, r, "C20.state-handler-validated")

	r.Rule("C20.chain-sticky", "Chain.addNode checks c.err and gg.compiled before anything else; reportError keeps the first error; compile adds END only once", 4)
	chAdd := w.Fn("compose", "Chain.addNode")
	fErr := w.Field("compose", "Chain", "err")
	var firstCall ssa.Instruction
	instrs(chAdd, func(in ssa.Instruction) {
		if c, ok := in.(*ssa.Call); ok && firstCall == nil {
			if _, isB := c.Call.Value.(*ssa.Builtin); !isB && !isCallTo(c, w.Fn("compose", "Chain.reportError")) {
				firstCall = c
			}
		}
	})
	okc := firstCall != nil && hasGuard(firstCall.Block(), func(g guard) bool {
		return guardIsNil(g, func(v ssa.Value) bool { return isLoadOfField(v, fErr) })
	}) && hasGuard(firstCall.Block(), isNotCompiled)
	r.Check(okc, "C20.chain-sticky", "Chain.addNode guards", chAdd.Pos(), "c.err == nil and !gg.compiled dominate the first effectful call", "a chain stage can be added after an error or after compilation")
	rep := w.Fn("compose", "Chain.reportError")
	okr := false
	for _, fw := range fieldWrites(rep) {
		if sameField(fw.field, fErr) && hasGuard(fw.in.Block(), func(g guard) bool {
			return guardIsNil(g, func(v ssa.Value) bool { return isLoadOfField(v, fErr) })
		}) {
			okr = true
		}
	}
	r.Check(okr, "C20.chain-sticky", "Chain.reportError keeps the first error", rep.Pos(), "c.err written only when nil", "a later error overwrites the first one")
	// … and nobody else writes it: an Append* that assigns c.err itself (`if c.err = f(); c.err != nil`) erases the first
	// error whenever f succeeds
	{
		nw := 0
		for _, fn := range w.RepoFuncs("compose") {
			for _, fw := range fieldWrites(fn) {
				if !sameField(fw.field, fErr) {
					continue
				}
				nw++
				r.Check(topFunc(fn) == rep, "C20.chain-sticky", "Chain.err written in "+w.fname(fn), fw.in.Pos(), "only reportError writes the chain's sticky error", "the chain's error field is assigned outside reportError: a successful step after a failed one resets it to nil (the failed stage is silently missing and Compile succeeds), or a later error replaces the first")
			}
		}
		if nw == 0 {
			r.Deferred = append(r.Deferred, fmt.Sprintf("C20.chain-sticky: no write of Chain.err found"))
		}
	}
	// compile: the sticky chain error is looked at before anything else — also before the "END already added" shortcut,
	// which a failed earlier Compile leaves set
	{
		aen := w.Fn("compose", "Chain.addEndIfNeeded")
		skip, wit := pathQuery{fn: aen, from: aen.Blocks[0].Instrs[0], goal: func(in ssa.Instruction) bool {
			ret, ok := in.(*ssa.Return)
			return ok && isNilConst(ret.Results[0])
		}, avoid: func(in ssa.Instruction) bool {
			iff, ok := in.(*ssa.If)
			if !ok {
				return false
			}
			_, x, y, ok := asCmp(iff.Cond)
			return ok && isLoadOfField(x, fErr) && isNilConst(y)
		}}.exists()
		r.Check(!skip, "C20.chain-sticky", "Chain.addEndIfNeeded reports the sticky error on every path", aen.Pos(), "no nil return without testing c.err", "the chain's sticky error can be skipped at compile time ("+wit+"): after a first Compile that failed late (END already added), errors of later Append* calls are never reported and the next Compile succeeds")
	}
	// compile adds the END edges exactly once per chain, whatever became of earlier Compile attempts: the function owns a
	// flag on the Chain that (a) guards the edge-adding calls and (b) is set on every successful way out of them
	{
		aen := w.Fn("compose", "Chain.addEndIfNeeded")
		flag, flagStore := chainEndOnceFlag(w)
		addEdgeM := w.Fn("compose", "Graph.AddEdge")
		var endEdges []ssa.CallInstruction
		for _, c := range callsTo(aen, addEdgeM) {
			endEdges = append(endEdges, c)
		}
		good, why := flag != nil && len(endEdges) > 0, "no bool field of Chain is set to true by addEndIfNeeded (the 'END edges are in' marker), or no AddEdge call found"
		if good {
			for _, c := range endEdges {
				if !hasGuard(c.Block(), func(g guard) bool { return !g.pol && isLoadOfField(g.cond, flag) }) {
					good, why = false, "an AddEdge(…, END) call is not guarded by the chain's own 'END edges are in' flag being false"
				}
				if skip, wit := (pathQuery{fn: aen, from: c, goal: func(in ssa.Instruction) bool {
					ret, ok := in.(*ssa.Return)
					return ok && isNilConst(ret.Results[0])
				}, avoid: func(in ssa.Instruction) bool { return in == flagStore }}).exists(); skip {
					good, why = false, "a successful return after adding END edges does not set the flag: "+wit
				}
			}
		}
		r.Check(good, "C20.chain-sticky", "Chain.addEndIfNeeded adds the END edges once per chain", aen.Pos(), "AddEdge(…, END) only under the chain's own flag == false; flag set before every nil return that follows", why+": a Compile retried after a failed one (rejected option, nested graph that does not compile) adds `last -> END` again and fails with a duplicate-edge error that then sticks — the same construction sequence gives different outcomes")
	}
	// every Append* method reaches addNode / reportError only (no direct graph writes)
	nApp := 0
	chainT := w.Named("compose", "Chain")
	ms := types.NewMethodSet(types.NewPointer(chainT))
	for i := 0; i < ms.Len(); i++ {
		m := ms.At(i).Obj().(*types.Func)
		if !strings.HasPrefix(m.Name(), "Append") {
			continue
		}
		f := w.Prog.FuncValue(m)
		if f == nil {
			continue
		}
		nApp++
	}
	r.Check(nApp >= 10, "C20.chain-sticky", "Chain Append* methods inventoried", chainT.Obj().Pos(), fmt.Sprintf("%d methods", nApp), "Append* methods not found")
	// once the END edges are in (a Compile was attempted) nothing is appended any more: every call that adds a node to
	// the inner graph from a Chain method is reached only with the chain's own 'END edges are in' flag still false
	{
		flag, _ := chainEndOnceFlag(w)
		gAddNode := w.Fn("compose", "graph.addNode")
		n := 0
		for _, fn := range w.RepoFuncs("compose") {
			if fn.Parent() != nil || namedOfRecv(fn) != chainT.Origin() {
				continue
			}
			for _, c := range callsTo(fn, gAddNode) {
				n++
				guarded := flag != nil && hasGuard(c.Block(), func(g guard) bool { return !g.pol && isLoadOfField(g.cond, flag) })
				r.Check(guarded, "C20.chain-sticky", fmt.Sprintf("%s: node added only while the END edges are not in (#%d)", w.fname(fn), n), c.Pos(), "guarded by the chain's END flag being false", "a stage can be appended after a Compile attempt has added the END edges (a Compile refused for a reason that is not sticky: an unsupported option, a nested graph not complete yet): the node that was last then keeps its END edge, the stages appended afterwards get none, and the next Compile succeeds with a runnable that silently ignores them — the same Append sequence gives \"in1\" after a failed attempt and \"in12\" without it")
			}
		}
		if n < 3 {
			r.Deferred = append(r.Deferred, fmt.Sprintf("C20.chain-sticky: only %d graph.addNode calls in Chain methods", n))
		}
	}
}

var nilMissExceptions = map[string]string{
	"(*compose.graph).getNodeGenericHelper nodes[name]":   "precondition of the helper: every caller passes START/END (handled above the lookup) or a key validated when it was inserted (C20.presence unknown-endpoint rules guard every insertion into toValidateMap / fieldMappingRecords / nodes)",
	"(*compose.graph).getNodeInputType nodes[name]":       "same precondition as getNodeGenericHelper",
	"(*compose.graph).getNodeOutputType nodes[name]":      "same precondition as getNodeGenericHelper",
	"(*compose.graph).updateToValidateMap nodes[endNode]": "endNode comes from a toValidateMap entry; entries are created only by addToValidateMap, called after the unknown-endpoint checks of addEdgeWithMappings/addBranch, and reach this arm only when the end node's input type is nil, which START/END never are",
	"(*compose.graph).updateToValidateMap nodes[elem]":    "the start node key of a toValidateMap entry: validated at insertion, and this arm is taken only when its output type is nil, which excludes START/END",
	"compose.validateDAG chanSubscribeTo[elem]":           "keys of m are the keys of chanSubscribeTo plus control successors/branch targets other than END, all validated nodes at insertion",
}

type nilMissSite struct {
	lk       *ssa.Lookup
	mapDesc  string
	keyDesc  string
	evidence string
}

func valueDesc(v ssa.Value) string {
	if f, _ := loadedField(v); f != nil {
		return f.Name()
	}
	switch x := v.(type) {
	case *ssa.Parameter:
		return x.Name()
	case *ssa.Const:
		return x.String()
	case *ssa.Extract:
		return "elem"
	case *ssa.FreeVar:
		return x.Name()
	}
	return v.Name()
}

// sameMapExpr: two values denote the same map (same field of the same base / same value).
func sameMapExpr(a, b ssa.Value) bool {
	if a == b {
		return true
	}
	fa, ba := loadedField(a)
	fb, bb := loadedField(b)
	if fa != nil && sameField(fa, fb) {
		if ba == bb {
			return true
		}
		// bases that are loads of the same field (x.g.nodes)
		f1, _ := loadedField(ba)
		f2, _ := loadedField(bb)
		if f1 != nil && sameField(f1, f2) {
			return true
		}
		// bases that are loads of the same (spilled) local cell
		u1, ok1 := ba.(*ssa.UnOp)
		u2, ok2 := bb.(*ssa.UnOp)
		if ok1 && ok2 && u1.X == u2.X {
			if _, isCell := u1.X.(*ssa.Alloc); isCell {
				return true
			}
		}
		return false
	}
	return false
}

func sameKeyExpr(a, b ssa.Value) bool {
	if a == b {
		return true
	}
	fa, ba := loadedField(a)
	fb, bb := loadedField(b)
	if fa != nil && sameField(fa, fb) && ba == bb {
		return true
	}
	ca, ok1 := a.(*ssa.Const)
	cb, ok2 := b.(*ssa.Const)
	return ok1 && ok2 && ca.Value != nil && cb.Value != nil && ca.Value.ExactString() == cb.Value.ExactString()
}

// nilMissDerefs finds m[k] (no comma-ok, pointer element) whose result is dereferenced.
func nilMissDerefs(f *ssa.Function) []nilMissSite {
	var out []nilMissSite
	instrs(f, func(in ssa.Instruction) {
		lk, ok := in.(*ssa.Lookup)
		if !ok || lk.CommaOk {
			return
		}
		mt, ok := lk.X.Type().Underlying().(*types.Map)
		if !ok {
			return
		}
		if _, isPtr := mt.Elem().Underlying().(*types.Pointer); !isPtr {
			return
		}
		// dereferenced?
		deref := false
		for _, ref := range *lk.Referrers() {
			switch u := ref.(type) {
			case *ssa.FieldAddr:
				deref = true
			case *ssa.UnOp:
				if u.Op == token.MUL {
					deref = true
				}
			case ssa.CallInstruction:
				if !u.Common().IsInvoke() && len(u.Common().Args) > 0 && u.Common().Args[0] == ssa.Value(lk) {
					if sc := staticCallee(u); sc != nil && sc.Signature.Recv() != nil {
						// method with pointer receiver: nil receiver is dereferenced inside unless the method guards it
						deref = true
					}
				}
			}
		}
		if !deref {
			return
		}
		site := nilMissSite{lk: lk, mapDesc: valueDesc(lk.X), keyDesc: valueDesc(lk.Index)}
		// evidence 1: key is the iteration key of a range over the same map
		if e, ok := lk.Index.(*ssa.Extract); ok && e.Index == 1 {
			if n, ok := e.Tuple.(*ssa.Next); ok {
				if rg, ok := n.Iter.(*ssa.Range); ok && sameMapExpr(rg.X, lk.X) {
					site.evidence = "key iterates over the same map"
				}
			}
		}
		// evidence 2: a comma-ok lookup of the same map/key whose ok-true arm dominates, or whose miss arm returns
		if site.evidence == "" {
			instrs(f, func(in2 ssa.Instruction) {
				l2, ok := in2.(*ssa.Lookup)
				if !ok || !l2.CommaOk || !sameMapExpr(l2.X, lk.X) || !sameKeyExpr(l2.Index, lk.Index) {
					return
				}
				if !instrDominates(l2, lk) {
					return
				}
				// the ok value guards lk's block positively, or the !ok arm never reaches lk
				var okv ssa.Value
				for _, ref := range *l2.Referrers() {
					if e, ok := ref.(*ssa.Extract); ok && e.Index == 1 {
						okv = e
					}
				}
				if okv == nil {
					return
				}
				if hasGuard(lk.Block(), func(g guard) bool { return g.cond == okv && g.pol }) {
					site.evidence = "dominated by a successful comma-ok lookup of the same key"
					return
				}
				// the miss arm cannot reach lk on any path that is consistent about the key's equality with
				// the constants it is compared to (e.g. `!ok && k != START -> return` ... `k != START && m[k].f`)
				for _, ref := range *okv.Referrers() {
					if iff, ok := ref.(*ssa.If); ok {
						if !consistentPathExists(f, iff.Block().Succs[1], lk, lk.Index) {
							site.evidence = "the miss arm of a comma-ok lookup of the same key cannot reach this dereference (on any path consistent about key == reserved constant)"
						}
					}
				}
			})
		}
		out = append(out, site)
	})
	return out
}

// consistentPathExists: is there a CFG path from the start of block `from` to instruction `to` that is
// consistent with ONE valuation of the equalities key == c, for the string constants c the key is compared
// with in f? (A feasible execution compares the same unchanged key the same way every time.)
func consistentPathExists(f *ssa.Function, from *ssa.BasicBlock, to ssa.Instruction, key ssa.Value) bool {
	type test struct {
		iff   *ssa.If
		c     string
		eqArm int // successor index taken when key == c
	}
	var tests []test
	consts := map[string]bool{}
	instrs(f, func(in ssa.Instruction) {
		iff, ok := in.(*ssa.If)
		if !ok {
			return
		}
		op, x, y, ok := asCmp(iff.Cond)
		if !ok || (op != token.EQL && op != token.NEQ) {
			return
		}
		var cv ssa.Value
		if sameKeyExpr(x, key) {
			cv = y
		} else if sameKeyExpr(y, key) {
			cv = x
		} else {
			return
		}
		c, ok := constString(cv)
		if !ok {
			return
		}
		arm := 0
		if op == token.NEQ {
			arm = 1
		}
		tests = append(tests, test{iff, c, arm})
		consts[c] = true
	})
	valuations := []string{"\x00none"}
	for c := range consts {
		valuations = append(valuations, c)
	}
	for _, val := range valuations {
		avoid := map[[2]*ssa.BasicBlock]bool{}
		for _, t := range tests {
			b := t.iff.Block()
			if t.c == val {
				avoid[[2]*ssa.BasicBlock{b, b.Succs[1-t.eqArm]}] = true // must take the equal arm
			} else {
				avoid[[2]*ssa.BasicBlock{b, b.Succs[t.eqArm]}] = true // must take the not-equal arm
			}
		}
		reach, _ := pathFromBlock(pathQuery{fn: f, goal: func(i ssa.Instruction) bool { return i == to }, avoidEdge: func(a, b *ssa.BasicBlock) bool { return avoid[[2]*ssa.BasicBlock{a, b}] }}, from)
		if reach {
			return true
		}
	}
	return false
}

// fieldsReadBy collects the struct fields loaded anywhere in the expression tree of v (bounded depth).
func fieldsReadBy(v ssa.Value, depth int, out map[*types.Var]bool) {
	if v == nil || depth > 6 {
		return
	}
	if f, _ := loadedField(v); f != nil {
		out[f.Origin()] = true
	}
	if in, ok := v.(ssa.Instruction); ok {
		if _, isPhi := v.(*ssa.Phi); isPhi {
			return
		}
		for _, op := range in.Operands(nil) {
			if *op != nil {
				fieldsReadBy(*op, depth+1, out)
			}
		}
	}
}

// stateHandlerValidationReached: graph.addNode compares the handler's declared state type with the graph's state type
// (and the handler's value type with the node's). Those comparisons are guarded by option fields; every guard on a
// field of graphAddNodeOpts / processorOpts must be a fact that EVERY option constructor declaring that handler
// establishes (handler != nil, processor != nil, needState == true when the constructor sets it) — otherwise one way of
// declaring a state handler skips the validation ("state handlers without state" / wrong state type accepted).
func stateHandlerValidationReached(w *World, r *Report, rule string) {
	addNode := w.Fn("compose", "graph.addNode")
	fStateType := w.Field("compose", "graph", "stateType")
	fNeed := w.Field("compose", "graphAddNodeOpts", "needState")
	fProc := w.Field("compose", "graphAddNodeOpts", "processor")
	optsT := w.Named("compose", "graphAddNodeOpts")
	procT := w.Named("compose", "processorOpts")
	kinds := []struct {
		name             string
		handler, stateTy *types.Var
	}{
		{"pre", w.Field("compose", "processorOpts", "statePreHandler"), w.Field("compose", "processorOpts", "preStateType")},
		{"post", w.Field("compose", "processorOpts", "statePostHandler"), w.Field("compose", "processorOpts", "postStateType")},
	}
	for _, k := range kinds {
		// constructors: function literals that store the handler field
		type ctor struct {
			fn       *ssa.Function
			setsNeed bool
			setsType bool
		}
		var ctors []ctor
		for _, fn := range w.RepoFuncs("compose") {
			if fn == addNode {
				continue
			}
			sets := false
			c := ctor{fn: fn}
			for _, fw := range fieldWrites(fn) {
				if sameField(fw.field, k.handler) && fw.kind == "store" {
					if cst, isConst := fw.val.(*ssa.Const); !isConst || !cst.IsNil() {
						sets = true
					}
				}
				if sameField(fw.field, k.stateTy) {
					c.setsType = true
				}
				if sameField(fw.field, fNeed) {
					if cst, ok := fw.val.(*ssa.Const); ok && cst.Value != nil && cst.Value.String() == "true" {
						c.setsNeed = true
					}
				}
			}
			if sets {
				ctors = append(ctors, c)
			}
		}
		if len(ctors) < 2 {
			r.Fail(rule, "constructors of the state "+k.name+"-handler option", addNode.Pos(), fmt.Sprintf("only %d functions store processorOpts.state%sHandler (expected the plain and the stream constructor)", len(ctors), k.name))
			continue
		}
		allNeed := true
		for _, c := range ctors {
			r.Check(c.setsType, rule, w.fname(c.fn)+" records the handler's state type", c.fn.Pos(), "stores "+k.stateTy.Name()+" with the handler", "the constructor declares a state "+k.name+"-handler without its state type: addNode compares a nil type")
			if !c.setsNeed {
				allNeed = false
			}
		}
		// the state-type comparison in addNode
		var tc *ssa.If
		instrs(addNode, func(in ssa.Instruction) {
			iff, ok := in.(*ssa.If)
			if !ok {
				return
			}
			_, x, y, ok := asCmp(iff.Cond)
			if ok && ((isLoadOfField(x, fStateType) && isLoadOfField(y, k.stateTy)) || (isLoadOfField(y, fStateType) && isLoadOfField(x, k.stateTy))) {
				tc = iff
			}
		})
		if tc == nil {
			r.Fail(rule, "addNode validates the state type of the "+k.name+"-handler", addNode.Pos(), "no comparison of graph.stateType with processorOpts."+k.stateTy.Name()+" found")
			continue
		}
		good, why := true, ""
		for _, g := range guardsOf(tc.Block()) {
			fs := map[*types.Var]bool{}
			fieldsReadBy(g.cond, 0, fs)
			for f := range fs {
				owner := fieldOwner(w, f)
				if owner != optsT.Obj() && owner != procT.Obj() {
					continue
				}
				switch {
				case sameField(f, k.handler), sameField(f, fProc):
				case sameField(f, fNeed) && g.pol && allNeed:
				case sameField(f, fNeed):
					good, why = false, "the validation is skipped unless options.needState is set, and not every constructor of this handler sets it"
				default:
					good, why = false, "the validation depends on option field "+f.Name()+", which the handler's constructors do not establish"
				}
			}
		}
		r.Check(good, rule, "addNode validates the state type of the "+k.name+"-handler however it was declared", tc.Cond.Pos(), fmt.Sprintf("guards on option fields: handler != nil / processor != nil%s; %d constructors", map[bool]string{true: " / needState (set by every constructor)", false: ""}[allNeed], len(ctors)), why+": a node with such a handler is accepted on a graph without state (or with another state type); nothing sticks, Compile succeeds and every run fails at the handler")
	}
}

func fieldOwner(w *World, f *types.Var) *types.TypeName {
	for _, pkg := range w.Pkgs {
		if pkg.Types != f.Pkg() {
			continue
		}
		sc := pkg.Types.Scope()
		for _, n := range sc.Names() {
			tn, ok := sc.Lookup(n).(*types.TypeName)
			if !ok {
				continue
			}
			st, ok := tn.Type().Underlying().(*types.Struct)
			if !ok {
				continue
			}
			for i := 0; i < st.NumFields(); i++ {
				if st.Field(i) == f {
					return tn
				}
			}
		}
	}
	return nil
}

// ---- NIL-RECEIVER (narrow): composableRunnable.genericHelper is nil for a pass-through node until its type has been
// inferred (composablePassthrough leaves it unset). Where a value that may be that field is used as the receiver of a
// *genericHelper method (all of which dereference the receiver), a nil test must stand in front of the call.
func mayBeNilHelper(v ssa.Value, fHelper *types.Var, depth int, seen map[ssa.Value]bool) bool {
	if depth > 10 || seen[v] {
		return false
	}
	seen[v] = true
	switch x := v.(type) {
	case *ssa.UnOp:
		if isLoadOfField(x, fHelper) {
			return true
		}
	case *ssa.Phi:
		for i, e := range x.Edges {
			pred := x.Block().Preds[i]
			if nonNilOnEdge(e, pred, x.Block()) {
				continue
			}
			if mayBeNilHelper(e, fHelper, depth+1, seen) {
				return true
			}
		}
	case *ssa.Const:
		return x.IsNil()
	}
	return false
}

// nonNilOnEdge: the edge pred->blk is taken only when v != nil (pred ends in `if v == nil` / `if v != nil`).
func nonNilOnEdge(v ssa.Value, pred, blk *ssa.BasicBlock) bool {
	if len(pred.Instrs) == 0 {
		return false
	}
	iff, ok := pred.Instrs[len(pred.Instrs)-1].(*ssa.If)
	if !ok {
		// the test may sit further up: every guard of pred applies to the edge as well
		return hasGuard(pred, func(g guard) bool { return guardNonNil(g, func(x ssa.Value) bool { return x == v }) })
	}
	op, x, y, ok := asCmp(iff.Cond)
	if ok && x == v && isNilConst(y) {
		if op == token.EQL && pred.Succs[1] == blk {
			return true
		}
		if op == token.NEQ && pred.Succs[0] == blk {
			return true
		}
	}
	return hasGuard(pred, func(g guard) bool { return guardNonNil(g, func(x ssa.Value) bool { return x == v }) })
}

func nilHelperReceiverCheck(w *World, r *Report, rule string) {
	fHelper := w.Field("compose", "composableRunnable", "genericHelper")
	ghT := w.Named("compose", "genericHelper")
	// evidence that the field can be nil: a constructor of composableRunnable that does not set it
	leavesNil := ""
	for _, fn := range w.RepoFuncs("compose") {
		allocs, sets := false, false
		instrs(fn, func(in ssa.Instruction) {
			if al, ok := in.(*ssa.Alloc); ok && namedOf(deref(al.Type())) == w.Named("compose", "composableRunnable") && al.Heap {
				allocs = true
			}
		})
		if !allocs {
			continue
		}
		for _, fw := range fieldWrites(fn) {
			if sameField(fw.field, fHelper) {
				sets = true
			}
		}
		if !sets && leavesNil == "" && strings.Contains(strings.ToLower(fn.Name()), "passthrough") {
			leavesNil = w.fname(fn)
		}
	}
	f := w.Fn("compose", "graphNode.getGenericHelper")
	n := 0
	instrs(f, func(in ssa.Instruction) {
		c, ok := in.(*ssa.Call)
		if !ok {
			return
		}
		sc := staticCallee(c)
		if sc == nil || sc.Signature.Recv() == nil || namedOf(deref(sc.Signature.Recv().Type())) != ghT {
			return
		}
		n++
		recv := c.Call.Args[0]
		may := mayBeNilHelper(recv, fHelper, 0, map[ssa.Value]bool{})
		if may {
			// a dominating test on the receiver itself
			if hasGuard(c.Block(), func(g guard) bool { return guardNonNil(g, func(x ssa.Value) bool { return x == recv }) }) {
				may = false
			}
		}
		r.Check(!may, rule, fmt.Sprintf("graphNode.getGenericHelper: receiver of %s", sc.Name()), c.Pos(), "the receiver cannot be the unset helper of a pass-through node (nil test / replacement in front of the call)", "the receiver may be composableRunnable.genericHelper of a pass-through node whose type is not inferred yet ("+leavesNil+" leaves it nil): "+sc.Name()+" dereferences it — AddEdge / AddBranch on a pass-through node declared with WithInputKey / WithOutputKey panics with a nil pointer dereference instead of returning an error")
	})
	if n < 2 {
		r.Fail(rule, "graphNode.getGenericHelper: helper method calls", f.Pos(), fmt.Sprintf("%d calls found (forMapInput / forMapOutput expected)", n))
	}
}

// chainAppendArgsNotMutated: shared by C20.builder-args-not-mutated and C01.chain-stage-values-not-mutated.
func chainAppendArgsNotMutated(w *World, r *Report, rule string) {
	n := 0
	chainT := w.Named("compose", "Chain")
	ms := types.NewMethodSet(types.NewPointer(chainT))
	for i := 0; i < ms.Len(); i++ {
		m := ms.At(i).Obj().(*types.Func)
		if !strings.HasPrefix(m.Name(), "Append") {
			continue
		}
		f := w.Prog.FuncValue(m)
		if f == nil || len(f.Blocks) == 0 {
			continue
		}
		which := map[string]bool{}
		for _, p := range f.Params[1:] {
			if _, isPtr := p.Type().Underlying().(*types.Pointer); isPtr {
				which[p.Name()] = true
			}
		}
		if len(which) == 0 {
			continue
		}
		n++
		ruleNoMutateParams(w, r, rule, f, which)
	}
	if n < 2 {
		r.Fail(rule, "Chain.Append* methods taking pointers", chainT.Obj().Pos(), fmt.Sprintf("%d found", n))
	}
}

// sameFieldLoad: two values that are the same value or loads of the same field of the same base (go/ssa does no CSE).
func sameFieldLoad(a, b ssa.Value) bool {
	if a == b {
		return true
	}
	fa, ba := loadedField(a)
	fb, bb := loadedField(b)
	return fa != nil && fb != nil && sameField(fa, fb) && ba == bb
}

// namedOfRecv: the (origin of the) named receiver type of a method, or nil.
func namedOfRecv(fn *ssa.Function) *types.Named {
	fn = origin(fn)
	if fn.Signature.Recv() == nil {
		return nil
	}
	n := namedOf(fn.Signature.Recv().Type())
	if n == nil {
		return nil
	}
	return n.Origin()
}

// compileReentrancyFlag: the bool field of graph that graph.compile sets to true in its own body, resets to false in a
// deferred closure, and tests (true side -> error return) before it does anything else.
func compileReentrancyFlag(w *World) *types.Var {
	gcompile := w.Fn("compose", "graph.compile")
	graphT := w.Named("compose", "graph")
	var set, reset map[*types.Var]bool
	set, reset = map[*types.Var]bool{}, map[*types.Var]bool{}
	for _, f := range withAnons(gcompile) {
		deferred := false
		if f != gcompile {
			instrs(gcompile, func(in ssa.Instruction) {
				if d, ok := in.(*ssa.Defer); ok {
					if mc, ok := d.Call.Value.(*ssa.MakeClosure); ok && mc.Fn == f {
						deferred = true
					}
				}
			})
		}
		for _, fw := range fieldWrites(f) {
			if fw.owner != graphT {
				continue
			}
			b, isC := constBool(fw.val)
			if !isC {
				continue
			}
			if f == gcompile && b {
				set[fw.field] = true
			}
			if deferred && !b {
				reset[fw.field] = true
			}
		}
	}
	for f := range set {
		if !reset[f] {
			continue
		}
		tested := false
		instrs(gcompile, func(in ssa.Instruction) {
			ret, ok := in.(*ssa.Return)
			if !ok || len(ret.Results) != 2 || isNilConst(returnedValue(ret, 1)) {
				return
			}
			if hasGuard(ret.Block(), func(g guard) bool { return g.pol && isLoadOfField(g.cond, f) }) {
				tested = true
			}
		})
		if tested {
			return f
		}
	}
	return nil
}
