package main

import (
	"go/types"
	"sort"

	"golang.org/x/tools/go/ssa"
)

// NEVER-WRITTEN: an unexported struct field that the module reads but never writes (no store through its
// address, no address escaping to a callee, not part of a type filled by a decoder) always holds its zero
// value. For a field whose type contains function values that is a latent nil call.

type fieldUse struct {
	field  *types.Var
	owner  *types.Named
	reads  []ssa.Instruction
	writes int
}

func neverWrittenFields(w *World, pkgs ...string) []*fieldUse {
	uses := map[*types.Var]*fieldUse{}
	get := func(f *types.Var, owner *types.Named) *fieldUse {
		f = f.Origin()
		u := uses[f]
		if u == nil {
			u = &fieldUse{field: f, owner: owner}
			uses[f] = u
		}
		return u
	}
	for _, fn := range w.RepoFuncs(pkgs...) {
		instrs(fn, func(in ssa.Instruction) {
			switch x := in.(type) {
			case *ssa.FieldAddr:
				f := fieldVarOfAddr(x)
				if f == nil {
					return
				}
				u := get(f, ownerOfFieldAddr(x))
				for _, ref := range *x.Referrers() {
					switch r := ref.(type) {
					case *ssa.Store:
						if r.Addr == ssa.Value(x) {
							u.writes++
						} else {
							u.writes++ // address stored somewhere: may be written through it
						}
					case *ssa.UnOp:
						u.reads = append(u.reads, r)
					case *ssa.FieldAddr, *ssa.IndexAddr:
						// nested access: a write to a sub-field / element writes this field's storage
						if addrWritten(r.(ssa.Value), 0) {
							u.writes++
						} else {
							u.reads = append(u.reads, ref)
						}
					case ssa.CallInstruction:
						u.writes++ // address passed to a callee (sync.Mutex.Lock, json.Unmarshal …)
					case *ssa.DebugRef:
					default:
						u.writes++ // phi, make-interface, … : be conservative
					}
				}
			case *ssa.Field:
				if f := fieldVarOfField(x); f != nil {
					u := get(f, namedOf(x.X.Type()))
					u.reads = append(u.reads, x)
				}
			}
		})
	}
	var out []*fieldUse
	for _, u := range uses {
		if u.writes == 0 && len(u.reads) > 0 && !u.field.Exported() && u.owner != nil {
			out = append(out, u)
		}
	}
	sort.Slice(out, func(i, j int) bool {
		return out[i].owner.Obj().Name()+out[i].field.Name() < out[j].owner.Obj().Name()+out[j].field.Name()
	})
	return out
}

// addrWritten: the address (or an address derived from it) is stored to / escapes.
func addrWritten(a ssa.Value, d int) bool {
	if d > 4 {
		return true
	}
	refs := a.Referrers()
	if refs == nil {
		return false
	}
	for _, ref := range *refs {
		switch r := ref.(type) {
		case *ssa.Store:
			return true
		case *ssa.UnOp, *ssa.DebugRef:
		case *ssa.FieldAddr:
			if addrWritten(r, d+1) {
				return true
			}
		case *ssa.IndexAddr:
			if addrWritten(r, d+1) {
				return true
			}
		default:
			return true
		}
	}
	return false
}

func containsFunc(t types.Type, d int) bool {
	if d > 4 {
		return false
	}
	switch x := t.Underlying().(type) {
	case *types.Signature:
		return true
	case *types.Struct:
		for i := 0; i < x.NumFields(); i++ {
			if containsFunc(x.Field(i).Type(), d+1) {
				return true
			}
		}
	}
	return false
}
