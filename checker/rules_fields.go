package main

import (
	"fmt"
	"go/token"
	"go/types"
	"sort"
	"strings"

	"golang.org/x/tools/go/ssa"
)

// NEVER-WRITTEN: an unexported struct field that the module reads but never writes (no store through its
// address, no address escaping to a callee, not part of a type filled by a decoder) always holds its zero
// value. For a field whose type contains function values that is a latent nil call.

type fieldUse struct {
	field  *types.Var
	owner  *types.Named
	reads  []ssa.Instruction
	writes int
}

func neverWrittenFields(w *World, pkgs ...string) []*fieldUse {
	uses := map[*types.Var]*fieldUse{}
	get := func(f *types.Var, owner *types.Named) *fieldUse {
		f = f.Origin()
		u := uses[f]
		if u == nil {
			u = &fieldUse{field: f, owner: owner}
			uses[f] = u
		}
		return u
	}
	for _, fn := range w.RepoFuncs(pkgs...) {
		instrs(fn, func(in ssa.Instruction) {
			switch x := in.(type) {
			case *ssa.FieldAddr:
				f := fieldVarOfAddr(x)
				if f == nil {
					return
				}
				u := get(f, ownerOfFieldAddr(x))
				for _, ref := range *x.Referrers() {
					switch r := ref.(type) {
					case *ssa.Store:
						if r.Addr == ssa.Value(x) {
							u.writes++
						} else {
							u.writes++ // address stored somewhere: may be written through it
						}
					case *ssa.UnOp:
						u.reads = append(u.reads, r)
					case *ssa.FieldAddr, *ssa.IndexAddr:
						// nested access: a write to a sub-field / element writes this field's storage
						if addrWritten(r.(ssa.Value), 0) {
							u.writes++
						} else {
							u.reads = append(u.reads, ref)
						}
					case ssa.CallInstruction:
						u.writes++ // address passed to a callee (sync.Mutex.Lock, json.Unmarshal …)
					case *ssa.DebugRef:
					default:
						u.writes++ // phi, make-interface, … : be conservative
					}
				}
			case *ssa.Field:
				if f := fieldVarOfField(x); f != nil {
					u := get(f, namedOf(x.X.Type()))
					u.reads = append(u.reads, x)
				}
			}
		})
	}
	var out []*fieldUse
	for _, u := range uses {
		if u.writes == 0 && len(u.reads) > 0 && !u.field.Exported() && u.owner != nil {
			out = append(out, u)
		}
	}
	sort.Slice(out, func(i, j int) bool {
		return out[i].owner.Obj().Name()+out[i].field.Name() < out[j].owner.Obj().Name()+out[j].field.Name()
	})
	return out
}

// addrWritten: the address (or an address derived from it) is stored to / escapes.
func addrWritten(a ssa.Value, d int) bool {
	if d > 4 {
		return true
	}
	refs := a.Referrers()
	if refs == nil {
		return false
	}
	for _, ref := range *refs {
		switch r := ref.(type) {
		case *ssa.Store:
			return true
		case *ssa.UnOp, *ssa.DebugRef:
		case *ssa.FieldAddr:
			if addrWritten(r, d+1) {
				return true
			}
		case *ssa.IndexAddr:
			if addrWritten(r, d+1) {
				return true
			}
		default:
			return true
		}
	}
	return false
}

func containsFunc(t types.Type, d int) bool {
	if d > 4 {
		return false
	}
	switch x := t.Underlying().(type) {
	case *types.Signature:
		return true
	case *types.Struct:
		for i := 0; i < x.NumFields(); i++ {
			if containsFunc(x.Field(i).Type(), d+1) {
				return true
			}
		}
	}
	return false
}

// ROLE-AGREEMENT: a field whose name carries a direction role (input/output, pre/post, start/end, in/out …) is
// normally filled from a source of the same role. Cross-role assignments are the few deliberate ones (END consumes the
// graph's OUTPUT; a successor pass-through takes its predecessor's OUTPUT side as its INPUT side) — each is listed with
// its reason; any other cross-role assignment is reported.
type roleAssign struct {
	fn       *ssa.Function
	at       ssa.Instruction
	dst, src string
	dstRole  string
	srcRole  string
	owner    string // struct type declaring the destination field ("" for tables)
	sameBase bool   // source is a field of the very object written to
	table    bool
}

var rolePairs = [][2]string{{"input", "output"}, {"pre", "post"}, {"before", "after"}}

func roleOf(name string) string {
	// camelCase tokens; the first one that is a role word decides
	var toks []string
	cur := ""
	for i, ch := range name {
		if i > 0 && ch >= 'A' && ch <= 'Z' && cur != "" {
			toks = append(toks, strings.ToLower(cur))
			cur = ""
		}
		cur += string(ch)
	}
	if cur != "" {
		toks = append(toks, strings.ToLower(cur))
	}
	for _, t := range toks {
		for _, p := range rolePairs {
			for i, r := range p {
				if t == r {
					return p[i]
				}
			}
		}
	}
	return ""
}

func opposite(a, b string) bool {
	for _, p := range rolePairs {
		if (a == p[0] && b == p[1]) || (a == p[1] && b == p[0]) {
			return true
		}
	}
	return false
}

func roleAssignments(fns []*ssa.Function) []roleAssign {
	var out []roleAssign
	srcName := func(v ssa.Value) string {
		for d := 0; d < 4; d++ {
			if f, _ := loadedField(v); f != nil {
				return f.Name()
			}
			switch x := v.(type) {
			case *ssa.Function:
				return x.Name()
			case *ssa.MakeClosure:
				return x.Fn.Name()
			case *ssa.Call:
				return "" // a computed value (e.g. the neighbour's type along an edge: output feeds input by design)
			case *ssa.MakeInterface:
				v = x.X
				continue
			case *ssa.ChangeType:
				v = x.X
				continue
			case *ssa.Parameter:
				return x.Name()
			}
			return ""
		}
		return ""
	}
	for _, fn := range fns {
		for _, fw := range fieldWrites(fn) {
			if fw.kind != "store" {
				continue
			}
			dr := roleOf(fw.field.Name())
			if dr == "" {
				continue
			}
			sn := srcName(fw.val)
			sr := roleOf(sn)
			if sr == "" {
				continue
			}
			owner := ""
			if fw.owner != nil {
				owner = fw.owner.Obj().Name()
			}
			same := false
			if _, sb := loadedField(fw.val); sb != nil && fw.base != nil && (sb == fw.base || valText(sb) == valText(fw.base)) {
				same = true
			}
			out = append(out, roleAssign{fn, fw.in, fw.field.Name(), sn, dr, sr, owner, same, false})
		}
		// map updates keyed tables named by role: inputPairs[...] = x.outputStreamConvertPair
		instrs(fn, func(in ssa.Instruction) {
			mu, ok := in.(*ssa.MapUpdate)
			if !ok {
				return
			}
			var mname string
			switch m := mu.Map.(type) {
			case *ssa.MakeMap:
				// a local table: named after the parameter it is passed as
				for _, ref := range *m.Referrers() {
					if c, ok := ref.(ssa.CallInstruction); ok {
						if sc := staticCallee(c); sc != nil {
							for i, a := range c.Common().Args {
								if a == ssa.Value(m) && i < len(sc.Params) {
									mname = sc.Params[i].Name()
								}
							}
						}
					}
				}
			default:
				if f, _ := loadedField(mu.Map); f != nil {
					mname = f.Name()
				}
			}
			dr := roleOf(mname)
			sn := srcName(mu.Value)
			sr := roleOf(sn)
			if dr == "" || sr == "" {
				return
			}
			out = append(out, roleAssign{fn, in, mname + "[…]", sn, dr, sr, "", false, true})
		})
	}
	return out
}

// ruleRoleUniform: within one function, the role-carrying fields of one struct type that share a destination role are
// all filled from sources of ONE role (all `input*` from `input*`, or — a deliberate derivation — all from `output*`);
// a lone cross-role assignment is accepted only when it copies a field of the same object (pass-through typing:
// cr.outputType = cr.inputType) or fills a role-named table (decided by the pair-table rule).
func ruleRoleUniform(w *World, r *Report, rule string, pkgs ...string) int {
	ras := roleAssignments(w.RepoFuncs(pkgs...))
	type key struct {
		fn    *ssa.Function
		owner string
		role  string
	}
	groups := map[key][]roleAssign{}
	var order []key
	for _, ra := range ras {
		if ra.table {
			continue
		}
		k := key{ra.fn, ra.owner, ra.dstRole}
		if _, ok := groups[k]; !ok {
			order = append(order, k)
		}
		groups[k] = append(groups[k], ra)
	}
	sort.Slice(order, func(i, j int) bool {
		a, b := order[i], order[j]
		if a.fn.String() != b.fn.String() {
			return a.fn.String() < b.fn.String()
		}
		if a.owner != b.owner {
			return a.owner < b.owner
		}
		return a.role < b.role
	})
	n := 0
	for _, k := range order {
		g := groups[k]
		n++
		roles := map[string]int{}
		for _, ra := range g {
			roles[ra.srcRole]++
		}
		construct := fmt.Sprintf("%s: %s.%s* fields (%d)", w.fname(origin(k.fn)), k.owner, k.role, len(g))
		if len(roles) > 1 {
			var odd roleAssign
			minor := ""
			for rl, c := range roles {
				if minor == "" || c < roles[minor] {
					minor = rl
				}
			}
			for _, ra := range g {
				if ra.srcRole == minor {
					odd = ra
				}
			}
			r.Fail(rule, construct, odd.at.Pos(), fmt.Sprintf("the %s-side fields of %s are filled from sources of mixed roles: %s <- %s stands out (its siblings come from the %s side) — one slot of the derived object handles values of the other side's type (wrong zero value / empty stream / converter for one paradigm only)", k.role, k.owner, odd.dst, odd.src, map[bool]string{true: "other", false: "same"}[opposite(odd.dstRole, odd.srcRole)]))
			continue
		}
		cross := false
		for rl := range roles {
			cross = opposite(k.role, rl)
		}
		bothSides := false // pass-through typing: one source types both sides of one object (x.inputType = S; x.outputType = S)
		if cross && len(g) == 1 {
			for _, o := range ras {
				if o.fn == k.fn && o.owner == k.owner && opposite(o.dstRole, k.role) && o.src == g[0].src && !o.table {
					// … and only for a node known to be a pass-through at that point (a dominating test against the
					// pass-through component constant): for such a node input and output are the same thing
					cPass := constStringOf(w, "compose", "ComponentOfPassthrough")
					if hasGuard(g[0].at.Block(), func(gd guard) bool {
						_, x, y, ok := asCmp(gd.cond)
						if !ok || !gd.pol {
							return false
						}
						for _, v := range []ssa.Value{x, y} {
							if cs, ok := constString(through(v)); ok && cs == cPass {
								return true
							}
						}
						return false
					}) {
						bothSides = true
					}
				}
			}
		}
		if cross && len(g) == 1 && !g[0].sameBase && !bothSides {
			r.Fail(rule, construct, g[0].at.Pos(), fmt.Sprintf("%s is filled from %s: a lone cross-role assignment that is not a copy within one object", g[0].dst, g[0].src))
			continue
		}
		how := "same role"
		if cross {
			how = "uniformly from the opposite role (a deliberate derivation)"
			if len(g) == 1 {
				how = "cross-role copy within one object (pass-through typing)"
			}
		}
		r.OK(rule, construct, g[0].at.Pos(), how)
	}
	return n
}

// FIELD-COPY-COMPLETE: a function that builds a T by copying, field by field, from another T (x.F = y.F for several F)
// is a copier; a field it does not mention silently gets its zero value in the copy.
type partialCopy struct {
	fn      *ssa.Function
	typ     *types.Named
	copied  []string
	missing []string
	at      ssa.Instruction
}

func partialCopies(fns []*ssa.Function) []partialCopy {
	var out []partialCopy
	for _, fn := range fns {
		type key struct {
			base ssa.Value
			typ  *types.Named
		}
		copied := map[key]map[string]bool{}
		written := map[key]map[string]bool{}
		first := map[key]ssa.Instruction{}
		for _, fw := range fieldWrites(fn) {
			if fw.kind != "store" || fw.owner == nil || fw.base == nil {
				continue
			}
			k := key{fw.base, fw.owner}
			if written[k] == nil {
				written[k] = map[string]bool{}
				copied[k] = map[string]bool{}
				first[k] = fw.in
			}
			written[k][fw.field.Name()] = true
			if f, sb := loadedField(fw.val); f != nil && sameField(f, fw.field) && sb != fw.base {
				if namedOf(deref(sb.Type())) == fw.owner {
					copied[k][fw.field.Name()] = true
				}
			}
		}
		for k, c := range copied {
			st, ok := k.typ.Underlying().(*types.Struct)
			if !ok || len(c) < 2 {
				continue
			}
			var missing, cp []string
			for i := 0; i < st.NumFields(); i++ {
				n := st.Field(i).Name()
				if c[n] {
					cp = append(cp, n)
				}
				if !written[k][n] {
					missing = append(missing, n)
				}
			}
			out = append(out, partialCopy{fn, k.typ, cp, missing, first[k]})
		}
	}
	return out
}

// ZERO-MATCHES-HANDLER-CHAIN: a node whose pre-node handler chain ends in the map-to-input converter (a node with
// field mappings or static values) receives, through its channel, the intermediate map[string]any — also when no data
// arrived at all. So (1) graph.compile records, in the very loop that appends inputFieldMappingConverter, the node key
// in a set it hands to the runner, and (2) initChannelManager picks, for every channel it builds, the map-typed zero
// value / empty stream under a lookup of that set with the channel's own key.
func mappedZeroChecks(w *World, r *Report, rule string) {
	compile := w.Fn("compose", "graph.compile")
	icm := w.Fn("compose", "runner.initChannelManager")
	fConv := w.Field("compose", "genericHelper", "inputFieldMappingConverter")
	runnerT := w.Named("compose", "runner")
	// (1) the loop that appends the converter also records the key
	var convAppend *ssa.Call
	instrs(compile, func(in ssa.Instruction) {
		c, ok := in.(*ssa.Call)
		if !ok || !isBuiltin(c, "append") || len(c.Call.Args) < 2 {
			return
		}
		if sl, ok := c.Call.Args[1].(*ssa.Slice); ok {
			if al, ok := sl.X.(*ssa.Alloc); ok {
				for _, ref := range *al.Referrers() {
					if ia, ok := ref.(*ssa.IndexAddr); ok {
						for _, r2 := range *ia.Referrers() {
							if st, ok := r2.(*ssa.Store); ok && isLoadOfField(st.Val, fConv) {
								convAppend = c
							}
						}
					}
				}
			}
		}
	})
	if convAppend == nil {
		undecidedf("%s: graph.compile: the append of inputFieldMappingConverter was not found", rule)
	}
	var setMap ssa.Value
	for _, in := range convAppend.Block().Instrs {
		if mu, ok := in.(*ssa.MapUpdate); ok {
			if b, ok := constBool(mu.Value); ok && b {
				setMap = mu.Map
			}
		}
	}
	var setField *types.Var
	if setMap != nil {
		for _, fw := range fieldWrites(compile) {
			if fw.owner == runnerT && fw.val == setMap {
				setField = fw.field
			}
		}
	}
	r.Check(setField != nil, rule, "graph.compile: nodes given the map-to-input converter are recorded for the runner", convAppend.Pos(), "the block that appends inputFieldMappingConverter marks the key in a set stored in a runner field",
		"the runner is not told which nodes take their input as the intermediate map[string]any: when such a node is triggered without data (all data predecessors skipped, or static values only) its channel hands the handler chain a zero value of the NODE's input type — the static-value merge fails with '(mergeValues) unsupported type', the converter with 'unexpected input type', although the same workflow runs when the node's input is a map")
	if setField == nil {
		return
	}
	// (2) every channel built in initChannelManager chooses its zero value / empty stream under that set
	isMapInst := func(v ssa.Value, name string) bool {
		f, ok := v.(*ssa.Function)
		if !ok || origin(f).Name() != name || len(f.TypeArgs()) != 1 {
			return false
		}
		m, ok := f.TypeArgs()[0].Underlying().(*types.Map)
		return ok && types.Identical(m.Key(), types.Typ[types.String])
	}
	n := 0
	instrs(icm, func(in ssa.Instruction) {
		c, ok := in.(*ssa.Call)
		if !ok || len(c.Call.Args) != 4 || c.Call.IsInvoke() || staticCallee(c) != nil {
			return
		}
		if _, isB := c.Call.Value.(*ssa.Builtin); isB {
			return
		}
		n++
		for ai, nm := range map[int]string{2: "zeroValueFromGeneric", 3: "emptyStreamFromGeneric"} {
			phi, ok := c.Call.Args[ai].(*ssa.Phi)
			good := false
			if ok {
				for ei, e := range phi.Edges {
					if !isMapInst(e, nm) {
						continue
					}
					// the edge comes from the true side of a lookup in the set
					pred := phi.Block().Preds[ei]
					for _, g := range append(guardsOf(pred), guardsOfEdge(pred, phi.Block())...) {
						if lk, ok := g.cond.(*ssa.Lookup); ok && g.pol && isLoadOfField(lk.X, setField) {
							good = true
						}
					}
				}
			}
			r.Check(good, rule, fmt.Sprintf("initChannelManager: channel #%d argument %d follows the mapped-input set", n, ai), c.Pos(), "map[string]any zero value / empty stream under r."+setField.Name()+"[key]", "a channel's 'no data' value is always the node-typed one: a node with mapped input triggered without data gets a value its handler chain cannot take")
		}
	})
	if n < 2 {
		undecidedf("%s: initChannelManager builds %d channels through the builder (2 expected: nodes, END)", rule, n)
	}
}

// guardsOfEdge: the guard contributed by the edge pred->b itself when pred ends in an If.
func guardsOfEdge(pred, b *ssa.BasicBlock) []guard {
	if len(pred.Instrs) == 0 {
		return nil
	}
	iff, ok := pred.Instrs[len(pred.Instrs)-1].(*ssa.If)
	if !ok {
		return nil
	}
	if pred.Succs[0] == b && pred.Succs[1] != b {
		return []guard{{iff.Cond, true, iff}}
	}
	if pred.Succs[1] == b && pred.Succs[0] != b {
		return []guard{{iff.Cond, false, iff}}
	}
	return nil
}

// unpackRefusalChecks: unpackStreamReader[T] refuses a reader (returns false — its callers panic "unexpected input
// type") only when NEITHER side is interface-typed: both the target type's kind and the reader's chunk type's kind
// were tested against reflect.Interface on the way to the refusal.
func unpackRefusalChecks(w *World, r *Report, rule string) {
	up := w.Fn("compose", "unpackStreamReader")
	n := 0
	instrs(up, func(in ssa.Instruction) {
		ret, ok := in.(*ssa.Return)
		if !ok || len(ret.Results) != 2 {
			return
		}
		if b, isC := constBool(ret.Results[1]); !isC || b {
			return
		}
		n++
		kindOf := func(pred func(recv ssa.Value) bool) bool {
			return hasGuard(ret.Block(), func(g guard) bool {
				op, x, y, ok := asCmp(g.cond)
				if !ok {
					return false
				}
				// Kind() == reflect.Interface on the false side (or != on the true side)
				if !((op == token.EQL && !g.pol) || (op == token.NEQ && g.pol)) {
					return false
				}
				kc, ok := x.(*ssa.Call)
				if !ok || !kc.Call.IsInvoke() || kc.Call.Method.Name() != "Kind" {
					return false
				}
				c, ok := y.(*ssa.Const)
				if !ok || c.Value == nil || c.Value.String() != "20" { // reflect.Interface
					return false
				}
				return pred(kc.Call.Value)
			})
		}
		target := kindOf(func(v ssa.Value) bool {
			return dataDependsOnCall(v, "TypeOf")
		})
		chunk := kindOf(func(v ssa.Value) bool {
			c, ok := v.(*ssa.Call)
			return ok && c.Call.IsInvoke() && c.Call.Method.Name() == "getChunkType"
		})
		r.Check(target && chunk, rule, fmt.Sprintf("unpackStreamReader: refusal #%d only when neither side is interface-typed", n), ret.Pos(), "both T's kind and the reader's chunk kind were compared with reflect.Interface",
			fmt.Sprintf("a reader whose chunks are interface-typed (target tested: %v, chunk type tested: %v) is refused for a concrete T: the output of an any-typed state handler on a pass-through node (the only spelling addNode accepts) reaches the typed successor as StreamReader[any] and the node panics 'unexpected input type' in Stream / Collect / Transform, while Invoke narrows the value and succeeds", target, chunk))
	})
	if n == 0 {
		undecidedf("%s: unpackStreamReader has no refusal return", rule)
	}
}

// dataDependsOnCall: v is (a load of a cell holding) the result of a call to a function of that name.
func dataDependsOnCall(v ssa.Value, name string) bool {
	seen := map[ssa.Value]bool{}
	var visit func(v ssa.Value, d int) bool
	visit = func(v ssa.Value, d int) bool {
		if v == nil || d > 8 || seen[v] {
			return false
		}
		seen[v] = true
		switch x := v.(type) {
		case *ssa.Call:
			if sc := staticCallee(x); sc != nil && origin(sc).Name() == name {
				return true
			}
		case *ssa.UnOp:
			return visit(x.X, d+1)
		case *ssa.Alloc:
			for _, ref := range *x.Referrers() {
				if st, ok := ref.(*ssa.Store); ok && st.Addr == ssa.Value(x) && visit(st.Val, d+1) {
					return true
				}
			}
		}
		return false
	}
	return visit(v, 0)
}

// inputKeyNarrowingChecked: the invoke half of inputKeyedComposableRunnable passes the value found under the key to
// the inner runnable only after the inner node's own input checker (genericHelper.inputConverter.invoke) — the stream
// half narrows through inputStreamFilter, which checks.
func inputKeyNarrowingChecked(w *World, r *Report, rule string) {
	ik := w.Fn("compose", "inputKeyedComposableRunnable")
	fInv := w.Field("compose", "handlerPair", "invoke")
	n := 0
	for _, lit := range withAnons(ik) {
		if lit == ik || len(lit.Params) < 2 {
			continue
		}
		if it, isAny := lit.Params[1].Type().Underlying().(*types.Interface); !isAny || !it.Empty() {
			continue // the stream half
		}
		instrs(lit, func(in ssa.Instruction) {
			c, ok := in.(*ssa.Call)
			if !ok || c.Call.IsInvoke() || staticCallee(c) != nil || len(c.Call.Args) < 2 {
				return
			}
			if _, isB := c.Call.Value.(*ssa.Builtin); isB {
				return
			}
			// the inner call: callee is the captured `i`
			ld, ok := c.Call.Value.(*ssa.UnOp)
			if ok {
				if _, isFV := ld.X.(*ssa.FreeVar); !isFV {
					return
				}
			} else if _, isFV := c.Call.Value.(*ssa.FreeVar); !isFV {
				return
			}
			n++
			checked := false
			seen := map[ssa.Value]bool{}
			var visit func(v ssa.Value, d int)
			visit = func(v ssa.Value, d int) {
				if v == nil || d > 10 || seen[v] || checked {
					return
				}
				seen[v] = true
				switch x := v.(type) {
				case *ssa.Call:
					if f, _ := loadedField(x.Call.Value); f != nil && sameField(f, fInv) {
						checked = true
					}
				case *ssa.Extract:
					visit(x.Tuple, d+1)
				case *ssa.Phi:
					// every edge must be checked: a phi with an unchecked edge is not a check
					all := true
					for _, e := range x.Edges {
						sub := false
						save := checked
						checked = false
						visit(e, d+1)
						sub = checked
						checked = save
						if !sub {
							all = false
						}
					}
					checked = all
				case *ssa.UnOp:
					if al, ok := x.X.(*ssa.Alloc); ok {
						all, cnt := true, 0
						for _, ref := range *al.Referrers() {
							if st, ok := ref.(*ssa.Store); ok && st.Addr == ssa.Value(al) {
								cnt++
								save := checked
								checked = false
								visit(st.Val, d+1)
								if !checked {
									all = false
								}
								checked = save
							}
						}
						checked = all && cnt > 0
					}
				}
			}
			visit(c.Call.Args[1], 0)
			r.Check(checked, rule, fmt.Sprintf("inputKeyedComposableRunnable (invoke half): inner call #%d gets a checked value", n), c.Pos(), "the value under the key went through the node's inputConverter.invoke",
				"the value found under the input key is handed to the node as it is: a wrong dynamic type panics inside the node ('unexpected input type') in Invoke mode where Stream mode reports an ordinary error from inputStreamFilter — and through a keyed pass-through node it crosses a concrete-to-concrete edge unchecked")
		})
	}
	if n == 0 {
		undecidedf("%s: the invoke half of inputKeyedComposableRunnable calls no captured function", rule)
	}
}

// staticValuesTypeChecked: Workflow.compile runs every static value of a node through a compile-time check (a callee
// that resolves the target path in the node's input type — checkAndExtractFieldType — and tests assignability —
// checkAssignable) before it installs the merge handler, and an error of that check leaves Compile.
func staticValuesTypeChecked(w *World, r *Report, rule string) {
	wfc := w.Fn("compose", "Workflow.compile")
	extract := w.Fn("compose", "checkAndExtractFieldType")
	assignable := w.Fn("compose", "checkAssignable")
	graphT := w.Named("compose", "graph")
	var regs []ssa.Instruction
	for _, fw := range fieldWrites(wfc) {
		if fw.owner == graphT && fw.field.Name() == "handlerPreNode" {
			if _, ok := fw.in.(*ssa.MapUpdate); ok {
				regs = append(regs, fw.in)
			}
		}
	}
	if len(regs) == 0 {
		undecidedf("%s: Workflow.compile installs no pre-node handler", rule)
	}
	var checks []*ssa.Call
	instrs(wfc, func(in ssa.Instruction) {
		c, ok := in.(*ssa.Call)
		if !ok {
			return
		}
		sc := staticCallee(c)
		if sc == nil || !w.inRepo(sc) {
			return
		}
		if len(callsTo(sc, extract)) > 0 && len(callsTo(sc, assignable)) > 0 {
			checks = append(checks, c)
		}
	})
	good, det := false, "no callee of Workflow.compile resolves a static value's path in the node's input type and tests assignability"
	for _, c := range checks {
		// the check sits in a loop whose header dominates every handler registration, and its error leaves compile
		var loop *loopInfo
		for _, li := range naturalLoops(wfc) {
			li := li
			if li.body[c.Block()] && (loop == nil || len(li.body) < len(loop.body)) {
				loop = &li
			}
		}
		if loop == nil {
			det = "the check is not applied per static value (not in a loop)"
			continue
		}
		dom := true
		for _, reg := range regs {
			if !(loop.header == reg.Block() || loop.header.Dominates(reg.Block())) || loop.body[reg.Block()] {
				dom = false
			}
		}
		blocks := false
		for _, ref := range *c.Referrers() {
			if bo, ok := ref.(*ssa.BinOp); ok {
				for _, r2 := range *bo.Referrers() {
					if iff, ok := r2.(*ssa.If); ok {
						errArm := iff.Block().Succs[0]
						if bo.Op == token.EQL {
							errArm = iff.Block().Succs[1]
						}
						if reach, _ := pathFromBlock(pathQuery{fn: wfc, goal: func(x ssa.Instruction) bool {
							ret, ok := x.(*ssa.Return)
							return ok && len(ret.Results) == 2 && !isNilConst(ret.Results[1])
						}, avoidEdge: func(_, to *ssa.BasicBlock) bool { return to == loop.header }}, errArm); reach {
							blocks = true
						}
					}
				}
			}
		}
		if dom && blocks {
			good = true
		} else {
			det = fmt.Sprintf("the check is there but does not gate the handler (runs before every registration: %v, its error leaves Compile: %v)", dom, blocks)
		}
	}
	r.Check(good, rule, "Workflow.compile type-checks static values before installing them", wfc.Pos(), "a per-value check (path resolved in the node's input type, value assignable to what is found) precedes the merge handler; its error returns", det+": SetStaticValue with a path the input type does not have, a path into a non-struct, or a value the field cannot hold (a string for an int field) compiles, and then every run fails in convertTo — the same target as a field mapping is a compile-time error")
}
