package main

import (
	"fmt"
	"go/token"
	"go/types"
	"sort"
	"strings"

	"golang.org/x/tools/go/ssa"
)

func init() {
	register(&propDef{
		id: "C04",
		explanation: "Static clauses of 'Invoke, Stream, Collect and Transform of a compiled graph agree' (no paradigm is missing, cross-wired, or swallows a failure): " +
			"(derivation-total) newRunnablePacker stores all four paradigms on every path, each from the given implementation or from one of the 12 adapters, all of which are used, each under a non-nil source; " +
			"(adapter-shape) every adapter converts exactly where the paradigms differ (concat for stream->value, one-element array for value->stream, on the input and/or the output side as its signature demands) and turns a source error into a returned error; " +
			"(failure-agreement) the stream drain used by all stream->value conversions treats only the io.EOF sentinel itself as end of stream; " +
			"(pair-complete) every handlerPair / streamConvertPair literal sets both forms; every genericHelper constructor sets all fields; " +
			"(in-out-wiring) the pass-through / map-key helper derivations take each field from the same-role field of the right side; " +
			"(same-handlers-both-arms) the three handler managers run the same handler list in the stream arm and in the value arm, the value arm propagating errors; " +
			"(key-wrappers) input/output key wrappers replace both .i and .t and the helper; " +
			"(stream-substrate) the copy/merge machinery the streaming paradigms run on keeps positions, closes all sources and dispatches consistently (shared with C08); (stream-elem-type) a handler whose value form provably yields a concrete type T does not pack its stream form as a stream of any when some consumer unpacks streams of exactly T (producer/consumer agreement on the packed chunk type; a mismatch breaks the stream paradigms only); (no-compile-time-stream) no single-use stream created at compile time is captured by a reusable run-time handler.",
		decided:    []string{"derivation-total", "adapter-shape", "failure-agreement", "pair-complete", "in-out-wiring", "same-handlers-both-arms", "key-wrappers", "stream-substrate", "stream-elem-type", "no-compile-time-stream", "checker-present-keys", "start-consumes-callback-copy"},
		notDecided: []string{"value equality of the outputs across paradigms", "chunking independence (C14)", "behaviour of user node implementations"},
		run:        runC04,
	})
}

func isStreamType(t types.Type) bool {
	s := types.TypeString(t, nil)
	return strings.Contains(s, "schema.StreamReader[") || strings.Contains(s, "schema.StreamWriter[") || strings.HasSuffix(s, "compose.streamReader")
}

func runC04(w *World, r *Report) {
	nrp := w.Fn("compose", "newRunnablePacker")
	packerT := w.Named("compose", "runnablePacker")

	// ---- derivation-total
	r.Rule("C04.derivation-total", "newRunnablePacker: i/s/c/t stored on every path from the implementation or one of the 12 adapters", 8)
	adapters := map[*ssa.Function]bool{}
	for _, fname := range []string{"i", "s", "c", "t"} {
		f := w.Field("compose", "runnablePacker", fname)
		isStoreF := func(in ssa.Instruction) bool {
			st, ok := in.(*ssa.Store)
			if !ok {
				return false
			}
			fa, ok := st.Addr.(*ssa.FieldAddr)
			return ok && sameField(fieldVarOfAddr(fa), f) && namedOf(fa.X.Type()) == packerT
		}
		skip, wit := pathQuery{fn: nrp, goal: isReturn, avoid: isStoreF}.exists()
		r.Check(!skip, "C04.derivation-total", "newRunnablePacker sets ."+fname+" on every path", nrp.Pos(), "no return without a store", "paradigm ."+fname+" can stay nil: calling it panics: "+wit)
		instrs(nrp, func(in ssa.Instruction) {
			if !isStoreF(in) {
				return
			}
			v := in.(*ssa.Store).Val
			switch x := v.(type) {
			case *ssa.Call:
				sc := staticCallee(x)
				if sc == nil {
					r.Fail("C04.derivation-total", "."+fname+" source", in.Pos(), "stored value is not an adapter result")
					return
				}
				adapters[sc] = true
				// non-nil source: guarded by arg != nil, or final else arm (three nil guards)
				arg := x.Call.Args[0]
				g := hasGuard(in.Block(), func(g guard) bool { return guardNonNil(g, func(v ssa.Value) bool { return valueOrPhiOf(v, arg) }) })
				nils := 0
				for _, gg := range guardsOf(in.Block()) {
					if op, _, y, ok := asCmp(gg.cond); ok && isNilConst(y) && ((op == token.NEQ && !gg.pol) || (op == token.EQL && gg.pol)) {
						nils++
					}
				}
				r.Check(g || nils >= 3, "C04.derivation-total", fmt.Sprintf(".%s = %s(source) under a non-nil source", fname, sc.Name()), in.Pos(), "source != nil (or last alternative)", "an adapter is built on a nil implementation")
			case *ssa.Phi, *ssa.Parameter:
				// the caller's own implementation (possibly wrapped with callbacks): fine
			default:
				r.Fail("C04.derivation-total", "."+fname+" source", in.Pos(), "unexpected stored value")
			}
		})
	}
	r.Check(len(adapters) == 12, "C04.derivation-total", "all 12 paradigm adapters are used", nrp.Pos(), fmt.Sprintf("%d adapters", len(adapters)), fmt.Sprintf("%d distinct adapters used (want 12: every paradigm derivable from every other)", len(adapters)))

	// ---- adapter-shape
	r.Rule("C04.adapter-shape", "each adapter concatenates / boxes exactly where its signature demands and propagates the source error", 24)
	concat := w.Fn("compose", "defaultImplConcatStreamReader")
	fromArr := w.Fn("schema", "StreamReaderFromArray")
	var ads []*ssa.Function
	for a := range adapters {
		ads = append(ads, a)
	}
	sort.Slice(ads, func(i, j int) bool { return ads[i].Name() < ads[j].Name() })
	for _, a := range ads {
		if len(a.AnonFuncs) != 1 {
			r.Fail("C04.adapter-shape", a.Name()+" shape", a.Pos(), "adapter does not return a single literal")
			continue
		}
		lit := a.AnonFuncs[0]
		srcSig, ok1 := a.Signature.Params().At(0).Type().Underlying().(*types.Signature)
		tgtSig, ok2 := a.Signature.Results().At(0).Type().Underlying().(*types.Signature)
		if !ok1 || !ok2 {
			r.Fail("C04.adapter-shape", a.Name()+" shape", a.Pos(), "unexpected adapter signature")
			continue
		}
		srcIn, srcOut := isStreamType(srcSig.Params().At(1).Type()), isStreamType(srcSig.Results().At(0).Type())
		tgtIn, tgtOut := isStreamType(tgtSig.Params().At(1).Type()), isStreamType(tgtSig.Results().At(0).Type())
		wantConcat, wantBox := 0, 0
		if tgtIn && !srcIn {
			wantConcat++
		}
		if srcOut && !tgtOut {
			wantConcat++
		}
		if !tgtIn && srcIn {
			wantBox++
		}
		if !srcOut && tgtOut {
			wantBox++
		}
		nc, nb := len(callsTo(lit, concat)), len(callsTo(lit, fromArr))
		r.Check(nc == wantConcat && nb == wantBox, "C04.adapter-shape", a.Name()+" converts where paradigms differ", lit.Pos(),
			fmt.Sprintf("%d concat, %d one-element streams", nc, nb), fmt.Sprintf("adapter has %d concat / %d boxing calls, its signature needs %d / %d", nc, nb, wantConcat, wantBox))
		// the source call's error is returned: from the err != nil arm no nil-error return is reachable
		var srcCall *ssa.Call
		instrs(lit, func(in ssa.Instruction) {
			c, ok := in.(*ssa.Call)
			if ok && !c.Call.IsInvoke() && staticCallee(c) == nil {
				if _, isB := c.Call.Value.(*ssa.Builtin); !isB && freeVarRoot(c.Call.Value, 0) != nil {
					srcCall = c
				}
			}
		})
		if srcCall == nil {
			r.Fail("C04.adapter-shape", a.Name()+" calls its source", lit.Pos(), "no call of the wrapped implementation")
			continue
		}
		errOK := adapterPropagatesError(lit, srcCall)
		r.Check(errOK, "C04.adapter-shape", a.Name()+" returns the source's error", srcCall.Pos(), "a failing implementation fails the derived paradigm", "the derived paradigm can return success although the implementation failed (failure visible only in some paradigms)")
	}

	// ---- failure-agreement
	r.Rule("C04.failure-agreement", "concatStreamReader ends only on the io.EOF sentinel itself; any other error is returned", 2)
	{
		csr := w.Fn("compose", "concatStreamReader")
		eofCmp := 0
		instrs(csr, func(in ssa.Instruction) {
			if b, ok := in.(*ssa.BinOp); ok && (b.Op == token.EQL || b.Op == token.NEQ) && (ioEOF(b.X) || ioEOF(b.Y)) {
				eofCmp++
			}
		})
		lax := false
		for _, c := range callsNamed(csr, "errors.Is") {
			if ioEOF(c.Common().Args[1]) {
				lax = true
			}
		}
		r.Check(eofCmp == 1 && !lax, "C04.failure-agreement", "concatStreamReader: end of stream is err == io.EOF", csr.Pos(), "identity comparison with the sentinel", "an error item that merely wraps io.EOF ('connection dropped: unexpected EOF') is taken for a clean end of stream: Invoke/Collect return a truncated value with nil error while Stream/Transform deliver the error")
		// every other error is returned wrapped
		nsre := w.Fn("compose", "newStreamReadError")
		r.Check(len(callsTo(csr, nsre)) == 1, "C04.failure-agreement", "concatStreamReader returns read errors", csr.Pos(), "newStreamReadError(err)", "read errors are dropped")
	}

	// ---- pair-complete
	r.Rule("C04.pair-complete", "handlerPair / streamConvertPair literals set both functions; genericHelper constructors set every field", 10)
	hp := w.Named("compose", "handlerPair")
	scp := w.Named("compose", "streamConvertPair")
	ghT := w.Named("compose", "genericHelper")
	literalFields := func(al *ssa.Alloc) (map[string]bool, bool) {
		set := map[string]bool{}
		whole := false
		for _, ref := range *al.Referrers() {
			if fa, ok := ref.(*ssa.FieldAddr); ok {
				for _, rr := range *fa.Referrers() {
					if st, ok := rr.(*ssa.Store); ok && !isNilConst(st.Val) {
						set[fieldVarOfAddr(fa).Name()] = true
					}
					// nested struct field: handlerPair inside genericHelper literal
					if fa2, ok := rr.(*ssa.FieldAddr); ok {
						for _, r3 := range *fa2.Referrers() {
							if st, ok := r3.(*ssa.Store); ok && !isNilConst(st.Val) {
								set[fieldVarOfAddr(fa).Name()+"."+fieldVarOfAddr(fa2).Name()] = true
							}
						}
					}
				}
			}
			if st, ok := ref.(*ssa.Store); ok && st.Addr == ssa.Value(al) {
				whole = true
			}
		}
		return set, whole
	}
	for _, fn := range w.RepoFuncs("compose") {
		instrs(fn, func(in ssa.Instruction) {
			al, ok := in.(*ssa.Alloc)
			if !ok {
				return
			}
			n := namedOf(al.Type())
			switch n {
			case hp:
				set, whole := literalFields(al)
				if whole || len(set) == 0 {
					return
				}
				r.Check(set["invoke"] && set["transform"], "C04.pair-complete", "handlerPair literal in "+w.fname(origin(fn)), al.Pos(), "invoke + transform", "a handler pair lacks its value or its stream form: a nil function is called in that paradigm")
			case scp:
				set, whole := literalFields(al)
				if whole || len(set) == 0 {
					return
				}
				r.Check(set["concatStream"] && set["restoreStream"], "C04.pair-complete", "streamConvertPair literal in "+w.fname(origin(fn)), al.Pos(), "both directions", "a stream/value conversion pair is incomplete")
			case ghT:
				if !al.Heap {
					return
				}
				set, whole := literalFields(al)
				if whole {
					return
				}
				st := ghT.Underlying().(*types.Struct)
				var missing []string
				for i := 0; i < st.NumFields(); i++ {
					name := st.Field(i).Name()
					if namedOf(st.Field(i).Type()) == hp {
						if !(set[name+".invoke"] && set[name+".transform"]) && !set[name] {
							missing = append(missing, name)
						}
						continue
					}
					if !set[name] {
						missing = append(missing, name)
					}
				}
				r.Check(len(missing) == 0, "C04.pair-complete", "genericHelper literal in "+w.fname(origin(fn)), al.Pos(), fmt.Sprintf("all %d fields set", st.NumFields()), "genericHelper built without "+strings.Join(missing, ", ")+": that conversion is nil for nodes using this helper")
			}
		})
	}

	r.Rule("C04.copy-partition", "a node's output is copied once per edge successor, once per branch condition and once per branch result, and the branch conditions read only their own copies (shared with C01): under Stream / Collect / Transform a condition must not drain the stream an edge successor receives", 2)
	copyPartitionCheck(w, r, "C04.copy-partition")

	// the per-chunk filter of an input-keyed node drops a chunk (ErrNoValue) only when the key is absent from it; a value
	// of the wrong type under the key is a failure in the stream paradigms exactly as it is under Invoke
	r.Rule("C04.key-filter-miss-only", "defaultStreamMapFilter's converter returns ErrNoValue only on the miss arm of the key lookup; a failed type assertion returns an ordinary error", 2)
	{
		f := w.Fn("compose", "defaultStreamMapFilter")
		env := w.GlobalVar("schema", "ErrNoValue")
		nNoValue, nAssert := 0, 0
		for _, lit := range withAnons(f) {
			instrs(lit, func(in ssa.Instruction) {
				ret, ok := in.(*ssa.Return)
				if !ok || len(ret.Results) != 2 {
					return
				}
				isNoValue := false
				if u, ok := ret.Results[1].(*ssa.UnOp); ok {
					if g, ok := u.X.(*ssa.Global); ok && g.Object() == types.Object(env) {
						isNoValue = true
					}
				}
				onMiss := hasGuard(ret.Block(), func(g guard) bool {
					e, ok := g.cond.(*ssa.Extract)
					if !ok || e.Index != 1 || g.pol {
						return false
					}
					lk, ok := e.Tuple.(*ssa.Lookup)
					return ok && lk.CommaOk
				})
				onBadType := hasGuard(ret.Block(), func(g guard) bool {
					e, ok := g.cond.(*ssa.Extract)
					if !ok || e.Index != 1 || g.pol {
						return false
					}
					_, isTA := e.Tuple.(*ssa.TypeAssert)
					return isTA
				})
				if isNoValue {
					nNoValue++
					r.Check(onMiss && !onBadType, "C04.key-filter-miss-only", fmt.Sprintf("%s: ErrNoValue return #%d", w.fname(lit), nNoValue), ret.Pos(), "on the miss arm of the key lookup", "ErrNoValue (= drop this chunk) is returned for something other than an absent key: a value of the wrong type under the key is silently skipped in Stream / Collect / Transform while Invoke fails on it")
				}
				if onBadType && !isNoValue {
					nAssert++
					r.Check(!isNilConst(ret.Results[1]), "C04.key-filter-miss-only", fmt.Sprintf("%s: failed assertion return #%d", w.fname(lit), nAssert), ret.Pos(), "returns an error", "a value of the wrong type under the key is passed on without an error")
				}
			})
		}
		if nNoValue == 0 || nAssert == 0 {
			r.Fail("C04.key-filter-miss-only", "defaultStreamMapFilter converter arms", f.Pos(), fmt.Sprintf("%d ErrNoValue returns / %d failed-assertion error returns found (1 / 1 expected)", nNoValue, nAssert))
		}
	}

	r.Rule("C04.concat-leaves-chunks-alone", "the reflect-based concat functions write only into values they created (shared with C14.inputs-immutable): concatenating one copy of a stream must not change what the other copies' chunks hold", 1)
	{
		nf := 0
		for _, f := range concatClosure(w) {
			nf++
			for i, h := range reflectWriteReceiversFromParams(f) {
				r.Fail("C04.concat-leaves-chunks-alone", fmt.Sprintf("%s writes into a reflect.Value reached from its input #%d", w.fname(f), i+1), h.Pos(), "an input chunk is used as the accumulator and rewritten in place: after a fan-out the second consumer concatenates an already-concatenated chunk — the streaming paradigms disagree with Invoke")
			}
		}
		r.OK("C04.concat-leaves-chunks-alone", fmt.Sprintf("%d functions of the concat closure examined", nf), token.NoPos, "reflect accumulators are fresh")
	}

	r.Rule("C04.narrowing-agrees", "where Invoke narrows an interface-typed value to a node's concrete input type, the stream paradigms narrow chunk by chunk and the other way round: unpackStreamReader refuses a reader only when neither side is interface-typed (an any-typed handler's output stream is unpacked with a per-chunk check), and the invoke half of WithInputKey checks the keyed value the way inputStreamFilter does (shared with C07)", 2)
	unpackRefusalChecks(w, r, "C04.narrowing-agrees")
	inputKeyNarrowingChecked(w, r, "C04.narrowing-agrees")

	r.Rule("C04.any-chunks-by-dynamic-type", "ConcatItems concatenates the chunks of an interface-typed stream by their dynamic type (a retyping call under Kind() == Interface of the element type), the way concatMaps treats the values under a key of a map[string]any: a stream-only node with output `any` feeding an invoke-only node gives what the stream paradigms give", 1)
	{
		ci := w.Fn("internal", "ConcatItems")
		good := false
		var cands []*ssa.Call
		instrs(ci, func(in ssa.Instruction) {
			if c, ok := in.(*ssa.Call); ok {
				if sc := staticCallee(c); sc != nil && w.inRepo(sc) && w.relPkg(fnPkg(sc).Path()) == "internal" {
					cands = append(cands, c)
				}
			}
		})
		for _, c := range cands {
			if hasGuard(c.Block(), func(g guard) bool {
				op, x, y, ok := asCmp(g.cond)
				if !ok || op != token.EQL || !g.pol {
					return false
				}
				kc, ok := x.(*ssa.Call)
				k, ok2 := y.(*ssa.Const)
				return ok && ok2 && kc.Call.IsInvoke() && kc.Call.Method.Name() == "Kind" && k.Value != nil && k.Value.String() == "20"
			}) {
				good = true
			}
		}
		r.Check(good, "C04.any-chunks-by-dynamic-type", "ConcatItems: interface element types are dispatched dynamically", ci.Pos(), "a retyping helper of package internal is called under typ.Kind() == reflect.Interface", "ConcatItems looks at the static element type only: for []any it finds no concat function and fails with 'cannot concat multiple non-zero value of type interface {}' — Invoke (which must concatenate the stream-only node's output) fails where Stream / Collect / Transform, whose edge converter narrows every chunk to string first, succeed")
	}

	r.Rule("C04.chain-branch-wrappers-agree", "Chain.AppendBranch translates the branch's answers into node keys the same way for the value form and the stream form of the condition: every key either wrapper returns is looked up in the one table the stage's nodes were registered under (a name rebuilt from the default pattern misses nodes added with WithNodeKey)", 2)
	{
		ab := w.Fn("compose", "Chain.AppendBranch")
		n := 0
		instrs(ab, func(in ssa.Instruction) {
			mc, ok := in.(*ssa.MakeClosure)
			if !ok {
				return
			}
			lit := mc.Fn.(*ssa.Function)
			res := lit.Signature.Results()
			if res.Len() != 2 {
				return
			}
			if sl, ok := res.At(0).Type().Underlying().(*types.Slice); !ok || !types.Identical(sl.Elem(), types.Typ[types.String]) {
				return
			}
			n++
			nApp, bad := 0, 0
			instrs(lit, func(x ssa.Instruction) {
				c, ok := x.(*ssa.Call)
				if !ok || !isBuiltin(c, "append") || len(c.Call.Args) < 2 {
					return
				}
				sl, ok := c.Call.Args[1].(*ssa.Slice)
				if !ok {
					return
				}
				al, ok := sl.X.(*ssa.Alloc)
				if !ok {
					return
				}
				for _, ref := range *al.Referrers() {
					ia, ok := ref.(*ssa.IndexAddr)
					if !ok {
						continue
					}
					for _, r2 := range *ia.Referrers() {
						st, ok := r2.(*ssa.Store)
						if !ok {
							continue
						}
						nApp++
						fromTable := false
						if ex, ok := st.Val.(*ssa.Extract); ok && ex.Index == 0 {
							if lk, ok := ex.Tuple.(*ssa.Lookup); ok {
								v := lk.X
								if u, ok := v.(*ssa.UnOp); ok {
									v = u.X
								}
								if _, isFV := v.(*ssa.FreeVar); isFV {
									fromTable = true
								}
							}
						}
						if !fromTable {
							bad++
						}
					}
				}
			})
			r.Check(nApp > 0 && bad == 0, "C04.chain-branch-wrappers-agree", fmt.Sprintf("Chain.AppendBranch wrapper %s answers with registered node keys", lit.Name()), lit.Pos(), fmt.Sprintf("%d returned keys, each looked up in the captured key table", nApp),
				fmt.Sprintf("%d of %d keys the wrapper returns are not taken from the table the nodes were registered under: one form of the condition (value or stream) names a node that does not exist when a branch target was added with WithNodeKey — Invoke works, Stream / Collect / Transform fail with 'target channel doesn't existed'", bad, nApp))
		})
		if n < 2 {
			undecidedf("C04.chain-branch-wrappers-agree: %d condition wrappers found in Chain.AppendBranch (2 expected)", n)
		}
	}

	r.Rule("C04.tool-stream-answers-total", "the tools node's stream form answers every call with at least one frame carrying its ToolMessage, an empty answer included — what Invoke gives for the call (shared with C18.stream-answers-total)", 1)
	toolStreamConverterTotal(w, r, "C04.tool-stream-answers-total")

	shareRule(w, r, "C04.stream-errors-forwarded", "the forwarding goroutines behind a fan-in pass error items on and stop only at io.EOF or a closed receiver: an error item in a keyed / converted stream is an error of the run in every paradigm, not a silent end of data in the streaming ones", 1, "C17", "C17.stream-errors-forwarded")

	r.Rule("C04.dynamic-retype-checked", "the helper that retypes interface-typed chunks by their dynamic type compares the dynamic type of every chunk with the element type it builds the typed slice from (a comparison of two reflect.Type values inside it), so that chunks of mixed types fall back to the generic error instead of making reflect.Value.Set panic — outside a node task (Collect at top level, a stream in front of a branch) that panic escapes, where Invoke returns an error", 1)
	{
		ci := w.Fn("internal", "ConcatItems")
		var helper *ssa.Function
		instrs(ci, func(in ssa.Instruction) {
			if c, ok := in.(*ssa.Call); ok {
				if sc := staticCallee(c); sc != nil && w.inRepo(sc) && w.relPkg(fnPkg(sc).Path()) == "internal" && len(callsToName(sc, "reflect.MakeSlice")) > 0 {
					helper = sc
				}
			}
		})
		// no retyping helper at all: C04.any-chunks-by-dynamic-type reports that; this rule is then left to its floor
		cmp := false
		if helper != nil {
			instrs(helper, func(in ssa.Instruction) {
				b, ok := in.(*ssa.BinOp)
				if !ok || !(b.Op == token.EQL || b.Op == token.NEQ) {
					return
				}
				isRT := func(v ssa.Value) bool { return v.Type().String() == "reflect.Type" && !isNilConst(v) }
				if isRT(b.X) && isRT(b.Y) {
					cmp = true
				}
			})
		}
		if helper != nil {
			r.Check(cmp, "C04.dynamic-retype-checked", helper.Name()+" compares the chunks' dynamic types", helper.Pos(), "a reflect.Type == / != reflect.Type test in the helper", "the typed slice is built from the first chunk's type and the others are Set into it unchecked: a stream-only node with output `any` that emits a string chunk and then an int chunk makes reflect.Value.Set panic — recovered inside a node task (Invoke: an error), escaping from Collect at top level or from a stream in front of a branch")
		}
	}

	shareRule(w, r, "C04.array-merge-owns-its-array", "merging array-backed readers starts from a slice of its own, never from the first reader's array: spare capacity of a producer's slice is shared by every reader made from it, so two fan-in nodes fed by one array-backed stream would overwrite each other's partner chunks in the stream paradigms only", 1, "C08", "C08.array-alias")
	shareRule(w, r, "C04.no-data-value-both-paradigms", "the 'no data' value of a node whose input is assembled from mappings is the map the assembling converter expects, in the value form and in the stream form alike (Invoke returns, Stream / Collect / Transform must not fail on a differently typed empty stream)", 1, "C02", "C02.zero-input-fits-handlers")
	shareRule(w, r, "C04.chunk-tolerance-at-every-depth", "a map key a chunk lacks is tolerated in the chunk-wise paradigms at every element of the source path, as the concatenated value has it under Invoke", 1, "C15", "C15.stream-key-tolerance")
	shareRule(w, r, "C04.twice-reached-successor-keeps-its-copy", "a successor reached twice from one node in a step keeps the stream copy it already has: the spare copy is closed and NOT stored over the good one (values have no close, so Invoke would not notice)", 1, "C19", "C19.no-dropped-copy")
	shareRule(w, r, "C04.every-slot-of-a-chunk-is-taken", "the concat function of message lists takes every non-nil slot of every chunk (its loops are left only when exhausted): a chunk carrying messages in two slots must not lose the second when a stream-only producer is invoked or an invoke-only node follows it", 1, "C14", "C14.visits-all")

	// ---- role-uniform (generalises in-out-wiring to every struct and function of the module)
	r.Rule("C04.helper-slots-typed-by-their-side", "newGenericHelper[I, O] fills every input* slot of the helper (both halves of a handler pair included) from an instance over I and every output* slot from an instance over O: a stream half instantiated over the other parameter keeps Invoke right and makes the stream paradigms re-pack an interface-typed output as StreamReader[I]", 10)
	{
		ngh := w.Fn("compose", "newGenericHelper")
		ghT := w.Named("compose", "genericHelper")
		n := 0
		instrs(ngh, func(in ssa.Instruction) {
			st, ok := in.(*ssa.Store)
			if !ok {
				return
			}
			// the genericHelper field this store ends up in
			var slot string
			a := st.Addr
			for d := 0; d < 4; d++ {
				fa, isFA := a.(*ssa.FieldAddr)
				if !isFA {
					break
				}
				if nt := namedOf(deref(fa.X.Type())); nt != nil && nt == ghT {
					slot = fieldVarOfAddr(fa).Name()
					break
				}
				a = fa.X
			}
			if slot == "" {
				return
			}
			want := ""
			switch {
			case strings.HasPrefix(slot, "input"):
				want = "I"
			case strings.HasPrefix(slot, "output"):
				want = "O"
			default:
				return
			}
			var inst *ssa.Function
			switch v := st.Val.(type) {
			case *ssa.Function:
				inst = v
			case *ssa.Call:
				inst = staticCallee(v)
			case *ssa.MakeClosure:
				inst, _ = v.Fn.(*ssa.Function)
			case *ssa.ChangeType:
				inst, _ = v.X.(*ssa.Function)
			}
			if inst == nil || len(inst.TypeArgs()) == 0 {
				return
			}
			n++
			got := inst.TypeArgs()[0].String()
			r.Check(got == want, "C04.helper-slots-typed-by-their-side", fmt.Sprintf("newGenericHelper: slot %s #%d filled from %s", slot, n, origin(inst).Name()), st.Pos(), "instantiated over "+want, "instantiated over "+got+" where the slot belongs to the "+want+" side: the value half and the stream half of the run-time check disagree about the type — Invoke passes the check, Stream / Collect / Transform re-pack the stream as a reader of the wrong type ('impossible' panic in toGenericRunnable, or 'unexpected input type … *schema.StreamReader[…]' behind a pass-through) whenever the owner has I != O")
		})
		if n < 10 {
			r.Deferred = append(r.Deferred, fmt.Sprintf("C04.helper-slots-typed-by-their-side: only %d generic instances stored by newGenericHelper", n))
		}
	}

	r.Rule("C04.role-uniform", "within one function, same-role fields (input* / output*, pre* / post*) of one struct are filled from sources of one role; a lone cross-role assignment is a copy within one object", 20)
	ruleRoleUniform(w, r, "C04.role-uniform", "compose", "schema", "internal", "flow", "callbacks", "components", "utils")

	// ---- in-out-wiring
	r.Rule("C04.in-out-wiring", "helper derivations copy same-role fields from the correct side", 4)
	role := func(name string) (side, rl string) {
		if strings.HasPrefix(name, "input") {
			return "input", strings.TrimPrefix(name, "input")
		}
		if strings.HasPrefix(name, "output") {
			return "output", strings.TrimPrefix(name, "output")
		}
		return "", name
	}
	wiring := func(method string, want func(dstSide string) (srcSide string, fresh bool)) {
		f := w.Fn("compose", "genericHelper."+method)
		recv := f.Params[0]
		bad := ""
		n := 0
		instrs(f, func(in ssa.Instruction) {
			st, ok := in.(*ssa.Store)
			if !ok {
				return
			}
			fa, ok := st.Addr.(*ssa.FieldAddr)
			if !ok || namedOf(fa.X.Type()) != ghT || !freshBase(fa.X, 0) {
				return
			}
			dst := fieldVarOfAddr(fa).Name()
			dside, drole := role(dst)
			if dside == "" {
				return
			}
			n++
			wantSide, fresh := want(dside)
			sf, base := loadedField(st.Val)
			if fresh {
				if sf != nil && base == ssa.Value(recv) {
					bad += fmt.Sprintf("%s is copied from the receiver (%s) but must be rebuilt; ", dst, sf.Name())
				}
				return
			}
			if sf == nil || base != ssa.Value(recv) {
				bad += dst + " is not copied from the receiver; "
				return
			}
			sside, srole := role(sf.Name())
			if sside != wantSide || srole != drole {
				bad += fmt.Sprintf("%s <- %s (want %s%s); ", dst, sf.Name(), wantSide, drole)
			}
		})
		r.Check(bad == "" && n >= 10, "C04.in-out-wiring", "genericHelper."+method, f.Pos(), fmt.Sprintf("%d fields wired by role", n), "cross-wired helper: "+bad)
	}
	wiring("forPredecessorPassthrough", func(string) (string, bool) { return "input", false })
	wiring("forSuccessorPassthrough", func(string) (string, bool) { return "output", false })
	wiring("forMapInput", func(d string) (string, bool) {
		if d == "input" {
			return "", true
		}
		return "output", false
	})
	wiring("forMapOutput", func(d string) (string, bool) {
		if d == "output" {
			return "", true
		}
		return "input", false
	})

	// ---- same-handlers-both-arms
	r.Rule("C04.same-handlers-both-arms", "handler managers: stream arm and value arm range over the same list; value arm returns handler errors", 3)
	for _, tn := range []string{"edgeHandlerManager", "preNodeHandlerManager", "preBranchHandlerManager"} {
		f := w.Fn("compose", tn+".handle")
		isStreamP := f.Params[len(f.Params)-1]
		var tCalls, iCalls []*ssa.Call
		instrs(f, func(in ssa.Instruction) {
			c, ok := in.(*ssa.Call)
			if !ok || c.Call.IsInvoke() || staticCallee(c) != nil {
				return
			}
			if fl, _ := loadedField(c.Call.Value); fl != nil {
				switch fl.Name() {
				case "transform":
					tCalls = append(tCalls, c)
				case "invoke":
					iCalls = append(iCalls, c)
				}
			}
		})
		good := len(tCalls) == 1 && len(iCalls) == 1
		det := ""
		if good {
			gT := hasGuard(tCalls[0].Block(), func(g guard) bool { return g.cond == ssa.Value(isStreamP) && g.pol })
			gI := hasGuard(iCalls[0].Block(), func(g guard) bool { return g.cond == ssa.Value(isStreamP) && !g.pol })
			if !gT || !gI {
				good, det = false, "arms are not selected by isStream"
			}
			// both range over the same lookup chain: compare the printed source expression of the ranged slice
			if d1, d2 := rangedExprOf(tCalls[0]), rangedExprOf(iCalls[0]); d1 == "" || d1 != d2 {
				good, det = false, fmt.Sprintf("stream arm ranges over %q, value arm over %q", d1, d2)
			}
			// value arm propagates the error
			e1 := extractOf(iCalls[0], 1)
			prop := false
			if e1 != nil {
				for _, ref := range *e1.Referrers() {
					if b, ok := ref.(*ssa.BinOp); ok && isNilConst(b.Y) {
						prop = true
					}
				}
				for _, v := range aliasesThroughCells(e1) {
					for _, ref := range *v.Referrers() {
						if b, ok := ref.(*ssa.BinOp); ok && isNilConst(b.Y) {
							prop = true
						}
					}
				}
			}
			if !prop {
				good, det = false, "handler error is not checked in the value arm"
			}
		}
		r.Check(good, "C04.same-handlers-both-arms", tn+".handle", f.Pos(), "same handlers in both paradigms", "the handler manager treats the two paradigms differently: "+det)
	}

	// ---- key-wrappers
	r.Rule("C04.key-wrappers", "inputKeyed/outputKeyedComposableRunnable replace .i, .t and the generic helper", 2)
	crT := w.Named("compose", "composableRunnable")
	for _, n := range []string{"inputKeyedComposableRunnable", "outputKeyedComposableRunnable"} {
		f := w.Fn("compose", n)
		set := map[string]bool{}
		for _, fw := range fieldWrites(f) {
			if fw.owner == crT {
				set[fw.field.Name()] = true
			}
		}
		tfield := "inputType"
		if strings.HasPrefix(n, "output") {
			tfield = "outputType"
		}
		r.Check(set["i"] && set["t"] && set["genericHelper"] && set[tfield], "C04.key-wrappers", n, f.Pos(), "i, t, genericHelper and "+tfield+" replaced", "the key wrapper covers only one paradigm (the other still sees the unkeyed value)")
	}

	// ---- stream-substrate: the copy / merge machinery every streaming paradigm runs on
	r.Rule("C04.stream-substrate", "stream copy and merge machinery: array copies inherit the position, merge dispatch boundary consistent, merged Close closes all, copy cells under Once with last-close", 8)
	arrayCopyCheck(w, r, "C04.stream-substrate")
	mergeDispatchCheck(w, r, "C04.stream-substrate")
	mergedCloseAll(w, r, "C04.stream-substrate")
	copyCellChecks(w, r, "C04.stream-substrate")
	selectTableCheck(w, r, "C04.stream-substrate")
	syncFillBounded(w, r, "C04.stream-substrate")

	// ---- no-compile-time-stream
	// ---- stream-elem-type: the stream form of a handler yields chunks of the type the value form yields
	r.Rule("C04.stream-elem-type", "a handler whose value form returns a concrete type T packs its stream form as a stream of T, not of any, whenever some consumer unpacks streams of exactly T", 3)
	streamElemTypeChecks(w, r, "C04.stream-elem-type")

	// ---- shared with C15 / C10: stream-only hazards of the run-time checker and of the callback copy
	r.Rule("C04.checker-present-keys", "the field-mapping run-time checker only looks at keys the chunk carries (shared with C15)", 1)
	checkerPresentKeys(w, r, "C04.checker-present-keys")
	r.Rule("C04.start-consumes-callback-copy", "the graph reads the input returned by onGraphStart (its own copy of the stream), not the original the callback handlers also read", 1)
	startConsumesCopy(w, r, "C04.start-consumes-callback-copy")

	r.Rule("C04.no-compile-time-stream", "run-time handler literals created at compile time capture no stream object", 1)
	noCompileTimeStream(w, r, "C04.no-compile-time-stream")
}

// noCompileTimeStream: shared by C04 and C15.static-values-per-run.
func noCompileTimeStream(w *World, r *Report, rule string) {
	ncl := 0
	for _, top := range []*ssa.Function{w.Fn("compose", "graph.compile"), w.Fn("compose", "Workflow.compile"), w.Fn("compose", "graph.updateToValidateMap"), w.Fn("compose", "validateFieldMapping"), w.Fn("compose", "graph.addBranch")} {
		instrs(top, func(in ssa.Instruction) {
			mc, ok := in.(*ssa.MakeClosure)
			if !ok {
				return
			}
			ncl++
			for i, b := range mc.Bindings {
				t := b.Type()
				if p, ok := t.Underlying().(*types.Pointer); ok {
					t = p.Elem()
				}
				if isStreamType(t) || isStreamType(b.Type()) {
					r.Fail(rule, fmt.Sprintf("%s captures stream %s", w.fname(mc.Fn.(*ssa.Function)), mc.Fn.(*ssa.Function).FreeVars[i].Name()), mc.Pos(), "a stream is single-use but the compiled handler is invoked on every run: the second stream-mode run finds it drained/closed while Invoke keeps working")
				}
			}
		})
	}
	r.OK(rule, "handler literals created in compile functions", w.Fn("compose", "Workflow.compile").Pos(), fmt.Sprintf("%d literals inspected", ncl))
}

// valueOrPhiOf: v is arg or a phi one of whose edges is arg (parameters reassigned under `if enableCallback`).
func valueOrPhiOf(v, arg ssa.Value) bool {
	if v == arg {
		return true
	}
	if p, ok := arg.(*ssa.Phi); ok {
		for _, e := range p.Edges {
			if e == v {
				return true
			}
		}
	}
	if p, ok := v.(*ssa.Phi); ok {
		for _, e := range p.Edges {
			if e == arg {
				return true
			}
		}
	}
	return false
}

// adapterPropagatesError: on the arm where the source call's error is non-nil, no return with a nil error is reachable.
func adapterPropagatesError(lit *ssa.Function, src *ssa.Call) bool {
	e1 := extractOf(src, 1)
	if e1 == nil {
		return false
	}
	ok := false
	for _, v := range aliasesThroughCells(e1) {
		for _, ref := range *v.Referrers() {
			b, isB := ref.(*ssa.BinOp)
			if !isB || !isNilConst(b.Y) {
				continue
			}
			for _, rr := range *b.Referrers() {
				iff, isIf := rr.(*ssa.If)
				if !isIf {
					continue
				}
				arm := 0
				if b.Op == token.EQL {
					arm = 1
				}
				nilRet, _ := pathFromBlock(pathQuery{fn: lit, goal: func(i ssa.Instruction) bool {
					ret, isRet := i.(*ssa.Return)
					if !isRet || ret.Block() == lit.Recover {
						return false
					}
					// every return reachable with a failed source must return an error built from the source's error
					return !derivedFromErr(returnedValue(ret, len(ret.Results)-1), e1, 0)
				}}, iff.Block().Succs[arm])
				if !nilRet {
					ok = true
				}
			}
		}
		// error returned directly (return output, err) without test
		for _, ref := range *v.Referrers() {
			if _, isRet := ref.(*ssa.Return); isRet {
				ok = true
			}
			if st, isSt := ref.(*ssa.Store); isSt {
				_ = st
			}
		}
	}
	return ok
}

// rangedExprOf: textual description of the slice a handler call iterates (the expression the handler value is loaded from).
func rangedExprOf(c *ssa.Call) string {
	// callee = load of FieldAddr(handlerPair elem).transform where elem = &slice[idx]; describe `slice`
	v := c.Call.Value
	for d := 0; d < 8; d++ {
		switch x := v.(type) {
		case *ssa.UnOp:
			v = x.X
		case *ssa.FieldAddr:
			v = x.X
		case *ssa.Field:
			v = x.X
		case *ssa.IndexAddr:
			return describeValue(x.X, 0)
		case *ssa.Index:
			return describeValue(x.X, 0)
		case *ssa.Alloc:
			// the range value variable: follow the element copied into it
			var src ssa.Value
			for _, ref := range *x.Referrers() {
				if st, ok := ref.(*ssa.Store); ok && st.Addr == ssa.Value(x) {
					src = st.Val
				}
			}
			if src == nil {
				return ""
			}
			v = src
		default:
			return ""
		}
	}
	return ""
}

func describeValue(v ssa.Value, d int) string {
	if d > 8 {
		return "…"
	}
	switch x := v.(type) {
	case *ssa.Parameter:
		return x.Name()
	case *ssa.Lookup:
		return describeValue(x.X, d+1) + "[" + describeValue(x.Index, d+1) + "]"
	case *ssa.UnOp:
		if fa, ok := x.X.(*ssa.FieldAddr); ok {
			return describeValue(fa.X, d+1) + "." + fieldVarOfAddr(fa).Name()
		}
		if ia, ok := x.X.(*ssa.IndexAddr); ok {
			return describeValue(ia.X, d+1) + "[" + describeValue(ia.Index, d+1) + "]"
		}
		return describeValue(x.X, d+1)
	case *ssa.Extract:
		return describeValue(x.Tuple, d+1)
	case *ssa.Const:
		return x.String()
	}
	return v.Name()
}

// derivedFromErr: v is e, a call taking (a value derived from) e as an argument, or a load of a cell
// into which such a value is stored.
func derivedFromErr(v ssa.Value, e ssa.Value, d int) bool {
	if d > 6 {
		return false
	}
	if v == e {
		return true
	}
	switch x := v.(type) {
	case *ssa.Call:
		for _, a := range x.Call.Args {
			if derivedFromErr(a, e, d+1) {
				return true
			}
		}
	case *ssa.UnOp:
		if cell, ok := x.X.(*ssa.Alloc); ok {
			for _, ref := range *cell.Referrers() {
				if st, ok := ref.(*ssa.Store); ok && st.Addr == ssa.Value(cell) && derivedFromErr(st.Val, e, d+1) {
					return true
				}
			}
		}
	case *ssa.Phi:
		for _, ed := range x.Edges {
			if derivedFromErr(ed, e, d+1) {
				return true
			}
		}
	case *ssa.MakeInterface:
		return derivedFromErr(x.X, e, d+1)
	case *ssa.ChangeInterface:
		return derivedFromErr(x.X, e, d+1)
	}
	return false
}

// streamElemTypeChecks: producer/consumer agreement on the static chunk type of packed streams.
// unpackStreamReader[T] accepts a packed stream only if it was packed as exactly T (or T is an interface);
// a handler that re-packs through `any` although its value form provably yields a concrete T breaks the
// stream paradigm only (the value form keeps working): the typed consumer panics / fails.
func streamElemTypeChecks(w *World, r *Report, rule string) {
	pack := w.Fn("compose", "packStreamReader")
	unpack := w.Fn("compose", "unpackStreamReader")
	isInst := func(c ssa.CallInstruction, gen *ssa.Function) (*ssa.Function, bool) {
		f, ok := c.Common().Value.(*ssa.Function)
		if !ok || origin(f) != gen {
			return nil, false
		}
		return f, true
	}
	// strict consumers: unpackStreamReader[T] with concrete, non-interface T
	strict := map[string]token.Pos{}
	for _, fn := range w.RepoFuncs("compose") {
		instrs(fn, func(in ssa.Instruction) {
			c, ok := in.(ssa.CallInstruction)
			if !ok {
				return
			}
			if f, ok := isInst(c, unpack); ok && len(f.TypeArgs()) == 1 {
				t := f.TypeArgs()[0]
				if _, isTP := t.(*types.TypeParam); isTP {
					return
				}
				if _, isI := t.Underlying().(*types.Interface); isI {
					return
				}
				strict[t.String()] = c.Pos()
			}
		})
	}
	if len(strict) == 0 {
		undecidedf("%s: no strict unpackStreamReader[T] consumer found", rule)
	}
	// resolve a function value to its literal, through captured variables
	var resolveFn func(v ssa.Value, d int) *ssa.Function
	resolveFn = func(v ssa.Value, d int) *ssa.Function {
		if d > 6 || v == nil {
			return nil
		}
		if f := staticCalleeOfValue(v); f != nil {
			return f
		}
		switch x := v.(type) {
		case *ssa.UnOp:
			switch a := x.X.(type) {
			case *ssa.Alloc:
				var out *ssa.Function
				for _, ref := range *a.Referrers() {
					if st, ok := ref.(*ssa.Store); ok && st.Addr == ssa.Value(a) {
						out = resolveFn(st.Val, d+1)
					}
				}
				return out
			case *ssa.FreeVar:
				lit := a.Parent()
				for i, fv := range lit.FreeVars {
					if fv != a || lit.Parent() == nil {
						continue
					}
					var out *ssa.Function
					instrs(lit.Parent(), func(in ssa.Instruction) {
						if mc, ok := in.(*ssa.MakeClosure); ok && mc.Fn == lit && out == nil {
							if cell, ok := mc.Bindings[i].(*ssa.Alloc); ok {
								for _, ref := range *cell.Referrers() {
									if st, ok := ref.(*ssa.Store); ok && st.Addr == ssa.Value(cell) {
										out = resolveFn(st.Val, d+1)
									}
								}
							} else {
								out = resolveFn(mc.Bindings[i], d+1)
							}
						}
					})
					return out
				}
			}
		case *ssa.Call:
			// a constructor returning a literal: fieldMap(mappings, true)
			if sc := staticCallee(x); sc != nil && len(sc.AnonFuncs) == 1 {
				return sc.AnonFuncs[0]
			}
		}
		return nil
	}
	n := 0
	for _, fn := range w.RepoFuncs("compose") {
		instrs(fn, func(in ssa.Instruction) {
			c, ok := in.(*ssa.Call)
			if !ok {
				return
			}
			pf, ok := isInst(c, pack)
			if !ok || len(pf.TypeArgs()) != 1 {
				return
			}
			x := pf.TypeArgs()[0]
			if _, isTP := x.(*types.TypeParam); isTP {
				return
			}
			n++
			construct := fmt.Sprintf("%s packs a stream of %s", w.fname(fn), x.String())
			if _, isI := x.Underlying().(*types.Interface); !isI {
				r.OK(rule, construct, c.Pos(), "packed with a concrete chunk type")
				return
			}
			// packed as an interface type: what does the value form yield?
			conv, ok := c.Call.Args[0].(*ssa.Call)
			var f *ssa.Function
			if ok && len(conv.Call.Args) == 2 {
				f = resolveFn(conv.Call.Args[1], 0)
			}
			if f == nil {
				r.Info(rule, construct, c.Pos(), "chunk type erased to an interface; converting function not resolvable")
				return
			}
			boxed := map[string]bool{}
			instrs(f, func(fi ssa.Instruction) {
				ret, ok := fi.(*ssa.Return)
				if !ok || len(ret.Results) == 0 {
					return
				}
				if mi, ok := returnedValue(ret, 0).(*ssa.MakeInterface); ok {
					boxed[mi.X.Type().String()] = true
				}
			})
			var bad []string
			for t := range boxed {
				if _, ok := strict[t]; ok {
					bad = append(bad, t)
				}
			}
			sort.Strings(bad)
			if len(bad) > 0 {
				r.Fail(rule, construct, c.Pos(), fmt.Sprintf("the converting function %s yields %v, but the stream is packed as a stream of %s: unpackStreamReader[%s] (%s) rejects it — the node's stream converter panics in Stream/Transform runs while Invoke/Collect on the same graph work", w.fname(f), bad, x.String(), bad[0], w.pos(strict[bad[0]])))
				return
			}
			r.Info(rule, construct, c.Pos(), "chunk type erased to an interface; the value form returns its input unchanged (no concrete type established)")
		})
	}
	if n < 3 {
		undecidedf("%s: only %d concrete packStreamReader sites", rule, n)
	}
}

// startConsumesCopy: in runner.run the START pseudo task's output is the input as returned by onGraphStart: the
// callback aspect copies a stream input for its handlers and returns the graph's own copy; reading the original
// makes graph and handlers share one reader (each chunk reaches only one of them).
func startConsumesCopy(w *World, r *Report, rule string) {
	run := w.Fn("compose", "runner.run")
	ogs := w.Fn("compose", "onGraphStart")
	fOut := w.Field("compose", "task", "output")
	fKey := w.Field("compose", "task", "nodeKey")
	startC := w.Pkg("compose").Types.Scope().Lookup("START").(*types.Const)
	startS, _ := constString(ssa.NewConst(startC.Val(), startC.Type()))
	n := 0
	var calls []ssa.CallInstruction
	for _, f := range withAnons(run) {
		calls = append(calls, callsTo(f, ogs)...)
	}
	// task literals with nodeKey START
	startAllocs := map[ssa.Value]bool{}
	for _, fw := range fieldWrites(run) {
		if sameField(fw.field, fKey) {
			if s, ok := constString(fw.val); ok && s == startS {
				startAllocs[fw.base] = true
			}
		}
	}
	for _, fw := range fieldWrites(run) {
		if !sameField(fw.field, fOut) || !startAllocs[fw.base] {
			continue
		}
		n++
		ok := false
		det := "the stored value is not derived from onGraphStart's result"
		for _, c := range calls {
			if c.Parent() != run {
				continue
			}
			if e := extractOf(c, 1); e != nil && derivesFrom(fw.val, e) && instrDominates(c, fw.in) {
				// through the captured `input` cell: the load must come after the call
				if u, isLoad := fw.val.(*ssa.UnOp); isLoad {
					if !instrDominates(c, u) {
						det = "the input variable is read BEFORE onGraphStart replaced it"
						continue
					}
				}
				ok = true
			}
		}
		r.Check(ok, rule, fmt.Sprintf("runner.run: START task output #%d", n), fw.in.Pos(), "input as returned by onGraphStart", det+": the graph consumes the original input stream which the callback handlers also read — with a handler implementing OnStartWithStreamInput, Collect/Transform lose the chunks the handler took (or fail with 'stream reader is empty') while Invoke/Stream are unaffected")
	}
	if n == 0 {
		undecidedf("%s: no START task literal in runner.run", rule)
	}
}
