package main

import (
	"fmt"
	"go/token"
	"go/types"
	"strings"

	"golang.org/x/tools/go/ssa"
)

func init() {
	register(&propDef{
		id: "C03",
		explanation: "Static clauses (invariants the executor/collector hand-off relies on, for every schedule) of 'run result is independent of completion order; no completion lost': " +
			"(lock-region) every access to the overflow list and every call of updateChan happens with taskManager.mu held; inside a held region there is no blocking channel operation and no call outside {container/list, updateChan}; " +
			"(push-on-every-exit) the executor's first action is a deferred literal that recovers a panic into task.err and, on every path, locks, pushes the task, refills the channel, unlocks; " +
			"(refill-after-receive) in waitOne the receive is followed on EVERY path to return by lock/updateChan/unlock; " +
			"(count-pairing) each launch is preceded by num += 1, the receive by num-- under num != 0; num is touched only in submit/wait* and never in a function reachable from the executor; done has capacity >= 1, is sent only in updateChan (select with default) and received only in waitOne; " +
			"(sync-first-guard) the inline first task is taken only when num == 0 && (one task || needAll); needAll = !eager; " +
			"(poll-all) getFromReadyChannels asks every channel of the run, unconditionally; " +
			"(wait-all-drains) waitAll loops until waitOne reports nothing outstanding.",
		decided:    []string{"lock-region", "push-on-every-exit", "refill-after-receive", "count-pairing", "sync-first-guard", "poll-all", "wait-all-drains", "computed-tasks-kept", "resolved-once", "visits-all"},
		notDecided: []string{"linearizability of the hand-off protocol under all interleavings (a model-checking question)", "determinism of user node functions", "fairness of the Go scheduler"},
		run:        runC03,
	})
}

// heldRegions: forward must-analysis "mutex field mu of receiver is held" at block entry.
type lockState struct {
	in, out map[*ssa.BasicBlock]bool
}

func isMutexOp(in ssa.Instruction, mu *types.Var, name string) bool {
	c, ok := in.(ssa.CallInstruction)
	if !ok || calleeFullName(in) != "(*sync.Mutex)."+name {
		return false
	}
	fa, ok := c.Common().Args[0].(*ssa.FieldAddr)
	return ok && sameField(fieldVarOfAddr(fa), mu)
}

// heldAt computes for every instruction whether mu is definitely held just before it.
func heldAt(fn *ssa.Function, mu *types.Var, heldAtEntry bool) map[ssa.Instruction]bool {
	in := map[*ssa.BasicBlock]bool{}
	out := map[*ssa.BasicBlock]bool{}
	for _, b := range fn.Blocks {
		in[b], out[b] = true, true // optimistic for must-analysis
	}
	if len(fn.Blocks) == 0 {
		return nil
	}
	in[fn.Blocks[0]] = heldAtEntry
	held := map[ssa.Instruction]bool{}
	changed := true
	for changed {
		changed = false
		for i, b := range fn.Blocks {
			st := heldAtEntry
			if i > 0 {
				st = true
				if len(b.Preds) == 0 {
					st = false
				}
				for _, p := range b.Preds {
					if !out[p] {
						st = false
					}
				}
			}
			if in[b] != st {
				in[b] = st
				changed = true
			}
			for _, ins := range b.Instrs {
				held[ins] = st
				if _, isDefer := ins.(*ssa.Defer); isDefer {
					continue
				}
				if isMutexOp(ins, mu, "Lock") {
					st = true
				} else if isMutexOp(ins, mu, "Unlock") {
					st = false
				}
			}
			if out[b] != st {
				out[b] = st
				changed = true
			}
		}
	}
	return held
}

func runC03(w *World, r *Report) {
	// ---- computed-tasks-kept: what calculateNextTasks took out of the channels is either started or saved
	r.Rule("C03.computed-tasks-kept", "every task list returned by calculateNextTasks that reaches a handleInterrupt call is part of the tasks handed to it (a computed task is never dropped: its inputs were already taken out of the channels)", 2)
	computedTasksKept(w, r, "C03.computed-tasks-kept")
	r.Rule("C03.resolved-once", "every batch of completed tasks is resolved exactly once: by calculateNextTasks or by the sub-graph/rerun interrupt handler, never both, never neither (shared with C05)", 3)
	completedOnce(w, r, "C03.resolved-once")

	// ---- every successor a completed task leads to is told about it, whatever the other tasks of the batch reported
	r.Rule("C03.dependency-recorded", "resolveCompletedTasks records the dependency (successor <- completed node) for every control successor and every branch-selected successor unconditionally: no test on what other tasks of the batch already recorded", 2)
	{
		rct := w.Fn("compose", "runner.resolveCompletedTasks")
		var depMap ssa.Value
		instrs(rct, func(in ssa.Instruction) {
			if ret, ok := in.(*ssa.Return); ok && len(ret.Results) == 3 {
				if mm, ok := ret.Results[1].(*ssa.MakeMap); ok {
					depMap = mm
				}
			}
		})
		n := 0
		loopCond := guardIsLoopCond(rct)
		instrs(rct, func(in ssa.Instruction) {
			mu, ok := in.(*ssa.MapUpdate)
			if !ok || depMap == nil || mu.Map != depMap {
				return
			}
			n++
			extra := extraGuards(mu.Block(), loopCond, guardErrNil)
			r.Check(len(extra) == 0, "C03.dependency-recorded", fmt.Sprintf("resolveCompletedTasks: dependency write #%d", n), mu.Pos(), "reached on every iteration of the successor loop", "the dependency is recorded only when "+strings.Join(extra, " && ")+": whether a join node learns that this predecessor finished depends on which task of the batch was resolved first — collected in the other order the node never becomes ready and the run ends with 'no tasks to execute'")
		})
		if n < 2 {
			r.Fail("C03.dependency-recorded", "resolveCompletedTasks: dependency writes", rct.Pos(), fmt.Sprintf("%d writes into the returned dependency map found (control successors + branch-selected successors expected)", n))
		}
	}

	// ---- submit: no node of the step is started before every pre-handler of the step has run (a failing pre-handler
	// returns from submit: nothing may be running then; a pre-handler must not observe sibling nodes of its own step)
	r.Rule("C03.launch-after-prehandlers", "taskManager.submit: no path leads from a task launch (go executor / inline executor) to a pre-processor call or to an error return", 2)
	{
		sub := w.Fn("compose", "taskManager.submit")
		ex := w.Fn("compose", "taskManager.executor")
		fPre := w.Field("compose", "chanCall", "preProcessor")
		isPreCall := func(in ssa.Instruction) bool {
			c, ok := in.(ssa.CallInstruction)
			if !ok {
				return false
			}
			if _, isGo := in.(*ssa.Go); isGo {
				return false
			}
			for _, a := range c.Common().Args {
				if isLoadOfField(a, fPre) {
					return true
				}
			}
			return false
		}
		isErrReturn := func(in ssa.Instruction) bool {
			ret, ok := in.(*ssa.Return)
			return ok && len(ret.Results) == 1 && !isNilConst(ret.Results[0])
		}
		n, nPre := 0, 0
		instrs(sub, func(in ssa.Instruction) {
			if isPreCall(in) {
				nPre++
			}
			c, ok := in.(ssa.CallInstruction)
			if !ok || staticCallee(c) == nil || origin(staticCallee(c)) != ex {
				return
			}
			n++
			kind := "inline"
			if _, isGo := in.(*ssa.Go); isGo {
				kind = "go"
			}
			bad, wit := pathQuery{fn: sub, from: in, goal: func(x ssa.Instruction) bool { return x != in && (isPreCall(x) || isErrReturn(x)) }}.exists()
			r.Check(!bad, "C03.launch-after-prehandlers", fmt.Sprintf("submit: %s launch #%d", kind, n), in.Pos(), "every pre-processor call and every error return lies before the launch", "after this launch submit can still run a pre-handler or return an error ("+wit+"): a node of the step is already executing while a sibling's pre-handler runs (its input depends on timing), and when that pre-handler fails the run returns while started nodes are never collected")
		})
		if n < 2 || nPre < 1 {
			r.Fail("C03.launch-after-prehandlers", "submit: launches and pre-processor calls", sub.Pos(), fmt.Sprintf("%d executor launches / %d pre-processor calls found (floor 2 / 1)", n, nPre))
		}
	}

	// ---- a completion is applied completely: both halves of what resolveCompletedTasks computes (the values written to
	// successors, the control dependencies reported to them) reach the channels at every call site
	r.Rule("C03.completion-fully-applied", "every caller of resolveCompletedTasks passes the value map to updateValues and the dependency map to updateDependencies before any non-error continuation", 2)
	{
		rct := w.Fn("compose", "runner.resolveCompletedTasks")
		uv := w.Fn("compose", "channelManager.updateValues")
		ud := w.Fn("compose", "channelManager.updateDependencies")
		n := 0
		for _, caller := range w.RepoFuncs("compose") {
			for _, c := range callsTo(caller, rct) {
				n++
				for _, half := range []struct {
					idx  int
					fn   *ssa.Function
					what string
				}{{0, uv, "values"}, {1, ud, "control dependencies"}} {
					e := extractOf(c, half.idx)
					var apply ssa.Instruction
					if e != nil {
						for _, a := range callsTo(caller, half.fn) {
							for _, arg := range a.Common().Args {
								if arg == ssa.Value(e) {
									apply = a
								}
							}
						}
						// … or through a module function that hands that very parameter on to it (updateAndGet)
						instrs(caller, func(in ssa.Instruction) {
							ci, ok := in.(ssa.CallInstruction)
							if !ok || apply != nil {
								return
							}
							sc := staticCallee(ci)
							if sc == nil || !w.inRepo(sc) {
								return
							}
							for i, arg := range ci.Common().Args {
								if arg != ssa.Value(e) || i >= len(sc.Params) {
									continue
								}
								for _, inner := range callsTo(sc, half.fn) {
									for _, ia := range inner.Common().Args {
										if ia == ssa.Value(sc.Params[i]) {
											apply = in
										}
									}
								}
							}
						})
					}
					good := apply != nil
					wit := "the result is discarded"
					if good {
						// no way from the call to a successful continuation (nil-error return, or — for a caller that returns an
						// error value of its own — any later instruction using the other half) that avoids the application
						var skip bool
						skip, wit = pathQuery{fn: caller, from: c, goal: func(in ssa.Instruction) bool {
							ret, ok := in.(*ssa.Return)
							if !ok {
								return false
							}
							last := ret.Results[len(ret.Results)-1]
							return isNilConst(last) || !isErrorType(last.Type()) || isInterruptLike(last)
						}, avoid: func(in ssa.Instruction) bool { return in == apply }}.exists()
						good = !skip
					}
					r.Check(good, "C03.completion-fully-applied", fmt.Sprintf("%s: %s of resolveCompletedTasks #%d are applied", w.fname(caller), half.what, n), c.Pos(), "passed to "+half.fn.Name()+" before every non-error continuation", "the "+half.what+" computed for a batch of completed tasks are not applied ("+wit+"): a successor keeps waiting for a predecessor that has finished — in a checkpoint written at that point the dependency is lost, and whether the join fires after the resume depends on which sibling was collected before the interrupt ('no tasks to execute')")
				}
			}
		}
		if n < 2 {
			r.Fail("C03.completion-fully-applied", "callers of resolveCompletedTasks", rct.Pos(), fmt.Sprintf("%d call sites found (floor 2)", n))
		}
	}

	// ---- what is decided about one collected task does not depend on the tasks collected before it: no boolean that is
	// only ever set is carried round a loop over tasks / nodes and tested inside it (a per-element flag whose reset was lost)
	r.Rule("C03.classification-order-free", "no loop of package compose carries a set-only boolean that is tested inside the loop body other than to leave the loop", 1)
	{
		n, loops := 0, 0
		for _, fn := range w.RepoFuncs("compose") {
			loops += len(naturalLoops(fn))
			for _, sf := range stickyFlagsTestedInLoop(fn) {
				n++
				r.Fail("C03.classification-order-free", fmt.Sprintf("%s: %s carries flag %s", w.fname(origin(fn)), sf.loop.what, sf.phi.Comment), sf.test.Cond.Pos(), "the flag is set for one element and never reset, yet it decides about the elements after it: in the rerun/sub-graph interrupt handler every normally completed task collected AFTER a rerun task lands in no list at all — its output and dependencies never reach the checkpoint, so the resumed run fails or returns less depending on the completion order")
			}
		}
		if n == 0 {
			r.OK("C03.classification-order-free", fmt.Sprintf("%d loops of package compose examined", loops), token.NoPos, "no set-only flag tested in a loop body")
		}
		if loops < 50 {
			r.Deferred = append(r.Deferred, fmt.Sprintf("C03.classification-order-free: only %d loops found in package compose", loops))
		}
	}

	r.Rule("C03.skip-reaches-every-successor", "the successor table the skip propagation walks lists data successors, control-only successors and branch targets (shared with C02.successors-complete): a skipped node tells every node that waits for it, otherwise that node waits for ever and the run does not end", 3)
	successorsCompleteCheck(w, r, "C03.skip-reaches-every-successor")

	r.Rule("C03.skip-decision-order-free", "a DAG node is skipped iff every control predecessor is skipped (each state compared with the skipped state): a predecessor that has already completed never counts as skipped, so the order in which a completion and a skip are collected does not matter (shared with C02.ready-guards)", 1)
	reportSkipExact(w, r, "C03.skip-decision-order-free")

	// ---- visits-all: every submitted / completed task and every target channel is processed
	shareRule(w, r, "C03.completions-survive-resume", "what a channel recorded of finished / skipped predecessors is restored whole on resume, on every path of load: a completion that delivered no data (a dependency-only edge, a branch, a skip) is recorded nowhere else", 8, "C05", "C05.channel-state")
	shareRule(w, r, "C03.ready-needs-data", "a DAG node is ready only when every data predecessor has delivered, whatever its control predecessors: the result must not depend on whether a data-only source finishes before or after the control predecessors", 8, "C02", "C02.ready-guards")
	shareRule(w, r, "C03.interrupt-waits-all", "a rerun / nested interrupt in an eager run collects every running sibling before the checkpoint is written and the run returns: no node is left executing behind the caller, and the resumed run has every output", 3, "C05", "C05.wait-all-before-save")
	shareRule(w, r, "C03.post-handlers-under-the-state-lock", "state post-handlers run on the run loop while sibling nodes still execute: they take the state mutex like every other way into the state, or a sibling's read-modify-write that straddles them loses an update and the result depends on the schedule", 1, "C09", "C09.state-handlers-locked")
	shareRule(w, r, "C03.fan-in-merges-own-their-array", "two fan-in nodes fed by one array-backed stream merge into slices of their own: what a join reads does not depend on which merge ran first", 1, "C08", "C08.array-alias")

	r.Rule("C03.visits-all", "the loops over tasks, completed tasks, written channels and ready channels in the scheduler are left only when exhausted or with an error", 8)
	ruleLoopsTotal(w, r, "C03.visits-all", []*ssa.Function{
		w.Fn("compose", "taskManager.submit"), w.Fn("compose", "taskManager.waitAll"), w.Fn("compose", "runner.resolveCompletedTasks"),
		w.Fn("compose", "runner.createTasks"), w.Fn("compose", "channelManager.updateValues"), w.Fn("compose", "channelManager.updateDependencies"),
		w.Fn("compose", "channelManager.getFromReadyChannels"), w.Fn("compose", "channelManager.reportBranch"), w.Fn("compose", "runner.calculateNextTasks"),
	}, map[string]string{}, "a started node is never collected, a completed task's output is never delivered, or a ready node is never scheduled")

	tm := w.Named("compose", "taskManager")
	fMu := w.Field("compose", "taskManager", "mu")
	fL := w.Field("compose", "taskManager", "l")
	fDone := w.Field("compose", "taskManager", "done")
	fNum := w.Field("compose", "taskManager", "num")
	fNeedAll := w.Field("compose", "taskManager", "needAll")
	executor := w.Fn("compose", "taskManager.executor")
	submit := w.Fn("compose", "taskManager.submit")
	waitOne := w.Fn("compose", "taskManager.waitOne")
	waitAll := w.Fn("compose", "taskManager.waitAll")
	wait := w.Fn("compose", "taskManager.wait")
	updateChan := w.Fn("compose", "taskManager.updateChan")

	var tmFuncs []*ssa.Function
	for _, fn := range w.RepoFuncs("compose") {
		top := topFunc(fn)
		if top.Signature.Recv() != nil && namedOf(top.Signature.Recv().Type()) == tm {
			tmFuncs = append(tmFuncs, fn)
		}
	}

	// ---- lock-region
	r.Rule("C03.lock-region", "overflow list accessed and updateChan called only with mu held; nothing blocking / foreign inside a held region", 6)
	// updateChan is called only with mu held => its body is analysed with heldAtEntry = true
	ucHeld := true
	for _, c := range w.staticCallers(updateChan) {
		h := heldAt(c.Parent(), fMu, false)
		ok := h[c]
		if !ok {
			ucHeld = false
		}
		r.Check(ok, "C03.lock-region", "updateChan called from "+w.fname(c.Parent()), c.Pos(), "mu is held at the call", "updateChan (which mutates the overflow list and sends on done) is called without holding mu")
	}
	nAcc := 0
	for _, fn := range tmFuncs {
		entryHeld := fn == updateChan && ucHeld
		h := heldAt(fn, fMu, entryHeld)
		instrs(fn, func(in ssa.Instruction) {
			// accesses to t.l: any call whose receiver/argument derives from a load of field l
			c, ok := in.(ssa.CallInstruction)
			if ok {
				usesL := false
				for _, a := range c.Common().Args {
					if isLoadOfField(a, fL) {
						usesL = true
					}
					// t.l.Front().Value etc: receiver is result of a call on l
				}
				if usesL {
					nAcc++
					r.Check(h[in], "C03.lock-region", fmt.Sprintf("%s: list op %s", w.fname(fn), calleeFullName(in)), in.Pos(), "mu held", "overflow list accessed without mu")
				}
			}
			if !h[in] {
				return
			}
			// inside held region
			switch x := in.(type) {
			case *ssa.Send:
				r.Fail("C03.lock-region", w.fname(fn)+": blocking send under mu", x.Pos(), "a blocking channel send while holding mu can deadlock the executor/collector hand-off")
			case *ssa.UnOp:
				if x.Op == token.ARROW {
					r.Fail("C03.lock-region", w.fname(fn)+": blocking receive under mu", x.Pos(), "a blocking receive while holding mu")
				}
			case *ssa.Select:
				if x.Blocking {
					r.Fail("C03.lock-region", w.fname(fn)+": blocking select under mu", x.Pos(), "select without default while holding mu")
				} else {
					r.OK("C03.lock-region", w.fname(fn)+": non-blocking select under mu", x.Pos(), "select with default")
				}
			case *ssa.Call:
				if _, isB := x.Call.Value.(*ssa.Builtin); isB {
					return
				}
				name := calleeFullName(x)
				allowed := isCallTo(x, updateChan) || name == "(*sync.Mutex).Unlock" || name == "(*sync.Mutex).Lock" ||
					(staticCallee(x) != nil && fnPkg(staticCallee(x)) != nil && fnPkg(staticCallee(x)).Path() == "container/list")
				if !allowed {
					r.Fail("C03.lock-region", w.fname(fn)+": foreign call under mu: "+name, x.Pos(), "call outside {container/list, updateChan} while holding mu (may block or re-enter)")
				}
			}
		})
	}
	if nAcc < 3 {
		undecidedf("C03.lock-region: only %d overflow-list accesses found (floor 3)", nAcc)
	}

	// ---- push-on-every-exit
	r.Rule("C03.push-on-every-exit", "executor defers recover->task.err and lock;push;updateChan;unlock before doing anything else", 4)
	executorHandoffChecks(w, r, "C03.push-on-every-exit")

	// ---- refill-after-receive
	r.Rule("C03.refill-after-receive", "waitOne: after <-done every path to return passes Lock; updateChan; Unlock", 1)
	var recv *ssa.UnOp
	instrs(waitOne, func(in ssa.Instruction) {
		if u, ok := in.(*ssa.UnOp); ok && u.Op == token.ARROW && isLoadOfField(u.X, fDone) {
			recv = u
		}
	})
	if recv == nil {
		r.Fail("C03.refill-after-receive", "waitOne receive", waitOne.Pos(), "no receive from done in waitOne")
	} else {
		skip, wit := pathQuery{fn: waitOne, from: recv, goal: isReturn, avoid: func(in ssa.Instruction) bool { return isCallTo(in, updateChan) }}.exists()
		r.Check(!skip, "C03.refill-after-receive", "waitOne: refill after receive on every path", recv.Pos(), "updateChan follows the receive on every path to return",
			"after taking a task from the one-slot channel a path returns without refilling it from the overflow list: a finished task stays stranded and the next receive blocks forever: "+wit)
	}

	// ---- count-pairing
	r.Rule("C03.count-pairing", "num += 1 before each launch; num-- before the receive under num != 0; num confined to submit/wait*; done: cap>=1, sent in updateChan (non-blocking), received in waitOne", 8)
	numStoreBefore := func(fn *ssa.Function, at ssa.Instruction, op token.Token) bool {
		// a store to num of (load num) op 1 in the same block before `at`
		found := false
		for _, in := range at.Block().Instrs {
			if in == at {
				break
			}
			st, ok := in.(*ssa.Store)
			if !ok {
				continue
			}
			fa, ok := st.Addr.(*ssa.FieldAddr)
			if !ok || !sameField(fieldVarOfAddr(fa), fNum) {
				continue
			}
			b, ok := st.Val.(*ssa.BinOp)
			if ok && b.Op == op && isLoadOfField(b.X, fNum) && isConstN(b.Y, 1) {
				found = true
			}
		}
		return found
	}
	nLaunch := 0
	instrs(submit, func(in ssa.Instruction) {
		if isCallTo(in, executor) {
			nLaunch++
			r.Check(numStoreBefore(submit, in, token.ADD), "C03.count-pairing", fmt.Sprintf("submit launch #%d counted", nLaunch), in.Pos(), "num += 1 precedes the launch in its block", "a task is launched without being counted: its completion is never collected (or the run returns early)")
		}
	})
	if nLaunch != 2 {
		r.Fail("C03.count-pairing", "submit launches", submit.Pos(), fmt.Sprintf("expected the goroutine launch and the inline launch, found %d launches", nLaunch))
	}
	if recv != nil {
		r.Check(numStoreBefore(waitOne, recv, token.SUB), "C03.count-pairing", "waitOne receive counted", recv.Pos(), "num-- precedes the receive", "receive without decrementing the outstanding count")
		g := hasGuard(recv.Block(), func(g guard) bool {
			op, x, y, ok := asCmp(g.cond)
			return ok && isLoadOfField(x, fNum) && isConstN(y, 0) && ((op == token.EQL && !g.pol) || (op == token.NEQ && g.pol) || (op == token.GTR && g.pol))
		})
		r.Check(g, "C03.count-pairing", "waitOne receive only when tasks are outstanding", recv.Pos(), "guarded by num != 0", "waitOne can block on the channel although nothing is outstanding")
	}
	// num confinement
	// the counter is per taskManager instance and each instance belongs to one run-loop goroutine: the
	// functions touching it are called only from runner.run (and from each other), never from the executor
	runFn := w.Fn("compose", "runner.run")
	for _, f := range []*ssa.Function{submit, wait, waitAll, waitOne} {
		for _, c := range w.staticCallers(f) {
			top := topFunc(c.Parent())
			okc := top == runFn || top == wait || top == waitAll
			r.Check(okc, "C03.count-pairing", f.Name()+" called from "+w.fname(top), c.Pos(), "run-loop goroutine only", "a function touching the unsynchronised counter is called from outside the run loop")
		}
	}
	for _, fn := range w.RepoFuncs("compose") {
		instrs(fn, func(in ssa.Instruction) {
			fa, ok := in.(*ssa.FieldAddr)
			if !ok || !sameField(fieldVarOfAddr(fa), fNum) {
				return
			}
			top := topFunc(fn)
			okf := top == submit || top == waitOne || top == waitAll || top == wait
			if !okf {
				r.Fail("C03.count-pairing", "num accessed in "+w.fname(fn), fa.Pos(), "the unsynchronised outstanding counter is touched outside the run-loop goroutine's submit/wait* (data race / lost count)")
			}
		})
	}
	r.OK("C03.count-pairing", "num confined to submit/wait*", tm.Obj().Pos(), "accessed only in submit/wait/waitOne/waitAll")
	// done channel
	itm := w.Fn("compose", "runner.initTaskManager")
	capOK := false
	instrs(itm, func(in ssa.Instruction) {
		if mc, ok := in.(*ssa.MakeChan); ok {
			if n, ok := constInt(mc.Size); ok && n >= 1 {
				capOK = true
			}
		}
	})
	r.Check(capOK, "C03.count-pairing", "done channel has capacity >= 1", itm.Pos(), "buffered", "done is unbuffered: the non-blocking refill can never succeed while the collector is busy")
	for _, fn := range w.RepoFuncs("compose") {
		instrs(fn, func(in ssa.Instruction) {
			switch x := in.(type) {
			case *ssa.Send:
				if isLoadOfField(x.Chan, fDone) {
					r.Fail("C03.count-pairing", "blocking send on done in "+w.fname(fn), x.Pos(), "done must only be fed by the non-blocking select in updateChan")
				}
			case *ssa.Select:
				for _, st := range x.States {
					if isLoadOfField(st.Chan, fDone) {
						okk := topFunc(fn) == updateChan && st.Dir == types.SendOnly && !x.Blocking
						r.Check(okk, "C03.count-pairing", "select on done in "+w.fname(fn), x.Pos(), "non-blocking send in updateChan", "done used in a select outside updateChan or in a blocking select")
					}
				}
			case *ssa.UnOp:
				if x.Op == token.ARROW && isLoadOfField(x.X, fDone) {
					r.Check(topFunc(fn) == waitOne, "C03.count-pairing", "receive from done in "+w.fname(fn), x.Pos(), "only waitOne receives", "a second receiver steals completions")
				}
			}
		})
	}

	// ---- sync-first-guard
	r.Rule("C03.sync-first-guard", "inline first task only under num == 0 && (len(tasks) == 1 || needAll); needAll = !eager", 2)
	var inline ssa.Instruction
	instrs(submit, func(in ssa.Instruction) {
		if c, ok := in.(*ssa.Call); ok && isCallTo(c, executor) {
			inline = c
		}
	})
	if inline != nil {
		// the inline task is a phi(nil, tasks[0]); the assignment block of tasks[0] carries the guards
		arg := inline.(*ssa.Call).Call.Args[1]
		var src *ssa.BasicBlock
		if phi, ok := arg.(*ssa.Phi); ok {
			for i, e := range phi.Edges {
				if !isNilConst(e) {
					src = phi.Block().Preds[i]
				}
			}
		}
		okg := false
		if src != nil {
			g1 := hasGuard(src, func(g guard) bool {
				op, x, y, ok := asCmp(g.cond)
				return ok && op == token.EQL && g.pol && isLoadOfField(x, fNum) && isConstN(y, 0)
			}) || blockOrGuards(src, func(g guard) bool {
				op, x, y, ok := asCmp(g.cond)
				return ok && op == token.EQL && g.pol && isLoadOfField(x, fNum) && isConstN(y, 0)
			})
			// (len(tasks)==1 || needAll): src is reached from either test's true edge
			fromLen, fromNeed := false, false
			for _, p := range src.Preds {
				if iff, ok := p.Instrs[len(p.Instrs)-1].(*ssa.If); ok && p.Succs[0] == src {
					if op, x, y, ok := asCmp(iff.Cond); ok && op == token.EQL && isConstN(y, 1) && isLenOf(x, func(v ssa.Value) bool { _, isP := v.(*ssa.Parameter); return isP }) {
						fromLen = true
					}
					if isLoadOfField(iff.Cond, fNeedAll) {
						fromNeed = true
					}
				}
			}
			okg = g1 && fromLen && fromNeed && len(src.Preds) == 2
		}
		r.Check(okg, "C03.sync-first-guard", "submit: inline task condition", inline.Pos(), "num == 0 && (len(tasks) == 1 || needAll)", "the run-loop goroutine can run a node inline while other tasks are outstanding in eager mode (their completions are not collected meanwhile) or the guard changed shape")
	}
	// needAll = !eager
	fEager := w.Field("compose", "runner", "eager")
	okn := false
	for _, fw := range fieldWrites(itm) {
		if sameField(fw.field, fNeedAll) {
			if u, ok := fw.val.(*ssa.UnOp); ok && u.Op == token.NOT && isLoadOfField(u.X, fEager) {
				okn = true
			}
		}
	}
	r.Check(okn, "C03.sync-first-guard", "initTaskManager: needAll = !eager", itm.Pos(), "batch mode waits for all, eager mode for one", "needAll is not the negation of runner.eager")

	// ---- poll-all
	r.Rule("C03.poll-all", "getFromReadyChannels calls get on every channel of the run, unconditionally", 1)
	pollAllCheck(w, r, "C03.poll-all")

	// ---- wait-all-drains
	r.Rule("C03.wait-all-drains", "waitAll returns only when waitOne reports nothing outstanding; wait = waitAll in batch mode", 2)
	wo := callsTo(waitAll, waitOne)
	okw := len(wo) == 1
	if okw {
		// every return is guarded by success == false
		instrs(waitAll, func(in ssa.Instruction) {
			if ret, ok := in.(*ssa.Return); ok {
				e := extractOf(wo[0], 1)
				if e == nil || !hasGuard(ret.Block(), func(g guard) bool { return g.cond == ssa.Value(e) && !g.pol }) {
					okw = false
				}
			}
		})
	}
	r.Check(okw, "C03.wait-all-drains", "waitAll loops until waitOne fails", waitAll.Pos(), "returns only under !success", "waitAll can return while tasks are outstanding (the run continues before the nodes feeding END finished)")
	okb := false
	for _, c := range callsTo(wait, waitAll) {
		if hasGuard(c.Block(), func(g guard) bool { return isLoadOfField(g.cond, fNeedAll) && g.pol }) {
			okb = true
		}
	}
	r.Check(okb, "C03.wait-all-drains", "wait: batch mode waits for all", wait.Pos(), "needAll -> waitAll", "batch mode no longer waits for every task of the step")
}

// blockOrGuards: pred holds for a guard of b or of any of b's predecessors (for `a && (b || c)` shapes
// where the block is reached from two tests that share the outer guard).
func blockOrGuards(b *ssa.BasicBlock, pred func(g guard) bool) bool {
	if hasGuard(b, pred) {
		return true
	}
	if len(b.Preds) == 0 {
		return false
	}
	for _, p := range b.Preds {
		ok := false
		// the predecessor's own terminating If, or its guards
		if iff, isIf := p.Instrs[len(p.Instrs)-1].(*ssa.If); isIf {
			if p.Succs[0] == b && pred(guard{iff.Cond, true, iff}) {
				ok = true
			}
			if p.Succs[1] == b && pred(guard{iff.Cond, false, iff}) {
				ok = true
			}
		}
		if !ok && !hasGuard(p, pred) {
			return false
		}
	}
	return true
}

// executorHandoffChecks: the executor's deferred hand-off (shared by C03.push-on-every-exit and C01.termination-handoff).
func executorHandoffChecks(w *World, r *Report, rule string) {
	fMu := w.Field("compose", "taskManager", "mu")
	fL := w.Field("compose", "taskManager", "l")
	executor := w.Fn("compose", "taskManager.executor")
	submit := w.Fn("compose", "taskManager.submit")
	updateChan := w.Fn("compose", "taskManager.updateChan")
	d, lit, rv := recoverDefer(executor)
	if d == nil {
		r.Fail(rule, "executor deferred hand-off", executor.Pos(), "executor has no deferred literal with recover(): a panicking node loses its completion (the run hangs) or kills the process")
	} else {
		// dominates every other call
		bad := ""
		instrs(executor, func(in ssa.Instruction) {
			if c, ok := in.(*ssa.Call); ok {
				if _, isB := c.Call.Value.(*ssa.Builtin); !isB && !instrDominates(d, c) {
					bad = calleeFullName(c)
				}
			}
		})
		r.Check(bad == "", rule, "executor: defer is the first action", d.Pos(), "no call precedes the defer", "call "+bad+" precedes the hand-off defer")
		ok, how := taintReachesSink(lit, rv, nil)
		r.Check(ok, rule, "executor: panic recorded in task.err", lit.Pos(), how, "recovered panic value is dropped")
		// on every path: Lock, PushBack(l), updateChan, Unlock in this order
		isLock := func(in ssa.Instruction) bool { return isMutexOp(in, fMu, "Lock") }
		isUnlock := func(in ssa.Instruction) bool { return isMutexOp(in, fMu, "Unlock") }
		isPush := func(in ssa.Instruction) bool {
			c, ok := in.(ssa.CallInstruction)
			return ok && calleeFullName(in) == "(*container/list.List).PushBack" && isLoadOfField(c.Common().Args[0], fL)
		}
		isUC := func(in ssa.Instruction) bool { return isCallTo(in, updateChan) }
		seq := []struct {
			name string
			p    func(ssa.Instruction) bool
		}{{"Lock", isLock}, {"PushBack", isPush}, {"updateChan", isUC}, {"Unlock", isUnlock}}
		good := true
		det := ""
		for _, s := range seq {
			skip, wit := pathQuery{fn: lit, goal: isReturn, avoid: s.p}.exists()
			if skip {
				good = false
				det += s.name + " skipped on path " + wit + "; "
			}
		}
		// order: no path from entry to PushBack avoiding Lock; from PushBack to return avoiding updateChan ...
		if sk, _ := (pathQuery{fn: lit, goal: isPush, avoid: isLock}).exists(); sk {
			good, det = false, det+"PushBack before Lock; "
		}
		if sk, _ := (pathQuery{fn: lit, goal: isUC, avoid: isPush}).exists(); sk {
			good, det = false, det+"updateChan before PushBack; "
		}
		r.Check(good, rule, "executor: every exit pushes the finished task and refills the channel", lit.Pos(), "Lock; PushBack; updateChan; Unlock on every path of the deferred literal", "a completed (or panicked) task can be lost: "+det)
	}
	// executor is launched only from submit
	for _, fn := range w.RepoFuncs("compose") {
		instrs(fn, func(in ssa.Instruction) {
			if c, ok := in.(ssa.CallInstruction); ok && isCallTo(in, executor) {
				r.Check(topFunc(fn) == submit, rule, "executor launched from "+w.fname(fn), c.Pos(), "only submit launches tasks", "executor launched outside submit (outstanding count not maintained)")
			}
		})
	}

}

// computedTasksKept: in runner.run, for every call of handleInterrupt, each calculateNextTasks call that dominates
// it contributes its task list to the handler's nextTasks argument.
func computedTasksKept(w *World, r *Report, rule string) {
	run := w.Fn("compose", "runner.run")
	cnt := w.Fn("compose", "runner.calculateNextTasks")
	hInt := w.Fn("compose", "runner.handleInterrupt")
	ti := paramIndex(hInt, "nextTasks")
	n := 0
	for _, h := range callsTo(run, hInt) {
		arg := h.Common().Args[ti]
		for ci, c := range callsTo(run, cnt) {
			if !instrDominates(c, h) {
				continue
			}
			n++
			e := extractOf(c, 0)
			ok := e != nil && derivesFrom(arg, e)
			r.Check(ok, rule, fmt.Sprintf("runner.run: handleInterrupt receives the tasks of calculateNextTasks #%d", ci+1), h.Pos(), "the handler's task list derives from that call's result",
				"the tasks computed by this calculateNextTasks call are not handed to handleInterrupt: their inputs have already been taken out of the channels, so they are neither started nor saved — the resumed run fails with 'no tasks to execute' (only when a parallel node was still in flight, i.e. depending on completion order)")
		}
	}
	if n < 2 {
		undecidedf("%s: %d (calculateNextTasks, handleInterrupt) pairs in run (floor 2)", rule, n)
	}
}

// pollAllCheck: getFromReadyChannels asks every channel of the run in every round (a DAG channel can become
// ready without having been written to in that round: through a skip report).
func pollAllCheck(w *World, r *Report, rule string) {
	gfr := w.Fn("compose", "channelManager.getFromReadyChannels")
	fCh := w.Field("compose", "channelManager", "channels")
	var rng *ssa.Range
	instrs(gfr, func(in ssa.Instruction) {
		if rg, ok := in.(*ssa.Range); ok && isLoadOfField(rg.X, fCh) {
			rng = rg
		}
	})
	var getCall ssa.CallInstruction
	instrs(gfr, func(in ssa.Instruction) {
		if invokeName(in) == "get" {
			getCall = in.(ssa.CallInstruction)
		}
	})
	if rng == nil || getCall == nil {
		r.Fail(rule, "getFromReadyChannels polls channelManager.channels", gfr.Pos(), "no range over c.channels with a get call")
	} else {
		// from the loop body's entry, no path reaches the next iteration or a return without calling get
		inner := 0
		var next *ssa.Next
		instrs(gfr, func(in ssa.Instruction) {
			if n, ok := in.(*ssa.Next); ok && n.Iter == ssa.Value(rng) {
				next = n
			}
		})
		if next == nil {
			undecidedf(rule + ": range over channels has no Next")
		}
		body := next.Block().Succs[0]
		if skip, _ := pathFromBlock(pathQuery{fn: gfr, goal: func(in ssa.Instruction) bool { return in == ssa.Instruction(next) || isReturn(in) },
			avoid: func(in ssa.Instruction) bool { return in == ssa.Instruction(getCall) }}, body); skip {
			inner = 1
		}
		// the channel polled is the range's value
		fromRange := false
		if e, ok := getCall.Common().Value.(*ssa.Extract); ok {
			if n, ok := e.Tuple.(*ssa.Next); ok && n.Iter == ssa.Value(rng) {
				fromRange = true
			}
		}
		r.Check(inner == 0 && fromRange, rule, "getFromReadyChannels polls every channel", getCall.Pos(), "get is called for every entry of c.channels without a filter", "some channels are not polled in a round (a node that became ready through a skip report is never scheduled, depending on completion order)")
	}

}

// isInterruptLike: the returned error value is one of the interrupt error objects built by the handlers (a successful
// interrupt is a "continuation" for the purposes of completeness: the checkpoint has been written).
func isInterruptLike(v ssa.Value) bool {
	mi, ok := v.(*ssa.MakeInterface)
	if !ok {
		return false
	}
	n := namedOf(deref(mi.X.Type()))
	return n != nil && (n.Obj().Name() == "interruptError" || n.Obj().Name() == "subGraphInterruptError")
}
